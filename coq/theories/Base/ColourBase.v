(* C18 - shared vocabulary for the colour-specification model.
   Definitions only (no proofs): the generated file Gen/colours_gen.v and Model/Colours.v build on it.

   LEXICAL ABSTRACTION.  The string lexing done by urwid/display/common.py (startswith, len,
   int(.., 10/16), slicing, split(","), strip, f-strings) stays outside the model.  A colour
   description string is represented by its lexical class plus the integer it carries:

     "" / "default"            DDefault
     _BASIC_COLORS[n]          DBasic n
     "h" + decimal (len<=4)    DH n          n = int(desc[1:], 10)
     "#" + 3 hex chars         DCube rgb     rgb = int(desc[1:], 16)    (may be negative: "#-01")
     "g" + decimal (len<=4)    DGrayDec n    n = int(desc[1:], 10)
     "g#" + hex (len<=4)       DGrayHex n    n = int(desc[2:], 16)
     "#" + 6 hex chars         DTrue n       n = int(desc[1:], 16)
     anything else             DBad          (int() raised ValueError, no prefix matched, too long)

   The harness (harness/props/c18.py) performs this mapping on the strings it feeds to the real
   AttrSpec and the inverse mapping on the model's answers; both directions are compared
   exhaustively with the implementation.  The predicates below are what the py2v module
   tools/py2v/mods/colours.py substitutes for the corresponding Python string expressions. *)
From Coq Require Import ZArith List Bool.
Import ListNotations.
From Urwid Require Import PyBase PyList.
Open Scope Z_scope.

Inductive desc :=
  | DDefault | DBasic (n : Z) | DH (n : Z) | DCube (rgb : Z)
  | DGrayDec (n : Z) | DGrayHex (n : Z) | DTrue (n : Z) | DBad.

Inductive setting := SBold | SItalics | SUnderline | SBlink | SStandout | SStrike.

(* len(desc) > 4  /  len(desc) == 7  /  desc.startswith("#") and len(desc) == 7 *)
Definition s_len_gt4 (d : desc) : bool := match d with DTrue _ => true | _ => false end.
Definition s_len7 (d : desc) : bool := match d with DTrue _ => true | _ => false end.
Definition s_is_hash7 (d : desc) : bool := match d with DTrue _ => true | _ => false end.
(* desc.startswith("h") *)
Definition s_is_h (d : desc) : bool := match d with DH _ => true | _ => false end.
(* desc.startswith("#") and len(desc) == 4   /   len(desc) == 4 once startswith("#") is known *)
Definition s_is_hash4 (d : desc) : bool := match d with DCube _ => true | _ => false end.
(* desc.startswith("#") *)
Definition s_is_hash (d : desc) : bool := match d with DCube _ | DTrue _ => true | _ => false end.
(* desc.startswith("g#") ; desc.startswith("g") (tested only after "g#" failed) *)
Definition s_is_ghash (d : desc) : bool := match d with DGrayHex _ => true | _ => false end.
Definition s_is_g (d : desc) : bool := match d with DGrayDec _ => true | _ => false end.
(* int(desc[k:], base) on the class that the preceding test selected *)
Definition s_int (d : desc) : Z :=
  match d with
  | DBasic n | DH n | DCube n | DGrayDec n | DGrayHex n | DTrue n => n
  | DDefault | DBad => 0
  end.

(* the high nibble of each of the three bytes of a well-formed "#rrggbb":
   desc[0:2] + desc[3] + desc[5]   and   "#" + "".join(format(int(x,16)//16,"x") for x in (..)) *)
Definition hi_nibbles (n : Z) : Z :=
  (n / 1048576) * 256 + ((n / 4096) mod 16) * 16 + ((n / 16) mod 16).
Definition s_collapse7 (d : desc) : desc :=
  match d with
  | DTrue n => if (0 <=? n) && (n <? 16777216) then DCube (hi_nibbles n) else DBad
  | _ => d
  end.
Definition s_hi_nibbles (d : desc) : desc :=
  match d with
  | DTrue n => if (0 <=? n) && (n <? 16777216) then DCube (hi_nibbles n) else DBad
  | _ => DBad
  end.
(* int(f"0x{desc[1]}0{desc[2]}0{desc[3]}", 16) *)
Definition s_expand4 (d : desc) : Z :=
  match d with
  | DCube rgb => (rgb / 256) * 65536 + ((rgb / 16) mod 16) * 256 + (rgb mod 16)
  | _ => 0
  end.

(* f-strings of the describers *)
Definition f_h (n : Z) : desc := DH n.                         (* f"h{num:d}" *)
Definition f_g (n : Z) : desc := DGrayDec n.                   (* f"g{n:d}" *)
Definition f_true (n : Z) : desc := DTrue n.                   (* f"#{num:06x}" *)
Definition hex1 (a : Z) : bool := (0 <=? a) && (a <? 16).
Definition f_cube3 (a b c : Z) : desc :=                       (* f"#{a:x}{b:x}{c:x}" *)
  if hex1 a && hex1 b && hex1 c then DCube (a * 256 + b * 16 + c) else DBad.

(* outcome of the constructor: the exception class and, for AttrSpecError, which raise statement:
   1 setting specified more than once, 2 unrecognised colour in foreground, 3 more than one colour,
   4 unrecognised colour in background, 5 requires more colours than specified, 6 invalid number of
   colours; 0 = an exception that escaped from a lower-level function *)
Inductive res (A : Type) := ROk (a : A) | RErr (e : errkind) (why : Z).
Arguments ROk {A} a.
Arguments RErr {A} e why.
Definition lift {A} (r : result A) : res A := match r with Ok a => ROk a | Err e => RErr e 0 end.
Definition rbind {A B} (r : res A) (f : A -> res B) : res B :=
  match r with ROk a => f a | RErr e w => RErr e w end.

Definition b2z (b : bool) : Z := if b then 1 else 0.
(* a table entry (r, g, b) as three components of get_rgb_values *)
Definition opt3 (t : Z * Z * Z) : list (option Z) := let '(r, g, b) := t in [Some r; Some g; Some b].

(* total list helpers used by the import-time table computations *)
Definition nth_d (l : list Z) (i : Z) : Z := match nthz l i with Some v => v | None => 0 end.
Definition repeat_z (x : Z) (n : Z) : list Z := repeat x (Z.to_nat n).
