(* UTF-8 as executable Gallina (C11).  Definitions only; proofs are in Proofs/Utf8Proofs.v.
   [utf8_encode] is str.encode("utf-8") for one code point, [strict_decode] is CPython's strict
   bytes.decode("utf-8") (shortest form only, no surrogates, at most U+10FFFF).  Both are
   validated against CPython by harness/props/c11.py. *)
From Coq Require Import ZArith List Bool Lia.
Import ListNotations.
From Urwid Require Import PyBase.
Open Scope Z_scope.

Definition utf8_encode (c : Z) : list Z :=
  if c <? 128 then [c]
  else if c <? 2048 then [192 + c / 64; 128 + c mod 64]
  else if c <? 65536 then [224 + c / 4096; 128 + (c / 64) mod 64; 128 + c mod 64]
  else [240 + c / 262144; 128 + (c / 4096) mod 64; 128 + (c / 64) mod 64; 128 + c mod 64].

Definition encs (s : list Z) : list Z := flat_map utf8_encode s.

(* a code point that str.encode("utf-8") accepts *)
Definition scalar (c : Z) : bool :=
  (0 <=? c) && (c <? 1114112) && negb ((55296 <=? c) && (c <? 57344)).

Definition utf8_encode_str (s : list Z) : result (list Z) :=
  if forallb scalar s then Ok (encs s) else Err OtherError.      (* UnicodeEncodeError *)

(* byte offset of character index k *)
Definition boff (s : list Z) (k : Z) : Z := zlen (encs (takez k s)).

Definition is_cont (b : Z) : bool := (128 <=? b) && (b <? 192).

(* CPython's strict decoder: None = UnicodeDecodeError *)
Fixpoint strict_decode (l : list Z) : option (list Z) :=
  match l with
  | [] => Some []
  | b1 :: r =>
    if (0 <=? b1) && (b1 <? 128) then
      match strict_decode r with Some cs => Some (b1 :: cs) | None => None end
    else if (194 <=? b1) && (b1 <? 224) then
      match r with
      | b2 :: r2 =>
          if is_cont b2 then
            match strict_decode r2 with
            | Some cs => Some (((b1 - 192) * 64 + (b2 - 128)) :: cs) | None => None end
          else None
      | _ => None
      end
    else if (224 <=? b1) && (b1 <? 240) then
      match r with
      | b2 :: b3 :: r3 =>
          let lo2 := if b1 =? 224 then 160 else 128 in
          let hi2 := if b1 =? 237 then 160 else 192 in
          if (lo2 <=? b2) && (b2 <? hi2) && is_cont b3 then
            match strict_decode r3 with
            | Some cs => Some (((b1 - 224) * 4096 + (b2 - 128) * 64 + (b3 - 128)) :: cs) | None => None end
          else None
      | _ => None
      end
    else if (240 <=? b1) && (b1 <? 245) then
      match r with
      | b2 :: b3 :: b4 :: r4 =>
          let lo2 := if b1 =? 240 then 144 else 128 in
          let hi2 := if b1 =? 244 then 144 else 192 in
          if (lo2 <=? b2) && (b2 <? hi2) && is_cont b3 && is_cont b4 then
            match strict_decode r4 with
            | Some cs => Some (((b1 - 240) * 262144 + (b2 - 128) * 4096 + (b3 - 128) * 64 + (b4 - 128)) :: cs)
            | None => None end
          else None
      | _ => None
      end
    else None
  end.
