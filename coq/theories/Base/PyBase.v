(* Shared basics: Python-style results, Z-indexed list helpers, wire decoding helpers. *)
From Coq Require Import ZArith List Bool Lia.
Import ListNotations.
Open Scope Z_scope.

Inductive errkind :=
  | IndexError | ValueError | TypeError | WidgetError | CanvasError | ListBoxError
  | AttrSpecError | KeyErrorK | RuntimeErrorK | OtherError.

Definition errcode (e : errkind) : Z :=
  match e with
  | IndexError => 1 | ValueError => 2 | TypeError => 3 | WidgetError => 4
  | CanvasError => 5 | ListBoxError => 6 | AttrSpecError => 7 | KeyErrorK => 8
  | RuntimeErrorK => 9 | OtherError => 10
  end.

Inductive result (A : Type) := Ok (a : A) | Err (e : errkind).
Arguments Ok {A} a.
Arguments Err {A} e.

Definition bind {A B} (r : result A) (f : A -> result B) : result B :=
  match r with Ok a => f a | Err e => Err e end.

Definition oz := option Z.

Definition zlen {A} (l : list A) : Z := Z.of_nat (length l).
Definition takez {A} (n : Z) (l : list A) : list A := firstn (Z.to_nat n) l.
Definition dropz {A} (n : Z) (l : list A) : list A := skipn (Z.to_nat n) l.
Definition nthz {A} (l : list A) (i : Z) : option A :=
  if i <? 0 then None else nth_error l (Z.to_nat i).

Lemma zlen_nonneg {A} (l : list A) : 0 <= zlen l.
Proof. unfold zlen; lia. Qed.

Lemma zlen_app {A} (a b : list A) : zlen (a ++ b) = zlen a + zlen b.
Proof. unfold zlen; rewrite app_length; lia. Qed.

Lemma zlen_cons {A} (x : A) l : zlen (x :: l) = 1 + zlen l.
Proof. unfold zlen; cbn [length]; lia. Qed.

Lemma zlen_nil {A} : zlen (@nil A) = 0.
Proof. reflexivity. Qed.

Lemma zlen_takez {A} n (l : list A) : 0 <= n -> zlen (takez n l) = Z.min n (zlen l).
Proof. intros; unfold zlen, takez; rewrite firstn_length; lia. Qed.

Lemma zlen_dropz {A} n (l : list A) : 0 <= n -> zlen (dropz n l) = Z.max 0 (zlen l - n).
Proof. intros; unfold zlen, dropz; rewrite skipn_length; lia. Qed.

Lemma zlen_rev {A} (l : list A) : zlen (rev l) = zlen l.
Proof. unfold zlen; now rewrite rev_length. Qed.

Lemma zlen_zero_nil {A} (l : list A) : zlen l = 0 -> l = [].
Proof. destruct l; [reflexivity|]; rewrite zlen_cons; pose proof (zlen_nonneg l); lia. Qed.

(* wire helpers: a flat list of Z is the exchange format with the harness *)
Definition enc_oz (o : oz) : list Z := match o with None => [0] | Some v => [1; v] end.
Definition dec_oz (l : list Z) : option (oz * list Z) :=
  match l with
  | 0 :: r => Some (None, r)
  | 1 :: v :: r => Some (Some v, r)
  | _ => None
  end.
Definition dec_list (l : list Z) : option (list Z * list Z) :=
  match l with
  | n :: r => if (n <? 0) || (zlen r <? n) then None else Some (takez n r, dropz n r)
  | [] => None
  end.
Definition enc_list (l : list Z) : list Z := zlen l :: l.
Definition enc_bool (b : bool) : Z := if b then 1 else 0.
