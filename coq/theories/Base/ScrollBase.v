(* C20 shared vocabulary used by the GENERATED file Gen/scrollable_gen.v and by Model/Scrollable.v:
   the pending scroll action of urwid.widget.scrollable.Scrollable (module constants SCROLL_*,
   [ANone] = Python None) and optional cursor coordinates (canvas.cursor / get_cursor_coords). *)
From Coq Require Import ZArith List Bool.
Import ListNotations.
Open Scope Z_scope.

Inductive scroll_action :=
  | ANone | ALineUp | ALineDown | APageUp | APageDown | AToTop | AToEnd.

Definition coords := option (Z * Z).          (* (col, row) or None *)

(* Python tuple/None equality  a == b  on optional coordinate pairs *)
Definition coords_eqb (a b : coords) : bool :=
  match a, b with
  | None, None => true
  | Some (c1, r1), Some (c2, r2) => (c1 =? c2) && (r1 =? r2)
  | _, _ => false
  end.

(* [_c, r = canv.cursor]: unpacking; only reached under a Python test [canv.cursor is not None]
   (the default is never used on that path) *)
Definition coords_get (a : coords) : Z * Z :=
  match a with Some p => p | None => (0, 0) end.

Definition action_code (a : scroll_action) : Z :=
  match a with
  | ANone => 0 | ALineUp => 1 | ALineDown => 2 | APageUp => 3 | APageDown => 4 | AToTop => 5 | AToEnd => 6
  end.
