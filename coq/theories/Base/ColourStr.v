(* C18 - Python strings as lists of code points, and the CPython primitives that the colour lexing
   of urwid/display/common.py uses: str.split(","), str.strip(), str.startswith, slicing, ==,
   int(str, 10 / 16), format(n, "d" / "x" / "06x").   Definitions only (no proofs).

   int(s, base) follows CPython 3.12 (Objects/longobject.c: PyLong_FromUnicodeObject ->
   _PyUnicode_TransformDecimalAndSpaceToASCII -> PyLong_FromString):
     * every non-ASCII Unicode white space becomes ' ', every non-ASCII Unicode decimal digit (category
       Nd) its ASCII digit, any other non-ASCII character (and DEL) is an error;
     * then: ASCII white space (Py_ISSPACE: \t \n \v \f \r ' '), an optional sign, for base 16 an
       optional "0x"/"0X" that may be followed by one '_', no leading '_', digits of the base with
       single '_' between digits (not doubled, not trailing), at least one digit, ASCII white space,
       end of string.  A NUL or any other character ends the number and is therefore an error.
   The two Unicode tables (white space, zero digits of the Nd blocks, Unicode 15.0) are compared with
   the running interpreter for every code point on every run (harness/props/c18.py, op "cps"). *)
From Coq Require Import ZArith List Bool.
Import ListNotations.
From Urwid Require Import PyBase ColourBase.
Open Scope Z_scope.

Definition str := list Z.

(* ---------------- character classes ---------------- *)
(* Py_ISSPACE *)
Definition ascii_space (c : Z) : bool := ((9 <=? c) && (c <=? 13)) || (c =? 32).
(* the non-ASCII members of Py_UNICODE_ISSPACE *)
Definition uni_space_hi (c : Z) : bool :=
  (c =? 133) || (c =? 160) || (c =? 5760) || ((8192 <=? c) && (c <=? 8202)) || (c =? 8232) || (c =? 8233)
  || (c =? 8239) || (c =? 8287) || (c =? 12288).
(* str.isspace() of one character = what str.strip() removes *)
Definition uni_isspace (c : Z) : bool := ascii_space c || ((28 <=? c) && (c <=? 31)) || uni_space_hi c.

(* code point of the digit zero of every block of ten Unicode decimal digits (category Nd) *)
Definition nd_zeros : list Z :=
  [48; 1632; 1776; 1984; 2406; 2534; 2662; 2790; 2918; 3046; 3174; 3302; 3430; 3558; 3664; 3792; 3872; 4160;
   4240; 6112; 6160; 6470; 6608; 6784; 6800; 6992; 7088; 7232; 7248; 42528; 43216; 43264; 43472; 43504; 43600;
   44016; 65296; 66720; 68912; 69734; 69872; 69942; 70096; 70384; 70736; 70864; 71248; 71360; 71472; 71904;
   72016; 72784; 73040; 73120; 73552; 92768; 92864; 93008; 120782; 120792; 120802; 120812; 120822; 123200;
   123632; 124144; 125264; 130032].
(* Py_UNICODE_TODECIMAL *)
Fixpoint decimal_in (zs : list Z) (c : Z) : option Z :=
  match zs with
  | [] => None
  | z :: r => if (z <=? c) && (c <? z + 10) then Some (c - z) else decimal_in r c
  end.
Definition uni_decimal (c : Z) : option Z := decimal_in nd_zeros c.

(* _PyUnicode_TransformDecimalAndSpaceToASCII, one character; 63 = '?' *)
Definition to_ascii (c : Z) : Z :=
  if c <? 127 then c
  else if uni_isspace c then 32
  else match uni_decimal c with Some d => 48 + d | None => 63 end.

(* _PyLong_DigitValue *)
Definition digit_val (c : Z) : Z :=
  if (48 <=? c) && (c <=? 57) then c - 48
  else if (97 <=? c) && (c <=? 122) then c - 87
  else if (65 <=? c) && (c <=? 90) then c - 55
  else 37.

Fixpoint skip_space (l : str) : str :=
  match l with c :: r => if ascii_space c then skip_space r else l | [] => [] end.

(* the digit loop of long_from_binary_base / long_from_non_binary_base:
   Some (value, number of digits, rest) or None for a doubled / trailing underscore *)
Fixpoint scan_digits (base : Z) (l : str) (prev_us : bool) (ndig acc : Z) : option (Z * Z * str) :=
  match l with
  | c :: r =>
      if c =? 95 then (if prev_us then None else scan_digits base r true ndig acc)
      else if digit_val c <? base then scan_digits base r false (ndig + 1) (acc * base + digit_val c)
      else if prev_us then None else Some (acc, ndig, l)
  | [] => if prev_us then None else Some (acc, ndig, [])
  end.

(* optional sign *)
Definition after_sign (l1 : str) : bool * str :=
  match l1 with
  | c :: r => if c =? 43 then (false, r) else if c =? 45 then (true, r) else (false, l1)
  | [] => (false, [])
  end.
(* base 16: optional "0x" / "0X", then one optional '_' *)
Definition after_prefix (base : Z) (l2 : str) : str :=
  if base =? 16 then
    match l2 with
    | c :: x :: r =>
        if (c =? 48) && ((x =? 120) || (x =? 88))
        then match r with y :: r' => if y =? 95 then r' else r | [] => r end
        else l2
    | _ => l2
    end
  else l2.
(* no leading '_', the digits, at least one digit, trailing white space, end *)
Definition finish_int (base : Z) (neg : bool) (l3 : str) : option Z :=
  if match l3 with c :: _ => c =? 95 | [] => false end then None
  else
    match scan_digits base l3 false 0 0 with
    | None => None
    | Some (v, nd, rest) =>
        if nd =? 0 then None
        else match skip_space rest with [] => Some (if neg then - v else v) | _ => None end
    end.

(* int(s, base) for base 10 and 16; None = ValueError *)
Definition py_int (base : Z) (s : str) : option Z :=
  let sg := after_sign (skip_space (map to_ascii s)) in
  finish_int base (fst sg) (after_prefix base (snd sg)).

(* ---------------- string operations ---------------- *)
Fixpoint str_eqb (a b : str) : bool :=
  match a, b with
  | [], [] => true
  | x :: a', y :: b' => (x =? y) && str_eqb a' b'
  | _, _ => false
  end.
Fixpoint startswith (s p : str) : bool :=
  match p, s with
  | [], _ => true
  | y :: p', x :: s' => (x =? y) && startswith s' p'
  | _ :: _, [] => false
  end.
(* s.split(sep) for a one-character separator *)
Fixpoint split_on (sep : Z) (s : str) : list str :=
  match s with
  | [] => [[]]
  | x :: r =>
      if x =? sep then [] :: split_on sep r
      else match split_on sep r with h :: t => (x :: h) :: t | [] => [[x]] end
  end.
Fixpoint lstrip (s : str) : str :=
  match s with c :: r => if uni_isspace c then lstrip r else s | [] => [] end.
Definition strip (s : str) : str := rev (lstrip (rev (lstrip s))).
(* s[a:b], s[a:] and s[i] (as a string of length one) for constant 0 <= a <= b *)
Definition str_slice (s : str) (a b : Z) : str := takez (b - a) (dropz a s).
Definition str_from (s : str) (a : Z) : str := dropz a s.
Definition str_at (s : str) (i : Z) : str := takez 1 (dropz i s).
(* l.index(s) / s in l *)
Fixpoint index_from (i : Z) (l : list str) (s : str) : option Z :=
  match l with [] => None | x :: r => if str_eqb x s then Some i else index_from (i + 1) r s end.
Definition str_index (l : list str) (s : str) : option Z := index_from 0 l s.

(* ---------------- formatting ---------------- *)
Definition digit_char (d : Z) : Z := if d <? 10 then 48 + d else 87 + d.
Fixpoint digits_fuel (fuel : nat) (base n : Z) (acc : str) : str :=
  match fuel with
  | O => acc
  | S f => if n <? base then digit_char n :: acc
           else digits_fuel f base (n / base) (digit_char (n mod base) :: acc)
  end.
Definition digits_of (base n : Z) : str := digits_fuel (S (Z.to_nat (Z.log2 n))) base n [].
(* format(n, "d") and format(n, "x") *)
Definition fmt_base (base n : Z) : str :=
  if n <? 0 then 45 :: digits_of base (- n) else digits_of base n.
Definition fmt_d (n : Z) : str := fmt_base 10 n.
Definition fmt_x (n : Z) : str := fmt_base 16 n.
(* format(n, "0Wx"): sign-aware zero padding to width W *)
Definition zero_pad (w : Z) (ds : str) : str := repeat 48 (Z.to_nat (w - zlen ds)) ++ ds.
Definition fmt_x_pad (w n : Z) : str :=
  if n <? 0 then 45 :: zero_pad (w - 1) (digits_of 16 (- n)) else zero_pad w (digits_of 16 n).

(* `p in d` / `d[p]` for the dictionary of setting names; s * b for a bool b *)
Fixpoint find_setting (l : list (str * setting)) (p : str) : option setting :=
  match l with [] => None | (n, s) :: r => if str_eqb n p then Some s else find_setting r p end.

Definition times (s : str) (b : bool) : str := if b then s else [].
