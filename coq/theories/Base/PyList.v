(* CPython list semantics (the part MonitoredList relies on) as total functions.
   No proofs here: this file must keep compiling when a proof elsewhere breaks.
   Validated against the built-in list by harness/props/c16.py (exhaustive small scope). *)
From Coq Require Import ZArith List Bool Lia.
Import ListNotations.
From Urwid Require Import PyBase.
Open Scope Z_scope.

(* PySlice_Unpack + PySlice_AdjustIndices; the caller excludes step = 0 *)
Definition slice_indices (len : Z) (start stop step : oz) : Z * Z * Z :=
  let st := match step with None => 1 | Some s => s end in
  let neg := st <? 0 in
  let adj (v : oz) (dflt_none : Z) :=
    match v with
    | None => dflt_none
    | Some v =>
        if v <? 0 then (let v' := v + len in if v' <? 0 then (if neg then -1 else 0) else v')
        else if len <=? v then (if neg then len - 1 else len) else v
    end in
  let s := adj start (if neg then len - 1 else 0) in
  let e := adj stop (if neg then -1 else len) in
  (s, e, st).

Definition step_is_zero (step : oz) : bool :=
  match step with Some 0 => true | _ => false end.

(* len(range(s, e, st)), st <> 0 *)
Definition range_len (s e st : Z) : Z :=
  if 0 <? st then (if s <? e then (e - s - 1) / st + 1 else 0)
  else (if e <? s then (s - e - 1) / (- st) + 1 else 0).

(* x in range(s, e, st), st <> 0 *)
Definition in_range (x s e st : Z) : bool :=
  if 0 <? st then (s <=? x) && (x <? e) && ((x - s) mod st =? 0)
  else (e <? x) && (x <=? s) && ((s - x) mod (- st) =? 0).

Fixpoint range_list (s st : Z) (n : nat) : list Z :=
  match n with O => [] | S k => s :: range_list (s + st) st k end.
Definition zrange (s e st : Z) : list Z := range_list s st (Z.to_nat (range_len s e st)).

Section Poly.
Context {A : Type}.

Definition norm_index (len i : Z) : Z := if i <? 0 then i + len else i.
Definition index_ok (len j : Z) : bool := (0 <=? j) && (j <? len).

Definition get_index (l : list A) (i : Z) : result A :=
  match nthz l (norm_index (zlen l) i) with Some x => Ok x | None => Err IndexError end.

Definition del_index (l : list A) (i : Z) : result (list A) :=
  let j := norm_index (zlen l) i in
  if index_ok (zlen l) j then Ok (takez j l ++ dropz (j + 1) l) else Err IndexError.

Definition set_index (l : list A) (i : Z) (x : A) : result (list A) :=
  let j := norm_index (zlen l) i in
  if index_ok (zlen l) j then Ok (takez j l ++ x :: dropz (j + 1) l) else Err IndexError.

Definition insert_pos (len i : Z) : Z :=
  if i <? 0 then Z.max 0 (i + len) else Z.min i len.
Definition insert (l : list A) (i : Z) (x : A) : list A :=
  let j := insert_pos (zlen l) i in takez j l ++ x :: dropz j l.

Definition pop (l : list A) (i : Z) : result (A * list A) :=
  let j := norm_index (zlen l) i in
  if index_ok (zlen l) j then
    match nthz l j with
    | Some x => Ok (x, takez j l ++ dropz (j + 1) l)
    | None => Err IndexError
    end
  else Err IndexError.

(* keep the elements whose index (counted from i) is not in range(s,e,t) *)
Fixpoint drop_range (i s e t : Z) (l : list A) : list A :=
  match l with
  | [] => []
  | x :: r => if in_range i s e t then drop_range (i + 1) s e t r
              else x :: drop_range (i + 1) s e t r
  end.

Definition del_slice (l : list A) (a b st : oz) : result (list A) :=
  if step_is_zero st then Err ValueError else
  let '(s, e, t) := slice_indices (zlen l) a b st in
  if t =? 1 then Ok (takez s l ++ dropz (Z.max s e) l)
  else Ok (drop_range 0 s e t l).

(* position s + k*t receives xs[k] *)
Fixpoint put_range (i s e t : Z) (xs : list A) (l : list A) : list A :=
  match l with
  | [] => []
  | x :: r =>
      (if in_range i s e t then
         match nthz xs ((i - s) / t) with Some y => y | None => x end
       else x) :: put_range (i + 1) s e t xs r
  end.

Definition set_slice (l : list A) (a b st : oz) (xs : list A) : result (list A) :=
  if step_is_zero st then Err ValueError else
  let '(s, e, t) := slice_indices (zlen l) a b st in
  if t =? 1 then Ok (takez s l ++ xs ++ dropz (Z.max s e) l)
  else if zlen xs =? range_len s e t then Ok (put_range 0 s e t xs l)
  else Err ValueError.

Fixpoint repeat_list (n : nat) (l : list A) : list A :=
  match n with O => [] | S k => l ++ repeat_list k l end.
Definition imul (l : list A) (n : Z) : list A :=
  if n <=? 0 then [] else repeat_list (Z.to_nat n) l.

End Poly.

(* operations needing equality / order: instantiated on Z (item identities) *)
Fixpoint index_from (i : Z) (l : list Z) (x : Z) : option Z :=
  match l with
  | [] => None
  | y :: r => if y =? x then Some i else index_from (i + 1) r x
  end.
Definition index_of (l : list Z) (x : Z) : option Z := index_from 0 l x.

Definition remove_val (l : list Z) (x : Z) : result (list Z) :=
  match index_of l x with
  | Some j => Ok (takez j l ++ dropz (j + 1) l)
  | None => Err ValueError
  end.

Fixpoint insert_sorted (le : Z -> Z -> bool) (x : Z) (l : list Z) : list Z :=
  match l with
  | [] => [x]
  | y :: r => if le x y then x :: y :: r else y :: insert_sorted le x r
  end.
Definition sort_by (le : Z -> Z -> bool) (l : list Z) : list Z :=
  fold_right (insert_sorted le) [] l.
(* list.sort(reverse=rv) on distinct integers *)
Definition sort_list (rv : bool) (l : list Z) : list Z :=
  if rv then sort_by (fun a b => b <=? a) l else sort_by Z.leb l.
