From Urwid Require Import SelectLoop ZmqLoop AdapterLoop AdapterCheck.
From Coq Require Extraction ExtrOcamlBasic.
Extraction Language OCaml.
Extraction "model.ml" run_case.
