From Urwid Require Import MainLoop.
From Coq Require Extraction ExtrOcamlBasic.
Extraction Language OCaml.
Extraction "model.ml" run_case.
