From Urwid Require Import Scrollable.
From Coq Require Extraction ExtrOcamlBasic.
Extraction Language OCaml.
Extraction "model.ml" run_case.
