From Urwid Require Import Geometry GeometryX.
From Coq Require Extraction ExtrOcamlBasic.
Extraction Language OCaml.
Extraction "model.ml" GeometryX.run_case.
