From Urwid Require Import Geometry.
From Coq Require Extraction ExtrOcamlBasic.
Extraction Language OCaml.
Extraction "model.ml" run_case.
