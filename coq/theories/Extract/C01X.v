From Urwid Require Import WidgetDims.
From Coq Require Extraction ExtrOcamlBasic.
Extraction Language OCaml.
Extraction "model.ml" run_case.
