From Urwid Require Import Colours.
From Coq Require Extraction ExtrOcamlBasic.
Extraction Language OCaml.
Extraction "model.ml" run_case.
