From Urwid Require Import AttrFlowE2E.
From Coq Require Extraction ExtrOcamlBasic.
Extraction Language OCaml.
Extraction "model.ml" run_case.
