From Urwid Require Import AttrFlow.
From Coq Require Extraction ExtrOcamlBasic.
Extraction Language OCaml.
Extraction "model.ml" run_case.
