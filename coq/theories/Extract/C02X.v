From Urwid Require Import Canvas.
From Coq Require Extraction ExtrOcamlBasic.
Extraction Language OCaml.
Extraction "model.ml" run_case.
