From Urwid Require Import Canvas CanvasHeap CanvasBytes.
From Coq Require Extraction ExtrOcamlBasic.
Extraction Language OCaml.
Extraction "model.ml" CanvasBytes.run_case.
