From Urwid Require Import Canvas CanvasHeap.
From Coq Require Extraction ExtrOcamlBasic.
Extraction Language OCaml.
Extraction "model.ml" CanvasHeap.run_case.
