From Urwid Require Import ListBoxWalker.
From Coq Require Extraction ExtrOcamlBasic.
Extraction Language OCaml.
Extraction "model.ml" run_case.
