From Urwid Require Import ListBoxView.
From Coq Require Extraction ExtrOcamlBasic.
Extraction Language OCaml.
Extraction "model.ml" run_case.
