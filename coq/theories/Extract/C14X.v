From Urwid Require Import Signals.
From Coq Require Extraction ExtrOcamlBasic.
Extraction Language OCaml.
Extraction "model.ml" run_case.
