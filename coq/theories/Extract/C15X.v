From Urwid Require Import VTermRefine.
From Coq Require Extraction ExtrOcamlBasic.
Extraction Language OCaml.
Extraction "model.ml" run_case.
