From Urwid Require Import TermRef DrawScreen HtmlGen.
From Coq Require Extraction ExtrOcamlBasic.
Extraction Language OCaml.
Extraction "model.ml" run_case.
