From Urwid Require Import TermRef DrawScreen.
From Coq Require Extraction ExtrOcamlBasic.
Extraction Language OCaml.
Extraction "model.ml" run_case.
