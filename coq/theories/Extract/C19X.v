From Urwid Require Import Layout.
From Coq Require Extraction ExtrOcamlBasic.
Extraction Language OCaml.
Extraction "model.ml" run_case.
