From Urwid Require Import Cache.
From Coq Require Extraction ExtrOcamlBasic.
Extraction Language OCaml.
Extraction "model.ml" run_case.
