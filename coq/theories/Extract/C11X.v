From Urwid Require Import Width.
From Coq Require Extraction ExtrOcamlBasic.
Extraction Language OCaml.
Extraction "model.ml" run_case.
