From Urwid Require Import KeyInput.
From Coq Require Extraction ExtrOcamlBasic.
Extraction Language OCaml.
Extraction "model.ml" run_case.
