From Urwid Require Import Containers.
From Coq Require Extraction ExtrOcamlBasic.
Extraction Language OCaml.
Extraction "model.ml" run_case.
