From Urwid Require Import Edit EditBytes.
From Coq Require Extraction ExtrOcamlBasic.
Extraction Language OCaml.
Extraction "model.ml" EditBytes.run_case.
