From Urwid Require Import Edit.
From Coq Require Extraction ExtrOcamlBasic.
Extraction Language OCaml.
Extraction "model.ml" run_case.
