From Urwid Require Import TextLayoutModes.
From Coq Require Extraction ExtrOcamlBasic.
Extraction Language OCaml.
Extraction "model.ml" run_case.
