From Urwid Require Import TextLayout.
From Coq Require Extraction ExtrOcamlBasic.
Extraction Language OCaml.
Extraction "model.ml" run_case.
