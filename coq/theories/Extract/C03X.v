From Urwid Require Import TextLayoutBytes.
From Coq Require Extraction ExtrOcamlBasic.
Extraction Language OCaml.
Extraction "model.ml" run_case.
