From Urwid Require Import MonitoredList.
From Coq Require Extraction ExtrOcamlBasic.
Extraction Language OCaml.
Extraction "model.ml" run_case.
