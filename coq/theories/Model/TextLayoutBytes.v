(* Executable model of urwid/text_layout.py for BYTES text under the 'utf8' byte encoding
   (urwid.set_encoding("utf-8"), Text(b"...")).  Same structure as Model/TextLayout.v (whose segment
   type, alignment, pack and LayoutSegment checks are reused); every position query goes through the
   byte-mode functions of urwid/str_util.py: decode_one, calc_width, calc_text_pos, is_wide_char,
   move_prev_char, move_next_char, and util.calc_trim_text.  They are written out here (prefix u8_) so that
   this file - and the extracted model - depends on no generated file; Proofs/TextLayoutBytesEq.v proves
   them equal to the functions of C11's model of str_util in its utf8 mode, whose decode_one arithmetic and
   calc_trim_text are re-translated from the source on every run (Gen/str_util_gen.v).
   Offsets are byte offsets.  [wcw] is wcwidth.wcwidth.  No proofs here. *)
From Coq Require Import ZArith List Bool Lia.
Import ListNotations.
From Urwid Require Import PyBase PyList Utf8 TextLayout.
Open Scope Z_scope.

(* text[a:b] for integers a b (negative indices as in Python) *)
Definition u8_py_slice {A} (l : list A) (a b : Z) : list A :=
  let '(s, e, _) := slice_indices (zlen l) (Some a) (Some b) None in
  if s <? e then takez (e - s) (dropz s l) else [].

(* str_util.decode_one: the arithmetic after b1..b4 have been fetched *)
Definition u8_decode_one_arith (b1 b2 b3 b4 lt pos : Z) : Z * Z :=
  if (negb (negb ((Z.land b1 128) =? 0))) then (b1, (pos + 1))
  else let error_1 := (63, (pos + 1)) in
  if ((lt <? 2)) then error_1
  else if (((Z.land b1 224) =? 192)) then if ((negb ((Z.land b2 192) =? 128))) then error_1
  else let o_2 := (Z.lor (Z.shiftl (Z.land b1 31) 6) (Z.land b2 63)) in
  if ((128 <=? o_2)) then (o_2, (pos + 2))
  else error_1
  else if ((lt <? 3)) then error_1
  else if (((Z.land b1 240) =? 224)) then if ((negb ((Z.land b2 192) =? 128))) then error_1
  else if ((negb ((Z.land b3 192) =? 128))) then error_1
  else let o_3 := (Z.lor (Z.lor (Z.shiftl (Z.land b1 15) 12) (Z.shiftl (Z.land b2 63) 6)) (Z.land b3 63)) in
  if ((2048 <=? o_3)) then (o_3, (pos + 3))
  else error_1
  else if ((lt <? 4)) then error_1
  else if (((Z.land b1 248) =? 240)) then if ((negb ((Z.land b2 192) =? 128))) then error_1
  else if ((negb ((Z.land b3 192) =? 128))) then error_1
  else if ((negb ((Z.land b4 192) =? 128))) then error_1
  else let o_4 := (Z.lor (Z.lor (Z.lor (Z.shiftl (Z.land b1 7) 18) (Z.shiftl (Z.land b2 63) 12)) (Z.shiftl (Z.land b3 63) 6)) (Z.land b4 63)) in
  if ((65536 <=? o_4) && (o_4 <=? 1114111)) then (o_4, (pos + 4))
  else error_1
  else error_1.

(* str_util.decode_one for bytes: the try block fetches b1..b4 (any exception -> ValueError) *)
Definition u8_decode_one (text : list Z) (pos : Z) : result (Z * Z) :=
  let lt := zlen text - pos in
  match get_index text pos with
  | Err _ => Err ValueError
  | Ok b1 =>
    match (if 1 <? lt then get_index text (pos + 1) else Ok 0) with
    | Err _ => Err ValueError
    | Ok b2 =>
      match (if 2 <? lt then get_index text (pos + 2) else Ok 0) with
      | Err _ => Err ValueError
      | Ok b3 =>
        match (if 3 <? lt then get_index text (pos + 3) else Ok 0) with
        | Err _ => Err ValueError
        | Ok b4 => Ok (u8_decode_one_arith b1 b2 b3 b4 lt pos)
        end
      end
    end
  end.

(* move_prev_char, utf8: o = end_offs - 1; while text[o] & 0xC0 == 0x80: o -= 1 *)
Fixpoint u8_mpc_loop (text : list Z) (fuel : nat) (o : Z) : result Z :=
  match fuel with
  | O => Err RuntimeErrorK
  | S k =>
      match get_index text o with
      | Err e => Err e
      | Ok b => if Z.land b 192 =? 128 then u8_mpc_loop text k (o - 1) else Ok o
      end
  end.
Definition u8_move_prev_char (text : list Z) (start_offs end_offs : Z) : result Z :=
  if end_offs <=? start_offs then Err ValueError
  else u8_mpc_loop text (Z.to_nat (2 * zlen text + Z.abs end_offs + 3)) (end_offs - 1).

(* move_next_char, utf8: o = start_offs + 1; while o < end_offs and text[o] & 0xC0 == 0x80: o += 1 *)
Fixpoint u8_mnc_loop (text : list Z) (fuel : nat) (o end_offs : Z) : result Z :=
  if o <? end_offs then
    match fuel with
    | O => Err RuntimeErrorK
    | S k =>
        match get_index text o with
        | Err e => Err e
        | Ok b => if Z.land b 192 =? 128 then u8_mnc_loop text k (o + 1) end_offs else Ok o
        end
    end
  else Ok o.
Definition u8_move_next_char (text : list Z) (start_offs end_offs : Z) : result Z :=
  if end_offs <=? start_offs then Err ValueError
  else u8_mnc_loop text (Z.to_nat (end_offs - start_offs)) (start_offs + 1) end_offs.

Section BytesMode.
Variable wcw : Z -> Z.     (* wcwidth.wcwidth(chr(c)) *)

(* str_util.get_char_width / get_width *)
Definition u8_cw (c : Z) : Z := let w := wcw c in if 0 <=? w then w else 0.
Definition u8_get_width (o : Z) : result Z :=
  if (0 <=? o) && (o <? 1114112) then Ok (u8_cw o) else Err ValueError.
Fixpoint u8_wsum (l : list Z) : Z := match l with [] => 0 | c :: r => u8_cw c + u8_wsum r end.

(* calc_text_pos, _byte_encoding == "utf8": while i < end_offs *)
Fixpoint u8_ctp_loop (text : list Z) (fuel : nat) (i sc end_offs pref_col : Z) : result (Z * Z) :=
  if i <? end_offs then
    match fuel with
    | O => Err RuntimeErrorK
    | S k =>
        match u8_decode_one text i with
        | Err e => Err e
        | Ok (o, n) =>
            match u8_get_width o with
            | Err e => Err e
            | Ok w =>
                if pref_col <? w + sc then Ok (i, sc)
                else u8_ctp_loop text k n (sc + w) end_offs pref_col
            end
        end
    end
  else Ok (i, sc).
Definition u8_calc_text_pos (text : list Z) (start_offs end_offs pref_col : Z) : result (Z * Z) :=
  if end_offs <? start_offs then Err ValueError
  else u8_ctp_loop text (Z.to_nat (end_offs - start_offs)) start_offs 0 end_offs pref_col.

(* calc_width, utf8: the strict decode of the slice, else the decode_one walk *)
Fixpoint u8_cw_loop (text : list Z) (fuel : nat) (i sc end_offs : Z) : result Z :=
  if i <? end_offs then
    match fuel with
    | O => Err RuntimeErrorK
    | S k =>
        match u8_decode_one text i with
        | Err e => Err e
        | Ok (o, n) =>
            match u8_get_width o with
            | Err e => Err e
            | Ok w => u8_cw_loop text k n (sc + w) end_offs
            end
        end
    end
  else Ok sc.
Definition u8_calc_width (text : list Z) (start_offs end_offs : Z) : result Z :=
  if end_offs <? start_offs then Err ValueError
  else
    match strict_decode (u8_py_slice text start_offs end_offs) with
    | Some cs => Ok (u8_wsum cs)
    | None => u8_cw_loop text (Z.to_nat (end_offs - start_offs)) start_offs 0 end_offs
    end.

(* is_wide_char, utf8 *)
Definition u8_is_wide_char (text : list Z) (offs : Z) : result bool :=
  match u8_decode_one text offs with
  | Err e => Err e
  | Ok (o, _) => match u8_get_width o with Err e => Err e | Ok w => Ok (w =? 2) end
  end.

(* util.calc_trim_text *)
Definition u8_calc_trim_text (text : list Z) (start_offs end_offs start_col end_col : Z) : result (Z * Z * Z * Z) :=
  let spos_1 := start_offs in
  let pad_left_2 := 0 in
  let pad_right_3 := 0 in
  match (if ((0 <? start_col)) then match (u8_calc_text_pos text spos_1 end_offs start_col) with Err e_ => Err e_ | Ok (spos_4, sc_5) =>
  match (if ((sc_5 <? start_col)) then let pad_left_6 := 1 in
  match (u8_calc_text_pos text start_offs end_offs (start_col + 1)) with Err e_ => Err e_ | Ok (spos_7, sc_8) =>
  Ok (pad_left_6, spos_7) end else Ok (pad_left_2, spos_4)) with Err e_ => Err e_ | Ok (pad_left_9, spos_10) =>
  Ok (pad_left_9, spos_10) end end else Ok (pad_left_2, spos_1)) with Err e_ => Err e_ | Ok (pad_left_11, spos_12) =>
  let run_13 := ((end_col - start_col) - pad_left_11) in
  match (u8_calc_text_pos text spos_12 end_offs run_13) with Err e_ => Err e_ | Ok (pos_14, sc_15) =>
  match (if ((sc_15 <? run_13)) then let pad_right_16 := 1 in
  Ok pad_right_16 else Ok pad_right_3) with Err e_ => Err e_ | Ok pad_right_17 =>
  Ok (spos_12, pos_14, pad_left_11, pad_right_17) end end end.

Definition calc_width_b (t : list Z) (a b : Z) : lres Z := to_lres (u8_calc_width t a b).
Definition calc_text_pos_b (t : list Z) (a b pref : Z) : lres (Z * Z) := to_lres (u8_calc_text_pos t a b pref).
Definition calc_trim_text_b (t : list Z) (a b sc ec : Z) : lres (Z * Z * Z * Z) := to_lres (u8_calc_trim_text t a b sc ec).
Definition is_wide_b (t : list Z) (offs : Z) : lres bool := to_lres (u8_is_wide_char t offs).
Definition move_prev_b (t : list Z) (a b : Z) : lres Z := to_lres (u8_move_prev_char t a b).
Definition move_next_b (t : list Z) (a b : Z) : lres Z := to_lres (u8_move_next_char t a b).

(* _get_width(string, encoding): calc_width of string.encode(encoding) *)
Definition str_width_b (s : list Z) : Z :=
  match u8_calc_width (encs s) 0 (zlen (encs s)) with Ok w => w | Err _ => 0 end.

(* while width - 1 < ellipsis_width and ellipsis_string: ellipsis_string = ellipsis_string[:-1]
   (the STRING loses its last character; on the reversed list) *)
Fixpoint trim_ell_rev_b (width : Z) (r : list Z) : list Z :=
  match r with
  | [] => []
  | _ :: r' => if width - 1 <? str_width_b (rev r) then trim_ell_rev_b width r' else r
  end.
Definition trim_ell_b (width : Z) (ell : list Z) : list Z := rev (trim_ell_rev_b width (rev ell)).

(* ---------- _calculate_trimmed_segments; ell is the shortened ellipsis STRING ---------- *)
Definition step_trim_b (t : list Z) (width : Z) (wrap : wrapmode) (ell : list Z) (idx : Z) : lres (line * Z) :=
  let ew := str_width_b ell in
  let nl_pos := find_nl t idx in
  sc0 <- calc_width_b t idx nl_pos ;;
  '(trimmed, sc, end_off, pad_right) <-
     (if (match wrap with WEllipsis => true | _ => false end) && (width <? sc0) && negb (ew =? 0) then
        '(start_off, end_off, pad_left, pad_right) <- calc_trim_text_b t idx nl_pos 0 (width - ew) ;;
        if negb (pad_left =? 0) then LErr ValueError
        else if negb (start_off =? idx) then LErr ValueError
        else LOk (true, width - ew - pad_right, end_off, pad_right)
      else LOk (false, sc0, nl_pos, 0)) ;;
  LOk ((if sc =? 0 then [] else [SText sc idx end_off])
         ++ (if trimmed : bool then [SIns ew end_off (encs ell)] else [])
         ++ [SPad pad_right end_off],
       nl_pos + 1).

Fixpoint trim_loop_b (fuel : nat) (t : list Z) (width : Z) (wrap : wrapmode) (ell : list Z)
         (segs : list line) (idx : Z) : lres (list line) :=
  match fuel with
  | O => if idx <=? zlen t then LErr RuntimeErrorK else LOk (rev segs)
  | S k =>
      if idx <=? zlen t then
        '(ln, idx') <- step_trim_b t width wrap ell idx ;;
        trim_loop_b k t width wrap ell (ln :: segs) idx'
      else LOk (rev segs)
  end.

(* ---------- calculate_text_segments, wrap in {any, space} ---------- *)
(* prev = pos; while prev > idx: prev = move_prev_char(text, idx, prev); ... ; fuel = pos - idx bytes *)
Fixpoint scan_back_b (t : list Z) (idx : Z) (fuel : nat) (prev : Z) : scan_res :=
  if idx <? prev then
    match fuel with
    | O => ScanErr
    | S k =>
        match move_prev_b t idx prev with
        | LOk prev' =>
            match nthz t prev' with
            | None => ScanErr
            | Some c =>
                if c =? SP then ScanSpace prev'
                else match is_wide_b t prev' with
                     | LOk true => ScanWide prev'
                     | LOk false => scan_back_b t idx k prev'
                     | _ => ScanErr
                     end
            end
        | _ => ScanErr
        end
    end
  else ScanNone.

Definition step_wrap_b (t : list Z) (width : Z) (wrap : wrapmode) (segs : list line) (idx : Z)
  : lres (list line * Z) :=
  let nl_pos := find_nl t idx in
  sc0 <- calc_width_b t idx nl_pos ;;
  if sc0 =? 0 then LOk ([SPad 0 nl_pos] :: segs, nl_pos + 1)
  else if sc0 <=? width then LOk ([SText sc0 idx nl_pos; SPad 0 nl_pos] :: segs, nl_pos + 1)
  else
    '(pos, sc) <- calc_text_pos_b t idx nl_pos width ;;
    if pos =? idx then LCant
    else
      match wrap with
      | WAny => LOk ([SText sc idx pos] :: segs, pos)
      | WSpace =>
          c <- get t pos ;;
          if c =? SP then LOk ([SText sc idx pos; SPad 0 pos] :: segs, pos + 1)
          else
            wide <- is_wide_b t pos ;;
            if wide : bool then LOk ([SText sc idx pos] :: segs, pos)
            else
            match scan_back_b t idx (Z.to_nat (pos - idx)) pos with
            | ScanErr => LErr IndexError
            | ScanSpace prev =>
                sc' <- calc_width_b t idx prev ;;
                LOk ((if sc' =? 0 then [SPad 0 prev] else [SText sc' idx prev; SPad 0 prev]) :: segs,
                     prev + 1)
            | ScanWide prev =>
                next_char <- move_next_b t prev pos ;;
                sc' <- calc_width_b t idx next_char ;;
                LOk ([SText sc' idx next_char] :: segs, next_char)
            | ScanNone =>
                let force := LOk ([SText sc idx pos] :: segs, pos) in
                match unwrap_candidate segs with
                | UErr => LErr ValueError
                | UNone => force
                | UCand p_sc p_off h_sc h_off rest =>
                    if (p_sc <? width) && (h_sc =? 0) then
                      ch <- get t h_off ;;
                      if ch =? SP then
                        '(pos2, sc2) <- calc_text_pos_b t p_off nl_pos width ;;
                        if pos2 <? zlen t then
                          c2 <- get t pos2 ;;
                          if (c2 =? SP) || (c2 =? NL)
                          then LOk ([SText sc2 p_off pos2; SPad 0 pos2] :: rest, pos2 + 1)
                          else LOk ([SText sc2 p_off pos2] :: rest, pos2)
                        else LOk ([SText sc2 p_off pos2] :: rest, pos2)
                      else force
                    else force
                end
            end
      | _ => LErr ValueError
      end.

Fixpoint wrap_loop_b (fuel : nat) (t : list Z) (width : Z) (wrap : wrapmode)
         (segs : list line) (idx : Z) : lres (list line) :=
  match fuel with
  | O => if idx <=? zlen t then LErr RuntimeErrorK else LOk (rev segs)
  | S k =>
      if idx <=? zlen t then
        '(segs', idx') <- step_wrap_b t width wrap segs idx ;;
        wrap_loop_b k t width wrap segs' idx'
      else LOk (rev segs)
  end.

Definition calculate_text_segments_b (t : list Z) (width : Z) (wrap : wrapmode) (ell : list Z)
  : lres (list line) :=
  match wrap with
  | WClip | WEllipsis => trim_loop_b (Z.to_nat (zlen t + 2)) t width wrap (trim_ell_b width ell) [] 0
  | _ => wrap_loop_b (Z.to_nat (2 * zlen t + 3)) t width wrap [] 0
  end.

(* StandardTextLayout.layout (align_layout / line_width do not look at the text) *)
Definition layout_b (t : list Z) (width : Z) (align : alignmode) (wrap : wrapmode) (ell : list Z)
  : result (list line) :=
  match calculate_text_segments_b t width wrap ell with
  | LOk segs => Ok (align_layout width align segs)
  | LCant => Ok [[]]
  | LErr e => Err e
  end.

(* ---------- LayoutSegment.subseg, trim_line, apply_text_layout, TextCanvas ---------- *)
Definition subseg_b (t : list Z) (s : seg) (start end_ : Z) : lres line :=
  let sc := seg_sc s in
  let start := Z.max start 0 in
  let end_ := Z.min end_ sc in
  if end_ <=? start then LOk []
  else
    let as_pad := match s with
                  | SShift _ => LOk [SShift (end_ - start)]
                  | SText _ offs _ | SIns _ offs _ | SPad _ offs => LOk [SPad (end_ - start) offs]
                  end in
    match s with
    | SIns _ offs (_ :: _ as txt) =>
        '(spos, epos, pad_left, pad_right) <- calc_trim_text_b txt 0 (zlen txt) start end_ ;;
        LOk [SIns (end_ - start) offs (spaces pad_left ++ slice txt spos epos ++ spaces pad_right)]
    | SText _ offs e =>
        if e =? 0 then as_pad
        else
          '(spos, epos, pad_left, pad_right) <- calc_trim_text_b t offs e start end_ ;;
          LOk ((if pad_left =? 0 then [] else [SPad 1 (spos - 1)])
                 ++ (if end_ - start - pad_left - pad_right =? 0 then []
                     else [SText (end_ - start - pad_left - pad_right) spos epos])
                 ++ (if pad_right =? 0 then [] else [SPad 1 epos]))
    | _ => as_pad
    end.

Fixpoint trim_line_loop_b (t : list Z) (segs : line) (start end_ x : Z) (acc : line) : lres line :=
  match segs with
  | [] => LOk acc
  | s :: r =>
      let sc := seg_sc s in
      if negb (start =? 0) || (sc <? 0) then
        if sc <=? start then trim_line_loop_b t r (start - sc) end_ (x + sc) acc
        else if negb (seg_valid s) then LErr ValueError
        else if end_ <=? x + sc then subseg_b t s start (end_ - x)
        else
          sub <- subseg_b t s start sc ;;
          trim_line_loop_b t r 0 end_ (x + sc) (acc ++ sub)
      else if end_ <=? x then LOk acc
      else if end_ <? x + sc then
        if negb (seg_valid s) then LErr ValueError
        else sub <- subseg_b t s 0 (end_ - x) ;; LOk (acc ++ sub)
      else trim_line_loop_b t r start end_ x (acc ++ [s])
  end.

(* one row: trim_line, the segments (render_segs is the same function: byte slices), TextCanvas:
   widths.append(calc_width(t, 0, len(t))) on the row bytes, then padding to maxcol *)
Definition render_line_b (t : list Z) (maxcol : Z) (l : line) : lres (list Z) :=
  tl <- trim_line_loop_b t l 0 maxcol 0 [] ;;
  row <- render_segs t tl ;;
  w <- calc_width_b row 0 (zlen row) ;;
  if maxcol <? w then LErr CanvasError else LOk (row ++ spaces (maxcol - w)).

Fixpoint render_lines_b (t : list Z) (maxcol : Z) (ls : list line) : lres (list (list Z)) :=
  match ls with
  | [] => LOk []
  | l :: r => a <- render_line_b t maxcol l ;; b <- render_lines_b t maxcol r ;; LOk (a :: b)
  end.

Definition text_rows_b (t : list Z) (maxcol : Z) (align : alignmode) (wrap : wrapmode) (ell : list Z) : lres Z :=
  ls <- to_lres (layout_b t maxcol align wrap ell) ;; LOk (zlen ls).

Definition text_render_b (t : list Z) (maxcol : Z) (align : alignmode) (wrap : wrapmode) (ell : list Z)
  : lres (list (list Z)) :=
  ls <- to_lres (layout_b t maxcol align wrap ell) ;; render_lines_b t maxcol ls.

Definition text_pack_b (t : list Z) (maxcol : Z) (align : alignmode) (wrap : wrapmode) (ell : list Z)
  : lres (Z * Z) :=
  ls <- to_lres (layout_b t maxcol align wrap ell) ;;
  cols <- to_lres (layout_pack maxcol ls) ;;
  LOk (cols, zlen ls).

(* Text.pack(()): text = text.decode(get_encoding()), then the str computation *)
Definition text_pack_fixed_b (t : list Z) : lres (Z * Z) :=
  match strict_decode t with
  | Some s => LOk (text_pack_fixed u8_cw s)
  | None => LErr OtherError                       (* UnicodeDecodeError *)
  end.

End BytesMode.

(* ---------- wire format: the first integer selects the model ----------
   0 :: case  -> Model/TextLayout.run_case_str (str text)
   1 :: case  -> bytes text under utf8; case = wrap align width ntable (cp wcwidth)* nbytes byte* nell cp*
                 (the table gives wcwidth.wcwidth for every code point of the text, of '?', space and the ellipsis) *)
Definition run_case_b (l : list Z) : list Z :=
  match l with
  | w :: a :: width :: nt :: r =>
      if nt <? 0 then [-1] else
      match dec_pairs (Z.to_nat nt) r with
      | Some (tbl, r) =>
          match dec_list r with
          | Some (t, r) =>
              match dec_list r with
              | Some (ell, _) =>
                  let wcw := lookup tbl in
                  let wrap := dec_wrap w in
                  let align := dec_align a in
                  enc_lres (fun ls => zlen ls :: flat_map enc_line ls) (to_lres (layout_b wcw t width align wrap ell))
                  ++ enc_lres (fun n => [n]) (text_rows_b wcw t width align wrap ell)
                  ++ enc_lres (fun p => [fst p; snd p]) (text_pack_b wcw t width align wrap ell)
                  ++ enc_lres (fun p => [fst p; snd p]) (text_pack_fixed_b wcw t)
                  ++ enc_lres (fun rows => zlen rows :: flat_map enc_list rows) (text_render_b wcw t width align wrap ell)
                  ++ (match text_pack_fixed_b wcw t with
                      | LOk p =>
                          enc_lres (fun n => [n]) (text_rows_b wcw t (fst p) align wrap ell)
                          ++ enc_lres (fun rows => zlen rows :: flat_map enc_list rows) (text_render_b wcw t (fst p) align wrap ell)
                      | _ => [0; 10; 0; 10]
                      end)
              | None => [-1]
              end
          | None => [-1]
          end
      | None => [-1]
      end
  | _ => [-1]
  end.

Definition run_case_u8 (l : list Z) : list Z :=
  match l with
  | 0 :: r => run_case_str r
  | 1 :: r => run_case_b r
  | _ => [-1]
  end.
