(* C07 - a ListBox over a SimpleFocusListWalker: the list box model (Model/ListBoxView.v) joined
   with the MonitoredFocusList model of C16 (Model/MonitoredList.v, imported read-only; its focus
   arithmetic adjust_focus_gen is regenerated from monitored_list.py on every run).
   Walker edits (insert, del, slice assignment/deletion, *=, +=, reverse, sort, ...) are executed by
   the C16 model on the widget identities, so the focus after an edit is COMPUTED here and not taken
   from the implementation.  No proofs in this file. *)
From Coq Require Import ZArith List Bool Lia.
Import ListNotations.
From Urwid Require Import PyBase ListBoxView.
From Urwid Require MonitoredList.
Open Scope Z_scope.

(* the widgets by identity *)
Definition wtable := list (Z * item).
Definition no_widget : item := {| i_rows := 0; i_sel := false; i_cy := None |}.
Fixpoint lookup (tab : wtable) (id : Z) : item :=
  match tab with
  | [] => no_widget
  | (k, w) :: r => if k =? id then w else lookup r id
  end.

Record wstate := { w_lb : lb; w_ids : list Z; w_tab : wtable }.

(* the MonitoredFocusList behind the walker: the identities and the raw focus (0 when empty) *)
Definition mfl_of (ws : wstate) : MonitoredList.state :=
  MonitoredList.St (w_ids ws) (match w_ids ws with [] => 0 | _ => focus (w_lb ws) end).

(* focus position reported by the walker: -1 stands for "no focus" (empty list) *)
Definition focus_out (ms : MonitoredList.state) : Z :=
  match MonitoredList.focus ms with Some f => f | None => -1 end.

Inductive wop :=
  | WLb (o : op)                                              (* an operation on the list box *)
  | WEdit (new : wtable) (o : MonitoredList.op)               (* an edit of the walker, with the new widgets *)
  | WReflow (new : wtable).                                   (* the widgets change their rows in place *)

Inductive woutcome := WOut (o : outcome) | WEdited (e : option errkind).

(* a walker edit: C16's step on the identities; the list box keeps its view state *)
Definition w_edit (ws : wstate) (new : wtable) (o : MonitoredList.op) : wstate * option errkind :=
  let tab := new ++ w_tab ws in
  let '(ms, out) := MonitoredList.step (mfl_of ws) o in
  let ids := MonitoredList.items ms in
  ({| w_lb := set_items (w_lb ws) (map (lookup tab) ids) (focus_out ms); w_ids := ids; w_tab := tab |},
   MonitoredList.o_err out).

Definition w_step (ws : wstate) (o : wop) : result (wstate * woutcome) :=
  match o with
  | WLb o =>
      match step (w_lb ws) o with
      | Err e => Err e
      | Ok (s', out) =>
          (* item keys change the cursor row of a widget: keep the table in step *)
          Ok ({| w_lb := s'; w_ids := w_ids ws; w_tab := combine (w_ids ws) (items s') ++ w_tab ws |}, WOut out)
      end
  | WEdit new o => let '(ws', e) := w_edit ws new o in Ok (ws', WEdited e)
  | WReflow new =>
      let tab := new ++ w_tab ws in
      Ok ({| w_lb := set_items (w_lb ws) (map (lookup tab) (w_ids ws)) (focus (w_lb ws));
             w_ids := w_ids ws; w_tab := tab |}, WEdited None)
  end.

Fixpoint w_run (ws : wstate) (ops : list wop) : list (result (wstate * woutcome)) :=
  match ops with
  | [] => []
  | o :: r =>
      match w_step ws o with
      | Err e => [Err e]
      | Ok (ws', out) => Ok (ws', out) :: w_run ws' r
      end
  end.

(* ---------- wire format ----------
   case  = as in ListBoxView.run_case; the identities of the initial widgets are 0 .. n-1
   op    = the ListBoxView codes 1..10
         | 11 ntab (id rows sel cy1)* <MonitoredList op>      walker edit
         | 12 ntab (id rows sel cy1)*                         reflow
   reply = per executed op: as in ListBoxView, a walker edit answers  0 3 errcode <state>          *)
Fixpoint dec_tab (n : nat) (l : list Z) : option (wtable * list Z) :=
  match n with
  | O => Some ([], l)
  | S k =>
      match l with
      | id :: rows :: sel :: cy1 :: r =>
          match dec_tab k r with
          | Some (t, r') =>
              Some ((id, {| i_rows := rows; i_sel := negb (sel =? 0);
                            i_cy := if cy1 =? 0 then None else Some (cy1 - 1) |}) :: t, r')
          | None => None
          end
      | _ => None
      end
  end.

Definition dec_wop (l : list Z) : option (wop * list Z) :=
  match l with
  | 11 :: n :: r =>
      if n <? 0 then None else
      match dec_tab (Z.to_nat n) r with
      | Some (t, r') =>
          match MonitoredList.dec_op r' with
          | Some (o, r'') => Some (WEdit t o, r'')
          | None => None
          end
      | None => None
      end
  | 12 :: n :: r =>
      if n <? 0 then None else
      match dec_tab (Z.to_nat n) r with
      | Some (t, r') => Some (WReflow t, r')
      | None => None
      end
  | _ => match dec_op l with Some (o, r) => Some (WLb o, r) | None => None end
  end.

Fixpoint dec_wops (fuel : nat) (l : list Z) : list wop :=
  match fuel with
  | O => []
  | S k => match dec_wop l with Some (o, r) => o :: dec_wops k r | None => [] end
  end.

Definition enc_wresult (r : result (wstate * woutcome)) : list Z :=
  match r with
  | Err e => [errcode e]
  | Ok (ws, WOut o) => 0 :: enc_outcome o ++ enc_state (w_lb ws)
  | Ok (ws, WEdited e) =>
      0 :: 3 :: (match e with Some k => errcode k | None => 0 end) :: enc_state (w_lb ws)
  end.

Definition run_case (l : list Z) : list Z :=
  match l with
  | n :: r =>
      if n <? 0 then [-1] else
      match dec_items (Z.to_nat n) r with
      | Some (its, f :: o :: nu :: de :: r1) =>
          match dec_pending2 r1 with
          | Some (p, vp, _nops :: r2) =>
              let s := {| items := its; focus := f; off := o; inum := nu; iden := de; pend := p; vpend := vp |} in
              let ids := zseq 0 (length its) in
              let ws := {| w_lb := s; w_ids := ids; w_tab := combine ids its |} in
              flat_map enc_wresult (w_run ws (dec_wops (length r2) r2))
          | _ => [-1]
          end
      | _ => [-1]
      end
  | [] => [-1]
  end.
