(* Executable model of the space-partitioning arithmetic of urwid's containers (property C19).

   Translated from the source on every run (Gen/layout_gen.v, tools/py2v/mods/layout.py):
     int_scale, calculate_left_right_padding, calculate_top_bottom_filler, round_half_up_div.
   Hand-written here, line for line from the Python source, and tied to the code by the
   extracted-model correspondence (harness/props/c19.py):
     Columns.column_widths (+ the visible part of render), the box branch of
     Pile.get_item_rows, Padding.padding_values, Filler.filler_values,
     Overlay.calculate_padding_filler / top_w_size, the row breaking of
     GridFlow.generate_display_widget.
   Child widgets are abstracted to the integers the container asks them for
   (pack(()) / pack((maxcol,)) / rows((maxcol,))).  No proofs in this file. *)
From Coq Require Import ZArith List Bool.
Import ListNotations.
From Urwid Require Import PyBase layout_gen.
Open Scope Z_scope.

(* ------------------------------------------------------------------ *)
(* small list helpers                                                  *)

Fixpoint zsum (l : list Z) : Z := match l with [] => 0 | x :: r => x + zsum r end.

(* widths[i] = v  (i is always in range where the code does this) *)
Fixpoint set_nth (l : list Z) (i : nat) (v : Z) : list Z :=
  match l, i with
  | [], _ => []
  | _ :: r, O => v :: r
  | x :: r, S k => x :: set_nth r k v
  end.
Definition set_nthz (l : list Z) (i : Z) (v : Z) : list Z :=
  if i <? 0 then l else set_nth l (Z.to_nat i) v.

(* sorted() on a list of (weight, index) tuples: lexicographic order, stable insertion sort *)
Definition pair_leb (a b : Z * Z) : bool :=
  (fst a <? fst b) || ((fst a =? fst b) && (snd a <=? snd b)).
Fixpoint insert_pair (x : Z * Z) (l : list (Z * Z)) : list (Z * Z) :=
  match l with
  | [] => [x]
  | y :: r => if pair_leb x y then x :: l else y :: insert_pair x r
  end.
Fixpoint sort_pairs (l : list (Z * Z)) : list (Z * Z) :=
  match l with [] => [] | x :: r => insert_pair x (sort_pairs r) end.

(* ------------------------------------------------------------------ *)
(* Columns.column_widths  (urwid/widget/columns.py)                    *)

(* sizing kind of one entry of Columns.contents / Pile.contents.  For KPack the amount is
   the width the child's pack() answered (static_w resolved by the harness); for KWeight
   the weight. *)
Inductive ckind := KGiven | KPack | KWeight.
Definition col := (ckind * Z)%type.

Definition is_weight (c : col) : bool := match fst c with KWeight => true | _ => false end.

(* static_w of the first loop *)
Definition static_of (minw : Z) (c : col) : Z :=
  match fst c with KWeight => minw | _ => snd c end.

(* first loop:  for i, (w, (t, width, b)) in enumerate(self.contents): ...
     if shared < static_w + self.dividechars and i > self.focus_position: break
     widths.append(static_w); shared -= static_w + self.dividechars
     if t not in {GIVEN, PACK}: weighted.append((width, i))
   returns (widths, weighted, shared) *)
Fixpoint cw_scan (div minw focus : Z) (cs : list col) (i shared : Z)
  : list Z * list (Z * Z) * Z :=
  match cs with
  | [] => ([], [], shared)
  | c :: r =>
      let sw := static_of minw c in
      if (shared <? sw + div) && (focus <? i) then ([], [], shared)
      else
        let '(ws, wt, sh) := cw_scan div minw focus r (i + 1) (shared - (sw + div)) in
        (sw :: ws, (if is_weight c then (snd c, i) :: wt else wt), sh)
  end.

(* second loop ("drop columns on the left until we fit"):
     for i, width_ in enumerate(widths):
         if shared >= 0: break
         shared += width_ + self.dividechars; widths[i] = 0
         if weighted and weighted[0][1] == i: del weighted[0] *)
Fixpoint cw_drop (div : Z) (ws : list Z) (i : Z) (wt : list (Z * Z)) (shared : Z)
  : list Z * list (Z * Z) * Z :=
  match ws with
  | [] => ([], wt, shared)
  | w :: r =>
      if 0 <=? shared then (ws, wt, shared)
      else
        let wt' := match wt with
                   | (_, j) :: t => if j =? i then t else wt
                   | [] => []
                   end in
        let '(r', wt2, sh) := cw_drop div r (i + 1) wt' (shared + (w + div)) in
        (0 :: r', wt2, sh)
  end.

(* third loop:  for weight, i in sorted(weighted):
       width = max(int(grow * weight / wtotal + 0.5), self.min_width)
       widths[i] = width; grow -= width; wtotal -= weight
   returns the assignments (i, width) in the order they are made; a zero wtotal is
   Python's ZeroDivisionError (only reachable with non-positive weights) *)
Fixpoint cw_alloc (minw : Z) (sorted : list (Z * Z)) (grow wtotal : Z) : result (list (Z * Z)) :=
  match sorted with
  | [] => Ok []
  | (weight, i) :: r =>
      if wtotal =? 0 then Err OtherError
      else
        let width := Z.max (round_half_up_div (grow * weight) wtotal) minw in
        bind (cw_alloc minw r (grow - width) (wtotal - weight)) (fun al => Ok ((i, width) :: al))
  end.

Definition apply_allocs (ws : list Z) (al : list (Z * Z)) : list Z :=
  fold_left (fun acc (p : Z * Z) => set_nthz acc (fst p) (snd p)) al ws.

Definition column_widths (cs : list col) (div minw focus maxcol : Z) : result (list Z) :=
  let '(ws, wt, sh) := cw_scan div minw focus cs 0 (maxcol + div) in
  let '(ws2, wt2, sh2) := cw_drop div ws 0 wt sh in
  if sh2 =? 0 then Ok ws2            (* "if shared:" *)
  else
    let wtotal := zsum (map fst wt2) in
    let grow := sh2 + zlen wt2 * minw in
    bind (cw_alloc minw (sort_pairs wt2) grow wtotal) (fun al => Ok (apply_allocs ws2 al)).

(* Columns.render: the children that are rendered and the width each is given
   ("if width <= 0: continue") *)
Fixpoint cw_rendered (ws : list Z) (i : Z) : list (Z * Z) :=
  match ws with
  | [] => []
  | w :: r => if w <=? 0 then cw_rendered r (i + 1) else (i, w) :: cw_rendered r (i + 1)
  end.

(* ------------------------------------------------------------------ *)
(* Pile.get_item_rows, box branch  (urwid/widget/pile.py)              *)

(* first pass: rows_numbers (None = weighted, filled in later), remaining, wtotal.
   For a PACK item the amount is the number of rows the child reports: w.pack(())[1] for a
   fixed-only child, w.rows((maxcol,)) otherwise (resolved by the harness). *)
Fixpoint pile_pass1 (items : list col) (remaining wtotal : Z) : list (option Z) * Z * Z :=
  match items with
  | [] => ([], remaining, wtotal)
  | (k, height) :: r =>
      match k with
      | KPack | KGiven =>
          let '(rn, rem, wt) := pile_pass1 r (remaining - height) wtotal in (Some height :: rn, rem, wt)
      | KWeight =>
          if height =? 0 then
            let '(rn, rem, wt) := pile_pass1 r remaining wtotal in (Some 0 :: rn, rem, wt)
          else
            let '(rn, rem, wt) := pile_pass1 r remaining (wtotal + height) in (None :: rn, rem, wt)
      end
  end.

(* second pass:  rows = int(float(remaining) * height / wtotal + 0.5) *)
Fixpoint pile_pass2 (items : list col) (rn : list (option Z)) (remaining wtotal : Z) : result (list Z) :=
  match items, rn with
  | (_, height) :: r, Some v :: rn' =>
      bind (pile_pass2 r rn' remaining wtotal) (fun l => Ok (v :: l))
  | (_, height) :: r, None :: rn' =>
      if wtotal =? 0 then Err OtherError
      else
        let rows := round_half_up_div (remaining * height) wtotal in
        bind (pile_pass2 r rn' (remaining - rows) (wtotal - height)) (fun l => Ok (rows :: l))
  | _, _ => Ok []
  end.

Definition pile_item_rows (items : list col) (maxrow : Z) : result (list Z) :=
  let '(rn, remaining, wtotal) := pile_pass1 items maxrow 0 in
  if wtotal =? 0 then Err WidgetError      (* PileError("No weighted widgets found ...") *)
  else pile_pass2 items rn (Z.max remaining 0) wtotal.

(* ------------------------------------------------------------------ *)
(* Padding.padding_values + the width render() hands to the child      *)

Record padcfg := PadCfg {
  p_at : atype; p_aa : Z; p_wt : wtype; p_wa : Z; p_minw : option Z; p_left : Z; p_right : Z }.

(* "self.min_width or d" *)
Definition opt_or (o : option Z) (d : Z) : Z :=
  match o with None => d | Some v => if v =? 0 then d else v end.

(* size = Some maxcol for (maxcol,) / (maxcol, maxrow), None for ().
   pack_fixed = original_widget.pack(())[0]; pack_flow mw = original_widget.pack((mw,))[0] *)
Definition padding_values (c : padcfg) (size : option Z) (pack_fixed : Z) (pack_flow : Z -> Z)
  : result (Z * Z) :=
  match p_wt c with
  | WClip =>
      match size with
      | None => Err WidgetError   (* PaddingError *)
      | Some maxcol =>
          Ok (calculate_left_right_padding maxcol (p_at c) (p_aa c) WClip pack_fixed None (p_left c) (p_right c))
      end
  | WPack =>
      let '(maxcol, width) :=
        match size with
        | Some maxcol =>
            let maxwidth := Z.max (maxcol - p_left c - p_right c) (opt_or (p_minw c) 0) in
            (maxcol, pack_flow maxwidth)
        | None => (pack_fixed + p_left c + p_right c, pack_fixed)
        end in
      Ok (calculate_left_right_padding maxcol (p_at c) (p_aa c) WGiven width (p_minw c) (p_left c) (p_right c))
  | wt =>
      match (match size with
             | Some maxcol => Ok maxcol
             | None =>
                 match wt with
                 | WGiven => Ok (p_wa c + p_left c + p_right c)
                 | _ =>
                     if p_wa c =? 0 then Err OtherError   (* ZeroDivisionError *)
                     else Ok (Z.max (pack_fixed * 100 / p_wa c) (opt_or (p_minw c) 1) + p_left c + p_right c)
                 end
             end) with
      | Err e => Err e
      | Ok maxcol =>
          Ok (calculate_left_right_padding maxcol (p_at c) (p_aa c) wt (p_wa c) (p_minw c) (p_left c) (p_right c))
      end
  end.

(* Padding.render with a non-empty size: "maxcol = size[0] - (left + right)" *)
Definition padding_child_cols (maxcol : Z) (lr : Z * Z) : Z := maxcol - (fst lr + snd lr).

(* ------------------------------------------------------------------ *)
(* Filler.filler_values                                                *)

Record fillcfg := FillCfg {
  f_vt : vtype; f_va : Z; f_ht : wtype; f_ha : Z; f_minh : option Z; f_top : Z; f_bottom : Z }.

(* Filler.__init__: min_height is dropped for GIVEN / PACK heights *)
Definition filler_init_minh (ht : wtype) (minh : option Z) : option Z :=
  match ht with WGiven | WPack => None | _ => minh end.

(* maxrow = Some r for a box size, None for a flow size (then Widget.pack asks self.rows);
   child_rows = original_widget.rows((maxcol,)) *)
Definition filler_values (c : fillcfg) (maxrow : option Z) (child_rows : Z) : result (Z * Z) :=
  let mr :=
    match maxrow with
    | Some r => Ok r
    | None =>
        match f_ht c with
        | WPack => Ok (child_rows + f_top c + f_bottom c)
        | WGiven => Ok (f_ha c + f_top c + f_bottom c)
        | _ => Err WidgetError
        end
    end in
  match mr with
  | Err e => Err e
  | Ok maxrow' =>
      match f_ht c with
      | WPack => Ok (calculate_top_bottom_filler maxrow' (f_vt c) (f_va c) WGiven child_rows None (f_top c) (f_bottom c))
      | ht => Ok (calculate_top_bottom_filler maxrow' (f_vt c) (f_va c) ht (f_ha c) (f_minh c) (f_top c) (f_bottom c))
      end
  end.

(* ------------------------------------------------------------------ *)
(* Overlay.calculate_padding_filler / top_w_size                       *)

Record ovcfg := OvCfg { o_pad : padcfg; o_fill : fillcfg }.

(* pack_w, pack_h = top_w.pack(()); flow_rows w = top_w.rows((w,)), asked at
   w = maxcol - left - right, the width top_w is rendered with *)
Definition overlay_padding_filler (c : ovcfg) (maxcol maxrow pack_w pack_h : Z) (flow_rows : Z -> Z)
  : result (Z * Z * Z * Z) :=
  let p := o_pad c in let f := o_fill c in
  let fixed := match p_wt p with WPack => true | _ => false end in
  if fixed && (pack_h =? 0) then Err WidgetError     (* OverlayError("fixed widget must have a height") *)
  else
    let '(lft, rgt) :=
      if fixed then calculate_left_right_padding maxcol (p_at p) (p_aa p) WClip pack_w None (p_left p) (p_right p)
      else calculate_left_right_padding maxcol (p_at p) (p_aa p) (p_wt p) (p_wa p) (p_minw p) (p_left p) (p_right p) in
    let '(top, bottom) :=
      if fixed then
        let '(top, bottom) := calculate_top_bottom_filler maxrow (f_vt f) (f_va f) WGiven pack_h None (f_top f) (f_bottom f) in
        if maxrow - top - bottom <? pack_h then (top, maxrow - top - pack_h) else (top, bottom)
      else
        match f_ht f with
        | WPack =>
            let height := flow_rows (maxcol - lft - rgt) in
            let '(top, bottom) := calculate_top_bottom_filler maxrow (f_vt f) (f_va f) WGiven height None (f_top f) (f_bottom f) in
            if maxrow <? height then (top, maxrow - height) else (top, bottom)
        | ht => calculate_top_bottom_filler maxrow (f_vt f) (f_va f) ht (f_ha f) (f_minh f) (f_top f) (f_bottom f)
        end in
    Ok (lft, rgt, top, bottom).

(* size handed to top_w: [] = (), [c] = (c,), [c; r] = (c, r) *)
Definition overlay_top_w_size (c : ovcfg) (maxcol maxrow lft rgt top bottom : Z) : list Z :=
  match p_wt (o_pad c) with
  | WPack => []
  | _ =>
      match f_ht (o_fill c) with
      | WPack => [maxcol - lft - rgt]
      | _ => [maxcol - lft - rgt; maxrow - top - bottom]
      end
  end.

(* Overlay.render: the canvas top_w renders (the stub renders exactly the size it is handed;
   a fixed stub its packed size), trimmed where a margin is negative
     top_c.pad_trim_left_right(min(0, left), min(0, right)); top_c.pad_trim_top_bottom(min(0, top), min(0, bottom))
   and placed by CanvasOverlay(top_c, bottom_c, max(left, 0), top): (x, y, cols, rows) *)
Definition overlay_placement (c : ovcfg) (maxcol maxrow pack_w pack_h : Z) (flow_rows : Z -> Z)
  (lft rgt top bottom : Z) : Z * Z * Z * Z :=
  let '(tw, th) :=
    match overlay_top_w_size c maxcol maxrow lft rgt top bottom with
    | [] => (pack_w, pack_h)
    | [cols] => (cols, flow_rows cols)
    | cols :: rows :: _ => (cols, rows)
    end in
  (Z.max lft 0, top, tw + Z.min 0 lft + Z.min 0 rgt, th + Z.min 0 top + Z.min 0 bottom).

(* ------------------------------------------------------------------ *)
(* GridFlow.generate_display_widget: breaking the cells into rows      *)

(* for i, (w, (_width_type, width_amount)) in enumerate(self.contents):
       if c is None or maxcol - used_space < width_amount:  (start a new row)
       c.contents.append((w, c.options(GIVEN, min(width_amount, maxcol))))
       used_space = sum(x[1][1] for x in c.contents) + self.h_sep * len(c.contents)
   cur = the current row, reversed; rows_rev = the finished rows, reversed.
   A row is a list of (cell index, given width). *)
Definition row_used (hsep : Z) (cur : list (Z * Z)) : Z := zsum (map snd cur) + hsep * zlen cur.

Fixpoint gf_loop (maxcol hsep : Z) (cells : list Z) (i : Z) (started : bool)
  (cur : list (Z * Z)) (rows_rev : list (list (Z * Z))) : list (list (Z * Z)) :=
  match cells with
  | [] => rev (if started then rev cur :: rows_rev else rows_rev)
  | wa :: r =>
      let newrow := negb started || (maxcol - row_used hsep cur <? wa) in
      let rows_rev' := if newrow && started then rev cur :: rows_rev else rows_rev in
      let cur' := if newrow then [] else cur in
      gf_loop maxcol hsep r (i + 1) true ((i, Z.min wa maxcol) :: cur') rows_rev'
  end.

Definition gridflow_rows (maxcol hsep : Z) (cells : list Z) : list (list (Z * Z)) :=
  gf_loop maxcol hsep cells 0 false [] [].

(* pad.width of a finished row = used_space - h_sep *)
Definition gridflow_pad_width (hsep : Z) (row : list (Z * Z)) : Z := row_used hsep row - hsep.

(* GridFlow._get_maxcol(()) and pack(()): the natural width, from the configured cell width *)
Definition gridflow_natural_width (n cw hsep : Z) : Z :=
  if 0 <? n then n * cw + (n - 1) * hsep else 0.

(* c.focus_position of a row: the position of the GridFlow's focus cell in it, else 0
   (the stub cells are not selectable) *)
Fixpoint row_focus (gfocus : Z) (row : list (Z * Z)) (k : Z) : Z :=
  match row with
  | [] => 0
  | p :: r => if fst p =? gfocus then k else row_focus gfocus r (k + 1)
  end.

(* One row of the display widget laid out in maxcol columns:
     pad = Padding(c, self.align); pad.width = used_space - h_sep   (width type GIVEN)
     c = Columns([...(w, (GIVEN, min(width_amount, maxcol)))...], self.h_sep)    (min_width 1)
   Padding.padding_values -> (left, right); Padding.render hands c  maxcol - left - right  columns;
   c.column_widths of that. *)
Definition gridflow_row_layout (maxcol hsep : Z) (al : atype) (gfocus : Z) (row : list (Z * Z))
  : (Z * Z) * result (list Z) :=
  let lr := calculate_left_right_padding maxcol al 0 WGiven (gridflow_pad_width hsep row) None 0 0 in
  (lr, column_widths (map (fun p : Z * Z => (KGiven, snd p)) row) hsep 1 (row_focus gfocus row 0)
                     (padding_child_cols maxcol lr)).

(* ------------------------------------------------------------------ *)
(* wire format (harness/props/c19.py)                                  *)

Definition dec_wtype (z : Z) : wtype :=
  if z =? 0 then WRelative else if z =? 1 then WClip else if z =? 2 then WGiven
  else if z =? 3 then WPack else WWeight.
Definition dec_atype (z : Z) : atype :=
  if z =? 0 then ALeft else if z =? 1 then ACenter else if z =? 2 then ARight else ARelative.
Definition dec_vtype (z : Z) : vtype :=
  if z =? 0 then VTop else if z =? 1 then VMiddle else if z =? 2 then VBottom else VRelative.
Definition dec_ckind (z : Z) : ckind :=
  if z =? 0 then KGiven else if z =? 1 then KPack else KWeight.

Fixpoint dec_cols (n : nat) (l : list Z) : option (list col * list Z) :=
  match n with
  | O => Some ([], l)
  | S k =>
      match l with
      | kd :: a :: r =>
          match dec_cols k r with
          | Some (cs, rest) => Some ((dec_ckind kd, a) :: cs, rest)
          | None => None
          end
      | _ => None
      end
  end.

Definition enc_res_list (r : result (list Z)) : list Z :=
  match r with Ok l => 0 :: enc_list l | Err e => [1; errcode e] end.

Definition enc_pairs (l : list (Z * Z)) : list Z :=
  zlen l :: flat_map (fun p : Z * Z => [fst p; snd p]) l.

(* the harness' stub child: pack((mw,)) answers (min(natural width, mw), 1) *)
Definition spy_pack_flow (nat_w : Z) (mw : Z) : Z := Z.min nat_w mw.

(* the harness' stub top widget: rows((w,)) answers frn when w < thr (wrapped) and fr otherwise *)
Definition spy_rows (fr frn thr : Z) (w : Z) : Z := if w <? thr then frn else fr.

Definition dec_padcfg (l : list Z) : option (padcfg * list Z) :=
  match l with
  | a :: aa :: wt :: wa :: r =>
      match dec_oz r with
      | Some (mw, le :: ri :: rest) => Some (PadCfg (dec_atype a) aa (dec_wtype wt) wa mw le ri, rest)
      | _ => None
      end
  | _ => None
  end.

Definition dec_fillcfg (l : list Z) : option (fillcfg * list Z) :=
  match l with
  | v :: va :: ht :: ha :: r =>
      match dec_oz r with
      | Some (mh, t :: b :: rest) =>
          Some (FillCfg (dec_vtype v) va (dec_wtype ht) ha (filler_init_minh (dec_wtype ht) mh) t b, rest)
      | _ => None
      end
  | _ => None
  end.

Definition run_one (l : list Z) : list Z :=
  match l with
  (* 1: int_scale val val_range out_range *)
  | 1 :: v :: vr :: out :: [] =>
      if vr =? 1 then [1; errcode OtherError] else [0; int_scale v vr out]
  (* 2: calculate_left_right_padding *)
  | 2 :: maxcol :: r =>
      match dec_padcfg r with
      | Some (c, []) =>
          let '(a, b) := calculate_left_right_padding maxcol (p_at c) (p_aa c) (p_wt c) (p_wa c) (p_minw c) (p_left c) (p_right c) in
          [0; a; b]
      | _ => [-1]
      end
  (* 3: calculate_top_bottom_filler (min_height passed through unchanged) *)
  | 3 :: maxrow :: v :: va :: ht :: ha :: r =>
      match dec_oz r with
      | Some (mh, t :: b :: []) =>
          let '(a, b') := calculate_top_bottom_filler maxrow (dec_vtype v) va (dec_wtype ht) ha mh t b in
          [0; a; b']
      | _ => [-1]
      end
  (* 4: Columns: n (kind amount)*n dividechars min_width focus maxcol *)
  | 4 :: n :: r =>
      if n <? 0 then [-1] else
      match dec_cols (Z.to_nat n) r with
      | Some (cs, div :: minw :: focus :: maxcol :: []) =>
          let res := column_widths cs div minw focus maxcol in
          enc_res_list res ++
          match res with Ok ws => enc_pairs (cw_rendered ws 0) | Err _ => [] end
      | _ => [-1]
      end
  (* 5: Pile box rows: n (kind amount)*n maxrow *)
  | 5 :: n :: r =>
      if n <? 0 then [-1] else
      match dec_cols (Z.to_nat n) r with
      | Some (items, maxrow :: []) => enc_res_list (pile_item_rows items maxrow)
      | _ => [-1]
      end
  (* 6: Padding.padding_values: cfg, size (oz), pack_fixed, natural flow width of the stub *)
  | 6 :: r =>
      match dec_padcfg r with
      | Some (c, r2) =>
          match dec_oz r2 with
          | Some (size, pf :: natw :: []) =>
              match padding_values c size pf (spy_pack_flow natw) with
              | Ok (a, b) =>
                  0 :: a :: b ::
                  match size with Some maxcol => [padding_child_cols maxcol (a, b)] | None => [] end
              | Err e => [1; errcode e]
              end
          | _ => [-1]
          end
      | None => [-1]
      end
  (* 7: Filler.filler_values: cfg, maxrow (oz), child rows *)
  | 7 :: r =>
      match dec_fillcfg r with
      | Some (c, r2) =>
          match dec_oz r2 with
          | Some (maxrow, cr :: []) =>
              match filler_values c maxrow cr with
              | Ok (a, b) => [0; a; b]
              | Err e => [1; errcode e]
              end
          | _ => [-1]
          end
      | None => [-1]
      end
  (* 8: Overlay: padcfg fillcfg maxcol maxrow pack_w pack_h flow_rows(wide) flow_rows(narrow) threshold *)
  | 8 :: r =>
      match dec_padcfg r with
      | Some (p, r2) =>
          match dec_fillcfg r2 with
          | Some (f, maxcol :: maxrow :: pw :: ph :: fr :: frn :: thr :: []) =>
              let c := OvCfg p f in
              match overlay_padding_filler c maxcol maxrow pw ph (spy_rows fr frn thr) with
              | Ok (le, ri, t, b) =>
                  let '(x, y, w, h) := overlay_placement c maxcol maxrow pw ph (spy_rows fr frn thr) le ri t b in
                  [0; le; ri; t; b] ++ enc_list (overlay_top_w_size c maxcol maxrow le ri t b) ++ [x; y; w; h]
              | Err e => [1; errcode e]
              end
          | _ => [-1]
          end
      | None => [-1]
      end
  (* 9: GridFlow: maxcol h_sep align cell_width focus n widths
        reply: natural width, #rows, per row: pad.width, left, right, (index, width)*, the row's column widths *)
  | 9 :: maxcol :: hsep :: al :: cw :: gfocus :: r =>
      match dec_list r with
      | Some (cells, []) =>
          let rows := gridflow_rows maxcol hsep cells in
          gridflow_natural_width (zlen cells) cw hsep :: zlen rows ::
          flat_map (fun row =>
                      let '((le, ri), inner) := gridflow_row_layout maxcol hsep (dec_atype al) gfocus row in
                      gridflow_pad_width hsep row :: le :: ri :: enc_pairs row ++ enc_res_list inner) rows
      | _ => [-1]
      end
  | _ => [-1]
  end.

(* ------------------------------------------------------------------ *)
(* Columns as a stateful object: the width cache of column_widths       *)
(* (self._cache_maxcol, self._cache_column_widths), _invalidate(), and the events that
   change the configuration.  A column is (kind, amount) plus a flag saying that a PACK child
   is the harness' flow stub, whose pack((maxcol,)) answers min(natural width, maxcol). *)

Definition pcol := (col * bool)%type.

(* static_w of a PACK column = what the child's pack() answers now *)
Definition resolve_col (maxcol : Z) (p : pcol) : col :=
  match p with
  | ((KPack, a), true) => (KPack, spy_pack_flow a maxcol)
  | (c, _) => c
  end.

Definition is_pack (p : pcol) : bool := match fst (fst p) with KPack => true | _ => false end.
(* any(t == WHSettings.PACK for w, (t, n, b) in self.contents) *)
Definition has_pack (l : list pcol) : bool := existsb is_pack l.

Record colstate := ColState {
  cs_cols : list pcol; cs_div : Z; cs_minw : Z; cs_focus : Z;
  cs_cache_maxcol : option Z;       (* self._cache_maxcol *)
  cs_cache_widths : list Z }.       (* self._cache_column_widths *)

Inductive colop :=
  | OLayout (maxcol : Z)            (* column_widths((maxcol,)) *)
  | OFocus (i : Z)                  (* focus_position = i: the focus-changed callback calls _invalidate() *)
  | OSetPack (i : Z) (a : Z)        (* a packed child changes its natural width: Columns is not told *)
  | OSetOpt (i : Z) (c : pcol)      (* contents[i] = ...: the modified callback calls _invalidate() *)
  | OAppend (c : pcol)              (* contents.append(...) *)
  | OPopLast                        (* del contents[-1] *)
  | OSetDiv (d : Z)                 (* self.dividechars = d: a plain attribute, nothing is invalidated *)
  | OSetMinw (m : Z)                (* self.min_width = m: likewise *)
  | OInvalidate.                    (* self._invalidate() *)

(* Columns._invalidate: self._cache_maxcol = None *)
Definition cs_invalidate (st : colstate) : colstate :=
  ColState (cs_cols st) (cs_div st) (cs_minw st) (cs_focus st) None (cs_cache_widths st).

Definition cs_with_cols (st : colstate) (l : list pcol) : colstate :=
  ColState l (cs_div st) (cs_minw st) (cs_focus st) (cs_cache_maxcol st) (cs_cache_widths st).

(* the computation column_widths does when it does not answer from the cache *)
Definition cs_compute (st : colstate) (maxcol : Z) : result (list Z) :=
  column_widths (map (resolve_col maxcol) (cs_cols st)) (cs_div st) (cs_minw st) (cs_focus st) maxcol.

(* column_widths with its first lines:
     if maxcol == self._cache_maxcol and not any(t == PACK ...): return self._cache_column_widths
     ... ; self._cache_maxcol = maxcol; self._cache_column_widths = widths; return widths
   (an exception leaves the cache as it was) *)
Definition cs_layout (st : colstate) (maxcol : Z) : colstate * result (list Z) :=
  if (match cs_cache_maxcol st with Some m => m =? maxcol | None => false end) && negb (has_pack (cs_cols st))
  then (st, Ok (cs_cache_widths st))
  else
    match cs_compute st maxcol with
    | Ok ws => (ColState (cs_cols st) (cs_div st) (cs_minw st) (cs_focus st) (Some maxcol) ws, Ok ws)
    | Err e => (st, Err e)
    end.

Fixpoint set_nth_p (l : list pcol) (i : nat) (v : pcol) : list pcol :=
  match l, i with
  | [], _ => []
  | _ :: r, O => v :: r
  | x :: r, S k => x :: set_nth_p r k v
  end.

(* the packed child at position i now reports width a (no effect on other kinds of column) *)
Fixpoint set_pack (l : list pcol) (i : nat) (a : Z) : list pcol :=
  match l, i with
  | [], _ => []
  | ((KPack, _), fl) :: r, O => ((KPack, a), fl) :: r
  | x :: r, O => x :: r
  | x :: r, S k => x :: set_pack r k a
  end.

Definition cs_step (st : colstate) (o : colop) : colstate * option (result (list Z)) :=
  match o with
  | OLayout maxcol => let '(st', r) := cs_layout st maxcol in (st', Some r)
  | OFocus i =>
      (* MonitoredFocusList calls the focus-changed callback only when the index changes *)
      if i =? cs_focus st then (st, None)
      else (cs_invalidate (ColState (cs_cols st) (cs_div st) (cs_minw st) i (cs_cache_maxcol st) (cs_cache_widths st)), None)
  | OSetPack i a => (if i <? 0 then st else cs_with_cols st (set_pack (cs_cols st) (Z.to_nat i) a), None)
  | OSetOpt i c =>
      (cs_invalidate (if i <? 0 then st else cs_with_cols st (set_nth_p (cs_cols st) (Z.to_nat i) c)), None)
  | OAppend c => (cs_invalidate (cs_with_cols st (cs_cols st ++ [c])), None)
  | OPopLast => (cs_invalidate (cs_with_cols st (removelast (cs_cols st))), None)
  | OSetDiv d => (ColState (cs_cols st) d (cs_minw st) (cs_focus st) (cs_cache_maxcol st) (cs_cache_widths st), None)
  | OSetMinw m => (ColState (cs_cols st) (cs_div st) m (cs_focus st) (cs_cache_maxcol st) (cs_cache_widths st), None)
  | OInvalidate => (cs_invalidate st, None)
  end.

(* the results of the layouts of a history, in order *)
Fixpoint cs_run (st : colstate) (ops : list colop) : list (result (list Z)) :=
  match ops with
  | [] => []
  | o :: r =>
      let '(st', out) := cs_step st o in
      match out with Some x => x :: cs_run st' r | None => cs_run st' r end
  end.

(* Columns.__init__: empty cache *)
Definition cs_init (cols : list pcol) (div minw focus : Z) : colstate := ColState cols div minw focus None [].

(* wire: kind amount flag *)
Definition dec_pcol (kd a fl : Z) : pcol := ((dec_ckind kd, a), negb (fl =? 0)).

Fixpoint dec_pcols (n : nat) (l : list Z) : option (list pcol * list Z) :=
  match n with
  | O => Some ([], l)
  | S k =>
      match l with
      | kd :: a :: fl :: r =>
          match dec_pcols k r with
          | Some (cs, rest) => Some (dec_pcol kd a fl :: cs, rest)
          | None => None
          end
      | _ => None
      end
  end.

(* steps: 1 maxcol | 2 i | 3 i a | 4 i kind a flag | 5 kind a flag | 6 | 7 d | 8 m | 9 *)
Fixpoint dec_colops (fuel : nat) (l : list Z) : list colop :=
  match fuel with
  | O => []
  | S k =>
      match l with
      | 1 :: m :: r => OLayout m :: dec_colops k r
      | 2 :: i :: r => OFocus i :: dec_colops k r
      | 3 :: i :: a :: r => OSetPack i a :: dec_colops k r
      | 4 :: i :: kd :: a :: fl :: r => OSetOpt i (dec_pcol kd a fl) :: dec_colops k r
      | 5 :: kd :: a :: fl :: r => OAppend (dec_pcol kd a fl) :: dec_colops k r
      | 6 :: r => OPopLast :: dec_colops k r
      | 7 :: d :: r => OSetDiv d :: dec_colops k r
      | 8 :: m :: r => OSetMinw m :: dec_colops k r
      | 9 :: r => OInvalidate :: dec_colops k r
      | _ => []
      end
  end.

(* 11: a history on one Columns object: n (kind amount flag)*n div minw focus steps...
   reply: for every layout, length-prefixed, the reply of sub-model 4 *)
Definition run_colhist (l : list Z) : list Z :=
  match l with
  | n :: r =>
      if n <? 0 then [-1] else
      match dec_pcols (Z.to_nat n) r with
      | Some (cols, div :: minw :: focus :: steps) =>
          let outs := cs_run (cs_init cols div minw focus) (dec_colops (length steps) steps) in
          flat_map (fun res : result (list Z) =>
                      let o := enc_res_list res ++
                               match res with Ok ws => enc_pairs (cw_rendered ws 0) | Err _ => [] end in
                      zlen o :: o) outs
      | _ => [-1]
      end
  | _ => [-1]
  end.

(* 10: a batch of sub-cases (the layouts of one multi-step history: the harness sends the
   configuration in force at each layout; the model is stateless, so a cache in the code
   must be invisible): 10 (len payload)*  ->  (len reply)* *)
Fixpoint run_batch (fuel : nat) (l : list Z) : list Z :=
  match fuel with
  | O => []
  | S k =>
      match dec_list l with
      | Some (sub, rest) => let out := run_one sub in (zlen out :: out) ++ run_batch k rest
      | None => []
      end
  end.

Definition run_case (l : list Z) : list Z :=
  match l with
  | 10 :: r => run_batch (length r) r
  | 11 :: r => run_colhist r
  | _ => run_one l
  end.
