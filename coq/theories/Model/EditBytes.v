(* C10 - executable model of urwid.Edit in BYTES mode (caption and edit text are bytes; keys are
   still str), parametric in the byte encoding mode [m] of str_util: 'utf8', 'wide' (euc-jp, big5,
   gbk, uhc, euc-kr) or 'narrow' (everything else, e.g. latin-1).

   The str_util functions on bytes are C11's model (Model/Width.v, imported read-only):
   move_prev_char / move_next_char / calc_width / calc_text_pos / within_double_byte in the mode m,
   whose decode_one arithmetic is re-translated from urwid/str_util.py on every run
   (Gen/str_util_gen.v) and whose loops mirror the Python line by line.  This file mirrors
   Edit.keypress & co. for a bytes caption, and the text_layout coordinate maps
   (calc_coords, calc_line_pos, calc_pos) over those bytes functions; what does not depend on
   the text type (set_edit_pos, set_edit_text, insert_text, shift_line, the state record, the
   event type) is shared with Model/Edit.v.

   No proofs here.  Not modelled: mask (None), the numeric variants, highlight. *)
From Coq Require Import ZArith List Bool Lia.
From Urwid Require Import PyBase PyList Utf8 wcwidth_table_gen str_util_gen Width Edit.
Import ListNotations.
Open Scope Z_scope.

Section BytesModel.
Variable wcw : Z -> Z.            (* wcwidth.wcwidth(chr(c)) *)
Variable m : tmode.               (* the process-global byte encoding: MUtf8 | MWide | MNarrow *)
Variable kenc : list Z -> list Z. (* key.encode(get_encoding(), "replace") of a key string (code points -> bytes) *)

(* str_util.calc_width(text, a, b) on bytes, utf8 *)
Definition bwidth (t : list Z) (a b : Z) : result Z := Width.calc_width wcw m t a b.

(* str_util.calc_text_pos(text, a, b, col)[0] on bytes, utf8 *)
Definition btpos (t : list Z) (a b c : Z) : result Z :=
  match Width.calc_text_pos wcw m t a b c with Ok (p, _) => Ok p | Err e => Err e end.

(* ---------- text_layout.calc_coords ---------- *)
Fixpoint bcc_segs (t : list Z) (segs : line) (p x y : Z) (cl : closest_t) : result ((Z * Z) + closest_t) :=
  match segs with
  | [] => Ok (inr cl)
  | SPad sc :: r => bcc_segs t r p (x + sc) y cl
  | SHint sc offs :: r =>
      if offs =? p then Ok (inl (x, y))
      else bcc_segs t r p (x + sc) y (closer cl (Z.abs (offs - p)) x y)
  | SText sc offs en :: r =>
      if offs =? p then Ok (inl (x, y))
      else if (offs <=? p) && (p <? en) then
        match bwidth t offs p with Ok wd => Ok (inl (x + wd, y)) | Err e => Err e end
      else
        let d := if en <? p then p - (en - 1) else Z.abs (offs - p) in
        bcc_segs t r p (x + sc) y (closer cl d x y)
  end.

Fixpoint bcc_rows (t : list Z) (lay : layout) (p y : Z) (cl : closest_t) : result (Z * Z) :=
  match lay with
  | [] => Ok (match cl with Some (_, xy) => xy | None => (0, 0) end)
  | l :: r =>
      match bcc_segs t l p 0 y cl with
      | Err e => Err e
      | Ok (inl xy) => Ok xy
      | Ok (inr cl') => bcc_rows t r p (y + 1) cl'
      end
  end.

Definition bcalc_coords (t : list Z) (lay : layout) (p : Z) : result (Z * Z) := bcc_rows t lay p 0 None.

(* ---------- text_layout.calc_line_pos ---------- *)
Definition bclp_right (t : list Z) (segs : line) : result (option Z) :=
  match clp_last segs None with
  | None => Ok None
  | Some (SText sc offs en) =>
      match btpos t offs en (sc - 1) with Ok p => Ok (Some p) | Err e => Err e end
  | Some (SHint _ offs) => Ok (Some offs)
  | Some (SPad _) => Ok None
  end.

Definition bclp_finish (t : list Z) (cp : cpos) : result (option Z) :=
  match cp with
  | CNone => Ok None
  | CInt p => Ok (Some p)
  | CSeg sc offs en =>
      match btpos t offs en (sc - 1) with Ok p => Ok (Some p) | Err e => Err e end
  end.

Fixpoint bclp_int (t : list Z) (segs : line) (pc : Z) (csc : option Z) (cp : cpos) (cur : Z)
  : result (option Z) :=
  match segs with
  | [] => bclp_finish t cp
  | SPad sc :: r => bclp_int t r pc csc cp (cur + sc)
  | SHint sc offs :: r =>
      let '(csc1, cp1, brk) := clp_common pc cur offs csc cp in
      if brk then bclp_finish t cp1 else bclp_int t r pc csc1 cp1 (cur + sc)
  | SText sc offs en :: r =>
      if (cur <=? pc) && (pc <? cur + sc) then
        match btpos t offs en (pc - cur) with Ok p => Ok (Some p) | Err e => Err e end
      else
        let '(csc0, cp0) := if cur <=? pc then (Some (cur + sc - 1), CSeg sc offs en) else (csc, cp) in
        let '(csc1, cp1, brk) := clp_common pc cur offs csc0 cp0 in
        if brk then bclp_finish t cp1 else bclp_int t r pc csc1 cp1 (cur + sc)
  end.

Definition bcalc_line_pos (t : list Z) (segs : line) (pc : prefcol) : result (option Z) :=
  match pc with
  | PLeft => Ok (clp_left segs)
  | PRight => bclp_right t segs
  | PInt c => bclp_int t segs c None CNone 0
  end.

(* ---------- text_layout.calc_pos ---------- *)
Fixpoint bcp_alt (t : list Z) (lay : layout) (pc : prefcol) (above below : list Z) : result Z :=
  match above, below with
  | a :: ar, b :: br =>
      match bcalc_line_pos t (nth (Z.to_nat a) lay []) pc with
      | Err e => Err e
      | Ok (Some p) => Ok p
      | Ok None =>
          match bcalc_line_pos t (nth (Z.to_nat b) lay []) pc with
          | Err e => Err e
          | Ok (Some p) => Ok p
          | Ok None => bcp_alt t lay pc ar br
          end
      end
  | _, _ => Ok 0
  end.

Definition bcalc_pos (t : list Z) (lay : layout) (pc : prefcol) (row : Z) : result Z :=
  if (row <? 0) || (row >=? zlen lay) then Err ValueError
  else
    match bcalc_line_pos t (nth (Z.to_nat row) lay []) pc with
    | Err e => Err e
    | Ok (Some p) => Ok p
    | Ok None =>
        bcp_alt t lay pc (down_from (Z.to_nat row)) (up_from (row + 1) (Z.to_nat (zlen lay - row - 1)))
    end.

(* ---------- Edit (bytes caption) ---------- *)

(* Edit.get_line_translation *)
Definition bget_line_translation (s : st) (w : Z) (lay : layout) : result layout :=
  if negb (shiftv s) then Ok lay
  else
    match bcalc_coords (disp s) lay (pos s + zlen (caption s)) with
    | Err e => Err e
    | Ok (x, y) =>
        if x <? 0 then
          Ok (takez y lay ++ [shift_line (nth (Z.to_nat y) lay []) (- x)] ++ dropz (y + 1) lay)
        else if x >=? w then
          Ok (takez y lay ++ [shift_line (nth (Z.to_nat y) lay []) (- (x - w + 1))] ++ dropz (y + 1) lay)
        else Ok lay
    end.

(* Edit.position_coords *)
Definition bposition_coords (s : st) (w : Z) (lay : layout) (p : Z) : result (Z * Z) :=
  match bget_line_translation s w lay with
  | Err e => Err e
  | Ok trans => bcalc_coords (disp s) trans (p + zlen (caption s))
  end.

(* Edit.get_cursor_coords: the flag is set before anything can raise *)
Definition bget_cursor_coords (s : st) (w : Z) (lay : layout) : st * result (Z * Z) :=
  let s1 := with_shiftv s true in (s1, bposition_coords s1 w lay (pos s1)).

(* Edit.get_pref_col *)
Definition bget_pref_col (s : st) (w : Z) (lay : layout) : st * result prefcol :=
  let via_cursor :=
    match bget_cursor_coords s w lay with
    | (s1, Ok (x, _)) => (s1, Ok (PInt x))
    | (s1, Err e) => (s1, Err e)
    end in
  match pref s with
  | Some (c, w') => if w' =? w then (s, Ok c) else via_cursor
  | None => via_cursor
  end.

(* Edit.move_cursor_to_coords *)
Definition bmove_cursor_to_coords (s : st) (w : Z) (lay : layout) (x : prefcol) (y : Z) : st * result bool :=
  match bget_line_translation s w lay with
  | Err e => (s, Err e)
  | Ok trans =>
      match bposition_coords s w lay 0 with
      | Err e => (s, Err e)
      | Ok (_, top_y) =>
          if (y <? top_y) || (y >=? zlen trans) then (s, Ok false)
          else
            match bcalc_pos (disp s) trans x y with
            | Err e => (s, Err e)
            | Ok p =>
                let e_pos := clampz (p - zlen (caption s)) 0 (zlen (text s)) in
                (with_pref (set_edit_pos s e_pos) (Some (x, w)), Ok true)
            end
      end
  end.

(* Edit.valid_char on the str key: is_wide_char(ch, 0) or (len(ch) == 1 and ord(ch) >= 32) *)
Definition bvalid_char (cs : list Z) : result bool :=
  match cs with
  | [] => Err IndexError
  | c :: r => Ok ((Width.cw wcw c =? 2) || (match r with [] => 32 <=? c | _ => false end))
  end.

(* Edit.keypress with a bytes caption *)
Definition bkeypress (s : st) (k : key) (w : Z) (lay : layout) : outcome :=
  let p := pos s in
  let other :=
    match k with
    | KText _ => (s, [], Ok RUnhandled)
    | KTab =>
        if allow_tab s then          (* " " * n, then _normalize_to_caption: .encode("ascii") *)
          let '(s1, sg) := insert_text s (spaces (8 - (pos s mod 8))) in (s1, sg, Ok RHandled)
        else (s, [], Ok RUnhandled)
    | KEnter =>
        if multiline s then
          let '(s1, sg) := insert_text s [10] in (s1, sg, Ok RHandled)
        else (s, [], Ok RUnhandled)
    | KLeft =>
        if p =? 0 then (s, [], Ok RUnhandled)
        else
          match Width.move_prev_char m (text s) 0 p with
          | Err e => (s, [], Err e)
          | Ok p1 => (set_edit_pos s p1, [], Ok RHandled)
          end
    | KRight =>
        if p >=? zlen (text s) then (s, [], Ok RUnhandled)
        else
          match Width.move_next_char m (text s) p (zlen (text s)) with
          | Err e => (s, [], Err e)
          | Ok p1 => (set_edit_pos s p1, [], Ok RHandled)
          end
    | KUp | KDown =>
        match bget_cursor_coords s w lay with
        | (s1, Err e) => (s1, [], Err e)
        | (s1, Ok (_, y)) =>
            match bget_pref_col s1 w lay with
            | (s2, Err e) => (s2, [], Err e)
            | (s2, Ok pc) =>
                let y' := match k with KUp => y - 1 | _ => y + 1 end in
                match bmove_cursor_to_coords s2 w lay pc y' with
                | (s3, Ok true) => (s3, [], Ok RHandled)
                | (s3, Ok false) => (s3, [], Ok RUnhandled)
                | (s3, Err e) => (s3, [], Err e)
                end
            end
        end
    | KBackspace =>
        let s0 := with_pref s None in
        if p =? 0 then (s0, [], Ok RUnhandled)
        else
          match Width.move_prev_char m (text s0) 0 p with
          | Err e => (s0, [], Err e)
          | Ok p1 =>
              let '(s1, sg) := set_edit_text s0 (takez p1 (text s0) ++ dropz (pos s0) (text s0)) in
              (set_edit_pos s1 p1, sg, Ok RHandled)
          end
    | KDelete =>
        let s0 := with_pref s None in
        if p >=? zlen (text s0) then (s0, [], Ok RUnhandled)
        else
          match Width.move_next_char m (text s0) p (zlen (text s0)) with
          | Err e => (s0, [], Err e)
          | Ok p1 =>
              let '(s1, sg) := set_edit_text s0 (takez (pos s0) (text s0) ++ dropz p1 (text s0)) in
              (s1, sg, Ok RHandled)
          end
    | KHome | KEnd =>
        let s0 := with_pref s None in
        match bget_cursor_coords s0 w lay with
        | (s1, Err e) => (s1, [], Err e)
        | (s1, Ok (_, y)) =>
            match bmove_cursor_to_coords s1 w lay (match k with KHome => PLeft | _ => PRight end) y with
            | (s2, Ok _) => (s2, [], Ok RHandled)
            | (s2, Err e) => (s2, [], Err e)
            end
        end
    end in
  match k with
  | KText cs =>
      match bvalid_char cs with
      | Err e => (s, [], Err e)
      | Ok true =>
          (* key = key.encode(get_encoding(), "replace"): never raises *)
          let '(s1, sg) := insert_text s (kenc cs) in (s1, sg, Ok RHandled)
      | Ok false => other
      end
  | _ => other
  end.

Definition bstep (s : st) (e : event) : outcome :=
  match e with
  | EKey k w lay => bkeypress s k w lay
  | EClick button col row w lay =>
      if button =? 1 then
        match bmove_cursor_to_coords s w lay (PInt col) row with
        | (s1, Ok b) => (s1, [], Ok (RBool b))
        | (s1, Err e) => (s1, [], Err e)
        end
      else (s, [], Ok (RBool false))
  | ERender focus w lay =>
      let hit := match rcache s with Some (w', f') => (w' =? w) && Bool.eqb f' focus | None => false end in
      let s1 := with_shiftv s focus in
      if hit then
        (* the cached canvas is returned: rows and cursor as a fresh render would compute them *)
        match bget_line_translation s1 w lay with
        | Err e => (s, [], Err e)
        | Ok trans =>
            if focus then
              match bget_cursor_coords s1 w lay with
              | (_, Ok (x, y)) => (s, [], Ok (RCoords x y (zlen trans)))
              | (_, Err e) => (s, [], Err e)
              end
            else (s, [], Ok (RRows (zlen trans)))
        end
      else
        match bget_line_translation s1 w lay with
        | Err e => (s1, [], Err e)
        | Ok trans =>
            if focus then
              match bget_cursor_coords s1 w lay with
              | (s2, Ok (x, y)) => (with_rcache s2 (Some (w, focus)), [], Ok (RCoords x y (zlen trans)))
              | (s2, Err e) => (s2, [], Err e)
              end
            else (with_rcache s1 (Some (w, focus)), [], Ok (RRows (zlen trans)))
        end
  | EPrefCol w lay =>
      match bget_pref_col s w lay with
      | (s1, Ok pc) => (s1, [], Ok (RPref pc))
      | (s1, Err e) => (s1, [], Err e)
      end
  | ESetPos p => (set_edit_pos s p, [], Ok RUnit)
  end.

Fixpoint brun (s : st) (es : list event) : st * list (st * list sig * result ret) :=
  match es with
  | [] => (s, [])
  | e :: r =>
      let '(s1, sg, rt) := bstep s e in
      let '(s2, outs) := brun s1 r in
      (s2, (s1, sg, rt) :: outs)
  end.

End BytesModel.

(* str.encode("utf-8", "replace") of a string: a lone surrogate becomes "?" *)
Definition utf8_encode_replace (cs : list Z) : list Z :=
  flat_map (fun c => if scalar c then utf8_encode c else [63]) cs.

(* the encoder of a double-byte / single-byte codec as a table key string -> bytes (sent by the harness) *)
Fixpoint lookup_kenc (t : list (list Z * list Z)) (cs : list Z) : list Z :=
  match t with [] => cs | (k, v) :: r => if list_eqb k cs then v else lookup_kenc r cs end.

(* ---------- wire format ----------
   100 (utf8) | 101 (wide) | 102 (narrow)  caption(bytes list) text(bytes list) pos(oz) multiline allow_tab
   nwidths (cp wcwidth)*  nkeys (key(list) bytes(list))*  event*      (the key table is ignored in utf8 mode)
   (events and replies as in Model/Edit.v); anything else is a str-mode case of Model/Edit.v *)
Fixpoint lookup_wcw (t : list (Z * Z)) (c : Z) : Z :=
  match t with [] => 1 | (k, w) :: r => if k =? c then w else lookup_wcw r c end.

Definition run_case_bytes (m : tmode) (l : list Z) : list Z :=
  match dec_list l with
  | Some (cap, r1) =>
    match dec_list r1 with
    | Some (txt, r2) =>
      match dec_oz r2 with
      | Some (p, ml :: tab :: nw :: r4) =>
        match dec_assoc_w (Z.to_nat nw) r4 with
        | Some (wt, nk :: r5) =>
          match dec_assoc_l (Z.to_nat nk) r5 with
          | Some (kt, r6) =>
            let kenc := match m with MUtf8 => utf8_encode_replace | _ => lookup_kenc kt end in
            let es := dec_events (length r6) r6 in
            let '(_, outs) := brun (lookup_wcw wt) m kenc (init cap txt p (bz ml) (bz tab) None VEdit) es in
            zlen es :: flat_map enc_out outs
          | None => [-17]
          end
        | _ => [-16]
        end
      | _ => [-14]
      end
    | None => [-13]
    end
  | None => [-12]
  end.

Definition run_case (l : list Z) : list Z :=
  match l with
  | 100 :: r => run_case_bytes MUtf8 r
  | 101 :: r => run_case_bytes MWide r
  | 102 :: r => run_case_bytes MNarrow r
  | _ => run_case_str l
  end.
