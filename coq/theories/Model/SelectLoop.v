(* Executable model of urwid.event_loop.select_loop.SelectEventLoop
   (alarm / remove_alarm / watch_file / remove_watch_file / enter_idle / remove_enter_idle /
   _entering_idle / _loop / run), written by hand line for line from the source as it is now
   and tied to it by the virtual-clock correspondence in harness/props/c13.py.

   * Callbacks are integers (identities).  What a callback does when it is called is given by a
     behaviour table  beh : id -> number of earlier calls of this id -> list action ; the
     actions are calls back into the loop (so callbacks mutate the loop while it runs), a clock
     advance, or raising ExitMainLoop / another exception.
   * The environment is an explicit input: the virtual clock [now] and one [step] per call of
     selector.select(): the descriptors that are readable and a delay.
   * Everything observable is appended to [rtrace] (newest first).
   No proofs in this file. *)
From Coq Require Import ZArith List Bool.
Import ListNotations.
From Urwid Require Import PyBase.
Open Scope Z_scope.

(* ---------- callback scripts ---------- *)
Inductive action :=
  | Nop
  | AddAlarm (dt id : Z)        (* h = loop.alarm(dt, cb_id) ; handles are numbered in creation order *)
  | RemoveAlarm (h : Z)         (* loop.remove_alarm(h-th handle created) *)
  | AddWatch (fd id : Z)        (* loop.watch_file(fd, cb_id) *)
  | RemoveWatch (fd : Z)        (* loop.remove_watch_file(fd) *)
  | AddIdle (id : Z)            (* loop.enter_idle(cb_id) *)
  | RemoveIdle (h : Z)          (* loop.remove_enter_idle(h) *)
  | Sleep (d : Z)               (* the callback takes d ticks of (virtual) time *)
  | RaiseExit                   (* raise ExitMainLoop() *)
  | RaiseOther.                 (* raise SomeOtherException() *)

(* ---------- observable events ---------- *)
Inductive event :=
  | EAlarmSet (tie due id : Z)                 (* alarm() returned the handle (due, tie, cb id) *)
  | ERmAlarm (tie : Z) (ok : bool)             (* remove_alarm(handle #tie) returned ok *)
  | EWatchSet (fd id : Z)                      (* watch_file(fd, cb id) *)
  | ERmWatch (fd : Z) (ok : bool)
  | EIdleSet (h id : Z)                        (* enter_idle(cb id) returned h *)
  | ERmIdle (h : Z) (ok : bool)
  | ESelect (timeout : option Z) (regs : list Z) (t : Z) (ready : list Z)
      (* select(timeout) called at clock t with regs registered; it returned ready *)
  | EAlarmCall (tie id t : Z)                  (* the callback of alarm #tie started at clock t *)
  | EWatchCall (fd id t : Z)
  | EIdleCall (h id t : Z)
  | ERaise (is_exit : bool).                   (* the running callback raises *)

Inductive signal := SCont | SExit | SOther.

Inductive outcome :=
  | OReturned      (* run() returned (ExitMainLoop swallowed) *)
  | ORaised        (* the other exception left run() *)
  | OEnvEnd        (* environment script exhausted: select() had no step left *)
  | OBlocked       (* select() without timeout and nothing registered is readable: blocks for ever *)
  | OSpin          (* nothing to wait for: _loop does nothing, run() spins for ever *)
  | OKeyError.     (* KeyError left run() although no callback raised: produced by no model since the fix of ZMQEventLoop._loop; kept as an outcome code of the harness *)

(* ---------- state ---------- *)
Record alarm_t := mkAlarm { a_due : Z; a_tie : Z; a_cb : Z }.

Record state := mkState {
  alarms : list alarm_t;      (* self._alarms : a heap of (time, tie_break, callback) tuples, kept here
                                 sorted by (time, tie_break), the order in which heapq pops them *)
  tie : Z;                    (* next value of self._tie_break *)
  watch : list (Z * Z);       (* self._watch_files : dict fd -> callback, insertion ordered *)
  idle_handle : Z;            (* self._idle_handle *)
  idles : list (Z * Z);       (* self._idle_callbacks : dict handle -> callback, insertion ordered *)
  did : bool;                 (* self._did_something *)
  now : Z;                    (* the clock read by time.time() *)
  rtrace : list event         (* observable history, newest first *)
}.

Definition init : state := mkState [] 0 [] 0 [] false 0 [].

Definition set_alarms v s := mkState v (tie s) (watch s) (idle_handle s) (idles s) (did s) (now s) (rtrace s).
Definition set_tie v s := mkState (alarms s) v (watch s) (idle_handle s) (idles s) (did s) (now s) (rtrace s).
Definition set_watch v s := mkState (alarms s) (tie s) v (idle_handle s) (idles s) (did s) (now s) (rtrace s).
Definition set_idle_handle v s := mkState (alarms s) (tie s) (watch s) v (idles s) (did s) (now s) (rtrace s).
Definition set_idles v s := mkState (alarms s) (tie s) (watch s) (idle_handle s) v (did s) (now s) (rtrace s).
Definition set_did v s := mkState (alarms s) (tie s) (watch s) (idle_handle s) (idles s) v (now s) (rtrace s).
Definition set_now v s := mkState (alarms s) (tie s) (watch s) (idle_handle s) (idles s) (did s) v (rtrace s).
Definition log (e : event) s := mkState (alarms s) (tie s) (watch s) (idle_handle s) (idles s) (did s) (now s) (e :: rtrace s).

(* ---------- dict helpers (insertion-ordered association lists) ---------- *)
Fixpoint lookup (k : Z) (d : list (Z * Z)) : option Z :=
  match d with
  | [] => None
  | (k', v) :: r => if k' =? k then Some v else lookup k r
  end.
Definition mem (k : Z) (d : list (Z * Z)) : bool :=
  match lookup k d with Some _ => true | None => false end.
(* d[k] = v *)
Fixpoint dict_set (k v : Z) (d : list (Z * Z)) : list (Z * Z) :=
  match d with
  | [] => [(k, v)]
  | (k', v') :: r => if k' =? k then (k, v) :: r else (k', v') :: dict_set k v r
  end.
(* del d[k] *)
Fixpoint dict_del (k : Z) (d : list (Z * Z)) : list (Z * Z) :=
  match d with
  | [] => []
  | (k', v') :: r => if k' =? k then r else (k', v') :: dict_del k r
  end.

(* ---------- the alarm heap ---------- *)
(* tuple comparison (time, tie_break, callback) < (time', tie_break', callback') ; tie_break values
   are unique, so the callbacks are never compared *)
Definition alarm_lt (a b : alarm_t) : bool :=
  (a_due a <? a_due b) || ((a_due a =? a_due b) && (a_tie a <? a_tie b)).

(* heapq.heappush *)
Fixpoint heap_insert (a : alarm_t) (l : list alarm_t) : list alarm_t :=
  match l with
  | [] => [a]
  | b :: r => if alarm_lt a b then a :: l else b :: heap_insert a r
  end.

Definition has_tie (k : Z) (l : list alarm_t) : bool := existsb (fun a => a_tie a =? k) l.

(* list.remove(handle) (first match) followed by heapify *)
Fixpoint remove_tie (k : Z) (l : list alarm_t) : list alarm_t :=
  match l with
  | [] => []
  | a :: r => if a_tie a =? k then r else a :: remove_tie k r
  end.

(* ---------- the public methods ---------- *)
(* SelectEventLoop.alarm *)
Definition op_alarm (dt id : Z) (s : state) : state :=
  let tm := now s + dt in
  let k := tie s in
  log (EAlarmSet k tm id) (set_tie (k + 1) (set_alarms (heap_insert (mkAlarm tm k id) (alarms s)) s)).

(* SelectEventLoop.remove_alarm ; the handle is identified by its tie_break number *)
Definition op_remove_alarm (k : Z) (s : state) : state :=
  if has_tie k (alarms s)
  then log (ERmAlarm k true) (set_alarms (remove_tie k (alarms s)) s)
  else log (ERmAlarm k false) s.

(* SelectEventLoop.watch_file *)
Definition op_watch (fd id : Z) (s : state) : state :=
  log (EWatchSet fd id) (set_watch (dict_set fd id (watch s)) s).

(* SelectEventLoop.remove_watch_file *)
Definition op_remove_watch (fd : Z) (s : state) : state :=
  if mem fd (watch s)
  then log (ERmWatch fd true) (set_watch (dict_del fd (watch s)) s)
  else log (ERmWatch fd false) s.

(* SelectEventLoop.enter_idle *)
Definition op_idle (id : Z) (s : state) : state :=
  let h := idle_handle s + 1 in
  log (EIdleSet h id) (set_idles (idles s ++ [(h, id)]) (set_idle_handle h s)).

(* SelectEventLoop.remove_enter_idle *)
Definition op_remove_idle (h : Z) (s : state) : state :=
  if mem h (idles s)
  then log (ERmIdle h true) (set_idles (dict_del h (idles s)) s)
  else log (ERmIdle h false) s.

(* ---------- running a callback ---------- *)
Definition exec_action (a : action) (s : state) : state * signal :=
  match a with
  | Nop => (s, SCont)
  | AddAlarm dt id => (op_alarm dt id s, SCont)
  | RemoveAlarm h => (op_remove_alarm h s, SCont)
  | AddWatch fd id => (op_watch fd id s, SCont)
  | RemoveWatch fd => (op_remove_watch fd s, SCont)
  | AddIdle id => (op_idle id s, SCont)
  | RemoveIdle h => (op_remove_idle h s, SCont)
  | Sleep d => (set_now (now s + Z.max 0 d) s, SCont)
  | RaiseExit => (log (ERaise true) s, SExit)
  | RaiseOther => (log (ERaise false) s, SOther)
  end.

Fixpoint run_actions (acts : list action) (s : state) : state * signal :=
  match acts with
  | [] => (s, SCont)
  | a :: r =>
    match exec_action a s with
    | (s', SCont) => run_actions r s'
    | x => x
    end
  end.

Definition call_id (e : event) : option Z :=
  match e with
  | EAlarmCall _ id _ | EWatchCall _ id _ | EIdleCall _ id _ => Some id
  | _ => None
  end.

(* how many times callback [id] was called before *)
Fixpoint ncalls (id : Z) (tr : list event) : Z :=
  match tr with
  | [] => 0
  | e :: r => (match call_id e with Some i => if i =? id then 1 else 0 | None => 0 end) + ncalls id r
  end.

Definition behaviour := Z -> Z -> list action.

(* callback() : the call is logged, then the script of this call runs *)
Definition run_cb (beh : behaviour) (e : event) (id : Z) (s : state) : state * signal :=
  let n := ncalls id (rtrace s) in
  run_actions (beh id n) (log e s).

(* SelectEventLoop._entering_idle :
     for handle, callback in list(self._idle_callbacks.items()):
         if handle in self._idle_callbacks: callback() *)
Fixpoint idle_round (beh : behaviour) (snap : list (Z * Z)) (s : state) : state * signal :=
  match snap with
  | [] => (s, SCont)
  | (h, id) :: r =>
    if mem h (idles s) then
      match run_cb beh (EIdleCall h id (now s)) id s with
      | (s', SCont) => idle_round beh r s'
      | x => x
      end
    else idle_round beh r s
  end.

(* for record in ready:
       if record.fileobj not in self._watch_files: continue
       record.data(); self._did_something = True *)
Fixpoint process_ready (beh : behaviour) (ready : list (Z * Z)) (s : state) : state * signal :=
  match ready with
  | [] => (s, SCont)
  | (fd, id) :: r =>
    if mem fd (watch s) then
      match run_cb beh (EWatchCall fd id (now s)) id s with
      | (s', SCont) => process_ready beh r (set_did true s')
      | x => x
      end
    else process_ready beh r s
  end.

(* ---------- the environment ---------- *)
Record step := mkStep { s_dt : Z; s_fds : list Z }.

(* selector.select(timeout) with [regs] registered (fd -> data), environment step [st]:
   the readable descriptors are those of the step that are registered, in the step's order;
   - something is readable: the clock advances by the step's delay, at most by the timeout;
   - nothing is readable: a select without timeout blocks for ever (None); otherwise the clock
     advances by the timeout plus the step's delay (select never returns early, it may be late) *)
Definition do_select (timeout : option Z) (regs : list (Z * Z)) (st : step) (s : state)
  : state * option (list (Z * Z)) :=
  let d := Z.max 0 (s_dt st) in
  let ready := flat_map (fun fd => match lookup fd regs with Some id => [(fd, id)] | None => [] end) (s_fds st) in
  let ev := ESelect timeout (map fst regs) (now s) (map fst ready) in
  match ready, timeout with
  | [], None => (log ev s, None)
  | [], Some t => (set_now (now s + t + d) (log ev s), Some [])
  | _, None => (set_now (now s + d) (log ev s), Some ready)
  | _, Some t => (set_now (now s + Z.min d t) (log ev s), Some ready)
  end.

(* ---------- SelectEventLoop._loop ---------- *)
Inductive tm_t := TmNone | TmIdle | TmAlarm.

(* the part of _loop before select(): Some (timeout, tm) when select is called, None when not *)
Definition plan (s : state) : option (option Z * tm_t) :=
  match alarms s, did s with
  | [], false =>
      match watch s with
      | [] => None                              (* else: ready = [] *)
      | _ => Some (None, TmNone)                (* elif self._watch_files: select() *)
      end
  | al, d =>                                    (* if self._alarms or self._did_something: *)
      let '(timeout, tm) :=
        match al with
        | [] => (0, TmNone)
        | a :: _ => (Z.max 0 (a_due a - now s), TmAlarm)
        end in
      if d && (match al with [] => true | _ => 0 <? timeout end)
      then Some (Some 0, TmIdle)
      else Some (Some timeout, tm)
  end.

(* the part of _loop after select() *)
Definition after_select (beh : behaviour) (tm : tm_t) (ready : list (Z * Z)) (s : state) : state * signal :=
  let '(s1, sig) :=
    match ready with
    | [] =>
      match tm with
      | TmIdle =>
          match idle_round beh (idles s) s with
          | (s', SCont) => (set_did false s', SCont)
          | x => x
          end
      | TmAlarm =>
          match alarms s with
          | a :: rest =>                        (* heapq.heappop(self._alarms) *)
              match run_cb beh (EAlarmCall (a_tie a) (a_cb a) (now s)) (a_cb a) (set_alarms rest s) with
              | (s', SCont) => (set_did true s', SCont)
              | x => x
              end
          | [] => (s, SCont)                    (* unreachable: tm is an alarm time only when _alarms is non-empty *)
          end
      | TmNone => (s, SCont)
      end
    | _ => (s, SCont)
    end in
  match sig with
  | SCont => process_ready beh ready s1
  | _ => (s1, sig)
  end.

(* SelectEventLoop.run : while True: self._loop() ; one environment step per select() *)
Fixpoint run_loop (beh : behaviour) (env : list step) (s : state) : state * outcome :=
  match plan s with
  | None => (s, OSpin)
  | Some (timeout, tm) =>
    match env with
    | [] => (log (ESelect timeout (map fst (watch s)) (now s) []) s, OEnvEnd)
    | st :: env' =>
      match do_select timeout (watch s) st s with
      | (s1, None) => (s1, OBlocked)
      | (s1, Some ready) =>
        match after_select beh tm ready s1 with
        | (s2, SCont) => run_loop beh env' s2
        | (s2, SExit) => (s2, OReturned)
        | (s2, SOther) => (s2, ORaised)
        end
      end
    end
  end.

Definition run (beh : behaviour) (env : list step) (s : state) : state * outcome :=
  run_loop beh env (set_did true s).

(* a whole scenario: calls made before run(), then run() *)
Definition scenario (setup : list action) (beh : behaviour) (env : list step) : state * outcome :=
  run beh env (fst (run_actions setup init)).

(* ---------- wire format ---------- *)
Definition dec_action (c a b : Z) : action :=
  if c =? 1 then AddAlarm a b else
  if c =? 2 then RemoveAlarm a else
  if c =? 3 then AddWatch a b else
  if c =? 4 then RemoveWatch a else
  if c =? 5 then AddIdle a else
  if c =? 6 then RemoveIdle a else
  if c =? 7 then Sleep a else
  if c =? 8 then RaiseExit else
  if c =? 9 then RaiseOther else Nop.

(* n actions, 3 integers each *)
Fixpoint dec_actions (n : nat) (l : list Z) : list action * list Z :=
  match n with
  | O => ([], l)
  | S n' =>
    match l with
    | c :: a :: b :: r => let '(acts, r') := dec_actions n' r in (dec_action c a b :: acts, r')
    | _ => ([], [])
    end
  end.

(* behaviour table: entries (id, when, actions) ; when = -1 matches every call *)
Definition beh_entry := (Z * Z * list action)%type.
Fixpoint dec_beh (n : nat) (l : list Z) : list beh_entry * list Z :=
  match n with
  | O => ([], l)
  | S n' =>
    match l with
    | id :: w :: k :: r =>
        let '(acts, r1) := dec_actions (Z.to_nat k) r in
        let '(es, r2) := dec_beh n' r1 in
        ((id, w, acts) :: es, r2)
    | _ => ([], [])
    end
  end.
Fixpoint beh_of (tbl : list beh_entry) (id n : Z) : list action :=
  match tbl with
  | [] => []
  | (i, w, acts) :: r => if (i =? id) && ((w =? -1) || (w =? n)) then acts else beh_of r id n
  end.

Fixpoint dec_env (n : nat) (l : list Z) : list step :=
  match n with
  | O => []
  | S n' =>
    match l with
    | dt :: k :: r => mkStep dt (takez k r) :: dec_env n' (dropz k r)
    | _ => []
    end
  end.

Definition enc_event (e : event) : list Z :=
  match e with
  | EAlarmSet k due id => [1; k; due; id]
  | ERmAlarm k ok => [2; k; enc_bool ok]
  | EWatchSet fd id => [3; fd; id]
  | ERmWatch fd ok => [4; fd; enc_bool ok]
  | EIdleSet h id => [5; h; id]
  | ERmIdle h ok => [6; h; enc_bool ok]
  | ESelect timeout regs t ready => 7 :: enc_oz timeout ++ enc_list regs ++ [t] ++ enc_list ready
  | EAlarmCall k id t => [8; k; id; t]
  | EWatchCall fd id t => [9; fd; id; t]
  | EIdleCall h id t => [10; h; id; t]
  | ERaise b => [11; enc_bool b]
  end.

Definition enc_outcome (o : outcome) : Z :=
  match o with OReturned => 0 | ORaised => 1 | OEnvEnd => 2 | OBlocked => 3 | OSpin => 4 | OKeyError => 5 end.

Definition enc_result (r : state * outcome) : list Z :=
  let '(s, o) := r in
  [enc_outcome o; enc_bool (did s); now s]
    ++ enc_list (flat_map (fun a => [a_due a; a_tie a; a_cb a]) (alarms s))
    ++ enc_list (flat_map (fun p => [fst p; snd p]) (watch s))
    ++ enc_list (flat_map (fun p => [fst p; snd p]) (idles s))
    ++ [zlen (rtrace s)] ++ flat_map enc_event (rev (rtrace s)).

(* case = nsetup, setup actions, nbeh, behaviour entries, nenv, environment steps *)
Definition run_select_case (l : list Z) : list Z :=
  match l with
  | ns :: r0 =>
    let '(setup, r1) := dec_actions (Z.to_nat ns) r0 in
    match r1 with
    | nb :: r2 =>
      let '(tbl, r3) := dec_beh (Z.to_nat nb) r2 in
      match r3 with
      | ne :: r4 => enc_result (scenario setup (beh_of tbl) (dec_env (Z.to_nat ne) r4))
      | _ => [-1]
      end
    | _ => [-1]
    end
  | _ => [-1]
  end.

