(* C05 - terminal input decoding: executable model of
     urwid/display/escape.py   KeyqueueTrie (add/get/get_recurse/read_mouse_info/read_sgrmouse_info/
                               read_cursor_position), process_keyqueue
     urwid/str_util.py         within_double_byte
     urwid/display/_raw_display_base.py   Screen.parse_input + _partial_codes + the completion alarm
   No proofs here.  The sequence table, _keyconv and the MOUSE_* constants come from
   Gen/escape_table_gen.v, regenerated from escape.py on every run.
   Strings are lists of code points; byte streams are lists of Z. *)
From Coq Require Import ZArith List Bool String Ascii.
Import ListNotations.
From Urwid Require Import PyBase PyList escape_table_gen str_loops_gen.
Open Scope Z_scope.

(* ---------- strings ---------- *)
Definition s2z (s : string) : list Z := map (fun a => Z.of_N (N_of_ascii a)) (list_ascii_of_string s).

Fixpoint zs_eqb (a b : list Z) : bool :=
  match a, b with
  | [], [] => true
  | x :: a', y :: b' => (x =? y) && zs_eqb a' b'
  | _, _ => false
  end.

Fixpoint is_prefix (p l : list Z) : bool :=
  match p, l with
  | [], _ => true
  | a :: p', b :: l' => (a =? b) && is_prefix p' l'
  | _ :: _, [] => false
  end.

(* needle in hay  /  hay.find(needle) >= 0 *)
Fixpoint contains_sub (needle hay : list Z) : bool :=
  is_prefix needle hay || match hay with [] => false | _ :: t => contains_sub needle t end.

(* f"{n:d}" *)
Fixpoint pos_dec (fuel : nat) (n : Z) (acc : list Z) : list Z :=
  match fuel with
  | O => acc
  | S f => if n <? 10 then (48 + n) :: acc else pos_dec f (n / 10) ((48 + n mod 10) :: acc)
  end.
Definition z_to_dec (n : Z) : list Z :=
  if n <? 0 then 45 :: pos_dec (S (Z.to_nat (Z.log2 (- n)))) (- n) []
  else pos_dec (S (Z.to_nat (Z.log2 n))) n [].

(* ---------- outcomes and events ---------- *)
Inductive outcome (A : Type) := OOk (a : A) | OMore | OErr (e : errkind).
Arguments OOk {A} a.
Arguments OMore {A}.
Arguments OErr {A} e.

(* what process_keyqueue puts in its result list: a key name (str), a mouse event
   (name, button, x, y), ("cursor position", x, y), or None (only _keyconv[-1]) *)
Inductive event :=
  | Key (name : list Z)
  | Mouse (name : list Z) (button x y : Z)
  | CursorPos (x y : Z)
  | KNone.

(* str_util.get_byte_encoding() *)
Inductive encoding := Utf8 | Wide | Narrow.
Definition enc_is_wide (em : encoding) : bool := match em with Wide => true | _ => false end.
Definition enc_is_utf8 (em : encoding) : bool := match em with Utf8 => true | _ => false end.

(* ---------- KeyqueueTrie ---------- *)
Inductive trie := TLeaf (name : list Z) | TNode (children : list (Z * trie)).

Fixpoint assoc {B : Type} (k : Z) (l : list (Z * B)) : option B :=
  match l with
  | [] => None
  | (k', v) :: r => if k =? k' then Some v else assoc k r
  end.

Fixpoint assoc_set {B : Type} (k : Z) (v : B) (l : list (Z * B)) : list (Z * B) :=
  match l with
  | [] => [(k, v)]
  | (k', v') :: r => if k =? k' then (k, v) :: r else (k', v') :: assoc_set k v r
  end.

(* KeyqueueTrie.add(root, s, result) *)
Fixpoint trie_add (root : trie) (s : list Z) (res : list Z) {struct s} : result trie :=
  match root, s with
  | TLeaf _, _ => Err RuntimeErrorK                 (* not isinstance(root, MutableMapping) *)
  | TNode _, [] => Err RuntimeErrorK                (* not s *)
  | TNode ch, c :: s' =>
      match assoc c ch with
      | Some sub =>                                   (* ord(s[0]) in root *)
          bind (trie_add sub s' res) (fun sub' => Ok (TNode (assoc_set c sub' ch)))
      | None =>
          match s' with
          | _ :: _ =>                                 (* len(s) > 1 *)
              bind (trie_add (TNode []) s' res) (fun d => Ok (TNode (ch ++ [(c, d)])))
          | [] => Ok (TNode (ch ++ [(c, TLeaf res)])) (* root[ord(s)] = result *)
          end
      end
  end.

(* KeyqueueTrie.__init__ *)
Fixpoint trie_build_from (root : trie) (seqs : list (list Z * list Z)) : result trie :=
  match seqs with
  | [] => Ok root
  | (s, r) :: rest => bind (trie_add root s r) (fun root' => trie_build_from root' rest)
  end.
Definition trie_build (seqs : list (list Z * list Z)) : result trie := trie_build_from (TNode []) seqs.

(* input_trie = KeyqueueTrie(input_sequences) *)
Definition input_trie : trie :=
  match trie_build input_sequences with Ok t => t | Err _ => TNode [] end.

Definition str_shift := s2z "shift ".
Definition str_meta := s2z "meta ".
Definition str_ctrl := s2z "ctrl ".
Definition str_double := s2z "double ".
Definition str_triple := s2z "triple ".
Definition str_mouse := s2z "mouse".
Definition str_mouse_sp := s2z "mouse ".
Definition str_sgrmouse := s2z "sgrmouse".
Definition str_release := s2z "release".
Definition str_drag := s2z "drag".
Definition str_click := s2z "click".
Definition str_press := s2z "press".
Definition str_esc := s2z "esc".

Definition bit_set (b mask : Z) : bool := negb (Z.land b mask =? 0).

(* the body of KeyqueueTrie.read_mouse_info once three codes are available *)
Definition x10_event (k0 k1 k2 : Z) : event :=
  let b := k0 - 32 in
  let x := (k1 - 33) mod 256 in
  let y := (k2 - 33) mod 256 in
  let prefix :=
    (if bit_set b 4 then str_shift else []) ++
    (if bit_set b 8 then str_meta else []) ++
    (if bit_set b 16 then str_ctrl else []) ++
    (if Z.shiftr (Z.land b MOUSE_MULTIPLE_CLICK_MASK) 9 =? 1 then str_double else []) ++
    (if Z.shiftr (Z.land b MOUSE_MULTIPLE_CLICK_MASK) 9 =? 2 then str_triple else []) in
  let button0 := Z.land b 64 / 64 * 3 + Z.land b 3 + 1 in
  let '(action, button) :=
    if Z.land b 3 =? 3 then (str_release, 0)
    else if bit_set b MOUSE_RELEASE_FLAG then (str_release, button0)
    else if bit_set b MOUSE_DRAG_FLAG then (str_drag, button0)
    else if bit_set b MOUSE_MULTIPLE_CLICK_MASK then (str_click, button0)
    else (str_press, button0) in
  Mouse (prefix ++ str_mouse_sp ++ action) button x y.

(* KeyqueueTrie.read_mouse_info *)
Definition read_mouse_info (keys : list Z) (more : bool) : outcome (option (event * list Z)) :=
  match keys with
  | k0 :: k1 :: k2 :: rest => OOk (Some (x10_event k0 k1 k2, rest))
  | _ => if more then OMore else OOk None           (* len(keys) < 3 *)
  end.

(* the `for k in keys` scan of read_sgrmouse_info: (value[:-1], value[-1], keys[pos_m+1:]) *)
Fixpoint sgr_scan (keys : list Z) : option (list Z * Z * list Z) :=
  match keys with
  | [] => None
  | k :: r =>
      if (k =? 77) || (k =? 109) then Some ([], k, r)
      else match sgr_scan r with
           | Some (v, t, r') => Some (k :: v, t, r')
           | None => None
           end
  end.

(* str.split(sep) for a one-character separator *)
Fixpoint split_on (sep : Z) (l : list Z) : list (list Z) :=
  match l with
  | [] => [[]]
  | c :: r =>
      if c =? sep then [] :: split_on sep r
      else match split_on sep r with
           | p :: ps => (c :: p) :: ps
           | [] => [[c]]
           end
  end.

(* int(str) for a str of code points < 256 (CPython 3.12, base 10): surrounding whitespace
   (\t\n\v\f\r, space, \x85, \xa0), one optional sign, digits with single underscores between
   digits, at most sys.get_int_max_str_digits() = 4300 digits.  None = ValueError. *)
Definition is_int_space (c : Z) : bool :=
  ((9 <=? c) && (c <=? 13)) || (c =? 32) || (c =? 133) || (c =? 160).
Fixpoint lstrip_space (l : list Z) : list Z :=
  match l with
  | c :: r => if is_int_space c then lstrip_space r else l
  | [] => []
  end.
Definition strip_space (l : list Z) : list Z := rev (lstrip_space (rev (lstrip_space l))).
Fixpoint int_digits (l : list Z) (prev_digit : bool) (acc n : Z) : option (Z * Z) :=
  match l with
  | [] => if prev_digit then Some (acc, n) else None
  | c :: r =>
      if (48 <=? c) && (c <=? 57) then int_digits r true (acc * 10 + (c - 48)) (n + 1)
      else if (c =? 95) && prev_digit then int_digits r false acc n
      else None
  end.
Definition INT_MAX_STR_DIGITS : Z := 4300.
Definition py_int (s : list Z) : option Z :=
  let s := strip_space s in
  let '(sign, ds) := match s with
                     | c :: r => if c =? 43 then (1, r) else if c =? 45 then (-1, r) else (1, s)
                     | [] => (1, s)
                     end in
  match int_digits ds false 0 0 with
  | Some (v, n) => if INT_MAX_STR_DIGITS <? n then None else Some (sign * v)
  | None => None
  end.

(* the part of read_sgrmouse_info after the scan: value[:-1] = body, value[-1] = action.
   None = `except ValueError: return None` *)
Definition sgr_event (body : list Z) (action : Z) : outcome (option event) :=
  match map py_int (split_on 59 body) with
  | [Some b; Some x; Some y] =>
      let prefix :=
        (if bit_set b 4 then str_shift else []) ++
        (if bit_set b 8 then str_meta else []) ++
        (if bit_set b 16 then str_ctrl else []) in
      let wheel_used := Z.shiftr (Z.land b 64) 6 in
      let button := wheel_used * 3 + Z.land b 3 + 1 in
      let x := x - 1 in
      let y := y - 1 in
      if action =? 77 then
        OOk (Some (Mouse (prefix ++ str_mouse_sp ++ (if bit_set b MOUSE_DRAG_FLAG then str_drag else str_press)) button x y))
      else if action =? 109 then
        OOk (Some (Mouse (prefix ++ str_mouse_sp ++ str_release) button x y))
      else OErr ValueError                          (* raise ValueError("Unknown mouse action") *)
  | _ => OOk None
  end.

(* KeyqueueTrie.read_sgrmouse_info *)
Definition read_sgrmouse_info (keys : list Z) (more : bool) : outcome (option (event * list Z)) :=
  match keys with
  | [] => if more then OMore else OOk None
  | _ :: _ =>
      match sgr_scan keys with
      | None => if more then OMore else OOk None    (* not found_m *)
      | Some (body, action, rest) =>
          match sgr_event body action with
          | OOk (Some ev) => OOk (Some (ev, rest))
          | OOk None => OOk None
          | OMore => OMore
          | OErr e => OErr e
          end
      end
  end.

(* KeyqueueTrie.get_recurse *)
Fixpoint get_recurse (root : trie) (keys : list Z) (more : bool) {struct keys}
  : outcome (option (event * list Z)) :=
  match root with
  | TLeaf name =>
      if zs_eqb name str_mouse then read_mouse_info keys more
      else if zs_eqb name str_sgrmouse then read_sgrmouse_info keys more
      else OOk (Some (Key name, keys))
  | TNode ch =>
      match keys with
      | [] => if more then OMore else OOk None
      | k :: keys' =>
          match assoc k ch with
          | None => OOk None
          | Some sub => get_recurse sub keys' more
          end
      end
  end.

(* the two loops of read_cursor_position *)
Inductive cpr_y_res := CYNone | CYBreak (y : Z) (rest : list Z) | CYEnd (y : Z).
Fixpoint cpr_y (keys : list Z) (y : Z) : cpr_y_res :=
  match keys with
  | [] => CYEnd y
  | k :: r =>
      if k =? 59 then (if y =? 0 then CYNone else CYBreak y r)
      else if (k <? 48) || (57 <? k) then CYNone
      else if (y =? 0) && (k =? 48) then CYNone
      else cpr_y r (y * 10 + k - 48)
  end.
Inductive cpr_x_res := CXNone | CXDone (x : Z) (rest : list Z) | CXEnd.
Fixpoint cpr_x (keys : list Z) (x : Z) : cpr_x_res :=
  match keys with
  | [] => CXEnd
  | k :: r =>
      if k =? 82 then (if x =? 0 then CXNone else CXDone x r)
      else if (k <? 48) || (57 <? k) then CXNone
      else if (x =? 0) && (k =? 48) then CXNone
      else cpr_x r (x * 10 + k - 48)
  end.

(* KeyqueueTrie.read_cursor_position *)
Definition read_cursor_position (keys : list Z) (more : bool) : outcome (option (event * list Z)) :=
  match keys with
  | [] => if more then OMore else OOk None
  | k0 :: r =>
      if negb (k0 =? 91) then OOk None
      else match cpr_y r 0 with
           | CYNone => OOk None
           | CYEnd _ => if more then OMore else OOk None
           | CYBreak y r2 =>
               match r2 with
               | [] => if more then OMore else OOk None
               | _ :: _ =>
                   match cpr_x r2 0 with
                   | CXNone => OOk None
                   | CXDone x rest => OOk (Some (CursorPos (x - 1) (y - 1), rest))
                   | CXEnd => if more then OMore else OOk None
                   end
               end
           end
  end.

(* KeyqueueTrie.get *)
Definition trie_get_in (root : trie) (keys : list Z) (more : bool) : outcome (option (event * list Z)) :=
  match get_recurse root keys more with
  | OOk (Some r) => OOk (Some r)
  | OOk None => read_cursor_position keys more
  | OMore => OMore
  | OErr e => OErr e
  end.
Definition trie_get := trie_get_in input_trie.

(* ---------- str_util.within_double_byte ---------- *)
(* NOT hand-written: [within_double_byte_gen] is the py2v translation of str_util.within_double_byte
   (Gen/str_loops_gen.v, regenerated from the source on every run; shared with C11).  The first
   argument is the recursion fuel: the function recurses at most once (on a byte >= 0x81). *)
Definition within_double_byte (text : list Z) (line_start pos : Z) : result Z :=
  within_double_byte_gen 3 text line_start pos.

(* ---------- process_keyqueue ---------- *)
Definition angle (code : Z) : event := Key (60 :: z_to_dec code ++ [62]).   (* f"<{code:d}>" *)

Definition res := (list event * list Z)%type.

(* the double-byte block; None = fall through to the following statements.
   em == "wide" and code < 256 and within_double_byte(code.to_bytes(1, "little"), 0, 0);
   if codes[1:] and codes[1] < 256: ... if within_double_byte(bytes(codes[:2]), 0, 1): return [db], codes[2:] *)
Definition wide_step (em : encoding) (code : Z) (tl : list Z) (more : bool) : option (outcome res) :=
  if enc_is_wide em && (code <? 256) then
    match within_double_byte [code] 0 0 with
    | Err e => Some (OErr e)
    | Ok r1 =>
        if negb (r1 =? 0) then
          match tl with
          | [] => if more then Some OMore else None
          | k :: r =>
              if k <? 256 then
                match within_double_byte [code; k] 0 1 with
                | Err e => Some (OErr e)
                | Ok r2 => if negb (r2 =? 0) then Some (OOk ([Key [code; k]], r)) else None
                end
              else None
          end
        else None
    end
  else None.

Inductive u8 := U8Missing | U8Bad | U8Good.
(* for i in range(1, need_more + 1): len(codes) <= i / k > 256 or k & 0xC0 != 0x80 *)
Fixpoint utf8_check (need : nat) (tl : list Z) : u8 :=
  match need with
  | O => U8Good
  | S n =>
      match tl with
      | [] => U8Missing
      | k :: r => if (256 <? k) || negb (Z.land k 192 =? 128) then U8Bad else utf8_check n r
      end
  end.

Fixpoint utf8_acc (acc : Z) (conts : list Z) : Z :=
  match conts with
  | [] => acc
  | k :: r => utf8_acc (acc * 64 + Z.land k 63) r
  end.

(* bytes([code] + conts).decode("utf-8") once the lead/continuation structure has been checked:
   fails exactly for overlong forms, surrogates and code points above U+10FFFF *)
Definition utf8_decode (code : Z) (need : nat) (conts : list Z) : option Z :=
  match need with
  | 1%nat => let cp := utf8_acc (Z.land code 31) conts in if cp <? 128 then None else Some cp
  | 2%nat => let cp := utf8_acc (Z.land code 15) conts in
             if (cp <? 2048) || ((55296 <=? cp) && (cp <=? 57343)) then None else Some cp
  | 3%nat => let cp := utf8_acc (Z.land code 7) conts in
             if (cp <? 65536) || (1114111 <? cp) then None else Some cp
  | _ => None
  end.

Definition utf8_step (em : encoding) (code : Z) (tl : list Z) (more : bool) : option (outcome res) :=
  if enc_is_utf8 em && (127 <? code) && (code <? 256) then
    let need := if Z.land code 224 =? 192 then Some 1%nat
                else if Z.land code 240 =? 224 then Some 2%nat
                else if Z.land code 248 =? 240 then Some 3%nat
                else None in
    match need with
    | None => Some (OOk ([angle code], tl))
    | Some n =>
        match utf8_check n tl with
        | U8Missing => if more then Some OMore else Some (OOk ([angle code], tl))
        | U8Bad => Some (OOk ([angle code], tl))
        | U8Good =>
            match utf8_decode code n (firstn n tl) with
            | Some cp => Some (OOk ([Key [cp]], skipn n tl))
            | None => Some (OOk ([angle code], tl))        (* except UnicodeDecodeError *)
            end
        end
    end
  else None.

(* the "Meta keys -- ESC+Key form" block, after the recursive call returned (run, remaining_codes) *)
Definition meta_wrap (run : list event) (rest : list Z) : outcome res :=
  match run with
  | [] => OErr IndexError                           (* run[0] *)
  | r0 :: rt =>
      match r0 with
      | Key s =>
          if zs_eqb s str_esc || contains_sub str_meta s then OOk (Key str_esc :: run, rest)
          else OOk (Key (str_meta ++ s) :: rt, rest)
      | _ => OOk (Key str_esc :: run, rest)         (* not isinstance(run[0], str): mouse event / cursor position tuple *)
      end
  end.

(* process_keyqueue(codes, more_available) *)
Fixpoint process_keyqueue (em : encoding) (codes : list Z) (more : bool) {struct codes} : outcome res :=
  match codes with
  | [] => OErr IndexError                           (* codes[0] *)
  | code :: tl =>
      if (32 <=? code) && (code <=? 126) then OOk ([Key [code]], tl)
      else match assoc code keyconv with
      | Some v => OOk ([match v with Some n => Key n | None => KNone end], tl)
      | None =>
      if (0 <? code) && (code <? 27) then OOk ([Key (str_ctrl ++ [97 + code - 1])], tl)
      else if (27 <? code) && (code <? 32) then OOk ([Key (str_ctrl ++ [65 + code - 1])], tl)
      else match wide_step em code tl more with
      | Some o => o
      | None =>
      match utf8_step em code tl more with
      | Some o => o
      | None =>
      if (127 <? code) && (code <? 256) then OOk ([Key [code]], tl)
      else if negb (code =? 27) then OOk ([angle code], tl)
      else match trie_get tl more with
      | OMore => OMore
      | OErr e => OErr e
      | OOk (Some (ev, rest)) => OOk ([ev], rest)
      | OOk None =>
          match tl with
          | [] => OOk ([Key str_esc], tl)
          | _ :: _ =>
              match process_keyqueue em tl more with
              | OOk (run, rest) => meta_wrap run rest
              | OMore => OMore
              | OErr e => OErr e
              end
          end
      end end end end
  end.

(* ---------- Screen.parse_input ---------- *)
Inductive ploop :=
  | PDone (decoded : list event)
  | PMore (decoded : list event) (rest : list Z)
  | PErr (e : errkind)
  | PFuel.

(* while codes: run, codes = process_keyqueue(codes, wait_for_more); decoded_codes.extend(run) *)
Fixpoint parse_loop (fuel : nat) (em : encoding) (codes : list Z) (more : bool) (acc : list event) : ploop :=
  match codes with
  | [] => PDone acc
  | _ :: _ =>
      match fuel with
      | O => PFuel
      | S f =>
          match process_keyqueue em codes more with
          | OOk (run, rest) => parse_loop f em rest more (acc ++ run)
          | OMore => PMore acc codes
          | OErr e => PErr e
          end
      end
  end.

(* the arguments of one callback(decoded_codes, raw_codes) call *)
Record call := mkcall { c_keys : list event; c_raw : list Z }.

(* returns the callback arguments and the new _partial_codes *)
Definition parse_input (em : encoding) (codes : list Z) (more : bool) : result (call * list Z) :=
  match parse_loop (List.length codes) em codes more [] with
  | PDone d => Ok (mkcall d codes, [])
  | PMore d rest => Ok (mkcall d (firstn (List.length codes - List.length rest) codes), rest)
  | PErr e => Err e
  | PFuel => Err RuntimeErrorK
  end.

(* What the event loop can do to a hooked Screen: new bytes became readable (the watch_file
   wrapper runs parse_input(event_loop, callback, get_available_raw_input())), or the completion
   alarm fires (_parse_incomplete_input).  The state is _partial_codes; the alarm is pending
   exactly when it is non-empty. *)
Inductive op := Feed (bs : list Z) | Timeout.

Definition step (em : encoding) (st : list Z) (o : op) : result (list call * list Z) :=
  match o with
  | Feed bs =>
      (* get_available_raw_input: codes = [*self._partial_codes, *self._get_input_codes()] *)
      bind (parse_input em (st ++ bs) true) (fun '(c, p) => Ok ([c], p))
  | Timeout =>
      match st with
      | [] => Ok ([], [])                          (* no alarm pending: nothing happens *)
      | _ :: _ => bind (parse_input em st false) (fun '(c, p) => Ok ([c], p))
      end
  end.

(* runs until the end or the first exception (which leaves the wrapper: _partial_codes was
   already cleared by get_available_raw_input / _parse_incomplete_input) *)
Fixpoint run (em : encoding) (st : list Z) (ops : list op) : list call * list Z * option errkind :=
  match ops with
  | [] => ([], st, None)
  | o :: r =>
      match step em st o with
      | Err e => ([], [], Some e)
      | Ok (cs, st') => let '(cs', st'', e) := run em st' r in (cs ++ cs', st'', e)
      end
  end.

(* ---------- wire format ---------- *)
Definition dec_enc (z : Z) : encoding := if z =? 1 then Wide else if z =? 2 then Narrow else Utf8.

Definition enc_event (e : event) : list Z :=
  match e with
  | Key s => 0 :: enc_list s
  | Mouse n b x y => 1 :: enc_list n ++ [b; x; y]
  | CursorPos x y => [2; x; y]
  | KNone => [3]
  end.
Definition enc_events (l : list event) : list Z := zlen l :: flat_map enc_event l.
Definition enc_call (c : call) : list Z := enc_events (c_keys c) ++ enc_list (c_raw c).

Fixpoint dec_ops (fuel : nat) (l : list Z) : list op :=
  match fuel with
  | O => []
  | S f =>
      match l with
      | 0 :: r => Timeout :: dec_ops f r
      | 1 :: r => match dec_list r with
                  | Some (bs, r') => Feed bs :: dec_ops f r'
                  | None => []
                  end
      | _ => []
      end
  end.

(* 1 :: em :: more :: codes         -> process_keyqueue
   2 :: em :: ops                   -> Screen driven by Feed/Timeout
   reply 1: 0 :: events ++ rest (to the end) | [1] (MoreInputRequired) | [2; errcode]
   reply 2: errcode-or-0 :: ncalls :: calls ++ enc_list partial *)
Definition run_case (l : list Z) : list Z :=
  match l with
  | 1 :: em :: more :: codes =>
      match process_keyqueue (dec_enc em) codes (negb (more =? 0)) with
      | OOk (evs, rest) => 0 :: enc_events evs ++ rest
      | OMore => [1]
      | OErr e => [2; errcode e]
      end
  | 2 :: em :: r =>
      let '(cs, st, e) := run (dec_enc em) [] (dec_ops (List.length r) r) in
      (match e with None => 0 | Some e => errcode e end) :: zlen cs :: flat_map enc_call cs ++ enc_list st
  | _ => [-1]
  end.
