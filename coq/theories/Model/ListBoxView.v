(* C07 - executable model of urwid.ListBox view computation (urwid/widget/listbox.py).
   Executable definitions only, NO proofs here (see Proofs/ListBoxViewProofs.v).

   Items are flow widgets described by (rows, selectable, cursor row); positions are list
   indices (SimpleListWalker / SimpleFocusListWalker / any index walker without wrap-around):
   get_prev(pos) = item pos-1, get_next(pos) = item pos+1.
   Every Python function that is mirrored is named in a comment above its definition. *)
From Coq Require Import ZArith List Bool Lia.
Import ListNotations.
From Urwid Require Import PyBase.
Open Scope Z_scope.

(* a flow widget at a fixed width: rows(), selectable(), get_cursor_coords()[1] *)
Record item := { i_rows : Z; i_sel : bool; i_cy : option Z }.

(* VisibleInfoFillItem without the widget: (position, rows) *)
Definition fitem := (Z * Z)%type.

Inductive coming := CNone | CAbove | CBelow.
(* ListBox.set_focus_pending: None | "first selectable" | (coming_from, widget, old position) *)
Inductive pending := PNone | PFirst | PSet (cf : coming) (old : Z).

(* ListBox.set_focus_valign_pending: None | (valign type, amount) *)
Inductive valign := VTop | VMiddle | VBottom | VRel (percent : Z).

(* the ListBox attributes the view depends on + the walker (items, focus) *)
Record lb := { items : list item; focus : Z; off : Z; inum : Z; iden : Z; pend : pending;
               vpend : option valign }.

Definition set_view (s : lb) (o n d : Z) : lb :=
  {| items := items s; focus := focus s; off := o; inum := n; iden := d; pend := pend s; vpend := vpend s |}.
Definition set_focus_view (s : lb) (f o n d : Z) : lb :=
  {| items := items s; focus := f; off := o; inum := n; iden := d; pend := pend s; vpend := vpend s |}.
Definition set_pend (s : lb) (p : pending) : lb :=
  {| items := items s; focus := focus s; off := off s; inum := inum s; iden := iden s; pend := p;
     vpend := vpend s |}.
Definition set_vpend (s : lb) (v : option valign) : lb :=
  {| items := items s; focus := focus s; off := off s; inum := inum s; iden := iden s; pend := pend s;
     vpend := v |}.
(* self.set_focus_valign_pending = None; self.set_focus_pending = None *)
Definition clear_pending (s : lb) : lb := set_vpend (set_pend s PNone) None.
Definition set_body_focus (s : lb) (f : Z) : lb :=
  {| items := items s; focus := f; off := off s; inum := inum s; iden := iden s; pend := pend s; vpend := vpend s |}.
Definition set_items (s : lb) (its : list item) (f : Z) : lb :=
  {| items := its; focus := f; off := off s; inum := inum s; iden := iden s; pend := pend s; vpend := vpend s |}.

(* [(s, rows l0); (s+1, rows l1); ...] *)
Fixpoint number (s : Z) (l : list item) : list fitem :=
  match l with
  | [] => []
  | x :: r => (s, i_rows x) :: number (s + 1) r
  end.

(* widgets reached by repeated get_prev(f) (nearest first) / get_next(f) *)
Definition above_of (its : list item) (f : Z) : list fitem := rev (number 0 (takez f its)).
Definition below_of (its : list item) (f : Z) : list fitem := number (f + 1) (dropz (f + 1) its).

Definition rows_at (its : list item) (p : Z) : Z :=
  match nthz its p with Some w => i_rows w | None => 0 end.
Definition sel_at (its : list item) (p : Z) : bool :=
  match nthz its p with Some w => i_sel w | None => false end.

(* ---------------------------------------------------------------------------------------- *)
(* ListBox.get_focus_offset_inset *)
Definition focus_offset_inset (focus_rows o n d : Z) : result (Z * Z) :=
  if o =? 0 then
    if (n <? 0) || (d <? 0) || (d <=? n) then Err ListBoxError
    else
      let i := focus_rows * n / d in
      if negb (i =? 0) && (focus_rows <=? i) then Err ListBoxError else Ok (o, i)
  else Ok (o, 0).

(* ListBox.calculate_visible, "force at least one line of focus to be visible" *)
Definition clamp_offset (maxrow o : Z) : Z :=
  if negb (maxrow =? 0) && (maxrow <=? o) then maxrow - 1 else o.

(* ListBox.calculate_visible, "adjust position so cursor remains visible" *)
Definition cursor_adjust (maxrow o i : Z) (cur : option Z) : Z * Z :=
  match cur with
  | None => (o, i)
  | Some cy =>
      let eff := cy + o - i in
      if eff <? 0 then (o, cy)
      else if maxrow <=? eff then
        let o' := maxrow - cy - 1 in
        if o' <? 0 then (0, - o') else (o', i)
      else (o, i)
  end.

(* ListBox.calculate_visible, loop 2 "collect the widgets above the focus".
   above: remaining widgets above (nearest first); returns
   (fill_above (nearest first), widgets not yet visited (from top_pos up), offset_rows, trim_top) *)
Fixpoint fill_up2 (above : list fitem) (fill_lines o trt : Z) (acc : list fitem)
  : list fitem * list fitem * Z * Z :=
  if fill_lines <=? 0 then (acc, above, o, trt) else
  match above with
  | [] => (acc, [], o - fill_lines, trt)
  | (pos, p_rows) :: rest =>
      let acc' := if p_rows =? 0 then acc else acc ++ [(pos, p_rows)] in
      if fill_lines <? p_rows then (acc', rest, o, p_rows - fill_lines)
      else fill_up2 rest (fill_lines - p_rows) o trt acc'
  end.

(* loop 3 "collect the widgets below the focus": (fill_below, fill_lines, trim_bottom) *)
Fixpoint fill_down (below : list fitem) (fill_lines trb : Z) (acc : list fitem)
  : list fitem * Z * Z :=
  if fill_lines <=? 0 then (acc, fill_lines, trb) else
  match below with
  | [] => (acc, fill_lines, trb)
  | (pos, n_rows) :: rest =>
      let acc' := if n_rows =? 0 then acc else acc ++ [(pos, n_rows)] in
      if fill_lines <? n_rows then (acc', fill_lines - n_rows, n_rows - fill_lines)
      else fill_down rest (fill_lines - n_rows) trb acc'
  end.

(* loop 4 "fill from top again if necessary & possible" (0-height widgets ARE appended here) *)
Fixpoint fill_up4 (above : list fitem) (fill_lines o trt : Z) (acc : list fitem)
  : list fitem * Z * Z :=
  if fill_lines <=? 0 then (acc, o, trt) else
  match above with
  | [] => (acc, o, trt)
  | (pos, p_rows) :: rest =>
      let acc' := acc ++ [(pos, p_rows)] in
      if fill_lines <? p_rows then (acc', o + fill_lines, p_rows - fill_lines)
      else fill_up4 rest (fill_lines - p_rows) (o + p_rows) trt acc'
  end.

(* the adjustment between loop 3 and loop 4 *)
Definition refill_top (fill_lines o trt : Z) : Z * Z * Z :=
  if (0 <? fill_lines) && (0 <? trt) then
    if fill_lines <=? trt then (0, o + fill_lines, trt - fill_lines)
    else (fill_lines - trt, o + trt, 0)
  else (fill_lines, o, trt).

(* VisibleInfo: middle = (offset_inset, focus_pos, focus_rows, cursor row), top, bottom *)
Record vis := { v_off_inset : Z; v_fpos : Z; v_frows : Z; v_cursor : option Z;
                v_trim_top : Z; v_above : list fitem; v_trim_bottom : Z; v_below : list fitem }.

(* ListBox.calculate_visible steps 1..5 for a non-empty list (no pending focus change);
   cur = cursor row reported by the focus widget, already filtered by
   "maxrow and selectable() and focus and hasattr(get_cursor_coords)" *)
Definition calc_vis (above below : list fitem) (fpos focus_rows : Z)
    (o n d maxrow : Z) (cur : option Z) : result vis :=
  match focus_offset_inset focus_rows o n d with
  | Err e => Err e
  | Ok (o, i) =>
    let o := clamp_offset maxrow o in
    let '(o, i) := cursor_adjust maxrow o i cur in
    let trt := i in
    let '(fa, rest_above, o, trt) := fill_up2 above o o trt [] in
    let trb := Z.max (focus_rows + o - i - maxrow) 0 in
    let '(fb, fl, trb) := fill_down below (maxrow - focus_rows - o + i) trb [] in
    let fl := Z.max 0 fl in
    let '(fl, o, trt) := refill_top fl o trt in
    let '(fa, o, trt) := fill_up4 rest_above fl o trt fa in
    Ok {| v_off_inset := o - i; v_fpos := fpos; v_frows := focus_rows; v_cursor := cur;
          v_trim_top := trt; v_above := fa; v_trim_bottom := trb; v_below := fb |}
  end.

Definition cursor_of (w : item) (maxrow : Z) (fflag : bool) : option Z :=
  if negb (maxrow =? 0) && i_sel w && fflag then i_cy w else None.

(* calculate_visible on the walker state (pending focus changes already completed);
   None = empty list box *)
Definition visible (its : list item) (f o n d maxrow : Z) (fflag : bool) : result (option vis) :=
  match nthz its f with
  | None => Ok None
  | Some w =>
      match calc_vis (above_of its f) (below_of its f) f (i_rows w) o n d maxrow
                     (cursor_of w maxrow fflag) with
      | Err e => Err e
      | Ok v => Ok (Some v)
      end
  end.

(* ---------------------------------------------------------------------------------------- *)
(* rendering: symbolic canvas rows (position, row of that widget); blank = (-1, -1) *)
Definition rows_of (it : fitem) : list (Z * Z) :=
  map (fun r => (fst it, Z.of_nat r)) (seq 0 (Z.to_nat (snd it))).
Definition blank : Z * Z := (-1, -1).

(* ListBox.render after calculate_visible; returns (rows, y of the canvas cursor).
   trim()/trim_end() raise ValueError, the other checks ListBoxError.
   The checks "calculated N rows but rendered M" cannot fire for items whose rows() and
   render() agree (assumption on the item widgets). *)
Definition render_vis (its : list item) (v : vis) (maxrow : Z) : result (list (Z * Z) * option Z) :=
  let rows_above := flat_map rows_of (rev (v_above v)) in
  let all := rows_above ++ rows_of (v_fpos v, v_frows v) ++ flat_map rows_of (v_below v) in
  let total := zlen all in
  let trt := v_trim_top v in
  let trb := v_trim_bottom v in
  (* CanvasCombine: the cursor of the focus canvas shifted by the rows above it *)
  let cur := match v_cursor v with Some cy => Some (zlen rows_above + cy) | None => None end in
  (* if trim_top: final_canvas.trim(trim_top) *)
  if negb (trt =? 0) && ((trt <? 0) || (total <=? trt)) then Err ValueError else
  let l1 := if trt =? 0 then all else dropz trt all in
  (* CompositeCanvas.trim: translate_coords(0, -top), then _drop_cursor_outside *)
  let cur := if trt =? 0 then cur else
             match cur with
             | Some y => if (0 <=? y - trt) && (y - trt <? total - trt) then Some (y - trt) else None
             | None => None
             end in
  (* if trim_bottom: final_canvas.trim_end(trim_bottom) *)
  if negb (trb =? 0) && ((trb <=? 0) || (zlen l1 <? trb)) then Err ValueError else
  let l2 := if trb =? 0 then l1 else takez (zlen l1 - trb) l1 in
  (* CompositeCanvas.trim_end: _drop_cursor_outside *)
  let cur := if trb =? 0 then cur else
             match cur with
             | Some y => if (0 <=? y) && (y <? zlen l1 - trb) then Some y else None
             | None => None
             end in
  let rows := total - trt - trb in
  if maxrow <? rows then Err ListBoxError
  else if rows <? maxrow then
    if negb (trb =? 0) then Err ListBoxError
    else
      let bottom_pos := match rev (v_below v) with (p, _) :: _ => p | [] => v_fpos v end in
      (* walk get_next from bottom_pos to the end: a widget with rows there is an error *)
      if existsb (fun w => negb (i_rows w =? 0)) (dropz (bottom_pos + 1) its) then Err ListBoxError
      else Ok (l2 ++ repeat blank (Z.to_nat (maxrow - rows)), cur)
  else Ok (l2, cur).

(* render of a list box without pending focus changes *)
Definition render_view (its : list item) (f o n d maxrow : Z) (fflag : bool)
  : result (list (Z * Z) * option Z) :=
  match visible its f o n d maxrow fflag with
  | Err e => Err e
  | Ok None => Ok (repeat blank (Z.to_nat maxrow), None)      (* SolidCanvas(" ", maxcol, maxrow) *)
  | Ok (Some v) => render_vis its v maxrow
  end.

(* ---------------------------------------------------------------------------------------- *)
(* ListBox.shift_focus -- WRITER 1 of offset_rows / inset_fraction *)
Definition shift_focus (s : lb) (maxrow oi : Z) : result lb :=
  if 0 <=? oi then
    if maxrow <=? oi then Err ListBoxError
    else Ok (set_view s oi 0 1)
  else
    let tgt_rows := rows_at (items s) (focus s) in
    if oi + tgt_rows <=? 0 then Err ListBoxError
    else Ok (set_view s 0 (- oi) tgt_rows).

Definition is_above (c : coming) := match c with CAbove => true | _ => false end.
Definition is_below (c : coming) := match c with CBelow => true | _ => false end.

(* the "snap to selectable widgets" part of ListBox.change_focus *)
Definition snap_sr (snap_rows maxrow tgt_rows oi : Z) (sel : bool) (cf : coming) : Z :=
  let align_top := 0 in
  let align_bottom := maxrow - tgt_rows in
  let oi :=
    if is_above cf && sel && (align_bottom <? oi) then
      if oi - align_bottom <=? snap_rows then align_bottom
      else if oi - align_top <=? snap_rows then align_top
      else oi - snap_rows
    else oi in
  if is_below cf && sel && (oi <? align_top) then
    if align_top - oi <=? snap_rows then align_top
    else if align_bottom - oi <=? snap_rows then align_bottom
    else oi + snap_rows
  else oi.

(* snap_rows=None: snap_rows = maxrow - 1 *)
Definition snap (maxrow tgt_rows oi : Z) (sel : bool) (cf : coming) : Z :=
  snap_sr (maxrow - 1) maxrow tgt_rows oi sel cf.

(* ListBox.change_focus -- WRITER 2.  The item widgets have no move_cursor_to_coords, so the
   function ends after the offset/inset assignment and cursor_coords only sets pref_col. *)
Definition change_focus_sr (s : lb) (maxrow position oi : Z) (cf : coming) (snap_rows : Z) : result lb :=
  match nthz (items s) position with
  | None => Err IndexError                      (* self._body.set_focus(position) *)
  | Some target =>
      let tgt_rows := i_rows target in
      let oi := snap_sr snap_rows maxrow tgt_rows oi (i_sel target) cf in
      if 0 <=? oi then Ok (set_focus_view s position oi 0 1)
      else if oi + tgt_rows <=? 0 then Err ListBoxError
      else Ok (set_focus_view s position 0 (- oi) tgt_rows)
  end.

Definition change_focus (s : lb) (maxrow position oi : Z) (cf : coming) : result lb :=
  change_focus_sr s maxrow position oi cf (maxrow - 1).

(* ListBox.make_cursor_visible *)
Definition make_cursor_visible (s : lb) (maxrow : Z) : result lb :=
  match nthz (items s) (focus s) with
  | None => Ok s
  | Some w =>
      if negb (i_sel w) then Ok s else
      match i_cy w with
      | None => Ok s
      | Some cy =>
          match focus_offset_inset (i_rows w) (off s) (inum s) (iden s) with
          | Err e => Err e
          | Ok (o, i) =>
              if cy <? i then shift_focus s maxrow (- cy)
              else if maxrow <=? o - i + cy then shift_focus s maxrow (maxrow - cy - 1)
              else Ok s
          end
      end
  end.

(* ListBox._set_focus_first_selectable *)
Fixpoint first_sel_scan (its : list item) (fb : list fitem) (new_row_offset : Z) : option (Z * Z) :=
  match fb with
  | [] => None
  | (pos, rows) :: r =>
      if sel_at its pos then Some (pos, new_row_offset)
      else first_sel_scan its r (new_row_offset + rows)
  end.

Definition set_focus_first_selectable (s : lb) (maxrow : Z) (fflag : bool) : result lb :=
  let s := clear_pending s in
  match visible (items s) (focus s) (off s) (inum s) (iden s) maxrow fflag with
  | Err e => Err e
  | Ok None => Ok s
  | Ok (Some v) =>
      if sel_at (items s) (v_fpos v) then Ok s else
      let fb := if negb (v_trim_bottom v =? 0) then removelast (v_below v) else v_below v in
      match first_sel_scan (items s) fb (v_off_inset v + v_frows v) with
      | None => Ok s
      | Some (pos, nro) => shift_focus (set_body_focus s pos) maxrow nro
      end
  end.

(* ListBox._set_focus_complete, the two "for ... in fill_above / fill_below" searches *)
Fixpoint find_above (fa : list fitem) (offset position : Z) : option Z :=
  match fa with
  | [] => None
  | (pos, rows) :: r =>
      let offset := offset - rows in
      if pos =? position then Some offset else find_above r offset position
  end.
Fixpoint find_below (fb : list fitem) (offset position : Z) : option Z :=
  match fb with
  | [] => None
  | (pos, rows) :: r =>
      if pos =? position then Some offset else find_below r (offset + rows) position
  end.

(* urwid.util.int_scale *)
Definition int_scale (val val_range out_range : Z) : Z :=
  (val * (out_range - 1) * 2 + (val_range - 1)) / ((val_range - 1) * 2).

(* calculate_top_bottom_filler(maxrow, vt, va, GIVEN, rows, None, 0, 0)[0] *)
Definition top_filler (maxrow : Z) (va : valign) (height : Z) : Z :=
  let valign := match va with VTop => 0 | VMiddle => 50 | VBottom => 100 | VRel p => p end in
  let filler := maxrow - height - 0 - 0 in
  let bottom := 0 + int_scale (100 - valign) 101 (filler + 1) in
  let top := maxrow - height - bottom in
  let '(top, bottom) :=
    if (bottom <? 0) && (0 <? top) then
      let shift := Z.min top (- bottom) in (top - shift, bottom + shift)
    else if (top <? 0) && (0 <? bottom) then
      let shift := Z.min bottom (- top) in (top + shift, bottom - shift)
    else (top, bottom) in
  Z.max top 0.

(* ListBox._set_focus_valign_complete *)
Definition set_focus_valign_complete (s : lb) (maxrow : Z) (fflag : bool) (va : valign) : result lb :=
  let s := clear_pending s in
  match nthz (items s) (focus s) with
  | None => Ok s
  | Some w =>
      let rtop := top_filler maxrow va (i_rows w) in
      shift_focus s maxrow (Z.min rtop (maxrow - 1))
  end.

(* ListBox._set_focus_complete, the part after the two early returns: a pending set_focus *)
Definition set_focus_pending_complete (s : lb) (maxrow : Z) (fflag : bool) : result lb :=
  match pend s with
  | PNone => Ok s
  | PFirst => Ok s                             (* handled before *)
  | PSet cf old =>
      let s := set_pend s PNone in
      match nthz (items s) (focus s) with
      | None => Ok s                           (* "new_focus_widget is None": do nothing *)
      | Some neww =>
          let position := focus s in
          if old =? position then Ok s else
          match nthz (items s) old with
          | None => Ok s     (* self._body.set_focus(focus_pos) raised IndexError/KeyError: the old
                                position was removed meanwhile, keep the current offset *)
          | Some _ =>
              let s := set_body_focus s old in
              match visible (items s) old (off s) (inum s) (iden s) maxrow fflag with
              | Err e => Err e
              | Ok None => Err OtherError
              | Ok (Some v) =>
                  match find_above (v_above v) (v_off_inset v) position with
                  | Some offset => change_focus s maxrow position offset CBelow
                  | None =>
                      match find_below (v_below v) (v_off_inset v + v_frows v) position with
                      | Some offset => change_focus s maxrow position offset CAbove
                      | None =>
                          let s := set_body_focus s position in
                          let rows := i_rows neww in
                          let offset :=
                            match cf with
                            | CBelow => 0
                            | CAbove => Z.min (maxrow - rows) (maxrow - 1)
                            | CNone => (maxrow - rows) / 2
                            end in
                          shift_focus s maxrow offset
                      end
                  end
              end
          end
      end
  end.

(* ListBox._set_focus_complete *)
Definition set_focus_complete (s : lb) (maxrow : Z) (fflag : bool) : result lb :=
  match pend s with
  | PFirst => set_focus_first_selectable s maxrow fflag
  | _ =>
      match vpend s with
      | Some va => set_focus_valign_complete s maxrow fflag va
      | None => set_focus_pending_complete s maxrow fflag
      end
  end.

(* ListBox.calculate_visible including step 0 *)
Definition calculate_visible (s : lb) (maxrow : Z) (fflag : bool) : result (lb * option vis) :=
  match set_focus_complete s maxrow fflag with
  | Err e => Err e
  | Ok s =>
      match visible (items s) (focus s) (off s) (inum s) (iden s) maxrow fflag with
      | Err e => Err e
      | Ok ov => Ok (s, ov)
      end
  end.

(* ListBox.render *)
Definition render (s : lb) (maxrow : Z) (fflag : bool) : result (lb * (list (Z * Z) * option Z)) :=
  match calculate_visible s maxrow fflag with
  | Err e => Err e
  | Ok (s, None) => Ok (s, (repeat blank (Z.to_nat maxrow), None))
  | Ok (s, Some v) =>
      match render_vis (items s) v maxrow with
      | Err e => Err e
      | Ok r => Ok (s, r)
      end
  end.

(* ListBox.set_focus (valid or invalid position) *)
Definition set_focus (s : lb) (position : Z) (cf : coming) : result lb :=
  match nthz (items s) (focus s) with
  | None => Err IndexError                      (* "Can't set focus, ListBox is empty" *)
  | Some _ =>
      let s := set_pend s (PSet cf (focus s)) in
      match nthz (items s) position with
      | None => Err IndexError
      | Some _ => Ok (set_body_focus s position)
      end
  end.

(* ---------------------------------------------------------------------------------------- *)
(* local variables of _keypress_up/_keypress_down after their loops *)
Record locals := { l_wnone : bool; l_pos : Z; l_rows : Z; l_ro : Z }.

Inductive kres := KDone (s : lb) | KUnhandled | KGo (l : locals).

(* _keypress_up: "for widget, pos, rows in fill_above" *)
Fixpoint up_for (s : lb) (maxrow : Z) (fa : list fitem) (l : locals) : result kres :=
  match fa with
  | [] => Ok (KGo l)
  | (pos, rows) :: r =>
      let ro := l_ro l - rows in
      if negb (rows =? 0) && sel_at (items s) pos then
        match change_focus s maxrow pos ro CBelow with Err e => Err e | Ok s => Ok (KDone s) end
      else up_for s maxrow r {| l_wnone := false; l_pos := pos; l_rows := rows; l_ro := ro |}
  end.

(* _keypress_up: "while row_offset > 0" over the widgets above l_pos (nearest first) *)
Fixpoint up_while (s : lb) (maxrow : Z) (prevs : list fitem) (l : locals) : result kres :=
  if l_ro l <=? 0 then Ok (KGo l) else
  match prevs with
  | [] => Ok KUnhandled
  | (pos, rows) :: r =>
      let ro := l_ro l - rows in
      if negb (rows =? 0) && sel_at (items s) pos then
        match change_focus s maxrow pos ro CBelow with Err e => Err e | Ok s => Ok (KDone s) end
      else up_while s maxrow r {| l_wnone := false; l_pos := pos; l_rows := rows; l_ro := ro |}
  end.

Definition lift_k (r : result lb) : result (lb * bool) :=
  match r with Err e => Err e | Ok s => Ok (s, false) end.

(* ListBox._keypress_up; the bool is "returned True" (key not handled) *)
Definition keypress_up (s : lb) (maxrow : Z) : result (lb * bool) :=
  match visible (items s) (focus s) (off s) (inum s) (iden s) maxrow true with
  | Err e => Err e
  | Ok None => Ok (s, true)
  | Ok (Some v) =>
      let fro := v_off_inset v in
      let l0 := {| l_wnone := true; l_pos := v_fpos v; l_rows := 0; l_ro := fro |} in
      match up_for s maxrow (v_above v) l0 with
      | Err e => Err e
      | Ok (KDone s) => Ok (s, false)
      | Ok KUnhandled => Ok (s, true)
      | Ok (KGo l) =>
          let l := {| l_wnone := l_wnone l; l_pos := l_pos l; l_rows := l_rows l; l_ro := l_ro l + 1 |} in
          match up_while s maxrow (above_of (items s) (l_pos l)) l with
          | Err e => Err e
          | Ok (KDone s) => Ok (s, false)
          | Ok KUnhandled => Ok (s, true)
          | Ok (KGo l) =>
              if negb (sel_at (items s) (v_fpos v)) || (maxrow <=? fro + 1) then
                if l_wnone l then lift_k (shift_focus s maxrow (l_ro l))
                else lift_k (change_focus s maxrow (l_pos l) (l_ro l) CBelow)
              else
                let fallback := lift_k (shift_focus s maxrow (fro + 1)) in
                match v_cursor v with
                | None => fallback
                | Some y =>
                    if maxrow <=? y + fro + 1 then
                      (* "try harder to get prev widget" *)
                      let ol :=
                        if l_wnone l then
                          match nthz (items s) (l_pos l - 1) with
                          | None => None
                          | Some w =>
                              if l_pos l - 1 <? 0 then None else
                              Some {| l_wnone := false; l_pos := l_pos l - 1; l_rows := i_rows w;
                                      l_ro := l_ro l - i_rows w |}
                          end
                        else Some l in
                      match ol with
                      | None => Ok (s, false)
                      | Some l =>
                          let ro := if l_rows l <=? - l_ro l then - (l_rows l - 1) else l_ro l in
                          lift_k (change_focus s maxrow (l_pos l) ro CBelow)
                      end
                    else fallback
                end
          end
      end
  end.

(* _keypress_down: "for widget, pos, rows in fill_below" *)
Fixpoint down_for (s : lb) (maxrow : Z) (fb : list fitem) (l : locals) : result kres :=
  match fb with
  | [] => Ok (KGo l)
  | (pos, rows) :: r =>
      if negb (rows =? 0) && sel_at (items s) pos then
        match change_focus s maxrow pos (l_ro l) CAbove with Err e => Err e | Ok s => Ok (KDone s) end
      else down_for s maxrow r {| l_wnone := false; l_pos := pos; l_rows := rows; l_ro := l_ro l + rows |}
  end.

(* _keypress_down: "while row_offset < maxrow" over the widgets below l_pos *)
Fixpoint down_while (s : lb) (maxrow : Z) (nexts : list fitem) (l : locals) : result kres :=
  if maxrow <=? l_ro l then Ok (KGo l) else
  match nexts with
  | [] => Ok KUnhandled
  | (pos, rows) :: r =>
      if negb (rows =? 0) && sel_at (items s) pos then
        match change_focus s maxrow pos (l_ro l) CAbove with Err e => Err e | Ok s => Ok (KDone s) end
      else down_while s maxrow r {| l_wnone := false; l_pos := pos; l_rows := rows; l_ro := l_ro l + rows |}
  end.

(* ListBox._keypress_down *)
Definition keypress_down (s : lb) (maxrow : Z) : result (lb * bool) :=
  match visible (items s) (focus s) (off s) (inum s) (iden s) maxrow true with
  | Err e => Err e
  | Ok None => Ok (s, true)
  | Ok (Some v) =>
      let fro := v_off_inset v in
      let frows := v_frows v in
      let l0 := {| l_wnone := true; l_pos := v_fpos v; l_rows := frows; l_ro := fro + frows |} in
      match down_for s maxrow (v_below v) l0 with
      | Err e => Err e
      | Ok (KDone s) => Ok (s, false)
      | Ok KUnhandled => Ok (s, true)
      | Ok (KGo l) =>
          let l := {| l_wnone := l_wnone l; l_pos := l_pos l; l_rows := l_rows l; l_ro := l_ro l - 1 |} in
          match down_while s maxrow (below_of (items s) (l_pos l)) l with
          | Err e => Err e
          | Ok (KDone s) => Ok (s, false)
          | Ok KUnhandled => Ok (s, true)
          | Ok (KGo l) =>
              if negb (sel_at (items s) (v_fpos v)) || (fro + frows - 1 <=? 0) then
                if l_wnone l then lift_k (shift_focus s maxrow (l_ro l - l_rows l))
                else lift_k (change_focus s maxrow (l_pos l) (l_ro l - l_rows l) CAbove)
              else
                let fallback := lift_k (shift_focus s maxrow (fro - 1)) in
                match v_cursor v with
                | None => fallback
                | Some y =>
                    if y + fro - 1 <? 0 then
                      let ol :=
                        if l_wnone l then
                          match nthz (items s) (l_pos l + 1) with
                          | None => None
                          | Some w => Some {| l_wnone := false; l_pos := l_pos l + 1; l_rows := l_rows l;
                                              l_ro := l_ro l |}
                          end
                        else Some {| l_wnone := false; l_pos := l_pos l; l_rows := l_rows l;
                                     l_ro := l_ro l - l_rows l |} in
                      match ol with
                      | None => Ok (s, false)
                      | Some l =>
                          let ro := if maxrow <=? l_ro l then maxrow - 1 else l_ro l in
                          lift_k (change_focus s maxrow (l_pos l) ro CAbove)
                      end
                    else fallback
                end
          end
      end
  end.

(* ---------------------------------------------------------------------------------------- *)
(* page up / page down.  t = list of candidate widgets (row_offset on the new page, position, rows) *)
Definition titem := (Z * Z * Z)%type.
Definition t_ro (x : titem) : Z := fst (fst x).
Definition t_pos (x : titem) : Z := snd (fst x).
Definition t_rows (x : titem) : Z := snd x.
Definition t_shift (d : Z) (x : titem) : titem := (t_ro x + d, t_pos x, t_rows x).

Fixpoint zseq (start : Z) (n : nat) : list Z :=
  match n with O => [] | S k => start :: zseq (start + 1) k end.

(* search_order = list(range(snap_region_start, len(t))) + list(range(snap_region_start - 1, -1, -1)) *)
Definition search_order (srs len : Z) : list Z :=
  zseq srs (Z.to_nat (len - srs)) ++ rev (zseq 0 (Z.to_nat srs)).

Definition last_fill_pos (fl : list fitem) (dflt : Z) : Z :=
  match rev fl with (p, _) :: _ => p | [] => dflt end.

(* state of the first search loop: list box, bad_choices, cut_off_selectable_chosen, the Python
   variable row_offset *)
Record pstate := { p_s : lb; p_bad : list Z; p_cut : bool; p_ro : Z }.
Inductive pres := PDone (s : lb) | PCont (st : pstate).

(* _keypress_page_down: "for widget, pos, rows in fill_below: t.append(...); row_offset += rows" *)
Fixpoint pd_for (fb : list fitem) (ro : Z) (acc : list titem) : list titem * Z :=
  match fb with
  | [] => (acc, ro)
  | (pos, rows) :: r => pd_for r (ro + rows) (acc ++ [(ro, pos, rows)])
  end.

(* _keypress_page_down: "while row_offset < maxrow + snap_rows" -> (t, snap_region_start) *)
Fixpoint pd_while (nexts : list fitem) (limit maxrow ro srs : Z) (acc : list titem) : list titem * Z :=
  if limit <=? ro then (acc, srs) else
  match nexts with
  | [] => (acc, srs)
  | (pos, rows) :: r =>
      let ro' := ro + rows in
      pd_while r limit maxrow ro' (if ro' <? maxrow then srs + 1 else srs) (acc ++ [(ro, pos, rows)])
  end.

(* _keypress_page_down: "for i in search_order" (first loop) *)
Fixpoint pd_loop1 (maxrow snap_rows : Z) (t : list titem) (order : list Z) (st : pstate) : result pres :=
  match order with
  | [] => Ok (PCont st)
  | i :: rest =>
      match nthz t i with
      | None => Err OtherError
      | Some (ro, pos, rows) =>
          let s := p_s st in
          let st := {| p_s := s; p_bad := p_bad st; p_cut := p_cut st; p_ro := ro |} in
          if negb (sel_at (items s) pos) then pd_loop1 maxrow snap_rows t rest st
          else if rows =? 0 then pd_loop1 maxrow snap_rows t rest st
          else if ro + rows <=? 0 then pd_loop1 maxrow snap_rows t rest st   (* completely above the new page *)
          else
            let r :=
              if maxrow <=? ro then change_focus_sr s maxrow pos (maxrow - 1) CAbove (snap_rows + maxrow - ro - 1)
              else change_focus_sr s maxrow pos ro CAbove snap_rows in
            match r with
            | Err e => Err e
            | Ok s' =>
                match visible (items s') (focus s') (off s') (inum s') (iden s') maxrow true with
                | Err e => Err e
                | Ok None => Err OtherError
                | Ok (Some v) =>
                    let act := v_off_inset v in
                    let bad c := pd_loop1 maxrow snap_rows t rest
                                   {| p_s := s'; p_bad := p_bad st ++ [i]; p_cut := c; p_ro := ro |} in
                    if act <? ro - snap_rows then bad (p_cut st)
                    else if ro <? act then bad (p_cut st)
                    else if maxrow <? act + rows then bad true
                    else Ok (PDone s')
                end
            end
      end
  end.

(* _keypress_page_down: "for i in good_choices + search_order" -> (new state if a widget was chosen, row_offset) *)
Fixpoint pd_loop2 (s : lb) (maxrow snap_rows fpos : Z) (t : list titem) (order : list Z) (ro_var : Z)
  : result (option lb * Z) :=
  match order with
  | [] => Ok (None, ro_var)
  | i :: rest =>
      match nthz t i with
      | None => Err OtherError
      | Some (ro, pos, rows) =>
          if pos =? fpos then pd_loop2 s maxrow snap_rows fpos t rest ro
          else if rows =? 0 then pd_loop2 s maxrow snap_rows fpos t rest ro
          else if ro + rows <=? 0 then pd_loop2 s maxrow snap_rows fpos t rest ro   (* completely above the new page *)
          else
            let '(sr, ro') :=
              if maxrow <=? ro then (snap_rows - (snap_rows + maxrow - ro - 1), maxrow - 1) else (snap_rows, ro) in
            match change_focus_sr s maxrow pos ro' CAbove sr with
            | Err e => Err e
            | Ok s' => Ok (Some s', ro')
            end
      end
  end.

(* _keypress_page_down up to "if focus_widget (first in t) is off edge, remove it":
   (snap_rows, t before that removal, snap_region_start) *)
Definition pd_gather (s : lb) (maxrow : Z) (v : vis) : Z * list titem * Z :=
  let row_offset := v_off_inset v in
  let fpos := v_fpos v in
  let frows := v_frows v in
  let bottom_edge := maxrow - row_offset in
  let scroll_from_row :=
    if negb (sel_at (items s) fpos) then bottom_edge
    else match v_cursor v with
         | Some y => y + 1
         | None => if frows <=? bottom_edge then frows else bottom_edge
         end in
  let snap_rows := bottom_edge - scroll_from_row in
  let row_offset := - scroll_from_row in
  let '(t, row_offset) := pd_for (v_below v) (row_offset + frows) [(row_offset, fpos, frows)] in
  let '(t, srs) :=
    pd_while (below_of (items s) (last_fill_pos (v_below v) fpos)) (maxrow + snap_rows) maxrow row_offset
             (zlen t) t in
  (* if we can't fill the bottom we need to adjust the row offsets *)
  let t := match rev t with
           | [] => t
           | x :: _ => if t_ro x + t_rows x <? maxrow then map (t_shift (maxrow - (t_ro x + t_rows x))) t else t
           end in
  (snap_rows, t, srs).

(* the candidate widgets 'page down' chooses from: t after the removal of an off-edge first entry *)
Definition pd_candidates (s : lb) (maxrow : Z) (v : vis) : list titem :=
  let '(_, t, _) := pd_gather s maxrow v in
  match t with
  | [] => []
  | x0 :: tl => if t_ro x0 + t_rows x0 <=? 0 then tl else t
  end.

(* ListBox._keypress_page_down *)
Definition keypress_page_down (s : lb) (maxrow : Z) : result (lb * bool) :=
  match visible (items s) (focus s) (off s) (inum s) (iden s) maxrow true with
  | Err e => Err e
  | Ok None => Ok (s, true)
  | Ok (Some v) =>
      let fpos := v_fpos v in
      let frows := v_frows v in
      let '(snap_rows, t0, srs) := pd_gather s maxrow v in
      (* if focus_widget (first in t) is off edge, remove it *)
      match t0 with
      | [] => Err OtherError
      | x0 :: tl =>
          let t := pd_candidates s maxrow v in
          let srs := if t_ro x0 + t_rows x0 <=? 0 then srs - 1 else srs in
          let order := search_order srs (zlen t) in
          match pd_loop1 maxrow snap_rows t order {| p_s := s; p_bad := []; p_cut := false; p_ro := t_ro x0 |} with
          | Err e => Err e
          | Ok (PDone s') => Ok (s', false)
          | Ok (PCont st) =>
              let s := p_s st in
              if p_cut st then Ok (s, false) else
              let good := filter (fun j => negb (existsb (Z.eqb j) (p_bad st))) order in
              match pd_loop2 s maxrow snap_rows fpos t (good ++ order) (p_ro st) with
              | Err e => Err e
              | Ok (Some s', _) => Ok (s', false)
              | Ok (None, ro_var) =>
                  (* no choices available, just shift current one *)
                  match shift_focus s maxrow (Z.min (Z.max (1 - frows) ro_var) (maxrow - 1)) with
                  | Err e => Err e
                  | Ok s =>
                      match visible (items s) (focus s) (off s) (inum s) (iden s) maxrow true with
                      | Err e => Err e
                      | Ok None => Err OtherError
                      | Ok (Some v2) =>
                          if v_off_inset v2 <=? ro_var then Ok (s, false) else
                          match rev t with
                          | [] => Ok (s, false)
                          | xl :: _ =>
                              match nthz (items s) (t_pos xl + 1) with
                              | None => Ok (s, false)
                              | Some _ => lift_k (change_focus_sr s maxrow (t_pos xl + 1) (maxrow - 1) CAbove 0)
                              end
                          end
                      end
                  end
              end
          end
      end
  end.

(* _keypress_page_up: "for widget, pos, rows in fill_above: row_offset -= rows; t.append(...)" *)
Fixpoint pu_for (fa : list fitem) (ro : Z) (acc : list titem) : list titem * Z :=
  match fa with
  | [] => (acc, ro)
  | (pos, rows) :: r => pu_for r (ro - rows) (acc ++ [(ro - rows, pos, rows)])
  end.

(* _keypress_page_up: "while row_offset > -snap_rows" *)
Fixpoint pu_while (prevs : list fitem) (snap_rows ro srs : Z) (acc : list titem) : list titem * Z :=
  if ro <=? - snap_rows then (acc, srs) else
  match prevs with
  | [] => (acc, srs)
  | (pos, rows) :: r =>
      let ro' := ro - rows in
      pu_while r snap_rows ro' (if 0 <? ro' then srs + 1 else srs) (acc ++ [(ro', pos, rows)])
  end.

Fixpoint pu_loop1 (maxrow snap_rows : Z) (t : list titem) (order : list Z) (st : pstate) : result pres :=
  match order with
  | [] => Ok (PCont st)
  | i :: rest =>
      match nthz t i with
      | None => Err OtherError
      | Some (ro, pos, rows) =>
          let s := p_s st in
          let st := {| p_s := s; p_bad := p_bad st; p_cut := p_cut st; p_ro := ro |} in
          if negb (sel_at (items s) pos) then pu_loop1 maxrow snap_rows t rest st
          else if rows =? 0 then pu_loop1 maxrow snap_rows t rest st
          else
            let r :=
              if rows + ro <=? 0 then
                change_focus_sr s maxrow pos (- (rows - 1)) CBelow (snap_rows - ((- ro) - (rows - 1)))
              else change_focus_sr s maxrow pos ro CBelow snap_rows in
            match r with
            | Err e => Err e
            | Ok s' =>
                match visible (items s') (focus s') (off s') (inum s') (iden s') maxrow true with
                | Err e => Err e
                | Ok None => Err OtherError
                | Ok (Some v) =>
                    let act := v_off_inset v in
                    let bad c := pu_loop1 maxrow snap_rows t rest
                                   {| p_s := s'; p_bad := p_bad st ++ [i]; p_cut := c; p_ro := ro |} in
                    if ro + snap_rows <? act then bad (p_cut st)
                    else if act <? ro then bad (p_cut st)
                    else if act <? 0 then bad true
                    else Ok (PDone s')
                end
            end
      end
  end.

Fixpoint pu_loop2 (s : lb) (maxrow snap_rows fpos : Z) (t : list titem) (order : list Z) (ro_var : Z)
  : result (option lb * Z) :=
  match order with
  | [] => Ok (None, ro_var)
  | i :: rest =>
      match nthz t i with
      | None => Err OtherError
      | Some (ro, pos, rows) =>
          if pos =? fpos then pu_loop2 s maxrow snap_rows fpos t rest ro
          else if rows =? 0 then pu_loop2 s maxrow snap_rows fpos t rest ro
          else
            let '(sr, ro') :=
              if rows + ro <=? 0 then (snap_rows - ((- ro) - (rows - 1)), - (rows - 1)) else (snap_rows, ro) in
            match change_focus_sr s maxrow pos ro' CBelow sr with
            | Err e => Err e
            | Ok s' => Ok (Some s', ro')
            end
      end
  end.

(* _keypress_page_up up to "if focus_widget (first in t) is off edge, remove it":
   (snap_rows, t before that removal, snap_region_start) *)
Definition pu_gather (s : lb) (maxrow : Z) (v : vis) : Z * list titem * Z :=
  let row_offset := v_off_inset v in
  let fpos := v_fpos v in
  let frows := v_frows v in
  let topmost_visible := row_offset in
  let scroll_from_row :=
    if negb (sel_at (items s) fpos) then topmost_visible
    else match v_cursor v with
         | Some y => - y
         | None => if 0 <=? row_offset then 0 else topmost_visible
         end in
  let snap_rows := topmost_visible - scroll_from_row in
  let row_offset := scroll_from_row + maxrow in
  let '(t, row_offset) := pu_for (v_above v) row_offset [(row_offset, fpos, frows)] in
  let '(t, srs) :=
    pu_while (above_of (items s) (last_fill_pos (v_above v) fpos)) snap_rows row_offset (zlen t) t in
  (* if we can't fill the top we need to adjust the row offsets *)
  let t := match rev t with
           | [] => t
           | x :: _ => if 0 <? t_ro x then map (t_shift (- t_ro x)) t else t
           end in
  (snap_rows, t, srs).

(* the candidate widgets 'page up' chooses from: t after the removal of an off-edge first entry *)
Definition pu_candidates (s : lb) (maxrow : Z) (v : vis) : list titem :=
  let '(_, t, _) := pu_gather s maxrow v in
  match t with
  | [] => []
  | x0 :: tl => if maxrow <=? t_ro x0 then tl else t
  end.

(* ListBox._keypress_page_up *)
Definition keypress_page_up (s : lb) (maxrow : Z) : result (lb * bool) :=
  match visible (items s) (focus s) (off s) (inum s) (iden s) maxrow true with
  | Err e => Err e
  | Ok None => Ok (s, true)
  | Ok (Some v) =>
      let fpos := v_fpos v in
      let '(snap_rows, t0, srs) := pu_gather s maxrow v in
      match t0 with
      | [] => Err OtherError
      | x0 :: tl =>
          let t := pu_candidates s maxrow v in
          let srs := if maxrow <=? t_ro x0 then srs - 1 else srs in
          let order := search_order srs (zlen t) in
          match pu_loop1 maxrow snap_rows t order {| p_s := s; p_bad := []; p_cut := false; p_ro := t_ro x0 |} with
          | Err e => Err e
          | Ok (PDone s') => Ok (s', false)
          | Ok (PCont st) =>
              let s := p_s st in
              if p_cut st then Ok (s, false) else
              let good := filter (fun j => negb (existsb (Z.eqb j) (p_bad st))) order in
              match pu_loop2 s maxrow snap_rows fpos t (good ++ order) (p_ro st) with
              | Err e => Err e
              | Ok (Some s', _) => Ok (s', false)
              | Ok (None, ro_var) =>
                  match shift_focus s maxrow (Z.min (maxrow - 1) ro_var) with
                  | Err e => Err e
                  | Ok s =>
                      match visible (items s) (focus s) (off s) (inum s) (iden s) maxrow true with
                      | Err e => Err e
                      | Ok None => Err OtherError
                      | Ok (Some v2) =>
                          if ro_var <=? v_off_inset v2 then Ok (s, false) else
                          match rev t with
                          | [] => Ok (s, false)
                          | xl :: _ =>
                              match nthz (items s) (t_pos xl - 1) with
                              | None => Ok (s, false)
                              | Some w =>
                                  lift_k (change_focus_sr s maxrow (t_pos xl - 1) (- (i_rows w - 1)) CBelow 0)
                              end
                          end
                      end
                  end
              end
          end
      end
  end.

(* the item widgets' keypress: 'j'/'k' move the cursor row inside a selectable item that has a
   cursor (handled -> None), everything else is returned unhandled *)
Definition item_key (w : item) (dir : Z) : option item :=
  if i_sel w then
    match i_cy w with
    | Some cy =>
        let cy' := cy + dir in
        if (0 <=? cy') && (cy' <? i_rows w) then Some {| i_rows := i_rows w; i_sel := true; i_cy := Some cy' |}
        else None
    | None => None
    end
  else None.

Fixpoint replace_nth {A} (n : nat) (l : list A) (x : A) : list A :=
  match l, n with
  | [], _ => []
  | _ :: r, O => x :: r
  | y :: r, S k => y :: replace_nth k r x
  end.

Inductive key := KUp | KDown | KCur (dir : Z) | KHome | KEnd | KPageUp | KPageDown | KOther.

(* ListBox.set_focus_valign *)
Definition set_focus_valign (s : lb) (va : valign) : lb := set_vpend s (Some va).

(* ListBox.keypress; bool = key returned (not handled) *)
Definition keypress (s : lb) (maxrow : Z) (k : key) : result (lb * bool) :=
  match set_focus_complete s maxrow true with
  | Err e => Err e
  | Ok s =>
      match nthz (items s) (focus s) with
      | None => Ok (s, true)
      | Some w =>
          match k with
          | KCur dir =>
              match item_key w dir with
              | Some w' =>
                  let s := set_items s (replace_nth (Z.to_nat (focus s)) (items s) w') (focus s) in
                  match make_cursor_visible s maxrow with Err e => Err e | Ok s => Ok (s, false) end
              | None => Ok (s, true)
              end
          | KUp => keypress_up s maxrow
          | KDown => keypress_down s maxrow
          | KPageUp => keypress_page_up s maxrow
          | KPageDown => keypress_page_down s maxrow
          | KHome =>
              (* _keypress_max_left: self.focus_position = first position; self.set_focus_valign(TOP) *)
              match set_focus s 0 CNone with
              | Err e => Err e
              | Ok s => Ok (set_focus_valign s VTop, false)
              end
          | KEnd =>
              match set_focus s (zlen (items s) - 1) CNone with
              | Err e => Err e
              | Ok s => Ok (set_focus_valign s VBottom, false)
              end
          | KOther => Ok (s, true)             (* a key nobody handles *)
          end
      end
  end.

(* ListBox.mouse_event, "for w, w_pos, w_rows in w_list" *)
Fixpoint find_row (wl : list fitem) (wrow row : Z) : option (Z * Z) :=
  match wl with
  | [] => None
  | (pos, rows) :: r => if row <? wrow + rows then Some (pos, wrow) else find_row r (wrow + rows) row
  end.

(* ListBox.mouse_event(size, "mouse press", button, col, row, focus=True); the item widgets'
   mouse_event returns False.  bool = return value *)
Definition mouse_press (s : lb) (maxrow button row : Z) : result (lb * bool) :=
  match calculate_visible s maxrow true with
  | Err e => Err e
  | Ok (s, None) => Ok (s, false)
  | Ok (s, Some v) =>
      let wl := rev (v_above v) ++ (v_fpos v, v_frows v) :: v_below v in
      match find_row wl (- v_trim_top v) row with
      | None => Ok (s, false)
      | Some (w_pos, wrow) =>
          let r1 := if (button =? 1) && sel_at (items s) w_pos then change_focus s maxrow w_pos wrow CNone
                    else Ok s in
          match r1 with
          | Err e => Err e
          | Ok s =>
              if button =? 4 then
                match keypress_up s maxrow with Err e => Err e | Ok (s, unh) => Ok (s, negb unh) end
              else if button =? 5 then
                match keypress_down s maxrow with Err e => Err e | Ok (s, unh) => Ok (s, negb unh) end
              else Ok (s, false)
          end
      end
  end.

(* ---------------------------------------------------------------------------------------- *)
(* operations of a history *)
Inductive op :=
  | ORender (maxrow : Z) (fflag : bool)
  | OKey (maxrow : Z) (k : key)
  | OMouse (maxrow button row : Z)
  | OSetFocus (position : Z) (cf : coming)
  | OSync (f o n d : Z) (p : pending) (vp : option valign)   (* state after an operation that is not modelled *)
  | OValign (va : valign)
  | OItems (its : list item) (f : Z)           (* the walker was edited: new contents and focus *)
  | OShift (maxrow oi : Z)
  | OChange (maxrow position oi : Z) (cf : coming)
  | OCursorVisible (maxrow : Z).

Inductive outcome :=
  | OutState                                     (* nothing but the new state *)
  | OutFlag (b : bool)
  | OutView (rows : list (Z * Z)) (cur : option Z).

Definition step (s : lb) (o : op) : result (lb * outcome) :=
  match o with
  | ORender maxrow fflag =>
      match render s maxrow fflag with Err e => Err e | Ok (s, (rows, cur)) => Ok (s, OutView rows cur) end
  | OKey maxrow k =>
      match keypress s maxrow k with Err e => Err e | Ok (s, b) => Ok (s, OutFlag b) end
  | OMouse maxrow button row =>
      match mouse_press s maxrow button row with Err e => Err e | Ok (s, b) => Ok (s, OutFlag b) end
  | OSetFocus position cf =>
      match set_focus s position cf with Err e => Err e | Ok s => Ok (s, OutState) end
  | OSync f o n d p vp =>
      Ok ({| items := items s; focus := f; off := o; inum := n; iden := d; pend := p; vpend := vp |}, OutState)
  | OValign va => Ok (set_focus_valign s va, OutState)
  | OItems its f => Ok (set_items s its f, OutState)
  | OShift maxrow oi =>
      match shift_focus s maxrow oi with Err e => Err e | Ok s => Ok (s, OutState) end
  | OChange maxrow position oi cf =>
      match change_focus s maxrow position oi cf with Err e => Err e | Ok s => Ok (s, OutState) end
  | OCursorVisible maxrow =>
      match make_cursor_visible s maxrow with Err e => Err e | Ok s => Ok (s, OutState) end
  end.

(* run a history; stops at the first exception *)
Fixpoint run (s : lb) (ops : list op) : list (result (lb * outcome)) :=
  match ops with
  | [] => []
  | o :: r =>
      match step s o with
      | Err e => [Err e]
      | Ok (s', out) => Ok (s', out) :: run s' r
      end
  end.

(* ---------------------------------------------------------------------------------------- *)
(* wire format (harness <-> extracted model)
   case  = nitems (rows sel cy1)* focus off inum iden pending nops op*
           cy1 = 0 for "no cursor", cy+1 otherwise
           pending = (0 | 1 | 2 cf old) valign      cf = 0 None, 1 above, 2 below
           valign  = 0 (none pending) | 1 top | 2 middle | 3 bottom | 4 percent
           op = 1 maxrow fflag
              | 2 maxrow keycode(1 up, 2 down, 3 j, 4 k, 5 home, 6 end, 7 page up, 8 page down, 9 other)
              | 3 maxrow button row
              | 4 position cf | 5 f o n d pending | 6 nitems (rows sel cy1)* f | 7 maxrow oi
              | 8 maxrow position oi cf | 9 maxrow | 10 valign(1..4 [percent])
   reply = per executed op:  0 <outcome> focus off inum iden pending   or   errcode (and stop)
           outcome = 0 | 1 b | 2 nrows (pos row)* cursor(oz)                                *)
Definition dec_cf (c : Z) : coming := if c =? 1 then CAbove else if c =? 2 then CBelow else CNone.
Definition enc_cf (c : coming) : Z := match c with CNone => 0 | CAbove => 1 | CBelow => 2 end.

Fixpoint dec_items (n : nat) (l : list Z) : option (list item * list Z) :=
  match n with
  | O => Some ([], l)
  | S k =>
      match l with
      | rows :: sel :: cy1 :: r =>
          match dec_items k r with
          | Some (its, r') =>
              Some ({| i_rows := rows; i_sel := negb (sel =? 0);
                       i_cy := if cy1 =? 0 then None else Some (cy1 - 1) |} :: its, r')
          | None => None
          end
      | _ => None
      end
  end.

Definition dec_pending (l : list Z) : option (pending * list Z) :=
  match l with
  | 0 :: r => Some (PNone, r)
  | 1 :: r => Some (PFirst, r)
  | 2 :: cf :: old :: r => Some (PSet (dec_cf cf) old, r)
  | _ => None
  end.
Definition enc_pending (p : pending) : list Z :=
  match p with PNone => [0] | PFirst => [1] | PSet cf old => [2; enc_cf cf; old] end.

Definition dec_valign (l : list Z) : option (option valign * list Z) :=
  match l with
  | 0 :: r => Some (None, r)
  | 1 :: r => Some (Some VTop, r)
  | 2 :: r => Some (Some VMiddle, r)
  | 3 :: r => Some (Some VBottom, r)
  | 4 :: p :: r => Some (Some (VRel p), r)
  | _ => None
  end.
Definition enc_valign (v : option valign) : list Z :=
  match v with
  | None => [0] | Some VTop => [1] | Some VMiddle => [2] | Some VBottom => [3] | Some (VRel p) => [4; p]
  end.
Definition dec_pending2 (l : list Z) : option (pending * option valign * list Z) :=
  match dec_pending l with
  | Some (p, r) => match dec_valign r with Some (v, r') => Some (p, v, r') | None => None end
  | None => None
  end.

Definition dec_op (l : list Z) : option (op * list Z) :=
  match l with
  | 1 :: maxrow :: ff :: r => Some (ORender maxrow (negb (ff =? 0)), r)
  | 2 :: maxrow :: k :: r =>
      Some (OKey maxrow (if k =? 1 then KUp else if k =? 2 then KDown else if k =? 3 then KCur 1
                         else if k =? 4 then KCur (-1) else if k =? 5 then KHome else if k =? 6 then KEnd
                         else if k =? 7 then KPageUp else if k =? 8 then KPageDown else KOther), r)
  | 3 :: maxrow :: button :: row :: r => Some (OMouse maxrow button row, r)
  | 4 :: position :: cf :: r => Some (OSetFocus position (dec_cf cf), r)
  | 5 :: f :: o :: n :: d :: r =>
      match dec_pending2 r with Some (p, vp, r') => Some (OSync f o n d p vp, r') | None => None end
  | 6 :: n :: r =>
      if n <? 0 then None else
      match dec_items (Z.to_nat n) r with
      | Some (its, f :: r') => Some (OItems its f, r')
      | _ => None
      end
  | 7 :: maxrow :: oi :: r => Some (OShift maxrow oi, r)
  | 8 :: maxrow :: position :: oi :: cf :: r => Some (OChange maxrow position oi (dec_cf cf), r)
  | 9 :: maxrow :: r => Some (OCursorVisible maxrow, r)
  | 10 :: r => match dec_valign r with Some (Some va, r') => Some (OValign va, r') | _ => None end
  | _ => None
  end.

Fixpoint dec_ops (fuel : nat) (l : list Z) : list op :=
  match fuel with
  | O => []
  | S k => match dec_op l with Some (o, r) => o :: dec_ops k r | None => [] end
  end.

Definition enc_state (s : lb) : list Z :=
  [focus s; off s; inum s; iden s] ++ enc_pending (pend s) ++ enc_valign (vpend s).

Definition enc_outcome (o : outcome) : list Z :=
  match o with
  | OutState => [0]
  | OutFlag b => [1; enc_bool b]
  | OutView rows cur => 2 :: zlen rows :: flat_map (fun pr => [fst pr; snd pr]) rows ++ enc_oz cur
  end.

Definition enc_result (r : result (lb * outcome)) : list Z :=
  match r with
  | Err e => [errcode e]
  | Ok (s, o) => 0 :: enc_outcome o ++ enc_state s
  end.

Definition run_case (l : list Z) : list Z :=
  match l with
  | n :: r =>
      if n <? 0 then [-1] else
      match dec_items (Z.to_nat n) r with
      | Some (its, f :: o :: nu :: de :: r1) =>
          match dec_pending2 r1 with
          | Some (p, vp, _nops :: r2) =>
              let s := {| items := its; focus := f; off := o; inum := nu; iden := de; pend := p; vpend := vp |} in
              flat_map enc_result (run s (dec_ops (length r2) r2))
          | _ => [-1]
          end
      | _ => [-1]
      end
  | [] => [-1]
  end.
