(* C20 - executable model of urwid/widget/scrollable.py (Scrollable, ScrollBar).  No proofs here.

   The wrapped widget is EXTERNAL to the code under study: every call the code makes on it appears
   in the model as an observation supplied with the operation (what its full canvas measured, where
   its cursor was, whether it handled the key ...).  In the theorems these are universally quantified;
   in the correspondence run they are what the real wrapped widget answered.

   [adjust_trim_top_gen] is regenerated from the source on every run (Gen/scrollable_gen.v); the rest
   mirrors the Python line by line (function names in the comments).
   Not modelled: automove_cursor_on_scroll, ScrollBar's relative mode (ListBox). *)
From Coq Require Import ZArith QArith Qround List Bool.
From Urwid Require Import PyBase ScrollBase scrollable_gen ScrollFloat.
Import ListNotations.
Open Scope Z_scope.

(* ------------------------------------------------------------------ Scrollable *)

Record sstate := SState {
  trim_top : Z;                  (* self._trim_top *)
  action : scroll_action;        (* self._scroll_action *)
  forward : bool;                (* self._forward_keypress (None = False) *)
  old_cursor : coords;           (* self._old_cursor_coords *)
  rows_cached : Z                (* self._rows_max_cached *)
}.

(* Scrollable.__init__ *)
Definition sinit : sstate := SState 0 ANone false None 0.

(* what the wrapped widget's full canvas looked like *)
Record cobs := CObs {
  c_cols : Z; c_rows : Z;        (* canv_full.cols(), canv_full.rows() *)
  c_cursor : coords;             (* canv_full.cursor *)
  c_selectable : bool            (* ow.selectable() *)
}.

(* the canvas Scrollable.render returns, described by its provenance:
   view rows = child rows [v_top, v_top + v_shown) followed by v_blank blank rows;
   each row = child columns [0, c_cols - v_trimr) followed by v_padr blank columns *)
Record view := View {
  v_top : Z; v_shown : Z; v_blank : Z; v_padr : Z; v_trimr : Z; v_cursor : coords
}.

(* CompositeCanvas._drop_cursor_outside: the cursor is forgotten unless it lies inside a canvas of cols x rows *)
Definition inside_canvas (cols rows : Z) (cu : coords) : coords :=
  match cu with
  | Some (x, y) => if (0 <=? x) && (x <? cols) && (0 <=? y) && (y <? rows) then cu else None
  | None => None
  end.

(* Scrollable.render(size, focus) *)
Definition s_render (st : sstate) (maxcol maxrow : Z) (ob : cobs) : result (sstate * view) :=
  let canv_cols := c_cols ob in
  let canv_rows := c_rows ob in
  (* if canv_cols <= maxcol and (pad_width := maxcol - canv_cols) > 0: canv.pad_trim_left_right(0, pad_width) *)
  let pad_width := if (canv_cols <=? maxcol) && (0 <? maxcol - canv_cols) then maxcol - canv_cols else 0 in
  (* if canv_rows <= maxrow and (fill_height := maxrow - canv_rows) > 0: canv.pad_trim_top_bottom(0, fill_height) *)
  let fill_height := if (canv_rows <=? maxrow) && (0 <? maxrow - canv_rows) then maxrow - canv_rows else 0 in
  (* if canv_cols <= maxcol and canv_rows <= maxrow:
         self._trim_top = 0; self._scroll_action = None
         self._forward_keypress = True if canv_full.cursor is not None else ow.selectable()
         return canv *)
  if (canv_cols <=? maxcol) && (canv_rows <=? maxrow) then
    let fwd := match c_cursor ob with Some _ => true | None => c_selectable ob end in
    Ok (SState 0 ANone fwd (old_cursor st) (rows_cached st),
        View 0 canv_rows fill_height pad_width 0 (c_cursor ob))
  else
    (* self._adjust_trim_top(canv, size): canv is the padded canvas *)
    let padded_rows := canv_rows + fill_height in
    let '(tp, act, old) :=
      adjust_trim_top_gen (trim_top st) (action st) (old_cursor st) padded_rows (c_cursor ob) (maxcol, maxrow) in
    let trim_end := canv_rows - maxrow - tp in
    let trim_right := canv_cols - maxcol in
    (* if trim_top > 0: canv.trim(trim_top)   -- ValueError when trim_top >= canv.rows() *)
    if (0 <? tp) && (padded_rows <=? tp) then Err ValueError else
    let rows1 := if 0 <? tp then padded_rows - tp else padded_rows in
    (* if trim_end > 0: canv.trim_end(trim_end)   -- ValueError when trim_end > canv.rows() *)
    if (0 <? trim_end) && (rows1 <? trim_end) then Err ValueError else
    let rows2 := if 0 <? trim_end then rows1 - trim_end else rows1 in
    (* if trim_right > 0: canv.pad_trim_left_right(0, -trim_right) *)
    let trimr := if 0 <? trim_right then trim_right else 0 in
    let top := if 0 <? tp then tp else 0 in
    let shown := Z.min (Z.max 0 (canv_rows - top)) rows2 in
    (* cursor: trim() translates the coordinates by -trim_top; trim(), trim_end() and the right trim each end with
       _drop_cursor_outside(): the cursor is forgotten unless 0 <= x < cols() and 0 <= y < rows() of the canvas at
       that moment (canvas.py since fix aa8a06a).  Then: if cursrow >= maxrow or cursrow < 0: canv.cursor = None *)
    let cols1 := canv_cols + pad_width in
    let cur_a := if 0 <? tp
                 then inside_canvas cols1 rows1 (match c_cursor ob with Some (c, r) => Some (c, r - tp) | None => None end)
                 else c_cursor ob in
    let cur_b := if 0 <? trim_end then inside_canvas cols1 rows2 cur_a else cur_a in
    let cur1 := if 0 <? trim_right then inside_canvas (cols1 + - trim_right) rows2 cur_b else cur_b in
    let cur2 := match cur1 with
                | Some (c, r) => if (maxrow <=? r) || (r <? 0) then None else Some (c, r)
                | None => None end in
    (* forwarding decision *)
    let fwd := match cur2 with
               | Some _ => true
               | None => match c_cursor ob with
                         | Some _ => false
                         | None => c_selectable ob
                         end
               end in
    Ok (SState tp act fwd old (rows_cached st),
        View top shown (rows2 - shown) pad_width trimr cur2).

(* the command a key is mapped to by the command map, as far as Scrollable.keypress cares *)
Inductive kcmd := KOther | KUp | KDown | KPageUp | KPageDown | KMaxLeft | KMaxRight.

(* what the wrapped widget did with a forwarded key *)
Record kobs := KObs {
  k_has_gcc : bool;        (* hasattr(ow, "get_cursor_coords") *)
  k_gcc : coords;          (* ow.get_cursor_coords(ow_size) *)
  k_handled : bool;        (* ow.keypress(...) returned None *)
  k_retcmd : kcmd          (* command of the key it returned otherwise *)
}.

Record kres := KRes { kr_forwarded : bool; kr_none : bool }.

(* Scrollable.keypress(size, key); [cmd] = command_map[key] *)
Definition s_keypress (st : sstate) (force : bool) (cmd : kcmd) (ko : kobs) : sstate * kres :=
  let fw := forward st || force in
  (* if self._forward_keypress or self.force_forward_keypress: ... *)
  let st1 := if fw && k_has_gcc ko
             then SState (trim_top st) (action st) (forward st) (k_gcc ko) (rows_cached st) else st in
  if fw && k_handled ko then (st1, KRes true true)       (* key is None: return None *)
  else
    let cmd' := if fw then k_retcmd ko else cmd in
    let set a := (SState (trim_top st1) a (forward st1) (old_cursor st1) (rows_cached st1), KRes fw true) in
    match cmd' with
    | KUp => set ALineUp
    | KDown => set ALineDown
    | KPageUp => set APageUp
    | KPageDown => set APageDown
    | KMaxLeft => set AToTop
    | KMaxRight => set AToEnd
    | KOther => (st1, KRes fw false)                     (* return key *)
    end.

(* Scrollable.mouse_event: forwarded whenever the wrapped widget has a mouse_event method
   (row += self._trim_top); returns (row given to the wrapped widget, its answer), else False *)
Definition s_mouse (st : sstate) (has_mouse : bool) (row : Z) (child_handled : bool) : Z * bool :=
  if has_mouse then (row + trim_top st, child_handled) else (0, false).

(* Scrollable.set_scrollpos *)
Definition s_set_scrollpos (st : sstate) (p : Z) : sstate :=
  SState p (action st) (forward st) (old_cursor st) (rows_cached st).

(* Scrollable.rows_max(size): caches and returns what the wrapped widget says *)
Definition s_rows_max (st : sstate) (rows : Z) : sstate :=
  SState (trim_top st) (action st) (forward st) (old_cursor st) rows.

(* ------------------------------------------------------------------ ScrollBar *)

(* thumb_geom / thumb_weight_of (the float arithmetic of ScrollBar.render) live in Model/ScrollFloat.v *)

Record bstate := BState {
  inner : sstate;
  bar_width_raw : Z;            (* self._scrollbar_width = max(1, int(width)) *)
  ow_size : Z * Z               (* self._original_widget_size *)
}.

(* ScrollBar.__init__ -> scrollbar_width setter *)
Definition binit (width : Z) : bstate := BState sinit (Z.max 1 width) (0, 0).

Record bar := Bar { b_width : Z; b_top : Z; b_thumb : Z; b_bottom : Z }.

(* observations during ScrollBar.render: rows the wrapped content needs at the full width
   (rows_max(size)), the canvas it rendered, rows at the reduced width (rows_max(ow_size)) *)
Record bobs := BObs { o_rows_full : Z; o_canvas : cobs; o_rows_w : Z }.

(* ScrollBar.render(size, focus) over a Scrollable; returns the width given to the wrapped widget too *)
Definition b_render (bs : bstate) (maxcol maxrow : Z) (ob : bobs)
  : result (bstate * (Z * option bar * view)) :=
  (* ow_size = (max(0, maxcol - self._scrollbar_width), maxrow); sb_width = maxcol - ow_size[0] *)
  let ow_w := Z.max 0 (maxcol - bar_width_raw bs) in
  let sb_width := maxcol - ow_w in
  (* if ow_base.rows_max(size, focus) > maxrow: *)
  let st0 := s_rows_max (inner bs) (o_rows_full ob) in
  if maxrow <? o_rows_full ob then
    (* ow_canv = render_for_scrollbar() *)
    match s_render st0 ow_w maxrow (o_canvas ob) with
    | Err e => Err e
    | Ok (st1, v) =>
      (* ow_rows_max = ow_base.rows_max(ow_size, focus); pos = get_scrollpos; posmax = ow_rows_max - maxrow *)
      let st2 := s_rows_max st1 (o_rows_w ob) in
      let pos := trim_top st2 in
      let posmax := o_rows_w ob - maxrow in
      let '(top, thumb, bottom) := thumb_geom maxrow pos posmax (thumb_weight_of maxrow (o_rows_w ob)) in
      (* range(n) for negative n is empty, CanvasCombine of the three parts must total maxrow rows *)
      if (top <? 0) || (thumb <? 0) || (bottom <? 0) then Err WidgetError else
      Ok (BState st2 (bar_width_raw bs) (ow_w, maxrow), (ow_w, Some (Bar sb_width top thumb bottom), v))
    end
  else
    (* return render_no_scrollbar() *)
    match s_render st0 maxcol maxrow (o_canvas ob) with
    | Err e => Err e
    | Ok (st1, v) => Ok (BState st1 (bar_width_raw bs) (maxcol, maxrow), (maxcol, None, v))
    end.

(* ---- ScrollBar.render over ANY widget speaking the scrolling protocol (SupportsScroll, optionally
   SupportsRelativeScroll: ListBox), including the relative mode.  The wrapped widget is described by what it
   answers during the call. *)
Record pobs := PObs {
  p_relcap : bool;     (* isinstance(ow_base, SupportsRelativeScroll) and it has __length_hint__ / __len__ *)
  p_reqrel : bool;     (* ow_base.require_relative_scroll(size, focus) *)
  p_len : Z;           (* ow_base.__len__() or its length hint *)
  p_visible : Z;       (* ow_base.get_visible_amount(ow_size, focus) *)
  p_first : Z;         (* ow_base.get_first_visible_pos(ow_size, focus) *)
  p_rows_full : Z;     (* ow_base.rows_max(size, focus) *)
  p_rows_w : Z;        (* ow_base.rows_max(ow_size, focus) *)
  p_pos : Z            (* ow_base.get_scrollpos(ow_size, focus) *)
}.

(* the relative block of ScrollBar.render: Some (pos, posmax, thumb_weight) when the relative mode is in effect *)
Definition p_relative (po : pobs) : option (Z * Z * Q) :=
  (* use_relative = isinstance(...) and any(hasattr ...) and ow_base.require_relative_scroll(size, focus) *)
  if p_relcap po && p_reqrel po then
    (* ow_len = max(ow_len, visible_amount, pos); posmax = ow_len - visible_amount
       thumb_weight = min(1.0, visible_amount / max(1, ow_len)) *)
    let ow_len := Z.max (Z.max (p_len po) (p_visible po)) (p_first po) in
    (* if ow_len == visible_amount: use_relative = False *)
    if ow_len =? p_visible po then None
    else Some (p_first po, ow_len - p_visible po, f_min1 (f_div_int_int (p_visible po) (Z.max 1 ow_len)))
  else None.

(* returns (width given to the wrapped widget, the bar if one is drawn) *)
Definition pb_render (bw_raw maxcol maxrow : Z) (po : pobs) : result (Z * option bar) :=
  let ow_w := Z.max 0 (maxcol - bw_raw) in
  let sb_width := maxcol - ow_w in
  let mk (g : Z * Z * Z) :=
    let '(top, thumb, bottom) := g in
    if (top <? 0) || (thumb <? 0) || (bottom <? 0) then Err WidgetError
    else Ok (ow_w, Some (Bar sb_width top thumb bottom)) in
  match p_relative po with
  | Some (pos, posmax, tw) => mk (thumb_geom maxrow pos posmax tw)
  | None =>
      (* if not use_relative: if ow_base.rows_max(size, focus) > maxrow: ... else: return render_no_scrollbar() *)
      if maxrow <? p_rows_full po then
        mk (thumb_geom maxrow (p_pos po) (p_rows_w po - maxrow) (thumb_weight_of maxrow (p_rows_w po)))
      else Ok (maxcol, None)
  end.

(* ScrollBar.mouse_event: wheel scrolling only when the wrapped widget did not handle the event *)
Definition b_mouse (bs : bstate) (has_mouse : bool) (button row : Z) (child_handled : bool) : bstate * (Z * bool) :=
  let '(crow, handled) := s_mouse (inner bs) has_mouse row child_handled in
  let st := inner bs in
  if negb handled && (button =? 4) then
    (BState (s_set_scrollpos st (Z.max (trim_top st - 1) 0)) (bar_width_raw bs) (ow_size bs), (crow, true))
  else if negb handled && (button =? 5) then
    (BState (s_set_scrollpos st (trim_top st + 1)) (bar_width_raw bs) (ow_size bs), (crow, true))
  else (bs, (crow, handled)).

(* ------------------------------------------------------------------ histories *)

Inductive op :=
  | ORender (maxcol maxrow : Z) (ob : bobs)
  | OKey (maxcol : Z) (cmd : kcmd) (ko : kobs)
  | OMouse (maxcol button row : Z) (has_mouse child_handled : bool)
  | OSetPos (p : Z).

(* a widget under test: bare Scrollable (has_bar = false: only [inner] is used) or ScrollBar(Scrollable) *)
Record wstate := WState { has_bar : bool; force : bool; fixed_child : bool; bs : bstate }.

Definition child_w (fixed : bool) (w : Z) : Z := if fixed then -1 else w.   (* () is rendered as -1 *)

Definition enc_coords (c : coords) : list Z :=
  match c with None => [0] | Some (a, b) => [1; a; b] end.

Definition with_inner (w : wstate) (st : sstate) : wstate :=
  WState (has_bar w) (force w) (fixed_child w)
         (BState st (bar_width_raw (bs w)) (ow_size (bs w))).

Definition enc_state (st : sstate) : list Z :=
  [trim_top st; enc_bool (forward st); action_code (action st); rows_cached st] ++ enc_coords (old_cursor st).

Definition enc_view (v : view) : list Z :=
  [v_top v; v_shown v; v_blank v; v_padr v; v_trimr v] ++ enc_coords (v_cursor v).

Definition step (w : wstate) (o : op) : wstate * list Z :=
  match o with
  | ORender maxcol maxrow ob =>
      if has_bar w then
        match b_render (bs w) maxcol maxrow ob with
        | Err e => (w, [1; errcode e])
        | Ok (bs', (cw, ob', v)) =>
            (WState true (force w) (fixed_child w) bs',
             [1; 0; child_w (fixed_child w) cw]
               ++ match ob' with
                  | None => [0; 0; 0; 0; 0]
                  | Some b => [1; b_width b; b_top b; b_thumb b; b_bottom b] end
               ++ enc_view v ++ enc_state (inner bs') ++ [fst (ow_size bs'); snd (ow_size bs')])
        end
      else
        match s_render (inner (bs w)) maxcol maxrow (o_canvas ob) with
        | Err e => (w, [1; errcode e])
        | Ok (st', v) =>
            (with_inner w st',
             [1; 0; child_w (fixed_child w) maxcol; 0; 0; 0; 0; 0] ++ enc_view v ++ enc_state st' ++ [0; 0])
        end
  | OKey maxcol cmd ko =>
      (* ScrollBar.keypress passes self._original_widget_size *)
      let w_for_child := if has_bar w then fst (ow_size (bs w)) else maxcol in
      let '(st', r) := s_keypress (inner (bs w)) (force w) cmd ko in
      (with_inner w st',
       [2; enc_bool (kr_forwarded r); (if kr_forwarded r then child_w (fixed_child w) w_for_child else 0);
        enc_bool (kr_none r)] ++ enc_state st')
  | OMouse maxcol button row hm ch =>
      let w_for_child := if has_bar w then fst (ow_size (bs w)) else maxcol in
      let cw := if hm then child_w (fixed_child w) w_for_child else 0 in
      if has_bar w then
        let '(bs', (crow, ret)) := b_mouse (bs w) hm button row ch in
        (WState true (force w) (fixed_child w) bs',
         [3; crow; cw; enc_bool ret] ++ enc_state (inner bs'))
      else
        let '(crow, ret) := s_mouse (inner (bs w)) hm row ch in
        (w, [3; crow; cw; enc_bool ret] ++ enc_state (inner (bs w)))
  | OSetPos p =>
      let st' := s_set_scrollpos (inner (bs w)) p in
      (with_inner w st', [4] ++ enc_state st')
  end.

Fixpoint run (w : wstate) (ops : list op) : list Z :=
  match ops with
  | [] => []
  | o :: r => let '(w', out) := step w o in out ++ run w' r
  end.

(* ---------- wire format (harness <-> extracted model) ----------
   case = has_bar width force fixed op*
   op   = 1 maxcol maxrow rows_full c_cols c_rows cursor selectable rows_w
        | 2 maxcol cmd has_gcc gcc handled retcmd
        | 3 maxcol button row has_mouse handled
        | 4 p
   cursor/gcc = 0 | 1 col row                                                              *)
Definition dec_coords (l : list Z) : option (coords * list Z) :=
  match l with
  | 0 :: r => Some (None, r)
  | 1 :: a :: b :: r => Some (Some (a, b), r)
  | _ => None
  end.

Definition dec_cmd (z : Z) : kcmd :=
  if z =? 1 then KUp else if z =? 2 then KDown else if z =? 3 then KPageUp else if z =? 4 then KPageDown
  else if z =? 5 then KMaxLeft else if z =? 6 then KMaxRight else KOther.

Definition zb (z : Z) : bool := negb (z =? 0).

Definition dec_op (l : list Z) : option (op * list Z) :=
  match l with
  | 1 :: maxcol :: maxrow :: rf :: cc :: cr :: r =>
      match dec_coords r with
      | Some (cur, sel :: rw :: r') =>
          Some (ORender maxcol maxrow (BObs rf (CObs cc cr cur (zb sel)) rw), r')
      | _ => None
      end
  | 2 :: maxcol :: cmd :: hg :: r =>
      match dec_coords r with
      | Some (g, h :: rc :: r') => Some (OKey maxcol (dec_cmd cmd) (KObs (zb hg) g (zb h) (dec_cmd rc)), r')
      | _ => None
      end
  | 3 :: maxcol :: b :: row :: hm :: h :: r => Some (OMouse maxcol b row (zb hm) (zb h), r)
  | 4 :: p :: r => Some (OSetPos p, r)
  | _ => None
  end.

Fixpoint dec_ops (fuel : nat) (l : list Z) : list op :=
  match fuel with
  | O => []
  | S k => match dec_op l with Some (o, r) => o :: dec_ops k r | None => [] end
  end.

(* sub-model 9: the thumb geometry alone (exercises the float model on arbitrary inputs):
   9 maxrow pos posmax weight_num weight_den  ->  top thumb bottom *)
(* sub-model 8: ScrollBar.render over a protocol widget (ListBox), one record per render:
   8 bw n (maxcol maxrow relcap reqrel len visible first rows_full rows_w pos)*n
     ->  per render: err child_w hasbar sbw top thumb bottom *)
Fixpoint run_proto (bw : Z) (n : nat) (l : list Z) : list Z :=
  match n, l with
  | S k, maxcol :: maxrow :: rc :: rr :: ln :: vis :: fst_ :: rf :: rw :: pos :: r =>
      (match pb_render bw maxcol maxrow (PObs (zb rc) (zb rr) ln vis fst_ rf rw pos) with
       | Err e => [errcode e; 0; 0; 0; 0; 0; 0]
       | Ok (cw, None) => [0; cw; 0; 0; 0; 0; 0]
       | Ok (cw, Some b) => [0; cw; 1; b_width b; b_top b; b_thumb b; b_bottom b]
       end) ++ run_proto bw k r
  | _, _ => []
  end.

Definition run_case (l : list Z) : list Z :=
  match l with
  | 8 :: bw :: n :: r => run_proto (Z.max 1 bw) (Z.to_nat n) r
  | 9 :: maxrow :: pos :: posmax :: a :: b :: _ =>
      let '(t, th, bo) := thumb_geom maxrow pos posmax (f_min1 (f_div_int_int a (Z.max 1 b))) in
      [t; th; bo]
  | hb :: width :: fo :: fx :: r =>
      run (WState (zb hb) (zb fo) (zb fx) (binit width)) (dec_ops (length r) r)
  | _ => [-1]
  end.
