(* C10 - executable model of urwid.widget.edit.Edit / IntEdit and urwid.numedit.NumEdit /
   IntegerEdit / FloatEdit (str mode: texts are lists of code points).

   No proofs in this file.  Every definition names the Python function it mirrors.

   What is data, not model:
   * the text layout: every step that needs the layout (up/down/home/end/click/render/get_pref_col)
     carries the width and the layout structure that StandardTextLayout.layout computed for the
     text displayed at that moment (list of lines, each a list of segments).  calc_coords,
     calc_line_pos, calc_pos, shift_line, Edit.get_line_translation, position_coords,
     move_cursor_to_coords are modelled over that data.
   * the column width of a code point ([cw], str_util.get_char_width), [str.upper] of a character
     ([upper]) and [str.lower] of a string ([lower]): Section variables; the extracted model is instantiated with tables sent by the harness.

   Not modelled: bytes mode, [highlight] (no Edit method ever sets it to a non-None value; it is
   None in every state reachable through the modelled API), the rendered canvas content. *)
From Coq Require Import ZArith List Bool Lia.
From Urwid Require Import PyBase.
Import ListNotations.
Open Scope Z_scope.

(* ---------- layout data (text_layout.py "layout structure") ---------- *)
Inductive seg :=
  | SPad (sc : Z)                 (* (sc, None)            padding / view shift            *)
  | SHint (sc offs : Z)           (* (sc, offs) and (sc, offs, b"insert text"): LayoutSegment
                                     gives both offs and end = None                         *)
  | SText (sc offs en : Z).       (* (sc, offs, end)       text[offs:end] shown in sc columns *)
Definition line := list seg.
Definition layout := list line.

Definition seg_sc (s : seg) : Z :=
  match s with SPad sc => sc | SHint sc _ => sc | SText sc _ _ => sc end.

(* pref_col argument of calc_pos: an int, 'left' or 'right' *)
Inductive prefcol := PInt (x : Z) | PLeft | PRight.

Inductive variant :=
  | VEdit                                             (* urwid.Edit *)
  | VInt                                              (* urwid.IntEdit *)
  | VNum (allowed : list Z) (trim negative : bool).   (* urwid.numedit.NumEdit *)

Inductive key :=
  | KText (cs : list Z)    (* any key string that is not one of the names below: one character,
                              several characters, or a key name the editor has no use for ("f5") *)
  | KTab | KEnter | KLeft | KRight | KUp | KDown | KBackspace | KDelete | KHome | KEnd.

Inductive sig :=
  | SChange (arg cur : list Z) (curpos : Z)   (* 'change' with argument arg, emitted while edit_text = cur *)
  | SPost (arg cur : list Z) (curpos : Z).    (* 'postchange' *)

Record st := St {
  caption : list Z;
  text : list Z;                    (* _edit_text *)
  pos : Z;                          (* _edit_pos *)
  pref : option (prefcol * Z);      (* pref_col_maxcol: None = (None, None) *)
  shiftv : bool;                    (* _shift_view_to_cursor *)
  rcache : option (Z * bool);       (* CanvasCache: (maxcol, focus) of the canvas returned by the last
                                       render if nothing called _invalidate() since (the caller keeps
                                       only the most recent canvas alive, as a screen does) *)
  multiline : bool;
  allow_tab : bool;
  mask : option Z;
  var : variant }.

(* with_pos / with_text are only used where the code calls _invalidate(): the render cache is dropped *)
Definition with_pos (s : st) (p : Z) (pf : option (prefcol * Z)) : st :=
  St (caption s) (text s) p pf (shiftv s) None (multiline s) (allow_tab s) (mask s) (var s).
Definition with_text (s : st) (t : list Z) : st :=
  St (caption s) t (pos s) (pref s) (shiftv s) None (multiline s) (allow_tab s) (mask s) (var s).
Definition with_pref (s : st) (pf : option (prefcol * Z)) : st :=
  St (caption s) (text s) (pos s) pf (shiftv s) (rcache s) (multiline s) (allow_tab s) (mask s) (var s).
Definition with_shiftv (s : st) (b : bool) : st :=
  St (caption s) (text s) (pos s) (pref s) b (rcache s) (multiline s) (allow_tab s) (mask s) (var s).
Definition with_rcache (s : st) (c : option (Z * bool)) : st :=
  St (caption s) (text s) (pos s) (pref s) (shiftv s) c (multiline s) (allow_tab s) (mask s) (var s).

Definition clampz (v lo hi : Z) : Z := Z.min (Z.max v lo) hi.

(* text[a:b] for 0 <= a *)
Definition slicez (t : list Z) (a b : Z) : list Z := takez (b - a) (dropz a t).

Fixpoint sumz (l : list Z) : Z := match l with [] => 0 | x :: r => x + sumz r end.

Fixpoint replz {A} (n : nat) (x : A) : list A := match n with O => [] | S k => x :: replz k x end.

(* str.__contains__ for a substring: [u in s] *)
Fixpoint is_prefix (u s : list Z) : bool :=
  match u, s with
  | [], _ => true
  | _ :: _, [] => false
  | a :: u', b :: s' => (a =? b) && is_prefix u' s'
  end.
Fixpoint is_sub (u s : list Z) : bool :=
  is_prefix u s || match s with [] => false | _ :: s' => is_sub u s' end.

Fixpoint list_eqb (a b : list Z) : bool :=
  match a, b with
  | [], [] => true
  | x :: a', y :: b' => (x =? y) && list_eqb a' b'
  | _, _ => false
  end.

Fixpoint memz (x : Z) (l : list Z) : bool :=
  match l with [] => false | y :: r => (x =? y) || memz x r end.

Section Model.
Variable cw : Z -> Z.              (* str_util.get_char_width of a code point *)
Variable upper : Z -> list Z.      (* str.upper of a one-character string *)
Variable lower : list Z -> list Z. (* str.lower *)

(* ---------- str_util ---------- *)

(* str_util.calc_width (str): sum(get_char_width(c) for c in text[start:end]); callers guarantee start <= end *)
Definition calc_width (t : list Z) (a b : Z) : Z := sumz (map cw (slicez t a b)).

(* str_util.calc_string_text_pos: the for loop, idx = current index, n = iterations left *)
Fixpoint ctp_loop (t : list Z) (n : nat) (idx cols pref_col end_offs : Z) : result (Z * Z) :=
  match n with
  | O => Ok (end_offs, cols)
  | S n' =>
      match nthz t idx with
      | None => Err IndexError
      | Some c =>
          let w := cw c in
          if w + cols >? pref_col then Ok (idx, cols)
          else ctp_loop t n' (idx + 1) (cols + w) pref_col end_offs
      end
  end.

(* str_util.calc_text_pos (str branch) *)
Definition calc_text_pos (t : list Z) (start_offs end_offs pref_col : Z) : result (Z * Z) :=
  if start_offs >? end_offs then Err ValueError
  else ctp_loop t (Z.to_nat (end_offs - start_offs)) start_offs 0 pref_col end_offs.

Definition ctp_pos (t : list Z) (a b c : Z) : result Z :=
  match calc_text_pos t a b c with Ok (p, _) => Ok p | Err e => Err e end.

(* ---------- text_layout.calc_coords ---------- *)
Definition closest_t := option (Z * (Z * Z)).

Definition closer (cl : closest_t) (d x y : Z) : closest_t :=
  match cl with
  | None => Some (d, (x, y))
  | Some (d0, _) => if d <? d0 then Some (d, (x, y)) else cl
  end.

(* inner loop over the segments of one line: inl = returned, inr = (closest, x) carried on *)
Fixpoint cc_segs (t : list Z) (segs : line) (p x y : Z) (cl : closest_t) : (Z * Z) + closest_t :=
  match segs with
  | [] => inr cl
  | SPad sc :: r => cc_segs t r p (x + sc) y cl
  | SHint sc offs :: r =>
      if offs =? p then inl (x, y)
      else cc_segs t r p (x + sc) y (closer cl (Z.abs (offs - p)) x y)
  | SText sc offs en :: r =>
      if offs =? p then inl (x, y)
      else if (offs <=? p) && (p <? en) then inl (x + calc_width t offs p, y)
      else
        let d := if en <? p then p - (en - 1) else Z.abs (offs - p) in
        cc_segs t r p (x + sc) y (closer cl d x y)
  end.

Fixpoint cc_rows (t : list Z) (lay : layout) (p y : Z) (cl : closest_t) : Z * Z :=
  match lay with
  | [] => match cl with Some (_, xy) => xy | None => (0, 0) end
  | l :: r =>
      match cc_segs t l p 0 y cl with
      | inl xy => xy
      | inr cl' => cc_rows t r p (y + 1) cl'
      end
  end.

Definition calc_coords (t : list Z) (lay : layout) (p : Z) : Z * Z := cc_rows t lay p 0 None.

(* ---------- text_layout.calc_line_pos ---------- *)
Inductive cpos := CNone | CInt (p : Z) | CSeg (sc offs en : Z).

(* pref_col == "left": first segment with an offset *)
Fixpoint clp_left (segs : line) : option Z :=
  match segs with
  | [] => None
  | SPad _ :: r => clp_left r
  | SHint _ offs :: _ => Some offs
  | SText _ offs _ :: _ => Some offs
  end.

(* pref_col == "right": last segment with an offset *)
Fixpoint clp_last (segs : line) (acc : option seg) : option seg :=
  match segs with
  | [] => acc
  | SPad _ :: r => clp_last r acc
  | s :: r => clp_last r (Some s)
  end.

Definition clp_right (t : list Z) (segs : line) : result (option Z) :=
  match clp_last segs None with
  | None => Ok None
  | Some (SText sc offs en) =>
      match ctp_pos t offs en (sc - 1) with Ok p => Ok (Some p) | Err e => Err e end
  | Some (SHint _ offs) => Ok (Some offs)
  | Some (SPad _) => Ok None
  end.

Definition clp_finish (t : list Z) (cp : cpos) : result (option Z) :=
  match cp with
  | CNone => Ok None
  | CInt p => Ok (Some p)
  | CSeg sc offs en =>
      match ctp_pos t offs en (sc - 1) with Ok p => Ok (Some p) | Err e => Err e end
  end.

(* the part of the loop body common to every segment that has an offset:
   "this screen column is closer" + "we're moving past" *)
Definition clp_common (pc cur offs : Z) (csc : option Z) (cp : cpos) : option Z * cpos * bool :=
  let '(csc1, cp1) :=
    match csc with
    | None => (cur, CInt offs)
    | Some c => if Z.abs (pc - cur) <? Z.abs (pc - c) then (cur, CInt offs) else (c, cp)
    end in
  (Some csc1, cp1, cur >? csc1).

(* integer pref_col: the for loop; csc = closest_sc, cp = closest_pos, cur = current_sc *)
Fixpoint clp_int (t : list Z) (segs : line) (pc : Z) (csc : option Z) (cp : cpos) (cur : Z)
  : result (option Z) :=
  match segs with
  | [] => clp_finish t cp
  | SPad sc :: r => clp_int t r pc csc cp (cur + sc)
  | SHint sc offs :: r =>
      let '(csc1, cp1, brk) := clp_common pc cur offs csc cp in
      if brk then clp_finish t cp1 else clp_int t r pc csc1 cp1 (cur + sc)
  | SText sc offs en :: r =>
      if (cur <=? pc) && (pc <? cur + sc) then
        match ctp_pos t offs en (pc - cur) with Ok p => Ok (Some p) | Err e => Err e end
      else
        let '(csc0, cp0) := if cur <=? pc then (Some (cur + sc - 1), CSeg sc offs en) else (csc, cp) in
        let '(csc1, cp1, brk) := clp_common pc cur offs csc0 cp0 in
        if brk then clp_finish t cp1 else clp_int t r pc csc1 cp1 (cur + sc)
  end.

Definition calc_line_pos (t : list Z) (segs : line) (pc : prefcol) : result (option Z) :=
  match pc with
  | PLeft => Ok (clp_left segs)
  | PRight => clp_right t segs
  | PInt c => clp_int t segs c None CNone 0
  end.

(* ---------- text_layout.calc_pos ---------- *)
(* the "while rows_above and rows_below" loop *)
Fixpoint cp_alt (t : list Z) (lay : layout) (pc : prefcol) (above below : list Z) : result Z :=
  match above, below with
  | a :: ar, b :: br =>
      match calc_line_pos t (nth (Z.to_nat a) lay []) pc with
      | Err e => Err e
      | Ok (Some p) => Ok p
      | Ok None =>
          match calc_line_pos t (nth (Z.to_nat b) lay []) pc with
          | Err e => Err e
          | Ok (Some p) => Ok p
          | Ok None => cp_alt t lay pc ar br
          end
      end
  | _, _ => Ok 0
  end.

(* [a, a-1, ..., 0] for n = a+1 *)
Fixpoint down_from (n : nat) : list Z :=
  match n with O => [] | S k => Z.of_nat k :: down_from k end.
(* [a, a+1, ...] n items *)
Fixpoint up_from (a : Z) (n : nat) : list Z :=
  match n with O => [] | S k => a :: up_from (a + 1) k end.

Definition calc_pos (t : list Z) (lay : layout) (pc : prefcol) (row : Z) : result Z :=
  if (row <? 0) || (row >=? zlen lay) then Err ValueError
  else
    match calc_line_pos t (nth (Z.to_nat row) lay []) pc with
    | Err e => Err e
    | Ok (Some p) => Ok p
    | Ok None =>
        cp_alt t lay pc (down_from (Z.to_nat row)) (up_from (row + 1) (Z.to_nat (zlen lay - row - 1)))
    end.

(* ---------- text_layout.shift_line ---------- *)
Definition shift_line (segs : line) (amount : Z) : line :=
  match segs with
  | SPad sc :: r => let a := amount + sc in if a =? 0 then r else SPad a :: r
  | _ => if amount =? 0 then segs else SPad amount :: segs
  end.

(* ---------- Edit ---------- *)

(* Edit.get_text()[0]: caption + edit_text, or caption + mask * len(edit_text) *)
Definition disp (s : st) : list Z :=
  caption s ++ match mask s with None => text s | Some m => replz (length (text s)) m end.

(* Edit.get_line_translation; lay = Text.get_line_translation(maxcol) (the layout of disp s) *)
Definition get_line_translation (s : st) (w : Z) (lay : layout) : layout :=
  if negb (shiftv s) then lay
  else
    let '(x, y) := calc_coords (disp s) lay (pos s + zlen (caption s)) in
    if x <? 0 then
      takez y lay ++ [shift_line (nth (Z.to_nat y) lay []) (- x)] ++ dropz (y + 1) lay
    else if x >=? w then
      takez y lay ++ [shift_line (nth (Z.to_nat y) lay []) (- (x - w + 1))] ++ dropz (y + 1) lay
    else lay.

(* Edit.position_coords *)
Definition position_coords (s : st) (w : Z) (lay : layout) (p : Z) : Z * Z :=
  calc_coords (disp s) (get_line_translation s w lay) (p + zlen (caption s)).

(* Edit.get_cursor_coords: sets _shift_view_to_cursor *)
Definition get_cursor_coords (s : st) (w : Z) (lay : layout) : st * (Z * Z) :=
  let s1 := with_shiftv s true in (s1, position_coords s1 w lay (pos s1)).

(* Edit.get_pref_col *)
Definition get_pref_col (s : st) (w : Z) (lay : layout) : st * prefcol :=
  match pref s with
  | Some (c, w') =>
      if w' =? w then (s, c)
      else let '(s1, (x, _)) := get_cursor_coords s w lay in (s1, PInt x)
  | None => let '(s1, (x, _)) := get_cursor_coords s w lay in (s1, PInt x)
  end.

(* Edit.set_edit_pos *)
Definition set_edit_pos (s : st) (p : Z) : st :=
  with_pos s (clampz p 0 (zlen (text s))) None.

(* Edit.set_edit_text: emit change(new); store; edit_pos = min(edit_pos, len); emit postchange(old) *)
Definition set_edit_text (s : st) (t : list Z) : st * list sig :=
  let s1 := with_text s t in
  let s2 := set_edit_pos s1 (Z.min (pos s1) (zlen t)) in
  (s2, [SChange t (text s) (pos s); SPost (text s) (text s2) (pos s2)]).

(* Edit.insert_text_result (highlight is None) *)
Definition insert_text_result (s : st) (t : list Z) : list Z * Z :=
  (takez (pos s) (text s) ++ t ++ dropz (pos s) (text s), pos s + zlen t).

(* Edit.insert_text *)
Definition insert_text (s : st) (t : list Z) : st * list sig :=
  let '(rt, rp) := insert_text_result s t in
  let '(s1, sg) := set_edit_text s rt in
  (set_edit_pos s1 rp, sg).

(* Edit.valid_char / IntEdit.valid_char / NumEdit.valid_char *)
Definition valid_char (s : st) (cs : list Z) : result bool :=
  match var s with
  | VEdit =>
      match cs with
      | [] => Err IndexError                       (* is_wide_char("", 0) *)
      | c :: r => Ok ((cw c =? 2) || (match r with [] => 32 <=? c | _ => false end))
      end
  | VInt =>
      match cs with
      | [c] => Ok ((48 <=? c) && (c <=? 57))
      | _ => Ok false
      end
  | VNum allowed _ negative =>
      match cs with
      | [c] =>
          let up := upper c in
          (* up in self._allowed and ch in {up, up.lower()} *)
          if is_sub up allowed && (list_eqb [c] up || list_eqb [c] (lower up)) then
            Ok (negb ((pos s =? 0) && match text s with 45 :: _ => true | _ => false end))
          else
            Ok (negative && (c =? 45) && (pos s =? 0) && negb (memz 45 (text s)))
      | _ => Ok false
      end
  end.

(* outcome of one call *)
Inductive ret :=
  | RHandled                 (* keypress returned None *)
  | RUnhandled               (* keypress returned the key *)
  | RBool (b : bool)         (* mouse_event / move_cursor_to_coords *)
  | RCoords (x y rows : Z)   (* render(focus=True): canvas cursor and rows *)
  | RRows (rows : Z)         (* render(focus=False) *)
  | RPref (p : prefcol)      (* get_pref_col *)
  | RUnit.

Definition outcome := (st * list sig * result ret)%type.

(* Edit.move_cursor_to_coords *)
Definition move_cursor_to_coords (s : st) (w : Z) (lay : layout) (x : prefcol) (y : Z) : st * result bool :=
  let trans := get_line_translation s w lay in
  let '(_, top_y) := position_coords s w lay 0 in
  if (y <? top_y) || (y >=? zlen trans) then (s, Ok false)
  else
    match calc_pos (disp s) trans x y with
    | Err e => (s, Err e)
    | Ok p =>
        let e_pos := clampz (p - zlen (caption s)) 0 (zlen (text s)) in
        (with_pref (set_edit_pos s e_pos) (Some (x, w)), Ok true)
    end.

Definition spaces (n : Z) : list Z := replz (Z.to_nat n) 32.

(* Edit.keypress; (w, lay) are used by up/down/home/end only *)
Definition keypress_edit (s : st) (k : key) (w : Z) (lay : layout) : outcome :=
  let p := pos s in
  let other :=           (* everything after the valid_char test *)
    match k with
    | KText _ => (s, [], Ok RUnhandled)
    | KTab =>
        if allow_tab s then
          let '(s1, sg) := insert_text s (spaces (8 - (pos s mod 8))) in (s1, sg, Ok RHandled)
        else (s, [], Ok RUnhandled)         (* command_map['tab'] is not a cursor command *)
    | KEnter =>
        if multiline s then
          let '(s1, sg) := insert_text s [10] in (s1, sg, Ok RHandled)
        else (s, [], Ok RUnhandled)
    | KLeft =>
        if p =? 0 then (s, [], Ok RUnhandled)
        else (set_edit_pos s (p - 1), [], Ok RHandled)          (* move_prev_char (str) = p - 1 *)
    | KRight =>
        if p >=? zlen (text s) then (s, [], Ok RUnhandled)
        else (set_edit_pos s (p + 1), [], Ok RHandled)          (* move_next_char (str) = p + 1 *)
    | KUp | KDown =>
        let '(s1, (_, y)) := get_cursor_coords s w lay in
        let '(s2, pc) := get_pref_col s1 w lay in
        let y' := match k with KUp => y - 1 | _ => y + 1 end in
        match move_cursor_to_coords s2 w lay pc y' with
        | (s3, Ok true) => (s3, [], Ok RHandled)
        | (s3, Ok false) => (s3, [], Ok RUnhandled)
        | (s3, Err e) => (s3, [], Err e)
        end
    | KBackspace =>
        let s0 := with_pref s None in
        if p =? 0 then (s0, [], Ok RUnhandled)
        else
          let p1 := p - 1 in
          let '(s1, sg) := set_edit_text s0 (takez p1 (text s0) ++ dropz (pos s0) (text s0)) in
          (set_edit_pos s1 p1, sg, Ok RHandled)
    | KDelete =>
        let s0 := with_pref s None in
        if p >=? zlen (text s0) then (s0, [], Ok RUnhandled)
        else
          let p1 := p + 1 in
          let '(s1, sg) := set_edit_text s0 (takez (pos s0) (text s0) ++ dropz p1 (text s0)) in
          (s1, sg, Ok RHandled)
    | KHome | KEnd =>
        let s0 := with_pref s None in
        let '(s1, (_, y)) := get_cursor_coords s0 w lay in
        match move_cursor_to_coords s1 w lay (match k with KHome => PLeft | _ => PRight end) y with
        | (s2, Ok _) => (s2, [], Ok RHandled)
        | (s2, Err e) => (s2, [], Err e)
        end
    end in
  match k with
  | KText cs =>
      match valid_char s cs with
      | Err e => (s, [], Err e)
      | Ok true => let '(s1, sg) := insert_text s cs in (s1, sg, Ok RHandled)
      | Ok false => other
      end
  | _ => other       (* valid_char(key name) is False: a key name is longer than one character
                        and does not start with a double-width character *)
  end.

(* the "trim leading zeros" loop of IntEdit.keypress / NumEdit.keypress; fuel >= edit_pos *)
Fixpoint trim_loop (n : nat) (s : st) (sg : list sig) : result (st * list sig) :=
  if (pos s >? 0) && match text s with 48 :: _ => true | _ => false end then
    match n with
    | O => Err RuntimeErrorK                     (* out of fuel: never happens (EditProofs.trim_loop_fuel) *)
    | S n' =>
        let s1 := set_edit_pos s (pos s - 1) in
        let '(s2, sg2) := set_edit_text s1 (dropz 1 (text s1)) in
        trim_loop n' s2 (sg ++ sg2)
    end
  else Ok (s, sg).

Definition trim_zeros (o : outcome) : outcome :=
  match o with
  | (s1, sg, Ok RHandled) =>
      match trim_loop (Z.to_nat (pos s1)) s1 sg with
      | Ok (s2, sg2) => (s2, sg2, Ok RHandled)
      | Err e => (s1, sg, Err e)
      end
  | _ => o
  end.

(* Edit.keypress / IntEdit.keypress / NumEdit.keypress *)
Definition keypress (s : st) (k : key) (w : Z) (lay : layout) : outcome :=
  let o := keypress_edit s k w lay in
  match var s with
  | VEdit => o
  | VInt => trim_zeros o
  | VNum _ trim _ => if trim then trim_zeros o else o
  end.

(* ---------- events of a history ---------- *)
Inductive event :=
  | EKey (k : key) (w : Z) (lay : layout)                (* keypress((w,), key) *)
  | EClick (button col row w : Z) (lay : layout)         (* mouse_event((w,), 'mouse press', button, col, row, True) *)
  | ERender (focus : bool) (w : Z) (lay : layout)        (* render((w,), focus) *)
  | EPrefCol (w : Z) (lay : layout)                      (* get_pref_col((w,)) *)
  | ESetPos (p : Z).                                     (* set_edit_pos(p) *)

Definition step (s : st) (e : event) : outcome :=
  match e with
  | EKey k w lay => keypress s k w lay
  | EClick button col row w lay =>
      (* Edit.mouse_event *)
      if button =? 1 then
        match move_cursor_to_coords s w lay (PInt col) row with
        | (s1, Ok b) => (s1, [], Ok (RBool b))
        | (s1, Err e) => (s1, [], Err e)
        end
      else (s, [], Ok (RBool false))
  | ERender focus w lay =>
      (* widget.cached_render: a canvas cached for (size, focus) is returned as it is and
         Edit.render does not run (the flag _shift_view_to_cursor keeps its value); the cached
         canvas has the rows and the cursor a fresh render would compute, because any change of
         text or offset invalidates the cache.
         Edit.render: _shift_view_to_cursor = bool(focus); Text.render draws
         get_line_translation(maxcol); with focus the cursor is get_cursor_coords(size) *)
      let hit := match rcache s with Some (w', f') => (w' =? w) && Bool.eqb f' focus | None => false end in
      let s1 := with_shiftv s focus in
      let rows := zlen (get_line_translation s1 w lay) in
      if focus then
        let '(s2, (x, y)) := get_cursor_coords s1 w lay in
        (if hit then s else with_rcache s2 (Some (w, focus)), [], Ok (RCoords x y rows))
      else (if hit then s else with_rcache s1 (Some (w, focus)), [], Ok (RRows rows))
  | EPrefCol w lay =>
      let '(s1, pc) := get_pref_col s w lay in (s1, [], Ok (RPref pc))
  | ESetPos p => (set_edit_pos s p, [], Ok RUnit)
  end.

Fixpoint run (s : st) (es : list event) : st * list (st * list sig * result ret) :=
  match es with
  | [] => (s, [])
  | e :: r =>
      let '(s1, sg, rt) := step s e in
      let '(s2, outs) := run s1 r in
      (s2, (s1, sg, rt) :: outs)
  end.

(* Edit.__init__: set_edit_text(edit_text); set_edit_pos(edit_pos or len); _shift_view_to_cursor = False *)
Definition init (cap txt : list Z) (p : option Z) (ml tab : bool) (mk : option Z) (v : variant) : st :=
  let s := St cap txt 0 None false None ml tab mk v in
  set_edit_pos s (match p with None => zlen txt | Some q => q end).

End Model.

(* NumEdit.ALLOWED *)
Definition ALLOWED : list Z :=
  [48;49;50;51;52;53;54;55;56;57;65;66;67;68;69;70;71;72;73;74;75;76;77;78;79;80;81;82;83;84;85;86;87;88;89;90].
(* IntegerEdit.__init__: NumEdit(ALLOWED[:base], ..., trim_leading_zeros=(base == 10), allow_negative=..) *)
Definition integer_variant (base : Z) (negative : bool) : variant :=
  VNum (takez base ALLOWED) (base =? 10) negative.
(* FloatEdit.__init__: NumEdit(ALLOWED[0:10] + decimal_separator, ..., allow_negative=..) *)
Definition float_variant (sep : Z) (negative : bool) : variant :=
  VNum (takez 10 ALLOWED ++ [sep]) true negative.

(* ---------- wire format (harness <-> extracted model) ----------
   case  = variant caption(list) text(list) pos(oz) multiline allow_tab mask(oz)
           nwidths (cp w)*  nupper (cp list)*  nlower (list list)*  event*
   variant = 0 | 1 | 2 base neg | 3 sep neg | 4 allowed(list) trim neg
   layout  = nrows (nsegs seg* )*     seg = 0 sc | 1 sc offs | 2 sc offs end
   event   = 1 text(list) | 2..11 (named key) w layout  | 13 button col row w layout
           | 14 focus w layout | 17 w layout | 15 pos
   reply   = per event: err ret sigs text(list) pos prefenc shiftv                       *)
Definition bz (z : Z) : bool := negb (z =? 0).

Fixpoint dec_assoc_w (n : nat) (l : list Z) : option (list (Z * Z) * list Z) :=
  match n with
  | O => Some ([], l)
  | S k => match l with
           | c :: w :: r => match dec_assoc_w k r with Some (t, r') => Some ((c, w) :: t, r') | None => None end
           | _ => None
           end
  end.

Fixpoint dec_assoc_u (n : nat) (l : list Z) : option (list (Z * list Z) * list Z) :=
  match n with
  | O => Some ([], l)
  | S k => match l with
           | c :: r => match dec_list r with
                       | Some (u, r1) => match dec_assoc_u k r1 with Some (t, r') => Some ((c, u) :: t, r') | None => None end
                       | None => None
                       end
           | _ => None
           end
  end.

Fixpoint lookup_w (t : list (Z * Z)) (c : Z) : Z :=
  match t with [] => 1 | (k, w) :: r => if k =? c then w else lookup_w r c end.
Fixpoint lookup_u (t : list (Z * list Z)) (c : Z) : list Z :=
  match t with [] => [c] | (k, u) :: r => if k =? c then u else lookup_u r c end.

(* str.lower as a table string -> string (default: the string itself) *)
Fixpoint dec_assoc_l (n : nat) (l : list Z) : option (list (list Z * list Z) * list Z) :=
  match n with
  | O => Some ([], l)
  | S k => match dec_list l with
           | Some (a, r) => match dec_list r with
                            | Some (b, r1) => match dec_assoc_l k r1 with Some (t, r') => Some ((a, b) :: t, r') | None => None end
                            | None => None
                            end
           | None => None
           end
  end.
Fixpoint lookup_l (t : list (list Z * list Z)) (u : list Z) : list Z :=
  match t with [] => u | (k, v) :: r => if list_eqb k u then v else lookup_l r u end.

Fixpoint dec_segs (n : nat) (l : list Z) : option (line * list Z) :=
  match n with
  | O => Some ([], l)
  | S k =>
      match l with
      | 0 :: sc :: r => match dec_segs k r with Some (t, r') => Some (SPad sc :: t, r') | None => None end
      | 1 :: sc :: o :: r => match dec_segs k r with Some (t, r') => Some (SHint sc o :: t, r') | None => None end
      | 2 :: sc :: o :: e :: r => match dec_segs k r with Some (t, r') => Some (SText sc o e :: t, r') | None => None end
      | _ => None
      end
  end.

Fixpoint dec_rows (n : nat) (l : list Z) : option (layout * list Z) :=
  match n with
  | O => Some ([], l)
  | S k =>
      match l with
      | m :: r =>
          match dec_segs (Z.to_nat m) r with
          | Some (ln, r1) => match dec_rows k r1 with Some (t, r') => Some (ln :: t, r') | None => None end
          | None => None
          end
      | _ => None
      end
  end.

Definition dec_layout (l : list Z) : option (layout * list Z) :=
  match l with n :: r => dec_rows (Z.to_nat n) r | [] => None end.

Definition dec_wl (l : list Z) : option (Z * layout * list Z) :=
  match l with
  | w :: r => match dec_layout r with Some (lay, r') => Some (w, lay, r') | None => None end
  | [] => None
  end.

Definition named_key (c : Z) : option key :=
  if c =? 2 then Some KTab else if c =? 3 then Some KEnter else if c =? 4 then Some KLeft
  else if c =? 5 then Some KRight else if c =? 6 then Some KBackspace else if c =? 7 then Some KDelete
  else if c =? 8 then Some KUp else if c =? 9 then Some KDown else if c =? 10 then Some KHome
  else if c =? 11 then Some KEnd else None.

Definition dec_event (l : list Z) : option (event * list Z) :=
  match l with
  | 1 :: r =>
      match dec_list r with
      | Some (cs, r1) => match dec_wl r1 with Some (w, lay, r2) => Some (EKey (KText cs) w lay, r2) | None => None end
      | None => None
      end
  | 13 :: b :: c :: rw :: r =>
      match dec_wl r with Some (w, lay, r2) => Some (EClick b c rw w lay, r2) | None => None end
  | 14 :: f :: r =>
      match dec_wl r with Some (w, lay, r2) => Some (ERender (bz f) w lay, r2) | None => None end
  | 17 :: r =>
      match dec_wl r with Some (w, lay, r2) => Some (EPrefCol w lay, r2) | None => None end
  | 15 :: p :: r => Some (ESetPos p, r)
  | c :: r =>
      match named_key c with
      | Some k => match dec_wl r with Some (w, lay, r2) => Some (EKey k w lay, r2) | None => None end
      | None => None
      end
  | [] => None
  end.

Fixpoint dec_events (fuel : nat) (l : list Z) : list event :=
  match fuel with
  | O => []
  | S k => match dec_event l with Some (e, r) => e :: dec_events k r | None => [] end
  end.

Definition dec_variant (l : list Z) : option (variant * list Z) :=
  match l with
  | 0 :: r => Some (VEdit, r)
  | 1 :: r => Some (VInt, r)
  | 2 :: b :: n :: r => Some (integer_variant b (bz n), r)
  | 3 :: sp :: n :: r => Some (float_variant sp (bz n), r)
  | 4 :: r => match dec_list r with
              | Some (al, tr :: n :: r1) => Some (VNum al (bz tr) (bz n), r1)
              | _ => None
              end
  | _ => None
  end.

Definition enc_pref (p : prefcol) : list Z :=
  match p with PInt x => [0; x] | PLeft => [1; 0] | PRight => [2; 0] end.

Definition enc_sig (g : sig) : list Z :=
  match g with
  | SChange a c p => 1 :: enc_list a ++ enc_list c ++ [p]
  | SPost a c p => 2 :: enc_list a ++ enc_list c ++ [p]
  end.

Definition enc_ret (r : result ret) : list Z :=
  match r with
  | Err e => [errcode e; 0]
  | Ok RHandled => [0; 1]
  | Ok RUnhandled => [0; 2]
  | Ok (RBool b) => [0; 3; enc_bool b]
  | Ok (RCoords x y rows) => [0; 4; x; y; rows]
  | Ok (RRows rows) => [0; 5; rows]
  | Ok (RPref p) => 0 :: 6 :: enc_pref p
  | Ok RUnit => [0; 7]
  end.

Definition enc_out (o : st * list sig * result ret) : list Z :=
  let '(s, sg, r) := o in
  enc_ret r ++ (zlen sg :: flat_map enc_sig sg) ++ enc_list (text s) ++ [pos s]
  ++ match pref s with None => [0] | Some (p, w) => 1 :: enc_pref p ++ [w] end
  ++ [enc_bool (shiftv s)].

Definition run_case_str (l : list Z) : list Z :=
  match dec_variant l with
  | Some (v, r0) =>
    match dec_list r0 with
    | Some (cap, r1) =>
      match dec_list r1 with
      | Some (txt, r2) =>
        match dec_oz r2 with
        | Some (p, ml :: tab :: r3) =>
          match dec_oz r3 with
          | Some (mk, nw :: r4) =>
            match dec_assoc_w (Z.to_nat nw) r4 with
            | Some (wt, nu :: r5) =>
              match dec_assoc_u (Z.to_nat nu) r5 with
              | Some (ut, nl :: r6) =>
                match dec_assoc_l (Z.to_nat nl) r6 with
                | Some (lt, r7) =>
                  let cw := lookup_w wt in
                  let up := lookup_u ut in
                  let lo := lookup_l lt in
                  let es := dec_events (length r7) r7 in
                  let '(_, outs) := run cw up lo (init cap txt p (bz ml) (bz tab) mk v) es in
                  zlen es :: flat_map enc_out outs
                | None => [-8]
                end
              | _ => [-7]
              end
            | _ => [-6]
            end
          | _ => [-5]
          end
        | _ => [-4]
        end
      | None => [-3]
      end
    | None => [-2]
    end
  | None => [-1]
  end.
