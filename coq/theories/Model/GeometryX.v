(* Extended executable model for C09: everything of Model/Geometry.v PLUS the fixed-size paths (size ()):
   fixed leaves, Padding rendered fixed (width 'pack' / given), Pile and Columns rendered fixed
   (_get_fixed_rows_sizes / _get_fixed_column_sizes, 'pack' items), 'pack' items holding fixed-only widgets inside
   flow / box Piles and Columns, 'pack' columns, and Overlay with width 'pack' (fixed top widget).
   The size () is represented by (-1, None).  The theorems of Properties/C09.v are about the model of Geometry.v
   ([view]); this extension ([xview]) is tied to the code by the correspondence only.  On every tree without fixed
   parts the two models are additionally compared with each other on every generated case (harness).
   No proofs in this file. *)
From Coq Require Import ZArith List Bool Lia.
Import ListNotations.
From Urwid Require Import PyBase geo_padfill_gen Geometry.
Open Scope Z_scope.

Definition fixed_size : size := (-1, None).
Definition is_fixed (s : size) : bool := fst s <? 0.

(* what a parent additionally knows about a child: sizing() flags, pack(()) and the width of its canvas *)
Record xinfo := XInfo {
  xc : cinfo;
  x_flow : bool;             (* Sizing.FLOW in sizing() *)
  x_fixed : bool;            (* Sizing.FIXED in sizing() *)
  x_pack : Z * Z;            (* pack(()) = (cols, rows) of a fixed widget *)
  x_ccols : size -> Z        (* canvas.cols() of render(size) (the first shard row) *)
}.
Definition dummy_xinfo : xinfo := XInfo dummy_info false false (0, 0) (fun _ => 0).
Definition nth_xinfo (l : list xinfo) (i : Z) : xinfo := match nthz l i with Some x => x | None => dummy_xinfo end.
Definition omin (o : option Z) (d : Z) : Z := match o with Some m => if m =? 0 then d else m | None => d end.   (* min_width or d *)

(* a node of Geometry.v that only works with (maxcol,) / (maxcol, maxrow) *)
Definition sized_only (nd : node) : node :=
  Node (n_info nd) (n_place nd) (n_cursor nd) (n_route nd) (n_move nd) (fun s => negb (is_fixed s) && n_fits nd s).

(* ------------------------------------------------------------------------------------------ *)
(* leaves                                                                                      *)
(* ------------------------------------------------------------------------------------------ *)
Definition xleaf_info (l : leafd) : xinfo :=
  XInfo (leaf_info l) (negb (lbox l) && (lfw l =? 0)) (0 <? lfw l) (lfw l, lh l)
        (fun s => if 0 <? lfw l then lfw l else fst s).
Definition xleaf_view (l : leafd) : wview :=
  if 0 <? lfw l then
    View (leaf_info l) (fun _ => [])
         (fun s focus => [Rect (lid l) 0 0 (lfw l) (lh l) focus s false])
         (fun _ _ => None) (fun _ => CNone)
         (fun s col row focus => Some (Hit (lid l) col row focus s))
         (fun s col row => MRes false (Leaf l) (Some (lid l, col, row, s)))
         (fun s => is_fixed s && (1 <=? lh l))
  else
    let v := leaf_view l in
    View (v_info v) (v_place v) (v_rects v) (v_rcursor v) (v_cursor v) (v_mouse v) (v_move v)
         (fun s => negb (is_fixed s) && v_fits v s).

(* ------------------------------------------------------------------------------------------ *)
(* Padding                                                                                     *)
(* ------------------------------------------------------------------------------------------ *)
(* Padding.padding_values(()) *)
Definition xpadding_values_fixed (o : padopts) (xi : xinfo) : Z * Z :=
  if is_pack (pa_wt o) then
    let w := fst (x_pack xi) in
    calculate_left_right_padding (w + pa_left o + pa_right o) (pa_at o) (pa_aamt o) GGiven w (pa_minw o) (pa_left o) (pa_right o)
  else
    calculate_left_right_padding (pa_wamt o + pa_left o + pa_right o) (pa_at o) (pa_aamt o) (pa_wt o) (pa_wamt o)
                                 (pa_minw o) (pa_left o) (pa_right o).
(* Padding.pack(()) *)
Definition xpadding_pack (o : padopts) (xi : xinfo) : Z * Z :=
  let expand := pa_left o + pa_right o in
  if is_given (pa_wt o) then (Z.max (pa_wamt o) (omin (pa_minw o) 1) + expand, i_rows (xc xi) (pa_wamt o))
  else (Z.max (fst (x_pack xi)) (omin (pa_minw o) 1) + expand, snd (x_pack xi)).
(* size handed to the child by Padding.render(()): (width_amount,) for a given width, () otherwise *)
Definition xpadding_csize_fixed (o : padopts) : size :=
  if is_given (pa_wt o) then (pa_wamt o, None) else fixed_size.
Definition xpadding_node (o : padopts) (xi : xinfo) : node :=
  let ci := xc xi in
  let nd := Node (padding_info o ci) (padding_place o) (padding_cursor o ci) (padding_route o) (padding_move o ci) (padding_fits o) in
  Node (n_info nd)
       (fun s => if is_fixed s then let '(l, r) := xpadding_values_fixed o xi in [Placed 0 l 0 (xpadding_csize_fixed o) true false]
                 else n_place nd s)
       (* Padding.get_cursor_coords: maxvals = self._fixed_child_size() (fix ba33666: the size render(()) hands down) *)
       (fun s => if is_fixed s then
                   if negb (i_hascur ci) then CPNone else
                   let '(l, r) := xpadding_values_fixed o xi in CPAsk 0 (xpadding_csize_fixed o) l 0 None false
                 else n_cursor nd s)
       (* Padding.mouse_event: maxcol = self.pack((), focus)[0] when size == (); a press on a margin reaches nobody
          (fix cc624af) *)
       (fun s col row focus =>
          if is_fixed s then
            let '(l, r) := xpadding_values_fixed o xi in
            let maxcol := fst (xpadding_pack o xi) in
            if (col <? l) || (maxcol - r <=? col) then None
            else Some (Routed 0 (xpadding_csize_fixed o) (col - l) row focus)
          else n_route nd s col row focus)
       (* Padding.move_cursor_to_coords: maxcol = self.pack((), True)[0] *)
       (fun s x y =>
          if is_fixed s then
            if negb (i_hasmove ci) then MPTrue else
            let '(l, r) := xpadding_values_fixed o xi in
            let maxcol := fst (xpadding_pack o xi) in
            let x1 := if x <? l then l else if maxcol - r <=? x then maxcol - r - 1 else x in
            MPAsk 0 (xpadding_csize_fixed o) (x1 - l) y None
          else n_move nd s x y)
       (* rendered fixed: width 'pack' around a fixed widget, or a given width (>= 1) around a flow widget, which gets
          (width,) in all four methods; non-negative fixed margins *)
       (fun s => if is_fixed s then
                   let '(l, r) := xpadding_values_fixed o xi in
                   (0 <=? l) && (0 <=? r) && (0 <=? pa_left o) && (0 <=? pa_right o)
                   && (if is_given (pa_wt o) then 1 <=? pa_wamt o
                       else is_pack (pa_wt o) && x_fixed xi && (omin (pa_minw o) 1 <=? fst (x_pack xi)))
                 else n_fits nd s && (let '(l, r) := padding_values o (fst s) in 0 <=? fst s - (l + r))).
Definition xpadding_info (o : padopts) (xi : xinfo) : xinfo :=
  XInfo (padding_info o (xc xi))
        (x_flow xi) (x_fixed xi || (is_given (pa_wt o) && x_flow xi)) (xpadding_pack o xi)
        (fun s => if is_fixed s then
                    let '(l, r) := xpadding_values_fixed o xi in
                    (if is_given (pa_wt o) then pa_wamt o else x_ccols xi fixed_size) + l + r
                  else let '(l, r) := padding_values o (fst s) in x_ccols xi (fst s - (l + r), snd s) + l + r).

(* ------------------------------------------------------------------------------------------ *)
(* Pile                                                                                        *)
(* ------------------------------------------------------------------------------------------ *)
Definition xp_items := list (popt * xinfo).
Definition is_ppack (o : popt) : bool := match o with PPack => true | _ => false end.
(* rows of an item that is asked pack(w_h_arg)[1]: FLOW -> rows((maxcol,)); FIXED and PACK -> pack(())[1] *)
Definition xitem_height (o : popt) (xi : xinfo) (maxcol : Z) : Z :=
  if x_flow xi then i_rows (xc xi) maxcol
  else if x_fixed xi && is_ppack o then snd (x_pack xi)
  else i_rows (xc xi) maxcol.
Definition xitem_size (o : popt) (xi : xinfo) (maxcol : Z) : size :=
  if x_flow xi then (maxcol, None) else if x_fixed xi && is_ppack o then fixed_size else (maxcol, None).
(* Pile.get_item_rows, box branch, first pass *)
Fixpoint xpile_pass1 (items : xp_items) (maxcol : Z) : list (option Z) * Z * Z :=
  match items with
  | [] => ([], 0, 0)
  | (o, xi) :: rest =>
      let '(l, used, wt) := xpile_pass1 rest maxcol in
      match o with
      | PPack => let r := if negb (x_flow xi) && x_fixed xi then snd (x_pack xi) else i_rows (xc xi) maxcol in
                 (Some r :: l, r + used, wt)
      | PGiven n => (Some n :: l, n + used, wt)
      | PWeight n => if n =? 0 then (Some 0 :: l, used, wt) else (None :: l, used, n + wt)
      end
  end.
Fixpoint xpile_pass2 (items : xp_items) (l : list (option Z)) (remaining wtotal : Z) : list Z :=
  match items, l with
  | (o, _) :: irest, x :: lrest =>
      match x with
      | Some r => r :: xpile_pass2 irest lrest remaining wtotal
      | None =>
          let height := match o with PWeight n => n | _ => 0 end in
          let rows := rhu (remaining * height) wtotal in
          rows :: xpile_pass2 irest lrest (remaining - rows) (wtotal - height)
      end
  | _, _ => []
  end.
Definition xpile_item_rows (items : xp_items) (s : size) : list Z :=
  match snd s with
  | None => map (fun it => match fst it with PGiven n => n | o => xitem_height o (snd it) (fst s) end) items
  | Some maxrow =>
      let '(l, used, wtotal) := xpile_pass1 items (fst s) in
      xpile_pass2 items l (Z.max (maxrow - used) 0) wtotal
  end.
(* Pile._get_fixed_rows_sizes for 'pack' items: widths of the fixed widgets, flow widgets get the widest *)
Definition xpile_fixed_supported (items : xp_items) : bool :=
  forallb (fun it => is_ppack (fst it) && (x_fixed (snd it) || x_flow (snd it))) items
  && existsb (fun it => x_fixed (snd it)) items.
Definition xpile_max_width (items : xp_items) : Z :=
  zmaxl (flat_map (fun it => if x_fixed (snd it) then [fst (x_pack (snd it))] else []) items).
(* Pile.get_rows_sizes *)
Definition xpile_rows_sizes (items : xp_items) (s : size) : list (Z * size) :=
  if is_fixed s then
    if xpile_fixed_supported items then
      let mw := xpile_max_width items in
      map (fun it => if x_flow (snd it) then (i_rows (xc (snd it)) mw, (mw, None))
                     else (snd (x_pack (snd it)), fixed_size)) items
    else []
  else
  let maxcol := fst s in
  let item_rows := xpile_item_rows items s in
  map (fun p : (popt * xinfo) * Z => let '((o, xi), ir) := p in
         match o with
         | PGiven n => (n, (maxcol, Some n))
         | PPack => (xitem_height o xi maxcol, xitem_size o xi maxcol)
         | PWeight _ => match snd s with
                        | None => (xitem_height o xi maxcol, xitem_size o xi maxcol)
                        | Some _ => (ir, (maxcol, Some ir))
                        end
         end) (combine items item_rows).
(* Pile.sizing() *)
Inductive sz_state := SzRun (box flow fixed : bool) | SzDone (box flow fixed : bool).
Definition xpile_sizing (items : xp_items) : bool * bool * bool :=
  match items with
  | [] => (true, true, false)
  | _ =>
    let st := fold_left (fun st it =>
      match st with
      | SzDone _ _ _ => st
      | SzRun b f x =>
          let '(o, xi) := it in
          let cb := i_box (xc xi) in
          let '(fb, ff, fx) :=
            match o with
            | PWeight _ => (cb, x_flow xi, x_fixed xi && (cb || x_flow xi))
            | PGiven _ => (cb, cb, false)
            | PPack => (false, x_flow xi, x_fixed xi)
            end in
          if negb (fb || ff || fx) then SzDone true true false
          else if fb && negb (ff || fx) then SzDone true false false
          else SzRun (b || fb) (f || ff) (x || fx)
      end) items (SzRun false false false) in
    match st with SzRun b f x => (b, f, x) | SzDone b f x => (b, f, x) end
  end.
Definition xpile_cinfo (items : xp_items) : cinfo :=
  let '(b, f, x) := xpile_sizing items in
  CInfo (existsb (fun it => i_sel (xc (snd it))) items) true true
        (fun c => zsum (xpile_item_rows items (c, None))) b.
Definition xpile_cursor (items : xp_items) (fp : Z) (s : size) : cplan :=
  if negb (existsb (fun it => i_sel (xc (snd it))) items) then CPNone else
  match nthz items fp with
  | None => CPNone
  | Some (_, xi) =>
      if negb (i_hascur (xc xi)) then CPNone else
      let rs := xpile_rows_sizes items s in
      match nthz rs fp with
      | None => CPNone
      | Some (_, cs) => CPAsk fp cs 0 (zsum (map fst (takez fp rs))) None false
      end
  end.
Definition xpile_move (items : xp_items) (s : size) (col row : Z) : mplan :=
  match pile_find (xpile_rows_sizes items s) 0 0 row with
  | None => MPFalse
  | Some (i, wrow, cs) =>
      let ci := xc (nth_xinfo (map snd items) i) in
      if negb (i_sel ci) then MPFalse
      else if i_hasmove ci then MPAsk i cs col (row - wrow) (Some i)
      else MPFocus i
  end.
Definition xpile_route (items : xp_items) (fp : Z) (s : size) (col row : Z) (focus : bool) : option routed :=
  match pile_find (xpile_rows_sizes items s) 0 0 row with
  | None => None
  | Some (i, wrow, cs) =>
      let ci := xc (nth_xinfo (map snd items) i) in
      Some (Routed i cs col (row - wrow) (focus && (i_sel ci || (fp =? i))))
  end.
Definition xpile_fits (items : xp_items) (fp : Z) (s : size) : bool :=
  let rs := xpile_rows_sizes items s in
  negb (zlen items =? 0) && (0 <=? fp) && (fp <? zlen items) && (zlen rs =? zlen items)
  && forallb (fun p => 1 <=? fst p) rs
  && match snd s with
     | Some maxrow => (zsum (map fst rs) <=? maxrow) && (0 <? snd (xpile_pass1 items (fst s)))
     | None => true
     end
  (* an item rendered fixed is not wider than the Pile; a Pile rendered fixed has a width and all its fixed items have
     that width (Pile.render(()) does not pad narrower items: the canvas would be ragged, see the report) *)
  && (if is_fixed s then (1 <=? xpile_max_width items)
                         && forallb (fun it => x_flow (snd it) || (fst (x_pack (snd it)) =? xpile_max_width items)) items
      else forallb (fun it => x_flow (snd it) || negb (x_fixed (snd it) && is_ppack (fst it)) || (fst (x_pack (snd it)) <=? fst s)) items).
Definition xpile_node (items : xp_items) (fp : Z) : node :=
  Node (xpile_cinfo items) (fun s => pile_place_from (xpile_rows_sizes items s) 0 0 fp)
       (xpile_cursor items fp) (xpile_route items fp) (xpile_move items) (xpile_fits items fp).
Definition xpile_info (items : xp_items) (kidcols : list (size -> Z)) : xinfo :=
  let '(b, f, x) := xpile_sizing items in
  let rs := xpile_rows_sizes items fixed_size in
  XInfo (xpile_cinfo items) f x (xpile_max_width items, zsum (map fst rs))
        (* CanvasCombine: the canvas is as wide as its first canvas *)
        (fun s => match xpile_rows_sizes items s, kidcols with
                  | (_, cs) :: _, kc :: _ => kc cs
                  | _, _ => if is_fixed s then 0 else fst s
                  end).

(* ------------------------------------------------------------------------------------------ *)
(* Columns                                                                                     *)
(* ------------------------------------------------------------------------------------------ *)
Definition xc_items := list (copt * bool * xinfo).
Definition is_cpack (o : copt) : bool := match o with CPack => true | _ => false end.
(* Columns.column_widths: static width of one column *)
Definition xstatic_w (o : copt) (xi : xinfo) (mw maxcol : Z) : Z :=
  match o with
  | CGiven n => n
  | CWeight _ => mw
  | CPack =>
      if x_fixed xi || x_flow xi then
        let cand := if x_fixed xi then fst (x_pack xi) else 0 in
        if x_flow xi && ((cand =? 0) || (maxcol <? cand)) then maxcol else cand     (* pack((maxcol,))[0] = maxcol *)
      else maxcol
  end.
Fixpoint xcw_phase1 (items : xc_items) (i fp dc mw maxcol shared : Z) : list Z * Z * list (Z * Z) :=
  match items with
  | [] => ([], shared, [])
  | (o, _, xi) :: rest =>
      let sw := xstatic_w o xi mw maxcol in
      if (shared <? sw + dc) && (fp <? i) then ([], shared, [])
      else
        let '(ws, sh, wt) := xcw_phase1 rest (i + 1) fp dc mw maxcol (shared - (sw + dc)) in
        (sw :: ws, sh, match o with CWeight n => (n, i) :: wt | _ => wt end)
  end.
Definition xcolumn_widths (items : xc_items) (fp dc mw maxcol : Z) : list Z :=
  let '(ws1, sh1, wt1) := xcw_phase1 items 0 fp dc mw maxcol (maxcol + dc) in
  let '(ws2, sh2, wt2) := cw_phase2 ws1 0 dc sh1 wt1 in
  if sh2 =? 0 then ws2
  else cw_phase3 (wsort wt2) ws2 (sh2 + zlen wt2 * mw) (zsum (map fst wt2)) mw.
(* Columns._get_fixed_column_sizes: given columns (flow widget, or flagged box) and 'pack' columns with a fixed widget *)
Definition xcolumns_fixed_supported (items : xc_items) : bool :=
  forallb (fun it => let '(o, isbox, xi) := it in
             match o with
             | CGiven _ => isbox || x_flow xi
             | CPack => x_fixed xi && negb isbox
             | CWeight _ => false
             end) items.
Definition xcolumns_sizes (items : xc_items) (fp dc mw : Z) (s : size) : list (Z * Z * size) :=
  if is_fixed s then
    if xcolumns_fixed_supported items then
      let hs := flat_map (fun it : copt * bool * xinfo => let '(o, isbox, xi) := it in
                  match o with
                  | CGiven n => if isbox then [] else [i_rows (xc xi) n]
                  | _ => [snd (x_pack xi)]
                  end) items in
      let mh := zmaxl hs in
      map (fun it : copt * bool * xinfo => let '(o, isbox, xi) := it in
             match o with
             | CGiven n => if isbox then (n, mh, (n, Some mh)) else (n, i_rows (xc xi) n, (n, None))
             | _ => (fst (x_pack xi), snd (x_pack xi), fixed_size)
             end) items
    else []
  else
  let widths := xcolumn_widths items fp dc mw (fst s) in
  let zipped := combine widths items in
  match snd s with
  | Some maxrow =>
      map (fun p : Z * (copt * bool * xinfo) => let '(width, (o, isbox, xi)) := p in
             if i_box (xc xi) || isbox then (width, maxrow, (width, Some maxrow))
             else if x_flow xi then (width, (if 0 <? width then i_rows (xc xi) width else 0), (width, None))
             else if is_cpack o then (width, (if 0 <? width then snd (x_pack xi) else 0), fixed_size)
             else (width, maxrow, (width, Some maxrow))) zipped
  | None =>
      let hs := flat_map (fun p : Z * (copt * bool * xinfo) => let '(width, (o, isbox, xi)) := p in
                  if isbox then []
                  else if x_flow xi then [if 0 <? width then i_rows (xc xi) width else 0]
                  else if is_cpack o then [if 0 <? width then snd (x_pack xi) else 0]
                  else []) zipped in
      let max_height := Z.max 1 (zmaxl hs) in
      map (fun p : Z * (copt * bool * xinfo) => let '(width, (o, isbox, xi)) := p in
             if isbox then (width, max_height, (width, Some max_height))
             else if x_flow xi then (width, (if 0 <? width then i_rows (xc xi) width else 0), (width, None))
             else if is_cpack o then (width, (if 0 <? width then snd (x_pack xi) else 0), fixed_size)
             else (width, max_height, (width, Some max_height))) zipped
  end.
(* Columns.sizing() *)
Definition xcolumns_sizing (items : xc_items) : bool * bool * bool :=
  match items with
  | [] => (true, true, false)
  | _ =>
    let flags := map (fun it : copt * bool * xinfo => let '(o, isbox, xi) := it in
                   let cb := i_box (xc xi) in
                   match o with
                   | CWeight _ => (cb, x_flow xi, x_fixed xi && (cb || x_flow xi), false, isbox)
                   | CGiven _ => (cb, x_flow xi, x_flow xi, true, isbox)
                   | CPack => (false, x_flow xi, x_fixed xi, false, isbox)
                   end) items in
    if existsb (fun fl => let '(fb, ff, fx, _, _) := fl in negb (fb || ff || fx)) flags then (true, true, false)
    else
      let strict := existsb (fun fl => let '(fb, ff, fx, _, isbox) := fl in fb && negb (isbox || ff || fx)) flags in
      let has_flow := existsb (fun fl => let '(_, ff, _, _, _) := fl in ff) flags in
      let has_fixed := existsb (fun fl => let '(_, _, fx, _, _) := fl in fx) flags in
      let block_fixed := existsb (fun fl => let '(fb, _, fx, given, _) := fl in negb fx && negb (fb && given)) flags in
      let box := forallb (fun fl => let '(fb, _, _, _, _) := fl in fb) flags in
      let flow := negb strict && (has_flow || (has_fixed && negb block_fixed)) in
      let fixed := negb strict && has_fixed && negb block_fixed in
      if negb (box || flow || fixed) then (true, true, false) else (box, flow, fixed)
  end.
Definition xcolumns_cinfo (items : xc_items) (fp dc mw : Z) : cinfo :=
  let '(b, f, x) := xcolumns_sizing items in
  CInfo (existsb (fun it => i_sel (xc (snd it))) items) true true
        (fun c => Z.max 1 (zmaxl (map (fun t => snd (fst t)) (xcolumns_sizes items fp dc mw (c, None))))) b.
Definition xcolumns_cursor (items : xc_items) (fp dc mw : Z) (s : size) : cplan :=
  match items with [] => CPNone | _ =>
  match nthz items fp with
  | None => CPErr IndexError
  | Some (_, _, xi) =>
      if negb (i_sel (xc xi)) then CPNone else
      if negb (i_hascur (xc xi)) then CPNone else
      let cs := xcolumns_sizes items fp dc mw s in
      match nthz cs fp with
      | None => CPNone
      | Some (_, _, csz) =>
          CPAsk fp csz (zsum (map (fun t => let wc := fst (fst t) in if 0 <? wc then dc + wc else 0) (takez fp cs))) 0 None false
      end
  end end.
Definition xcolumns_move (items : xc_items) (fp dc mw : Z) (s : size) (col row : Z) : mplan :=
  let cs := xcolumns_sizes items fp dc mw s in
  match columns_best cs (map (fun it => i_sel (xc (snd it))) items) 0 0 dc col None with
  | None => MPFalse
  | Some (i, x, end_, csz) =>
      let ci := xc (nth_xinfo (map snd items) i) in
      if i_hasmove ci then MPAsk i csz (Z.min (Z.max 0 (col - x)) (end_ - x - 1)) row (Some i)
      else MPFocus i
  end.
Definition xcolumns_fits (items : xc_items) (fp dc mw : Z) (s : size) : bool :=
  let cs := xcolumns_sizes items fp dc mw s in
  let n := zlen items in
  negb (n =? 0) && (0 <=? fp) && (fp <? n) && (0 <=? dc) && (zlen cs =? n)
  && forallb (fun t => (1 <=? fst (fst t)) && (1 <=? snd (fst t))
                       && match snd s with Some maxrow => snd (fst t) <=? maxrow | None => true end) cs
  (* a column rendered fixed is as wide and as high as its widget at least *)
  && forallb (fun p : (Z * Z * size) * (copt * bool * xinfo) =>
                negb (is_fixed (snd (fst p)))
                || ((fst (x_pack (snd (snd p))) <=? fst (fst (fst p))) && (snd (x_pack (snd (snd p))) <=? snd (fst (fst p)))))
             (combine cs items)
  && (is_fixed s
      || ((zsum (map (fun t => fst (fst t)) cs) + dc * (n - 1) <=? fst s)
          && forallb (fun it => 0 <=? xstatic_w (fst (fst it)) (snd it) mw (fst s)) items
          && (zsum (map (fun it => xstatic_w (fst (fst it)) (snd it) mw (fst s) + dc) items) <=? fst s + dc))).
Definition xcolumns_node (items : xc_items) (fp dc mw : Z) : node :=
  Node (xcolumns_cinfo items fp dc mw)
       (fun s => let cs := xcolumns_sizes items fp dc mw s in columns_place_from cs 0 0 (zlen cs) fp dc)
       (xcolumns_cursor items fp dc mw)
       (fun s col row focus => columns_route_from (xcolumns_sizes items fp dc mw s) 0 0 fp dc col row focus)
       (xcolumns_move items fp dc mw) (xcolumns_fits items fp dc mw).
Definition xcolumns_info (items : xc_items) (fp dc mw : Z) : xinfo :=
  let '(b, f, x) := xcolumns_sizing items in
  let cs := xcolumns_sizes items fp dc mw fixed_size in
  XInfo (xcolumns_cinfo items fp dc mw) f x
        (zsum (map (fun t => fst (fst t)) cs) + dc * Z.max (zlen cs - 1) 0, zmaxl (map (fun t => snd (fst t)) cs))
        (* CanvasJoin pads every column to its width (+ dividechars); flow / box: padded to maxcol *)
        (fun s => if is_fixed s then zsum (map (fun t => fst (fst t)) cs) + dc * Z.max (zlen cs - 1) 0 else fst s).

(* ------------------------------------------------------------------------------------------ *)
(* Overlay with width 'pack' (fixed top widget); other width types as in Geometry.v            *)
(* ------------------------------------------------------------------------------------------ *)
Definition xoverlay_lrtb (o : ovopts) (ti : xinfo) (maxcol maxrow : Z) : Z * Z * Z * Z :=
  if is_pack (pa_wt (ov_pad o)) then
    let p := ov_pad o in let f := ov_fill o in
    let '(width, height) := x_pack ti in
    let '(l, r) := calculate_left_right_padding maxcol (pa_at p) (pa_aamt p) GClip width None (pa_left p) (pa_right p) in
    let '(t, b) := calculate_top_bottom_filler maxrow (fi_vt f) (fi_vamt f) GGiven height None (fi_top f) (fi_bottom f) in
    let b := if maxrow - t - b <? height then maxrow - t - height else b in
    (l, r, t, b)
  else overlay_lrtb o (xc ti) maxcol maxrow.
Definition xoverlay_top_size (o : ovopts) (maxcol maxrow l r t b : Z) : size :=
  if is_pack (pa_wt (ov_pad o)) then fixed_size else overlay_top_size o maxcol maxrow l r t b.
Definition xoverlay_node (o : ovopts) (ti : xinfo) : node :=
  Node (overlay_info (xc ti))
       (fun s => match snd s with
                 | None => []
                 | Some maxrow =>
                     let maxcol := fst s in
                     let '(l, r, t, b) := xoverlay_lrtb o ti maxcol maxrow in
                     [Placed 1 0 0 (maxcol, Some maxrow) false true;
                      Placed 0 (Z.max l 0) t (xoverlay_top_size o maxcol maxrow l r t b) true false]
                 end)
       (fun s => if negb (i_hascur (xc ti)) then CPNone else
                 match snd s with
                 | None => CPErr ValueError
                 | Some maxrow =>
                     let maxcol := fst s in
                     let '(l, r, t, b) := xoverlay_lrtb o ti maxcol maxrow in
                     CPAsk 0 (xoverlay_top_size o maxcol maxrow l r t b) l t (Some maxrow) false
                 end)
       (fun s col row focus =>
          match snd s with
          | None => None
          | Some maxrow =>
              let maxcol := fst s in
              let '(l, r, t, b) := xoverlay_lrtb o ti maxcol maxrow in
              if (col <? l) || (maxcol - r <=? col) || (row <? t) || (maxrow - b <=? row) then None
              else Some (Routed 0 (xoverlay_top_size o maxcol maxrow l r t b) (col - l) (row - t) focus)
          end)
       (fun _ _ _ => MPFalse)
       (fun s => match snd s with
                 | None => false
                 | Some maxrow =>
                     let maxcol := fst s in
                     let '(l, r, t, b) := xoverlay_lrtb o ti maxcol maxrow in
                     negb (is_fixed s) && (0 <=? l) && (0 <=? r) && (0 <=? t) && (0 <=? b)
                     && (0 <=? maxcol - l - r) && (0 <=? maxrow - t - b)
                     && (if is_pack (pa_wt (ov_pad o)) then x_fixed ti && (t + snd (x_pack ti) <=? maxrow)
                         else if is_pack (fi_ht (ov_fill o)) then t + i_rows (xc ti) (maxcol - l - r) <=? maxrow else true)
                 end).

(* ------------------------------------------------------------------------------------------ *)
(* composition                                                                                 *)
(* ------------------------------------------------------------------------------------------ *)
Definition xinterp_fits (d : widget) (nd : node) (kids : list wview) (s : size) : bool :=
  (is_fixed s || ((1 <=? fst s) && (match snd s with Some r => 1 <=? r | None => true end)))
  && n_fits nd s && forallb (fun p => v_fits (nth_view d kids (p_idx p)) (p_size p)) (n_place nd s).
Definition xinterp (w : widget) (nd : node) (kids : list wview) : wview :=
  let v := interp w nd kids in
  View (v_info v) (v_place v) (v_rects v) (v_rcursor v) (v_cursor v) (v_mouse v) (v_move v) (xinterp_fits w nd kids).

Definition sized_xinfo (ci : cinfo) (flow : bool) : xinfo := XInfo ci flow false (0, 0) (fun s => fst s).

Definition xnode_of (w : widget) (ki : list xinfo) : node * xinfo :=
  match w with
  | Leaf l => (node_of w [], xleaf_info l)
  | AttrMap _ =>
      let xi := nth_xinfo ki 0 in
      (node_of w [xc xi], xi)
  | BoxAdapter _ h =>
      let nd := sized_only (node_of w (map xc ki)) in (nd, sized_xinfo (n_info nd) true)
  | Filler _ _ _ ht _ _ _ _ =>
      let nd := sized_only (node_of w (map xc ki)) in (nd, sized_xinfo (n_info nd) (is_pack ht || is_given ht))
  | Frame _ _ _ _ =>
      let nd := sized_only (node_of w (map xc ki)) in (nd, sized_xinfo (n_info nd) false)
  | Padding _ at_ aamt wt wamt minw lft rgt =>
      let xi := nth_xinfo ki 0 in
      let o := PadOpts at_ aamt wt wamt minw lft rgt in
      (xpadding_node o xi, xpadding_info o xi)
  | Pile items fp =>
      let its := combine (map fst items) ki in
      (xpile_node its fp, xpile_info its (map x_ccols ki))
  | Columns items fp dc mw =>
      let its := combine (map fst items) ki in
      (xcolumns_node its fp dc mw, xcolumns_info its fp dc mw)
  | Overlay _ _ at_ aamt wt wamt minw lft rgt vt vamt ht hamt minh top bottom =>
      let ti := nth_xinfo ki 0 in
      let o := OvOpts (PadOpts at_ aamt wt wamt minw lft rgt) (FillOpts vt vamt ht hamt minh top bottom) in
      let nd := xoverlay_node o ti in
      (nd, XInfo (n_info nd) false false (0, 0) (fun s => fst s))
  end.

(* no fixed part anywhere in the tree: no fixed leaf, no 'pack' column, no Overlay with width 'pack', no Padding with a
   given width (which can be rendered with size ()) *)
Fixpoint sized_tree (w : widget) : bool :=
  match w with
  | Leaf l => lfw l =? 0
  | Pile items _ => forallb (fun it => sized_tree (snd it)) items
  | Columns items _ _ _ => forallb (fun it => negb (is_cpack (fst (fst it))) && sized_tree (snd it)) items
  | Padding c _ _ wt _ _ _ _ => negb (is_given wt) && sized_tree c     (* a given width makes the Padding a FIXED widget too *)
  | Filler c _ _ _ _ _ _ _ => sized_tree c
  | Frame body hdr ftr _ =>
      sized_tree body && match hdr with Some h => sized_tree h | None => true end
                      && match ftr with Some f => sized_tree f | None => true end
  | BoxAdapter c _ => sized_tree c
  | AttrMap c => sized_tree c
  | Overlay t b _ _ wt _ _ _ _ _ _ _ _ _ _ _ => negb (is_pack wt) && sized_tree t && sized_tree b
  end.

(* The extended view.  On a (sub)tree without fixed parts it IS the view of Geometry.v - the model the theorems of
   Properties/C09.v are about - so the two models coincide there by construction ([xview_sized]); only the sizing()
   flags, pack(()) and canvas width that a parent WITH fixed parts needs are computed by this file's rules. *)
Fixpoint xview (w : widget) : wview * xinfo :=
  let kids : list (wview * xinfo) :=
    match w with
    | Leaf _ => []
    | Pile items _ => map (fun it => xview (snd it)) items
    | Columns items _ _ _ => map (fun it => xview (snd it)) items
    | Padding c _ _ _ _ _ _ _ => [xview c]
    | Filler c _ _ _ _ _ _ _ => [xview c]
    | Frame body hdr ftr _ =>
        [xview body;
         match hdr with Some h => xview h | None => (dummy_view w, dummy_xinfo) end;
         match ftr with Some f => xview f | None => (dummy_view w, dummy_xinfo) end]
    | BoxAdapter c _ => [xview c]
    | AttrMap c => [xview c]
    | Overlay t b _ _ _ _ _ _ _ _ _ _ _ _ _ _ => [xview t; xview b]
    end in
  let '(v, xi) :=
    match w with
    | Leaf l => (xleaf_view l, xleaf_info l)
    | _ => let '(nd, xi) := xnode_of w (map snd kids) in (xinterp w nd (map fst kids), xi)
    end in
  if sized_tree w then (view w, XInfo (v_info (view w)) (x_flow xi) (x_fixed xi) (x_pack xi) (x_ccols xi)) else (v, xi).

(* ------------------------------------------------------------------------------------------ *)
(* wire: case = model cols hasrows rows nmoves (col row)* tree;  model 0 = Geometry.v, 1 = this file;            *)
(* the size () is cols = -1                                                                    *)
(* ------------------------------------------------------------------------------------------ *)
Definition xrun_tree (w : widget) (s : size) (moves : list (Z * Z)) : list Z :=
  let '(v, xi) := xview w in
  let cols := x_ccols xi s in
  let rows := if is_fixed s then snd (x_pack xi) else crows (v_info v) s in
  let rects := filter (fun r => 0 <=? rc_id r) (v_rects v s true) in
  let cells := flat_map (fun y => map (fun x => (x, y)) (zrange (Z.to_nat cols) 0)) (zrange (Z.to_nat rows) 0) in
  [enc_bool (v_fits v s); enc_bool (i_hascur (v_info v)); enc_bool (i_hasmove (v_info v)); cols; rows]
  ++ enc_oxy (v_rcursor v s true)
  ++ enc_cres (v_cursor v s)
  ++ zlen rects :: flat_map enc_rect rects
  ++ zlen cells :: flat_map (fun c => enc_hit (v_mouse v s (fst c) (snd c) true)) cells
  ++ zlen moves :: flat_map (fun m =>
       let r := v_move v s (fst m) (snd m) in
       let v' := fst (xview (m_w r)) in
       enc_bool (m_ok r)
       :: match m_asked r with
          | Some (id, c, rw, cs) => if id <? 0 then [0] else [1; id; c; rw] ++ enc_size cs
          | None => [0]
          end
       ++ enc_cres (v_cursor v' s) ++ enc_oxy (v_rcursor v' s true)) moves.

Fixpoint list_eqb (a b : list Z) : bool :=
  match a, b with
  | [], [] => true
  | x :: a', y :: b' => (x =? y) && list_eqb a' b'
  | _, _ => false
  end.

Definition run_case (l : list Z) : list Z :=
  match l with
  | model :: cols :: hasr :: rows :: nm :: r =>
      let '(moves, r') := dec_pairs (Z.to_nat nm) r in
      match dec_w (S (length r')) r' with
      | Some (w, _) =>
          let s := (cols, if zb hasr then Some rows else None) in
          if model =? 0 then
            (* a tree without fixed parts: the answer of the model of Geometry.v (the one the theorems are about),
               provided this extended model gives exactly the same answer; otherwise the marker -2 *)
            let a := run_tree w s moves in
            if list_eqb a (xrun_tree w s moves) then a else [-2]
          else xrun_tree w s moves
      | None => [-1]
      end
  | _ => [-1]
  end.
