(* C02, heap layer: Python object identity and aliasing of the list objects inside
   CompositeCanvas made explicit.  A composite canvas holds a REFERENCE (an id) to its shards
   list; every shard holds a reference to its cviews list.  The heap maps ids to list
   contents.  Every operation of canvas.py is transcribed with what it does to those
   objects: which list objects it creates, which it shares with its operands, and the one
   place where an existing list object is changed in place
   (pad_trim_top_bottom: "self.shards.append(...)", guarded by
   "if orig_shards is self.shards: self.shards = self.shards.copy()").
   The contents are computed by the pure functions of Model/Canvas.v; this file adds only
   the object structure.  Executable definitions only; [hrun_case] here is the machine that is
   extracted and compared with the implementation (contents, sizes, coords, errors, internal
   shards AND the aliasing pattern of all list objects reachable from the bound canvases). *)
From Coq Require Import ZArith List Bool Lia.
From Urwid Require Import PyBase Canvas.
Import ListNotations.
Open Scope Z_scope.

(* ids are positions in the heap; objects are never freed *)
Record heap := Heap { outer : list (list (Z * Z));      (* shards list object: [(num_rows, id of its cviews list)] *)
                      inner : list (list cview) }.      (* cviews list object *)
Definition empty_heap : heap := Heap [] [].

Definition get_outer (h : heap) (id : Z) : list (Z * Z) := match nthz (outer h) id with Some a => a | None => [] end.
Definition get_inner (h : heap) (iid : Z) : list cview := match nthz (inner h) iid with Some c => c | None => [] end.
(* the shards value a reference denotes *)
Definition deref (h : heap) (id : Z) : shards := map (fun e : Z * Z => (fst e, get_inner h (snd e))) (get_outer h id).

(* a new shards list is described by a plan: per shard, share an existing cviews list object
   or create a new one *)
Inductive iref := IShared (iid : Z) | IFresh (cvs : list cview).
Definition plan := list (Z * iref).
Definition all_fresh (s : shards) : plan := map (fun e : shard => (fst e, IFresh (snd e))) s.
Definition shared (a : list (Z * Z)) : plan := map (fun e : Z * Z => (fst e, IShared (snd e))) a.
Definition lastn {A} (n : nat) (l : list A) : list A := skipn (length l - n) l.

Fixpoint alloc_plan (h : heap) (p : plan) : heap * list (Z * Z) :=
  match p with
  | [] => (h, [])
  | (n, IShared iid) :: p' => let '(h', a) := alloc_plan h p' in (h', (n, iid) :: a)
  | (n, IFresh cvs) :: p' =>
      let iid := zlen (inner h) in
      let '(h', a) := alloc_plan (Heap (outer h) (inner h ++ [cvs])) p' in (h', (n, iid) :: a)
  end.
(* create a new shards list object *)
Definition alloc_outer (h : heap) (p : plan) : heap * Z :=
  let '(h1, a) := alloc_plan h p in (Heap (outer h1 ++ [a]) (inner h1), zlen (outer h1)).
(* list.append on an existing shards list object: the only in-place change *)
Fixpoint set_nth {A} (l : list A) (n : nat) (x : A) : list A :=
  match l, n with
  | [], _ => []
  | _ :: l', O => x :: l'
  | y :: l', S n' => y :: set_nth l' n' x
  end.
Definition append_outer (h : heap) (id : Z) (e : Z * Z) : heap :=
  Heap (set_nth (outer h) (Z.to_nat id) (get_outer h id ++ [e])) (inner h).

(* a CompositeCanvas object: its .shards reference, its coords, finalized? *)
Record hcomp := HC { hid : Z; hcoords : coords; hfin : bool }.
Inductive hvalue :=
  | HLeaf (c : canvas) (cursor : option (Z * Z))
  | HComp (c : hcomp).
Definition to_comp (h : heap) (c : hcomp) : comp := Comp (deref h (hid c)) (hcoords c) (hfin c).
Definition to_value (h : heap) (v : hvalue) : value :=
  match v with HLeaf c cu => VLeaf c cu | HComp c => VComp (to_comp h c) end.

(* the new first shard keeps its own new cviews list, the following shards are the tuples of
   the old list: shards_trim_top, "[first] + shards[1:]" *)
Definition plan_first_fresh (a : list (Z * Z)) (s' : shards) : plan :=
  match s' with
  | [] => []
  | (n, cvs) :: rest => (n, IFresh cvs) :: shared (lastn (length rest) a)
  end.

(* CompositeCanvas(canv) *)
Definition h_wrap (h : heap) (v : hvalue) : result (heap * hcomp) :=
  match v with
  | HComp c => Ok (h, HC (hid c) (hcoords c) false)                 (* "self.shards = canv.shards": the SAME list object *)
  | HLeaf c cu =>
      match wrap (VLeaf c cu) with
      | Err e => Err e
      | Ok c' => let '(h', id) := alloc_outer h (all_fresh (cshards c')) in Ok (h', HC id (ccoords c') false)
      end
  end.

(* CompositeCanvas.trim *)
Definition h_trim (h : heap) (c : hcomp) (top : Z) (count : option Z) : result (heap * hcomp) :=
  match comp_trim (to_comp h c) top count with
  | Err e => Err e
  | Ok c' =>
      match count with
      | Some _ =>                       (* "self.shards = []" or shards_trim_rows: new lists throughout *)
          let '(h', id) := alloc_outer h (all_fresh (cshards c')) in Ok (h', HC id (ccoords c') false)
      | None =>
          if top =? 0 then Ok (h, HC (hid c) (ccoords c') false)       (* .shards untouched *)
          else let '(h', id) := alloc_outer h (plan_first_fresh (get_outer h (hid c)) (cshards c')) in
               Ok (h', HC id (ccoords c') false)
      end
  end.

(* CompositeCanvas.trim_end *)
Definition h_trim_end (h : heap) (c : hcomp) (e : Z) : result (heap * hcomp) :=
  match comp_trim_end (to_comp h c) e with
  | Err er => Err er
  | Ok c' => let '(h', id) := alloc_outer h (all_fresh (cshards c')) in Ok (h', HC id (ccoords c') false)
  end.

(* CompositeCanvas.pad_trim_left_right *)
Definition h_pad_trim_left_right (h : heap) (c : hcomp) (l r : Z) : result (heap * hcomp) :=
  match comp_pad_trim_left_right (to_comp h c) l r with
  | Err e => Err e
  | Ok c' =>
      if (l <? 0) || (r <? 0) then        (* shards_trim_sides builds every list anew *)
        let '(h', id) := alloc_outer h (all_fresh (cshards c')) in Ok (h', HC id (ccoords c') false)
      else if (0 <? l) || (0 <? r) then   (* "[(top_rows, new_top_cviews)] + shards[1:]" *)
        let '(h', id) := alloc_outer h (plan_first_fresh (get_outer h (hid c)) (cshards c')) in
        Ok (h', HC id (ccoords c') false)
      else Ok (h, HC (hid c) (ccoords c') false)                        (* "self.shards = shards": the same object *)
  end.

(* CompositeCanvas.pad_trim_top_bottom *)
Definition blank_cvs (cols rows : Z) : list cview := [CV 0 0 cols rows None blank_canvas].
(* "if (top > 0 or bottom > 0) and self.rows() == 0: self.shards = []": a new, empty list object *)
Definition h_drop_empty (h : heap) (c : hcomp) (top bottom : Z) : heap * hcomp :=
  if ((0 <? top) || (0 <? bottom)) && (shards_rows (deref h (hid c)) =? 0)
  then let '(h', id) := alloc_outer h [] in (h', HC id (hcoords c) (hfin c))
  else (h, c).
Definition h_pad_trim_top_bottom (h : heap) (c : hcomp) (top bottom : Z) : result (heap * hcomp) :=
  if hfin c then Err CanvasError
  else
    let orig := hid c in
    (* "if top < 0 or bottom < 0: self.trim(trim_top, rows)" *)
    match (if (top <? 0) || (bottom <? 0) then
             let trim_top := Z.max 0 (- top) in
             let rows := shards_rows (deref h (hid c)) - trim_top - Z.max 0 (- bottom) in
             h_trim h c trim_top (Some rows)
           else Ok (h, c)) with
    | Err e => Err e
    | Ok (h0, c0) =>
        let cols := shards_cols (deref h0 (hid c0)) in
        let '(h1, c1) := h_drop_empty h0 c0 top bottom in
        (* "if top > 0: self.shards = [(top, [...]), *self.shards]" *)
        let '(h2, c2) :=
          if 0 <? top then
            let '(h', id) := alloc_outer h1 ((top, IFresh (blank_cvs cols top)) :: shared (get_outer h1 (hid c1))) in
            (h', HC id (translate_coords (hcoords c1) 0 top) false)
          else (h1, c1) in
        (* "if bottom > 0: if orig_shards is self.shards: self.shards = self.shards.copy()
                           self.shards.append(...)" *)
        if 0 <? bottom then
          if hid c2 =? orig then
            let '(h', id) := alloc_outer h2 (shared (get_outer h2 (hid c2)) ++ [(bottom, IFresh (blank_cvs cols bottom))]) in
            Ok (h', HC id (hcoords c2) false)
          else
            let iid := zlen (inner h2) in
            let h3 := Heap (outer h2) (inner h2 ++ [blank_cvs cols bottom]) in
            Ok (append_outer h3 (hid c2) (bottom, iid), HC (hid c2) (hcoords c2) false)
        else Ok (h2, HC (hid c2) (hcoords c2) false)
    end.

(* CompositeCanvas.fill_attr_apply: new tuples in new lists *)
Definition h_fill_attr_apply (h : heap) (c : hcomp) (m : dict) : result (heap * hcomp) :=
  match comp_fill_attr_apply (to_comp h c) m with
  | Err e => Err e
  | Ok c' => let '(h', id) := alloc_outer h (all_fresh (cshards c')) in Ok (h', HC id (ccoords c') false)
  end.

(* set_cursor / set_pop_up / finalize do not touch .shards *)
Definition h_same (h : heap) (c : hcomp) (f : comp -> result comp) : result (heap * hcomp) :=
  match f (to_comp h c) with
  | Err e => Err e
  | Ok c' => Ok (h, HC (hid c) (ccoords c') (cfin c'))
  end.

(* CanvasCombine: "shards.extend(canv.shards)" shares every shard tuple *)
Fixpoint h_wrap_all (h : heap) (vs : list hvalue) : result (heap * list hcomp) :=
  match vs with
  | [] => Ok (h, [])
  | v :: vs' =>
      match h_wrap h v with
      | Err e => Err e
      | Ok (h1, c) => match h_wrap_all h1 vs' with Err e => Err e | Ok (h2, cs) => Ok (h2, c :: cs) end
      end
  end.
Definition h_combine (h : heap) (vs : list hvalue) : result (heap * hcomp) :=
  match canvas_combine (map (to_value h) vs) with
  | Err e => Err e
  | Ok c' =>
      match h_wrap_all h vs with
      | Err _ =>                         (* unreachable: canvas_combine has wrapped every operand *)
          let '(h2, id) := alloc_outer h (all_fresh (cshards c')) in Ok (h2, HC id (ccoords c') false)
      | Ok (h1, cs) =>
          let '(h2, id) := alloc_outer h1 (flat_map (fun c : hcomp => shared (get_outer h1 (hid c))) cs) in
          Ok (h2, HC id (ccoords c') false)
      end
  end.

(* CanvasOverlay: "self.shards = top_shards + middle_shards + bottom_shards" *)
Definition h_overlay (h : heap) (top_v bottom_v : hvalue) (left top : Z) : result (heap * hcomp) :=
  match canvas_overlay (to_value h top_v) (to_value h bottom_v) left top with
  | Err e => Err e
  | Ok c' =>
      let fallback := let '(h2, id) := alloc_outer h (all_fresh (cshards c')) in Ok (h2, HC id (ccoords c') false) in
      match h_wrap h bottom_v, top_v with
      | Ok (h1, b), HComp o =>
          let shs := deref h1 (hid b) in
          let height := shards_rows (deref h1 (hid o)) in
          let width := shards_cols (deref h1 (hid o)) in
          let right := shards_cols shs - left - width in
          let bottom := shards_rows shs - top - height in
          (* the pieces, recomputed to know their lengths *)
          let side1 := if top =? 0 then Ok shs else shards_trim_top shs top in
          let tops := if top =? 0 then Ok [] else shards_trim_rows shs top in
          match side1, tops with
          | Ok side1, Ok tops =>
              let bots := if bottom =? 0 then Ok [] else shards_trim_top side1 height in
              match bots with
              | Ok bots =>
                  let s' := cshards c' in
                  let mid := firstn (length s' - length tops - length bots) (skipn (length tops) s') in
                  let mid_plan :=
                    if shards_rows shs =? 0 then []                                  (* "if not self.rows(): middle_shards = []" *)
                    else if negb (left =? 0) || negb (right =? 0) then all_fresh mid (* shards_join *)
                    else shared (get_outer h1 (hid o)) in                           (* "middle_shards = other.shards" *)
                  let '(h2, id) := alloc_outer h1 (all_fresh tops ++ mid_plan ++ plan_first_fresh (get_outer h1 (hid b)) bots) in
                  Ok (h2, HC id (ccoords c') false)
              | Err _ => fallback        (* unreachable: comp_overlay has computed the same pieces *)
              end
          | _, _ => fallback             (* unreachable *)
          end
      | _, _ => fallback                 (* unreachable: canvas_overlay succeeded *)
      end
  end.

(* CanvasJoin: every operand is wrapped, padded (on the wrapper) and the lists are joined *)
Fixpoint h_join_go (h : heap) (l : list (hvalue * Z)) (maxrow : Z) : result heap :=
  match l with
  | [] => Ok h
  | (v, cols) :: l' =>
      match vrows (to_value h v), vcols (to_value h v) with
      | Ok rows, Ok vc =>
          let pad_right := cols - vc in
          match h_wrap h v with
          | Err e => Err e
          | Ok (h0, c0) =>
              match (if pad_right =? 0 then Ok (h0, c0) else h_pad_trim_left_right h0 c0 0 pad_right) with
              | Err e => Err e
              | Ok (h1, c1) =>
                  match (if rows <? maxrow then h_pad_trim_top_bottom h1 c1 0 (maxrow - rows) else Ok (h1, c1)) with
                  | Err e => Err e
                  | Ok (h2, _) => h_join_go h2 l' maxrow
                  end
              end
          end
      | _, _ => Err OtherError
      end
  end.
Definition h_join (h : heap) (l : list (hvalue * Z)) : result (heap * hcomp) :=
  match canvas_join (map (fun vc : hvalue * Z => (to_value h (fst vc), snd vc)) l) with
  | Err e => Err e
  | Ok c' =>
      let maxrow := fold_right (fun vc acc => match vrows (to_value h (fst vc)) with Ok r => Z.max r acc | Err _ => acc end) 0 l in
      let h1 := match h_join_go h l maxrow with Ok h1 => h1 | Err _ => h end in      (* Err unreachable: canvas_join succeeded *)
      let '(h2, id) := alloc_outer h1 (all_fresh (cshards c')) in Ok (h2, HC id (ccoords c') false)   (* shards_join *)
  end.

(* ------------------------------------------------------------------ the machine over references *)
Record hstate := HS { hheap : heap; hstack : list hvalue; henv : list hvalue; houts : list (list Z) }.

Definition on_hcomp (st : hstate) (f : heap -> hcomp -> result (heap * hcomp)) : result hstate :=
  match hstack st with
  | HComp c :: rest =>
      match f (hheap st) c with
      | Err e => Err e
      | Ok (h', c') => Ok (HS h' (HComp c' :: rest) (henv st) (houts st))
      end
  | _ => Err OtherError
  end.

Definition hstep (leaves : list (canvas * option (Z * Z))) (st : hstate) (i : instr) : result hstate :=
  match i with
  | ILeaf k =>
      match nthz leaves (k - 1) with
      | Some (c, cu) => Ok (HS (hheap st) (HLeaf c cu :: hstack st) (henv st) (houts st))
      | None => Err OtherError
      end
  | IRef k =>
      match nthz (henv st) k with
      | Some v => Ok (HS (hheap st) (v :: hstack st) (henv st) (houts st))
      | None => Err OtherError
      end
  | IWrap =>
      match hstack st with
      | v :: rest =>
          match h_wrap (hheap st) v with
          | Err e => Err e
          | Ok (h', c) => Ok (HS h' (HComp c :: rest) (henv st) (houts st))
          end
      | [] => Err OtherError
      end
  | ICombine n =>
      match pop_n n (hstack st) with
      | Err e => Err e
      | Ok (vs, rest) =>
          match h_combine (hheap st) vs with
          | Err e => Err e
          | Ok (h', c) => Ok (HS h' (HComp c :: rest) (henv st) (houts st))
          end
      end
  | IJoin cols =>
      match pop_n (zlen cols) (hstack st) with
      | Err e => Err e
      | Ok (vs, rest) =>
          match h_join (hheap st) (combine vs cols) with
          | Err e => Err e
          | Ok (h', c) => Ok (HS h' (HComp c :: rest) (henv st) (houts st))
          end
      end
  | IOverlay lft tp =>
      match hstack st with
      | top_c :: bottom_c :: rest =>
          match h_overlay (hheap st) top_c bottom_c lft tp with
          | Err e => Err e
          | Ok (h', c) => Ok (HS h' (HComp c :: rest) (henv st) (houts st))
          end
      | _ => Err OtherError
      end
  | IPadLR l r => on_hcomp st (fun h c => h_pad_trim_left_right h c l r)
  | IPadTB t b => on_hcomp st (fun h c => h_pad_trim_top_bottom h c t b)
  | ITrim top count => on_hcomp st (fun h c => h_trim h c top count)
  | ITrimEnd e => on_hcomp st (fun h c => h_trim_end h c e)
  | IFillAttr m => on_hcomp st (fun h c => h_fill_attr_apply h c (dict_of_list m))
  | ISetCursor cu => on_hcomp st (fun h c => h_same h c (fun c0 => comp_set_cursor c0 cu))
  | ISetPopUp w x y => on_hcomp st (fun h c => h_same h c (fun c0 => comp_set_pop_up c0 w x y))
  | IFinalize => on_hcomp st (fun h c => h_same h c comp_finalize)
  | IBind =>
      match hstack st with
      | v :: rest => Ok (HS (hheap st) rest (henv st ++ [v]) (enc_value (to_value (hheap st) v) :: houts st))
      | [] => Err OtherError
      end
  | IDelta a b =>
      match nthz (henv st) a, nthz (henv st) b with
      | Some va, Some vb =>
          Ok (HS (hheap st) (hstack st) (henv st)
                 (enc_delta (content_delta (to_value (hheap st) va) (to_value (hheap st) vb)) :: houts st))
      | _, _ => Err OtherError
      end
  end.

Fixpoint hrun (leaves : list (canvas * option (Z * Z))) (st : hstate) (prog : list instr) : hstate * option errkind :=
  match prog with
  | [] => (st, None)
  | i :: prog' =>
      match hstep leaves st i with
      | Err e => (st, Some e)
      | Ok st' => hrun leaves st' prog'
      end
  end.

(* the identities of the list objects of every bound canvas, at the end of the run:
   tag 4, then per canvas: 0 (leaf) | 1, id of .shards, number of shards, id of each cviews list.
   (the harness renumbers ids on both sides by first occurrence: only the aliasing pattern counts) *)
Definition enc_ids (h : heap) (v : hvalue) : list Z :=
  match v with
  | HLeaf _ _ => [0]
  | HComp c => 1 :: hid c :: enc_list (map snd (get_outer h (hid c)))
  end.

Definition hrun_case (l : list Z) : list Z :=
  match l with
  | nl :: r =>
      if nl <? 0 then [99] else
      match pleaves (Z.to_nat nl) 1 r with
      | None => [99]
      | Some (lvs, r1) =>
          match plist pinstr r1 with
          | None => [99]
          | Some (prog, _) =>
              match all_ok lvs with
              | Err e => [2; errcode e]
              | Ok leaves =>
                  let '(st, err) := hrun leaves (HS empty_heap [] [] []) prog in
                  concat (rev (houts st)) ++ match err with Some e => [2; errcode e] | None => [] end
                  ++ 4 :: zlen (henv st) :: flat_map (enc_ids (hheap st)) (henv st)
              end
          end
      end
  | [] => [99]
  end.
