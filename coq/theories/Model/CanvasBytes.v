(* Byte-level model of urwid/canvas.py TextCanvas (constructor and content()), line for line
   after the Python.  A row is a byte string in the screen encoding with a run-length attribute
   list and a run-length charset list, exactly the three lists a TextCanvas stores.  Width
   arithmetic and trimming are NOT re-modelled here: calc_width, calc_trim_text (calc_text_pos,
   within_double_byte), rle_subseg, rle_get_at and rle_len are the TRANSLATED functions (py2v, from
   str_util.py / util.py, re-generated on every run) that the C11 model Model/Width.v assembles
   (calc_width_g, calc_trim_text_g, rle_*_gen); rle_product and rle_prepend / append_modify are C11's
   hand-written ones.  All imported read-only.

   Model/Canvas.v abstracts a text leaf to rows of screen CELLS ([LText], [trim_cells],
   [text_content], [make_text]).  Proofs/CanvasBytesRefine.v proves that abstraction correct in the
   double-byte ("wide") mode: this byte-level canvas, read back cell by cell, IS the cell-level
   canvas.  The byte model is tied to canvas.py by the correspondence as well (probe records of
   [run_case] below: TextCanvas.content(trim_left, trim_top, cols, rows, attr) of the real leaf,
   segment for segment, byte for byte).

   Attributes / charsets on the wire and in the output are integers, 0 is Python None. *)
From Coq Require Import ZArith List Bool Lia.
From Urwid Require Import PyBase PyList str_loops_gen Width Canvas CanvasHeap.
Import ListNotations.
Open Scope Z_scope.

Definition z_of_oz (o : oz) : Z := match o with None => 0 | Some v => v end.
Definition oz_of_z (a : Z) : oz := if a =? 0 then None else Some a.

(* self._text, self._attr, self._cs, self._maxcol *)
Record btext := BText { bt_text : list (list Z); bt_attr : list rle; bt_cs : list rle; bt_maxcol : Z }.

(* one (attr, cs, text) tuple of a content row *)
Definition bseg := (Z * Z * list Z)%type.

Fixpoint mapM {A B} (f : A -> result B) (l : list A) : result (list B) :=
  match l with
  | [] => Ok []
  | x :: r =>
      match f x with
      | Err e => Err e
      | Ok y => match mapM f r with Err e => Err e | Ok ys => Ok (y :: ys) end
      end
  end.

Fixpoint zip3 {A B C} (x : list A) (y : list B) (z : list C) : list (A * B * C) :=
  match x, y, z with
  | a :: x', b :: y', c :: z' => (a, b, c) :: zip3 x' y' z'
  | _, _, _ => []
  end.

Section Bytes.
Variable wcw : Z -> Z.          (* wcwidth table (only used in the UTF-8 mode) *)
Variable md : tmode.            (* the byte encoding mode set by util.set_encoding *)

(* util.trim_text_attr_cs, assembled from the TRANSLATED functions of Gen/str_loops_gen.v (calc_trim_text with
   calc_text_pos / within_double_byte, rle_subseg, rle_get_at: re-translated from the source on every run);
   Proofs/CanvasBytesRefine.v shows it equal to Width.trim_text_attr_cs via C11's Proofs/GenEq.v:
     spos, epos, pad_left, pad_right = calc_trim_text(text, 0, len(text), start_col, end_col)
     attrtr = rle_subseg(attr, spos, epos); cstr = rle_subseg(cs, spos, epos)
     if pad_left: al = rle_get_at(attr, spos - 1); rle_prepend_modify(attrtr, (al, 1)); rle_prepend_modify(cstr, (None, 1))
     if pad_right: al = rle_get_at(attr, epos); rle_append_modify(attrtr, (al, 1)); rle_append_modify(cstr, (None, 1))
     return (b"".rjust(pad_left) + text[spos:epos] + b"".rjust(pad_right), attrtr, cstr) *)
Definition trim_text_attr_cs_g (text : list Z) (attr cs : rle) (start_col end_col : Z) : result (list Z * rle * rle) :=
  match calc_trim_text_g wcw md text 0 (zlen text) start_col end_col with
  | Err e => Err e
  | Ok (spos, epos, pad_left, pad_right) =>
      match rle_subseg_gen attr spos epos with
      | Err e => Err e
      | Ok attrtr =>
          match rle_subseg_gen cs spos epos with
          | Err e => Err e
          | Ok cstr =>
              match (if negb (pad_left =? 0) then
                       match rle_get_at_gen attr (spos - 1) with
                       | Err e => Err e
                       | Ok al => Ok (rle_prepend_modify attrtr al 1, rle_prepend_modify cstr None 1)
                       end
                     else Ok (attrtr, cstr)) with
              | Err e => Err e
              | Ok (attrtr, cstr) =>
                  match (if negb (pad_right =? 0) then
                           match rle_get_at_gen attr epos with
                           | Err e => Err e
                           | Ok al => Ok (rle_append_modify attrtr al 1, rle_append_modify cstr None 1)
                           end
                         else Ok (attrtr, cstr)) with
                  | Err e => Err e
                  | Ok (attrtr, cstr) =>
                      Ok (repeat 32 (Z.to_nat pad_left) ++ py_slice text spos epos ++ repeat 32 (Z.to_nat pad_right),
                          attrtr, cstr)
                  end
              end
          end
      end
  end.

(* TextCanvas.__init__, body of "for i in range(len(text))" for one row:
     if w > maxcol: raise CanvasError
     if w < maxcol: text[i] += b"".rjust(maxcol - w)
     a_gap = len(text[i]) - rle_len(attr[i]); if a_gap < 0: raise; if a_gap: rle_append_modify(attr[i], (None, a_gap))
     cs_gap likewise
   (attr[i] / cs[i] raise IndexError when the list is too short) *)
Definition init_row (maxcol w : Z) (t : list Z) (oa oc : option rle) : result (list Z * rle * rle) :=
  if maxcol <? w then Err CanvasError else
  let t := if w <? maxcol then t ++ repeatz 32 (maxcol - w) else t in
  match oa with
  | None => Err IndexError
  | Some a =>
      match rle_len_gen a with Err e => Err e | Ok la =>
      let ag := zlen t - la in
      if ag <? 0 then Err CanvasError else
      let a := if negb (ag =? 0) then rle_append_modify a None ag else a in
      match oc with
      | None => Err IndexError
      | Some c =>
          match rle_len_gen c with Err e => Err e | Ok lc =>
          let cg := zlen t - lc in
          if cg <? 0 then Err CanvasError else
          let c := if negb (cg =? 0) then rle_append_modify c None cg else c in
          Ok (t, a, c)
          end
      end
      end
  end.

Fixpoint init_loop (maxcol : Z) (text : list (list Z)) (widths : list Z) (attr cs : list rle)
  : result (list (list Z * rle * rle)) :=
  match text, widths with
  | t :: text', w :: widths' =>
      match init_row maxcol w t (hd_error attr) (hd_error cs) with
      | Err e => Err e
      | Ok x =>
          match init_loop maxcol text' widths' (List.tl attr) (List.tl cs) with
          | Err e => Err e
          | Ok xs => Ok (x :: xs)
          end
      end
  | _, _ => Ok []
  end.

(* TextCanvas(text, attr, cs, maxcol=maxcol)  (check_width=True; attr and cs given) *)
Definition btext_init (text : list (list Z)) (attr cs : list rle) (maxcol : oz) : result btext :=
  match mapM (fun t => calc_width_g wcw md t 0 (zlen t)) text with
  | Err e => Err e
  | Ok widths =>
      let maxcol := match maxcol with Some m => m | None => fold_right Z.max 0 widths end in
      match init_loop maxcol text widths attr cs with
      | Err e => Err e
      | Ok rows3 =>
          Ok (BText (map (fun x => fst (fst x)) rows3) (map (fun x => snd (fst x)) rows3) (map snd rows3) maxcol)
      end
  end.

(* "for (a, cs), run in attr_cs: if attr and a in attr: a = attr[a];
        row.append((a, cs, text[i:i+run])); i += run" *)
Fixpoint bsegs (text : list Z) (i : Z) (acs : list ((oz * oz) * Z)) (m : amap) : list bseg :=
  match acs with
  | [] => []
  | ((a, c), run) :: r =>
      (map_attr m (z_of_oz a), z_of_oz c, py_slice text i (i + run)) :: bsegs text (i + run) r m
  end.

(* body of "for text, a_row, cs_row in text_attr_cs" *)
Definition bcontent_row (maxcol tl cols : Z) (m : amap) (x : list Z * rle * rle) : result (list bseg) :=
  let '(text, a_row, cs_row) := x in
  match (if negb (tl =? 0) || (cols <? maxcol)
         then trim_text_attr_cs_g text a_row cs_row tl (tl + cols)
         else Ok (text, a_row, cs_row)) with
  | Err e => Err e
  | Ok (text, a_row, cs_row) =>
      match rle_product a_row cs_row with
      | Err e => Err e
      | Ok attr_cs => Ok (bsegs text 0 attr_cs m)
      end
  end.

(* TextCanvas.content(trim_left, trim_top, cols, rows, attr) *)
Definition btext_content (b : btext) (tl tt cols rows : Z) (m : amap) : result (list (list bseg)) :=
  let maxcol := bt_maxcol b in
  let maxrow := zlen (bt_text b) in
  let cols := if cols =? 0 then maxcol - tl else cols in
  let rows := if rows =? 0 then maxrow - tt else rows in
  if negb ((0 <=? tl) && (tl <? maxcol) && (0 <? cols) && (tl + cols <=? maxcol)) then Err ValueError
  else if negb ((0 <=? tt) && (tt <? maxrow) && (0 <? rows) && (tt + rows <=? maxrow)) then Err ValueError
  else
    let sel :=
      if negb (tt =? 0) || (rows <? maxrow)
      then zip3 (py_slice (bt_text b) tt (tt + rows)) (py_slice (bt_attr b) tt (tt + rows))
                (py_slice (bt_cs b) tt (tt + rows))
      else zip3 (bt_text b) (bt_attr b) (bt_cs b) in
    mapM (bcontent_row maxcol tl cols m) sel.

End Bytes.

(* ------------------------------------------------------------------ reading bytes back as cells
   (what harness/props/c02.py cells_of_row does with a row of a double-byte encoding: every
   segment is decoded on its own; a byte >= 0x80 starts a two-byte character, the payload of a cell
   is the byte string of its character; a lead byte without a trail byte is an error) *)
Fixpoint dec_bytes (a cs : Z) (bs : list Z) : option row :=
  match bs with
  | [] => Some []
  | b :: r =>
      if b <? 128 then
        match dec_bytes a cs r with Some x => Some (Cell KN a cs [b] :: x) | None => None end
      else
        match r with
        | [] => None
        | t :: r' =>
            match dec_bytes a cs r' with
            | Some x => Some (Cell KL a cs [b; t] :: Cell KR a cs [] :: x)
            | None => None
            end
        end
  end.
Fixpoint dec_row (segs : list bseg) : option row :=
  match segs with
  | [] => Some []
  | (a, cs, bs) :: r =>
      match dec_bytes a cs bs, dec_row r with
      | Some x, Some y => Some (x ++ y)
      | _, _ => None
      end
  end.

(* ------------------------------------------------------------------ wire format
   case = mode nleaves bleaf* nprobes probe* ++ <case of CanvasHeap.hrun_case>
     mode   = 1 UTF-8 | 2 double-byte | 3 single-byte
     bleaf  = maxcol? nrows {nbytes byte* nattr {a n}* ncs {c n}*}*
     probe  = leaf tl tt cols rows map?          [map? = 0 | 1 n {k v}* ]
   output = <output of CanvasHeap.hrun_case> ++ for every probe: 5 0 nrows {nseg {a cs nbytes byte*}*}* | 5 1 err *)
Definition prle : P rle :=
  fun l => match plist ppair l with
           | None => None
           | Some (ps, r) => Some (map (fun p => (oz_of_z (fst p), snd p)) ps, r)
           end.
Definition pbrow : P (list Z * rle * rle) :=
  fun l =>
    match plist pz l with
    | None => None
    | Some (t, r1) =>
        match prle r1 with
        | None => None
        | Some (a, r2) => match prle r2 with None => None | Some (c, r3) => Some ((t, a, c), r3) end
        end
    end.
Definition pbleaf : P (oz * list (list Z * rle * rle)) :=
  fun l =>
    match dec_oz l with
    | None => None
    | Some (mc, r1) => match plist pbrow r1 with None => None | Some (rows, r2) => Some ((mc, rows), r2) end
    end.
Definition pamap : P amap :=
  fun l =>
    match l with
    | 0 :: r => Some (None, r)
    | 1 :: r => match plist ppair r with Some (m, r') => Some (Some (dict_of_list m), r') | None => None end
    | _ => None
    end.
Definition pprobe : P (Z * Z * Z * Z * Z * amap) :=
  fun l =>
    match l with
    | i :: tl :: tt :: c :: r :: rest =>
        match pamap rest with Some (m, rest') => Some ((i, tl, tt, c, r, m), rest') | None => None end
    | _ => None
    end.

Definition enc_bseg (s : bseg) : list Z := let '(a, c, bs) := s in a :: c :: enc_list bs.
Definition enc_brow (r : list bseg) : list Z := zlen r :: flat_map enc_bseg r.
Definition enc_probe (r : result (list (list bseg))) : list Z :=
  match r with
  | Ok rows => 5 :: 0 :: zlen rows :: flat_map enc_brow rows
  | Err e => [5; 1; errcode e]
  end.

Definition mode_of (m : Z) : tmode := if m =? 1 then MUtf8 else if m =? 2 then MWide else MNarrow.

Definition build_bleaf (md : tmode) (x : oz * list (list Z * rle * rle)) : result btext :=
  let '(mc, rows) := x in
  btext_init wcwidth_tab md (map (fun x => fst (fst x)) rows) (map (fun x => snd (fst x)) rows) (map snd rows) mc.

Definition run_probe (md : tmode) (leaves : list (result btext)) (p : Z * Z * Z * Z * Z * amap) : list Z :=
  let '(i, tl, tt, c, r, m) := p in
  enc_probe (match nthz leaves i with
             | None => Err IndexError
             | Some (Err e) => Err e
             | Some (Ok b) => btext_content wcwidth_tab md b tl tt c r m
             end).

Definition run_case (l : list Z) : list Z :=
  match l with
  | mode :: r =>
      match plist pbleaf r with
      | None => [99]
      | Some (bl, r1) =>
          match plist pprobe r1 with
          | None => [99]
          | Some (probes, r2) =>
              let md := mode_of mode in
              let leaves := map (build_bleaf md) bl in
              CanvasHeap.hrun_case r2 ++ flat_map (run_probe md leaves) probes
          end
      end
  | [] => [99]
  end.
