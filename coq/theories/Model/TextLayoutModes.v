(* The text layout for BYTES text, parametric in the byte-encoding mode (str_util._byte_encoding:
   'utf8' | 'wide' | 'narrow').  The layout code of urwid/text_layout.py, canvas.apply_text_layout and
   Text.rows/pack/render is the same for every mode; only the position queries of str_util differ.  They are
   the record [prims]; instances: [P_wide] (double-byte encodings: gbk, big5, uhc, euc-kr, euc-jp ...),
   [P_narrow] (single-byte: ascii, latin-1 ...) and [P_utf8].  The wide primitives are written out here
   (within_double_byte and its callers, prefix w_) so that the extracted model depends on no generated file;
   Proofs/TextLayoutModesEq.v proves them equal to C11's model of str_util, which C11 proves equal to the
   translation regenerated from the source on every run.  The ellipsis is given as the list of its encoded
   characters (the shortening loop drops the last CHARACTER of the string).  No proofs here. *)
From Coq Require Import ZArith List Bool Lia.
Import ListNotations.
From Urwid Require Import PyBase PyList Utf8 TextLayout TextLayoutBytes.
Open Scope Z_scope.

Record prims := {
  p_cw : list Z -> Z -> Z -> result Z;                 (* str_util.calc_width *)
  p_ctp : list Z -> Z -> Z -> Z -> result (Z * Z);     (* str_util.calc_text_pos *)
  p_wide : list Z -> Z -> result bool;                 (* str_util.is_wide_char *)
  p_prev : list Z -> Z -> Z -> result Z;               (* str_util.move_prev_char *)
  p_next : list Z -> Z -> Z -> result Z                (* str_util.move_next_char *)
}.

(* ---------- str_util.within_double_byte ---------- *)
(* i = pos - 1; while i >= line_start: if text[i] < 0x80: break; i -= 1 *)
Fixpoint w_scan (text : list Z) (n : nat) (i line_start : Z) : result Z :=
  if line_start <=? i then
    match n with
    | O => Err RuntimeErrorK
    | S k =>
        match get_index text i with
        | Err e => Err e
        | Ok b => if b <? 128 then Ok i else w_scan text k (i - 1) line_start
        end
    end
  else Ok i.

Fixpoint w_wdb (fuel : nat) (text : list Z) (line_start pos : Z) : result Z :=
  match fuel with
  | O => Err RuntimeErrorK                        (* never: the recursion depth is at most 2 *)
  | S f =>
    match get_index text pos with
    | Err e => Err e
    | Ok v =>
      if (64 <=? v) && (v <? 127) then
        if pos =? line_start then Ok 0
        else
          match get_index text (pos - 1) with
          | Err e => Err e
          | Ok p1 =>
              if 129 <=? p1 then
                match w_wdb f text line_start (pos - 1) with
                | Err e => Err e
                | Ok r => if r =? 1 then Ok 2 else Ok 0
                end
              else Ok 0
          end
      else if v <? 128 then Ok 0
      else
        match w_scan text (Z.to_nat (pos - line_start)) (pos - 1) line_start with
        | Err e => Err e
        | Ok i => if negb (Z.land (pos - i) 1 =? 0) then Ok 1 else Ok 2
        end
    end
  end.
Definition w_within_double_byte (text : list Z) (line_start pos : Z) : result Z := w_wdb 3 text line_start pos.

(* calc_width, "wide" / "narrow": the byte count *)
Definition n_calc_width (text : list Z) (a b : Z) : result Z :=
  if b <? a then Err ValueError else Ok (b - a).

(* calc_text_pos, "wide" and "narrow" *)
Definition w_calc_text_pos (text : list Z) (start_offs end_offs pref_col : Z) : result (Z * Z) :=
  if end_offs <? start_offs then Err ValueError
  else
    let i := start_offs + pref_col in
    if end_offs <=? i then Ok (end_offs, end_offs - start_offs)
    else
      match w_within_double_byte text start_offs i with
      | Err e => Err e
      | Ok r => let i' := if r =? 2 then i - 1 else i in Ok (i', i' - start_offs)
      end.
Definition n_calc_text_pos (text : list Z) (start_offs end_offs pref_col : Z) : result (Z * Z) :=
  if end_offs <? start_offs then Err ValueError
  else
    let i := start_offs + pref_col in
    if end_offs <=? i then Ok (end_offs, end_offs - start_offs) else Ok (i, i - start_offs).

Definition w_is_wide_char (text : list Z) (offs : Z) : result bool :=
  match w_within_double_byte text offs offs with Err e => Err e | Ok r => Ok (r =? 1) end.
Definition n_is_wide_char (text : list Z) (offs : Z) : result bool := Ok false.

Definition w_move_prev_char (text : list Z) (start_offs end_offs : Z) : result Z :=
  if end_offs <=? start_offs then Err ValueError
  else match w_within_double_byte text start_offs (end_offs - 1) with
       | Err e => Err e
       | Ok r => if r =? 2 then Ok (end_offs - 2) else Ok (end_offs - 1)
       end.
Definition n_move_prev_char (text : list Z) (start_offs end_offs : Z) : result Z :=
  if end_offs <=? start_offs then Err ValueError else Ok (end_offs - 1).

Definition w_move_next_char (text : list Z) (start_offs end_offs : Z) : result Z :=
  if end_offs <=? start_offs then Err ValueError
  else match w_within_double_byte text start_offs start_offs with
       | Err e => Err e
       | Ok r => if r =? 1 then Ok (start_offs + 2) else Ok (start_offs + 1)
       end.
Definition n_move_next_char (text : list Z) (start_offs end_offs : Z) : result Z :=
  if end_offs <=? start_offs then Err ValueError else Ok (start_offs + 1).

Definition P_wide : prims := Build_prims n_calc_width w_calc_text_pos w_is_wide_char w_move_prev_char w_move_next_char.
Definition P_narrow : prims := Build_prims n_calc_width n_calc_text_pos n_is_wide_char n_move_prev_char n_move_next_char.
Definition P_utf8 (wcw : Z -> Z) : prims :=
  Build_prims (u8_calc_width wcw) (u8_calc_text_pos wcw) (u8_is_wide_char wcw) u8_move_prev_char u8_move_next_char.

Section Modes.
Variable P : prims.

(* util.calc_trim_text *)
Definition g_calc_trim_text (text : list Z) (start_offs end_offs start_col end_col : Z) : result (Z * Z * Z * Z) :=
  let spos_1 := start_offs in
  let pad_left_2 := 0 in
  let pad_right_3 := 0 in
  match (if ((0 <? start_col)) then match (p_ctp P text spos_1 end_offs start_col) with Err e_ => Err e_ | Ok (spos_4, sc_5) =>
  match (if ((sc_5 <? start_col)) then let pad_left_6 := 1 in
  match (p_ctp P text start_offs end_offs (start_col + 1)) with Err e_ => Err e_ | Ok (spos_7, sc_8) =>
  Ok (pad_left_6, spos_7) end else Ok (pad_left_2, spos_4)) with Err e_ => Err e_ | Ok (pad_left_9, spos_10) =>
  Ok (pad_left_9, spos_10) end end else Ok (pad_left_2, spos_1)) with Err e_ => Err e_ | Ok (pad_left_11, spos_12) =>
  let run_13 := ((end_col - start_col) - pad_left_11) in
  match (p_ctp P text spos_12 end_offs run_13) with Err e_ => Err e_ | Ok (pos_14, sc_15) =>
  match (if ((sc_15 <? run_13)) then let pad_right_16 := 1 in
  Ok pad_right_16 else Ok pad_right_3) with Err e_ => Err e_ | Ok pad_right_17 =>
  Ok (spos_12, pos_14, pad_left_11, pad_right_17) end end end.

Definition calc_width_g (t : list Z) (a b : Z) : lres Z := to_lres (p_cw P t a b).
Definition calc_text_pos_g (t : list Z) (a b pref : Z) : lres (Z * Z) := to_lres (p_ctp P t a b pref).
Definition calc_trim_text_g (t : list Z) (a b sc ec : Z) : lres (Z * Z * Z * Z) := to_lres (g_calc_trim_text t a b sc ec).
Definition is_wide_g (t : list Z) (offs : Z) : lres bool := to_lres (p_wide P t offs).
Definition move_prev_g (t : list Z) (a b : Z) : lres Z := to_lres (p_prev P t a b).
Definition move_next_g (t : list Z) (a b : Z) : lres Z := to_lres (p_next P t a b).

(* _get_width(string, encoding): calc_width of string.encode(encoding) *)
Definition str_width_g (s : list (list Z)) : Z :=
  match p_cw P (concat s) 0 (zlen (concat s)) with Ok w => w | Err _ => 0 end.

(* while width - 1 < ellipsis_width and ellipsis_string: ellipsis_string = ellipsis_string[:-1]
   (the STRING loses its last character; on the reversed list) *)
Fixpoint trim_ell_rev_g (width : Z) (r : list (list Z)) : list (list Z) :=
  match r with
  | [] => []
  | _ :: r' => if width - 1 <? str_width_g (rev r) then trim_ell_rev_g width r' else r
  end.
Definition trim_ell_g (width : Z) (ell : list (list Z)) : list (list Z) := rev (trim_ell_rev_g width (rev ell)).

(* ---------- _calculate_trimmed_segments; ell is the shortened ellipsis STRING ---------- *)
Definition step_trim_g (t : list Z) (width : Z) (wrap : wrapmode) (ell : list (list Z)) (idx : Z) : lres (line * Z) :=
  let ew := str_width_g ell in
  let nl_pos := find_nl t idx in
  sc0 <- calc_width_g t idx nl_pos ;;
  '(trimmed, sc, end_off, pad_right) <-
     (if (match wrap with WEllipsis => true | _ => false end) && (width <? sc0) && negb (ew =? 0) then
        '(start_off, end_off, pad_left, pad_right) <- calc_trim_text_g t idx nl_pos 0 (width - ew) ;;
        if negb (pad_left =? 0) then LErr ValueError
        else if negb (start_off =? idx) then LErr ValueError
        else LOk (true, width - ew - pad_right, end_off, pad_right)
      else LOk (false, sc0, nl_pos, 0)) ;;
  LOk ((if sc =? 0 then [] else [SText sc idx end_off])
         ++ (if trimmed : bool then [SIns ew end_off (concat ell)] else [])
         ++ [SPad pad_right end_off],
       nl_pos + 1).

Fixpoint trim_loop_g (fuel : nat) (t : list Z) (width : Z) (wrap : wrapmode) (ell : list (list Z))
         (segs : list line) (idx : Z) : lres (list line) :=
  match fuel with
  | O => if idx <=? zlen t then LErr RuntimeErrorK else LOk (rev segs)
  | S k =>
      if idx <=? zlen t then
        '(ln, idx') <- step_trim_g t width wrap ell idx ;;
        trim_loop_g k t width wrap ell (ln :: segs) idx'
      else LOk (rev segs)
  end.

(* ---------- calculate_text_segments, wrap in {any, space} ---------- *)
(* prev = pos; while prev > idx: prev = move_prev_char(text, idx, prev); ... ; fuel = pos - idx bytes *)
Fixpoint scan_back_g (t : list Z) (idx : Z) (fuel : nat) (prev : Z) : scan_res :=
  if idx <? prev then
    match fuel with
    | O => ScanErr
    | S k =>
        match move_prev_g t idx prev with
        | LOk prev' =>
            match nthz t prev' with
            | None => ScanErr
            | Some c =>
                if c =? SP then ScanSpace prev'
                else match is_wide_g t prev' with
                     | LOk true => ScanWide prev'
                     | LOk false => scan_back_g t idx k prev'
                     | _ => ScanErr
                     end
            end
        | _ => ScanErr
        end
    end
  else ScanNone.

Definition step_wrap_g (t : list Z) (width : Z) (wrap : wrapmode) (segs : list line) (idx : Z)
  : lres (list line * Z) :=
  let nl_pos := find_nl t idx in
  sc0 <- calc_width_g t idx nl_pos ;;
  if sc0 =? 0 then LOk ([SPad 0 nl_pos] :: segs, nl_pos + 1)
  else if sc0 <=? width then LOk ([SText sc0 idx nl_pos; SPad 0 nl_pos] :: segs, nl_pos + 1)
  else
    '(pos, sc) <- calc_text_pos_g t idx nl_pos width ;;
    if pos =? idx then LCant
    else
      match wrap with
      | WAny => LOk ([SText sc idx pos] :: segs, pos)
      | WSpace =>
          c <- get t pos ;;
          if c =? SP then LOk ([SText sc idx pos; SPad 0 pos] :: segs, pos + 1)
          else
            wide <- is_wide_g t pos ;;
            if wide : bool then LOk ([SText sc idx pos] :: segs, pos)
            else
            match scan_back_g t idx (Z.to_nat (pos - idx)) pos with
            | ScanErr => LErr IndexError
            | ScanSpace prev =>
                sc' <- calc_width_g t idx prev ;;
                LOk ((if sc' =? 0 then [SPad 0 prev] else [SText sc' idx prev; SPad 0 prev]) :: segs,
                     prev + 1)
            | ScanWide prev =>
                next_char <- move_next_g t prev pos ;;
                sc' <- calc_width_g t idx next_char ;;
                LOk ([SText sc' idx next_char] :: segs, next_char)
            | ScanNone =>
                let force := LOk ([SText sc idx pos] :: segs, pos) in
                match unwrap_candidate segs with
                | UErr => LErr ValueError
                | UNone => force
                | UCand p_sc p_off h_sc h_off rest =>
                    if (p_sc <? width) && (h_sc =? 0) then
                      ch <- get t h_off ;;
                      if ch =? SP then
                        '(pos2, sc2) <- calc_text_pos_g t p_off nl_pos width ;;
                        if pos2 <? zlen t then
                          c2 <- get t pos2 ;;
                          if (c2 =? SP) || (c2 =? NL)
                          then LOk ([SText sc2 p_off pos2; SPad 0 pos2] :: rest, pos2 + 1)
                          else LOk ([SText sc2 p_off pos2] :: rest, pos2)
                        else LOk ([SText sc2 p_off pos2] :: rest, pos2)
                      else force
                    else force
                end
            end
      | _ => LErr ValueError
      end.

Fixpoint wrap_loop_g (fuel : nat) (t : list Z) (width : Z) (wrap : wrapmode)
         (segs : list line) (idx : Z) : lres (list line) :=
  match fuel with
  | O => if idx <=? zlen t then LErr RuntimeErrorK else LOk (rev segs)
  | S k =>
      if idx <=? zlen t then
        '(segs', idx') <- step_wrap_g t width wrap segs idx ;;
        wrap_loop_g k t width wrap segs' idx'
      else LOk (rev segs)
  end.

Definition calculate_text_segments_g (t : list Z) (width : Z) (wrap : wrapmode) (ell : list (list Z))
  : lres (list line) :=
  match wrap with
  | WClip | WEllipsis => trim_loop_g (Z.to_nat (zlen t + 2)) t width wrap (trim_ell_g width ell) [] 0
  | _ => wrap_loop_g (Z.to_nat (2 * zlen t + 3)) t width wrap [] 0
  end.

(* StandardTextLayout.layout (align_layout / line_width do not look at the text) *)
Definition layout_g (t : list Z) (width : Z) (align : alignmode) (wrap : wrapmode) (ell : list (list Z))
  : result (list line) :=
  match calculate_text_segments_g t width wrap ell with
  | LOk segs => Ok (align_layout width align segs)
  | LCant => Ok [[]]
  | LErr e => Err e
  end.

(* ---------- LayoutSegment.subseg, trim_line, apply_text_layout, TextCanvas ---------- *)
Definition subseg_g (t : list Z) (s : seg) (start end_ : Z) : lres line :=
  let sc := seg_sc s in
  let start := Z.max start 0 in
  let end_ := Z.min end_ sc in
  if end_ <=? start then LOk []
  else
    let as_pad := match s with
                  | SShift _ => LOk [SShift (end_ - start)]
                  | SText _ offs _ | SIns _ offs _ | SPad _ offs => LOk [SPad (end_ - start) offs]
                  end in
    match s with
    | SIns _ offs (_ :: _ as txt) =>
        '(spos, epos, pad_left, pad_right) <- calc_trim_text_g txt 0 (zlen txt) start end_ ;;
        LOk [SIns (end_ - start) offs (spaces pad_left ++ slice txt spos epos ++ spaces pad_right)]
    | SText _ offs e =>
        if e =? 0 then as_pad
        else
          '(spos, epos, pad_left, pad_right) <- calc_trim_text_g t offs e start end_ ;;
          LOk ((if pad_left =? 0 then [] else [SPad 1 (spos - 1)])
                 ++ (if end_ - start - pad_left - pad_right =? 0 then []
                     else [SText (end_ - start - pad_left - pad_right) spos epos])
                 ++ (if pad_right =? 0 then [] else [SPad 1 epos]))
    | _ => as_pad
    end.

Fixpoint trim_line_loop_g (t : list Z) (segs : line) (start end_ x : Z) (acc : line) : lres line :=
  match segs with
  | [] => LOk acc
  | s :: r =>
      let sc := seg_sc s in
      if negb (start =? 0) || (sc <? 0) then
        if sc <=? start then trim_line_loop_g t r (start - sc) end_ (x + sc) acc
        else if negb (seg_valid s) then LErr ValueError
        else if end_ <=? x + sc then subseg_g t s start (end_ - x)
        else
          sub <- subseg_g t s start sc ;;
          trim_line_loop_g t r 0 end_ (x + sc) (acc ++ sub)
      else if end_ <=? x then LOk acc
      else if end_ <? x + sc then
        if negb (seg_valid s) then LErr ValueError
        else sub <- subseg_g t s 0 (end_ - x) ;; LOk (acc ++ sub)
      else trim_line_loop_g t r start end_ x (acc ++ [s])
  end.

(* one row: trim_line, the segments (render_segs is the same function: byte slices), TextCanvas:
   widths.append(calc_width(t, 0, len(t))) on the row bytes, then padding to maxcol *)
Definition render_line_g (t : list Z) (maxcol : Z) (l : line) : lres (list Z) :=
  tl <- trim_line_loop_g t l 0 maxcol 0 [] ;;
  row <- render_segs t tl ;;
  w <- calc_width_g row 0 (zlen row) ;;
  if maxcol <? w then LErr CanvasError else LOk (row ++ spaces (maxcol - w)).

Fixpoint render_lines_g (t : list Z) (maxcol : Z) (ls : list line) : lres (list (list Z)) :=
  match ls with
  | [] => LOk []
  | l :: r => a <- render_line_g t maxcol l ;; b <- render_lines_g t maxcol r ;; LOk (a :: b)
  end.

Definition text_rows_g (t : list Z) (maxcol : Z) (align : alignmode) (wrap : wrapmode) (ell : list (list Z)) : lres Z :=
  ls <- to_lres (layout_g t maxcol align wrap ell) ;; LOk (zlen ls).

Definition text_render_g (t : list Z) (maxcol : Z) (align : alignmode) (wrap : wrapmode) (ell : list (list Z))
  : lres (list (list Z)) :=
  ls <- to_lres (layout_g t maxcol align wrap ell) ;; render_lines_g t maxcol ls.

Definition text_pack_g (t : list Z) (maxcol : Z) (align : alignmode) (wrap : wrapmode) (ell : list (list Z))
  : lres (Z * Z) :=
  ls <- to_lres (layout_g t maxcol align wrap ell) ;;
  cols <- to_lres (layout_pack maxcol ls) ;;
  LOk (cols, zlen ls).

(* Text.pack(()): the bytes are decoded with the Python codec of the encoding and measured as a str; the
   codec is not modelled: [natw] is the width of the widest paragraph of the decoded text (an input) *)
Definition text_pack_fixed_g (t : list Z) (natw : Z) : Z * Z :=
  match t with [] => (0, 1) | _ => (natw, zlen (split_widths (fun _ => 0) t 0)) end.

End Modes.

(* ---------- wire format ----------
   2 :: case -> wide, 3 :: case -> narrow;   case = wrap align width natw nbytes byte* nell (n byte* )*
   reply as for the other models *)
Fixpoint dec_lists (n : nat) (l : list Z) : option (list (list Z) * list Z) :=
  match n with
  | O => Some ([], l)
  | S k => match dec_list l with
           | Some (x, r) => match dec_lists k r with Some (xs, r') => Some (x :: xs, r') | None => None end
           | None => None
           end
  end.

Definition run_case_g (P : prims) (l : list Z) : list Z :=
  match l with
  | w :: a :: width :: natw :: r =>
      match dec_list r with
      | Some (t, ne :: r) =>
          if ne <? 0 then [-1] else
          match dec_lists (Z.to_nat ne) r with
          | Some (ell, _) =>
              let wrap := dec_wrap w in
              let align := dec_align a in
              let p0 := text_pack_fixed_g t natw in
              enc_lres (fun ls => zlen ls :: flat_map enc_line ls) (to_lres (layout_g P t width align wrap ell))
              ++ enc_lres (fun n => [n]) (text_rows_g P t width align wrap ell)
              ++ enc_lres (fun p => [fst p; snd p]) (text_pack_g P t width align wrap ell)
              ++ [1; fst p0; snd p0]
              ++ enc_lres (fun rows => zlen rows :: flat_map enc_list rows) (text_render_g P t width align wrap ell)
              ++ enc_lres (fun n => [n]) (text_rows_g P t (fst p0) align wrap ell)
              ++ enc_lres (fun rows => zlen rows :: flat_map enc_list rows) (text_render_g P t (fst p0) align wrap ell)
          | None => [-1]
          end
      | _ => [-1]
      end
  | _ => [-1]
  end.

Definition run_case (l : list Z) : list Z :=
  match l with
  | 2 :: r => run_case_g P_wide r
  | 3 :: r => run_case_g P_narrow r
  | _ => run_case_u8 l
  end.
