(* Executable model of the geometry of urwid's containers and decorations (property C09).

   For every container FOUR functions are written, each from ITS OWN Python method, as written:
     *_place   <- render                  (child rectangles: offset + size handed to the child + focus)
     *_cursor  <- get_cursor_coords       (which child is asked, with which size, how the answer is translated)
     *_route   <- mouse_event             (which child receives a button-1 press, translated coordinates)
     *_move    <- move_cursor_to_coords   (which child is asked about which translated cell)
   plus *_info (selectable / hasattr(...) / rows), and *_fits (the precondition: no child hidden or clipped).
   A method's outcome is a PLAN (ask child i with size s and coordinates (c, r), then translate); the plans
   are composed over the tree by [interp].  The padding / filler arithmetic (calculate_left_right_padding,
   calculate_top_bottom_filler, int_scale) is NOT written here: it is regenerated from /repo on every
   run (Gen/geo_padfill_gen.v).  The size helpers of Pile (get_rows_sizes, get_item_rows) and Columns
   (column_widths, get_column_sizes) and Frame.frame_top_bottom are written by hand, line for line.
   Sizes are (maxcol,) or (maxcol, maxrow); fixed widgets / 'pack' columns / Padding 'clip' are not modelled.
   rows() is modelled without its focus argument (no modelled widget's rows depend on it).
   No proofs in this file. *)
From Coq Require Import ZArith List Bool Lia.
Import ListNotations.
From Urwid Require Import PyBase geo_padfill_gen.
Open Scope Z_scope.

(* ------------------------------------------------------------------------------------------ *)
(* basic types                                                                                 *)
(* ------------------------------------------------------------------------------------------ *)
Definition size := (Z * option Z)%type.            (* (maxcol,) = (c, None); (maxcol, maxrow) = (c, Some r) *)
Definition xy := (Z * Z)%type.

Inductive cres := CNone | CSome (x y : Z) | CErr (e : errkind).     (* get_cursor_coords outcome *)

Record leafd := LeafD {
  lid : Z;                 (* identity = marker drawn; negative: border / background piece *)
  lbox : bool;             (* box widget (else flow) *)
  lh : Z;                  (* rows of a flow leaf at widths >= lwrap *)
  lwrap : Z;               (* below this width a flow leaf needs one more row (Edit-like wrapping) *)
  lsel : bool;             (* selectable() *)
  lapi : bool;             (* implements get_cursor_coords / move_cursor_to_coords / get_pref_col *)
  lcur : option xy;        (* cursor state *)
  lrej : list Z;           (* rows on which the leaf refuses the cursor *)
  lminw : Z;               (* columns the leaf needs *)
  lfw : Z                  (* > 0: a FIXED-size leaf lfw columns wide and lh rows high (rendered with size () only);
                              fixed leaves and 'pack' columns are handled by the extended model Model/GeometryX.v *)
}.

Inductive popt := PPack | PGiven (n : Z) | PWeight (n : Z).           (* Pile item options *)
Inductive copt := CGiven (n : Z) | CWeight (n : Z) | CPack.           (* Columns item options *)
Inductive fpart := FBody | FHeader | FFooter.

Inductive widget :=
  | Leaf (l : leafd)
  | Pile (items : list (popt * widget)) (fp : Z)
  | Columns (items : list (copt * bool * widget)) (fp : Z) (dc : Z) (mw : Z)
  | Padding (w : widget) (at_ : gatype) (aamt : Z) (wt : gwtype) (wamt : Z) (minw : option Z) (left right : Z)
  | Filler (w : widget) (vt : gvtype) (vamt : Z) (ht : gwtype) (hamt : Z) (minh : option Z) (top bottom : Z)
  | Frame (body : widget) (header footer : option widget) (fpt : fpart)
  | BoxAdapter (w : widget) (h : Z)
  | AttrMap (w : widget)
  | Overlay (topw bottomw : widget)
            (at_ : gatype) (aamt : Z) (wt : gwtype) (wamt : Z) (minw : option Z) (left right : Z)
            (vt : gvtype) (vamt : Z) (ht : gwtype) (hamt : Z) (minh : option Z) (top bottom : Z).

(* what a parent knows about a child without calling its geometry methods *)
Record cinfo := CInfo {
  i_sel : bool;            (* selectable() *)
  i_hascur : bool;         (* hasattr(w, "get_cursor_coords") *)
  i_hasmove : bool;        (* hasattr(w, "move_cursor_to_coords") *)
  i_rows : Z -> Z;         (* rows((maxcol,)) *)
  i_box : bool             (* Sizing.BOX in sizing() (asked by a Columns rendered as a box widget) *)
}.

(* a child as placed by render *)
Record placed := Placed {
  p_idx : Z;               (* position of the child *)
  p_x : Z; p_y : Z;        (* offset of its top-left corner *)
  p_size : size;           (* size handed to the child *)
  p_isfocus : bool;        (* the child is the container's focus: it is rendered with focus = (focus and p_isfocus) *)
  p_bg : bool              (* background (bottom of an Overlay): drawn, possibly covered, never hit-tested *)
}.

(* get_cursor_coords: what the method does *)
Inductive cplan :=
  | CPNone                                                  (* return None *)
  | CPErr (e : errkind)                                     (* raises *)
  | CPAsk (i : Z) (s : size) (dx dy : Z) (clamp : option Z) (none_raises : bool).
      (* ask child i with size s; None -> None (or TypeError when none_raises: "x, y = None");
         (x, y) -> (x + dx, (if clamp = Some m and y >= m then m - 1 else y) + dy) *)

(* mouse_event (button-1 press): the child that receives the event *)
Record routed := Routed { r_idx : Z; r_size : size; r_col : Z; r_row : Z; r_focus : bool }.

(* move_cursor_to_coords: what the method does *)
Inductive mplan :=
  | MPFalse                                                 (* return False *)
  | MPTrue                                                  (* return True without asking anybody *)
  | MPFocus (i : Z)                                         (* set focus to i, return True, child not asked *)
  | MPAsk (i : Z) (s : size) (col row : Z) (newfocus : option Z).
      (* ask child i; False -> False; otherwise (set focus to newfocus and) return True *)

Definition crows (inf : cinfo) (s : size) : Z :=           (* rows of the child's canvas *)
  match snd s with Some r => r | None => i_rows inf (fst s) end.

Definition dummy_info : cinfo := CInfo false false false (fun _ => 0) false.
Definition nth_info (l : list cinfo) (i : Z) : cinfo :=
  match nthz l i with Some x => x | None => dummy_info end.

Fixpoint zsum (l : list Z) : Z := match l with [] => 0 | x :: r => x + zsum r end.
Fixpoint zmaxl (l : list Z) : Z := match l with [] => 0 | [x] => x | x :: r => Z.max x (zmaxl r) end.

(* ------------------------------------------------------------------------------------------ *)
(* leaves (spy leaf of the harness; Text / Divider / SolidFill pieces of a LineBox)            *)
(* ------------------------------------------------------------------------------------------ *)
Definition leaf_rows (l : leafd) (c : Z) : Z := if c <? lwrap l then lh l + 1 else lh l.
Definition leaf_nrows (l : leafd) (s : size) : Z :=
  if lbox l then match snd s with Some r => r | None => 0 end else leaf_rows l (fst s).
Definition leaf_info (l : leafd) : cinfo := CInfo (lsel l) (lapi l) (lapi l) (leaf_rows l) (lbox l).
(* Spy._cursor *)
Definition leaf_cursor (l : leafd) (s : size) : option xy :=
  match lcur l with
  | None => None
  | Some (x, y) =>
      Some (Z.min x (fst s - 1),
            if lbox l then match snd s with Some r => Z.min y (r - 1) | None => y end else y)
  end.
(* Spy.move_cursor_to_coords (integer column) *)
Definition leaf_accepts (l : leafd) (s : size) (row : Z) : bool :=
  lsel l && (0 <=? row) && (row <? leaf_nrows l s) && negb (existsb (Z.eqb row) (lrej l)).
Definition leaf_moved (l : leafd) (s : size) (col row : Z) : leafd :=
  LeafD (lid l) (lbox l) (lh l) (lwrap l) (lsel l) (lapi l)
        (Some (Z.min (Z.max col 0) (fst s - 1), row)) (lrej l) (lminw l) (lfw l).
Definition leaf_fits (l : leafd) (s : size) : bool :=
  (1 <=? fst s) && ((lminw l <=? fst s) && (lfw l =? 0))
  && (match snd s with Some r => lbox l && (1 <=? r) | None => negb (lbox l) end)
  && (1 <=? leaf_nrows l s)
  && (match lcur l with
      | None => true
      | Some (x, y) => lsel l && lapi l && (0 <=? x) && (0 <=? y) && (lbox l || (y <? leaf_nrows l s))
      end).

(* ------------------------------------------------------------------------------------------ *)
(* AttrMap: every method is delegated to the wrapped widget (delegate_to_widget_mixin)         *)
(* ------------------------------------------------------------------------------------------ *)
Definition attrmap_info (ci : cinfo) : cinfo := ci.
Definition attrmap_place (s : size) : list placed := [Placed 0 0 0 s true false].
Definition attrmap_cursor (s : size) : cplan := CPAsk 0 s 0 0 None false.
Definition attrmap_route (s : size) (col row : Z) (focus : bool) : option routed := Some (Routed 0 s col row focus).
Definition attrmap_move (s : size) (col row : Z) : mplan := MPAsk 0 s col row None.
Definition attrmap_fits (s : size) : bool := true.

(* ------------------------------------------------------------------------------------------ *)
(* BoxAdapter (box_adapter.py): flow widget of [h] rows around a box widget                    *)
(* ------------------------------------------------------------------------------------------ *)
Definition boxadapter_info (h : Z) (ci : cinfo) : cinfo := CInfo (i_sel ci) true true (fun _ => h) false.
(* BoxAdapter.render: (maxcol,) = size *)
Definition boxadapter_place (h : Z) (s : size) : list placed :=
  match snd s with None => [Placed 0 0 0 (fst s, Some h) true false] | Some _ => [] end.
(* BoxAdapter.get_cursor_coords *)
Definition boxadapter_cursor (h : Z) (ci : cinfo) (s : size) : cplan :=
  match snd s with
  | Some _ => CPErr ValueError                     (* (maxcol,) = size *)
  | None => if negb (i_hascur ci) then CPNone else CPAsk 0 (fst s, Some h) 0 0 None false
  end.
(* BoxAdapter.mouse_event *)
Definition boxadapter_route (h : Z) (s : size) (col row : Z) (focus : bool) : option routed :=
  match snd s with None => Some (Routed 0 (fst s, Some h) col row focus) | Some _ => None end.
(* BoxAdapter.move_cursor_to_coords *)
Definition boxadapter_move (h : Z) (ci : cinfo) (s : size) (col row : Z) : mplan :=
  match snd s with
  | Some _ => MPFalse
  | None => if negb (i_hasmove ci) then MPTrue else MPAsk 0 (fst s, Some h) col row None
  end.
Definition boxadapter_fits (h : Z) (s : size) : bool :=
  match snd s with None => 1 <=? h | Some _ => false end.

(* ------------------------------------------------------------------------------------------ *)
(* Padding (padding.py); width 'given' or 'relative' (pack / clip not modelled)                *)
(* ------------------------------------------------------------------------------------------ *)
Definition is_pack (t : gwtype) : bool := match t with GPack => true | _ => false end.
Definition is_given (t : gwtype) : bool := match t with GGiven => true | _ => false end.
Record padopts := PadOpts { pa_at : gatype; pa_aamt : Z; pa_wt : gwtype; pa_wamt : Z; pa_minw : option Z; pa_left : Z; pa_right : Z }.
(* Padding.padding_values (size given).  width 'pack': the wrapped widget is asked pack((maxwidth,))[0], which is
   maxwidth for every modelled widget (Widget.pack returns the size it is given) *)
Definition padding_values (o : padopts) (maxcol : Z) : Z * Z :=
  if is_pack (pa_wt o) then
    let maxwidth := Z.max (maxcol - pa_left o - pa_right o) (match pa_minw o with Some m => m | None => 0 end) in
    calculate_left_right_padding maxcol (pa_at o) (pa_aamt o) GGiven maxwidth (pa_minw o) (pa_left o) (pa_right o)
  else
    calculate_left_right_padding maxcol (pa_at o) (pa_aamt o) (pa_wt o) (pa_wamt o) (pa_minw o) (pa_left o) (pa_right o).
(* Padding.rows *)
Definition padding_info (o : padopts) (ci : cinfo) : cinfo :=
  CInfo (i_sel ci) true true
        (fun c => let '(l, r) := padding_values o c in i_rows ci (c - l - r))
        (i_box ci).                                    (* WidgetDecoration.sizing: the wrapped widget's *)
(* Padding.render: child at (maxcol - left - right,) + size[1:], then pad_trim_left_right(left, right) *)
Definition padding_place (o : padopts) (s : size) : list placed :=
  let '(l, r) := padding_values o (fst s) in
  [Placed 0 l 0 (fst s - (l + r), snd s) true false].
(* Padding.get_cursor_coords *)
Definition padding_cursor (o : padopts) (ci : cinfo) (s : size) : cplan :=
  if negb (i_hascur ci) then CPNone else
  let '(l, r) := padding_values o (fst s) in
  if fst s - l - r =? 0 then CPNone else
  CPAsk 0 (fst s - l - r, snd s) l 0 None false.
(* Padding.move_cursor_to_coords (integer x) *)
Definition padding_move (o : padopts) (ci : cinfo) (s : size) (x y : Z) : mplan :=
  if negb (i_hasmove ci) then MPTrue else
  let '(l, r) := padding_values o (fst s) in
  let maxcol := fst s in
  let x1 := if x <? l then l else if maxcol - r <=? x then maxcol - r - 1 else x in
  MPAsk 0 (maxcol - l - r, snd s) (x1 - l) y None.
(* Padding.mouse_event *)
Definition padding_route (o : padopts) (s : size) (col row : Z) (focus : bool) : option routed :=
  let '(l, r) := padding_values o (fst s) in
  let maxcol := fst s in
  if (col <? l) || (maxcol - r <=? col) then None
  else Some (Routed 0 (maxcol - l - r, snd s) (col - l) row focus).
Definition padding_fits (o : padopts) (s : size) : bool :=
  let '(l, r) := padding_values o (fst s) in (0 <=? l) && (0 <=? r).

(* ------------------------------------------------------------------------------------------ *)
(* Filler (filler.py); height 'pack' (flow child), given or relative (box child)               *)
(* ------------------------------------------------------------------------------------------ *)
Record fillopts := FillOpts { fi_vt : gvtype; fi_vamt : Z; fi_ht : gwtype; fi_hamt : Z; fi_minh : option Z; fi_top : Z; fi_bottom : Z }.
(* Filler.rows *)
Definition filler_rows (o : fillopts) (ci : cinfo) (c : Z) : Z :=
  if is_pack (fi_ht o) then i_rows ci c + fi_top o + fi_bottom o
  else if is_given (fi_ht o) then fi_hamt o + fi_top o + fi_bottom o
  else 0.                                          (* FillerError: not a flow widget *)
(* self.pack(size, focus)[1] *)
Definition filler_maxrow (o : fillopts) (ci : cinfo) (s : size) : Z :=
  match snd s with Some r => r | None => filler_rows o ci (fst s) end.
(* Filler.filler_values *)
Definition filler_values (o : fillopts) (ci : cinfo) (s : size) : Z * Z :=
  let maxrow := filler_maxrow o ci s in
  if is_pack (fi_ht o) then
    calculate_top_bottom_filler maxrow (fi_vt o) (fi_vamt o) GGiven (i_rows ci (fst s)) None (fi_top o) (fi_bottom o)
  else
    calculate_top_bottom_filler maxrow (fi_vt o) (fi_vamt o) (fi_ht o) (fi_hamt o) (fi_minh o) (fi_top o) (fi_bottom o).
Definition filler_csize (o : fillopts) (ci : cinfo) (s : size) : size :=
  let '(t, b) := filler_values o ci s in
  if is_pack (fi_ht o) then (fst s, None) else (fst s, Some (filler_maxrow o ci s - t - b)).
Definition filler_info (o : fillopts) (ci : cinfo) : cinfo := CInfo (i_sel ci) true true (filler_rows o ci) true.
(* Filler.render (no trimming: the child canvas is not taller than maxrow) *)
Definition filler_place (o : fillopts) (ci : cinfo) (s : size) : list placed :=
  let '(t, b) := filler_values o ci s in
  [Placed 0 0 t (filler_csize o ci s) true false].
(* Filler.get_cursor_coords *)
Definition filler_cursor (o : fillopts) (ci : cinfo) (s : size) : cplan :=
  if negb (i_hascur ci) then CPNone else
  let '(t, b) := filler_values o ci s in
  CPAsk 0 (filler_csize o ci s) 0 t (Some (filler_maxrow o ci s)) false.
(* Filler.move_cursor_to_coords *)
Definition filler_move (o : fillopts) (ci : cinfo) (s : size) (col row : Z) : mplan :=
  if negb (i_hasmove ci) then MPTrue else
  let '(t, b) := filler_values o ci s in
  let maxrow := filler_maxrow o ci s in
  if (row <? t) || (maxrow - b <=? row) then MPFalse
  else MPAsk 0 (filler_csize o ci s) col (row - t) None.
(* Filler.mouse_event *)
Definition filler_route (o : fillopts) (ci : cinfo) (s : size) (col row : Z) (focus : bool) : option routed :=
  let '(t, b) := filler_values o ci s in
  let maxrow := filler_maxrow o ci s in
  if (row <? t) || (maxrow - b <=? row) then None
  else Some (Routed 0 (filler_csize o ci s) col (row - t) focus).
Definition filler_fits (o : fillopts) (ci : cinfo) (s : size) : bool :=
  let '(t, b) := filler_values o ci s in
  let maxrow := filler_maxrow o ci s in
  (0 <=? t) && (0 <=? b)
  && (if is_pack (fi_ht o) then i_rows ci (fst s) <=? maxrow - t - b
      else match snd s with Some _ => true | None => is_given (fi_ht o) end).

(* ------------------------------------------------------------------------------------------ *)
(* Pile (pile.py)                                                                              *)
(* ------------------------------------------------------------------------------------------ *)
(* int(float(remaining) * height / wtotal + 0.5) *)
Definition rhu := round_half_up_div.
(* Pile.get_item_rows, box branch, first pass: rows of pack / given items, None for weighted ones *)
Fixpoint pile_pass1 (items : list (popt * cinfo)) (maxcol : Z) : list (option Z) * Z * Z :=
  (* (rows_numbers, rows taken by pack+given items, wtotal) *)
  match items with
  | [] => ([], 0, 0)
  | (o, ci) :: rest =>
      let '(l, used, wt) := pile_pass1 rest maxcol in
      match o with
      | PPack => let r := i_rows ci maxcol in (Some r :: l, r + used, wt)
      | PGiven n => (Some n :: l, n + used, wt)
      | PWeight n => if n =? 0 then (Some 0 :: l, used, wt) else (None :: l, used, n + wt)
      end
  end.
(* second pass: share [remaining] between the weighted items *)
Fixpoint pile_pass2 (items : list (popt * cinfo)) (l : list (option Z)) (remaining wtotal : Z) : list Z :=
  match items, l with
  | (o, _) :: irest, x :: lrest =>
      match x with
      | Some r => r :: pile_pass2 irest lrest remaining wtotal
      | None =>
          let height := match o with PWeight n => n | _ => 0 end in
          let rows := rhu (remaining * height) wtotal in
          rows :: pile_pass2 irest lrest (remaining - rows) (wtotal - height)
      end
  | _, _ => []
  end.
(* Pile.get_item_rows *)
Definition pile_item_rows (items : list (popt * cinfo)) (s : size) : list Z :=
  match snd s with
  | None => map (fun it => match fst it with PGiven n => n | _ => i_rows (snd it) (fst s) end) items
  | Some maxrow =>
      let '(l, used, wtotal) := pile_pass1 items (fst s) in
      pile_pass2 items l (Z.max (maxrow - used) 0) wtotal
  end.
(* Pile.get_rows_sizes: (height, size handed to the child) per item *)
Definition pile_rows_sizes (items : list (popt * cinfo)) (s : size) : list (Z * size) :=
  let maxcol := fst s in
  let item_rows := pile_item_rows items s in
  map (fun p : (popt * cinfo) * Z => let '((o, ci), ir) := p in
         match o with
         | PGiven n => (n, (maxcol, Some n))
         | PPack => (i_rows ci maxcol, (maxcol, None))
         | PWeight _ => match snd s with
                        | None => (i_rows ci maxcol, (maxcol, None))
                        | Some _ => (ir, (maxcol, Some ir))
                        end
         end) (combine items item_rows).
Definition pile_info (items : list (popt * cinfo)) : cinfo :=
  CInfo (existsb (fun it => i_sel (snd it)) items) true true
        (fun c => zsum (pile_item_rows items (c, None)))
        (* Pile.sizing: BOX when some 'weight' or given item holds a box widget *)
        (existsb (fun it => match fst it with PPack => false | _ => i_box (snd it) end) items).
(* Pile.render: children with height > 0 stacked by CanvasCombine *)
Fixpoint pile_place_from (rs : list (Z * size)) (i y fp : Z) : list placed :=
  match rs with
  | [] => []
  | (h, cs) :: rest =>
      if 0 <? h then Placed i 0 y cs (fp =? i) false :: pile_place_from rest (i + 1) (y + h) fp
      else pile_place_from rest (i + 1) y fp
  end.
Definition pile_place (items : list (popt * cinfo)) (fp : Z) (s : size) : list placed :=
  pile_place_from (pile_rows_sizes items s) 0 0 fp.
(* Pile.get_cursor_coords *)
Definition pile_cursor (items : list (popt * cinfo)) (fp : Z) (s : size) : cplan :=
  if negb (existsb (fun it => i_sel (snd it)) items) then CPNone else
  match nthz items fp with
  | None => CPNone
  | Some (_, ci) =>
      if negb (i_hascur ci) then CPNone else
      let rs := pile_rows_sizes items s in
      match nthz rs fp with
      | None => CPNone
      | Some (_, cs) => CPAsk fp cs 0 (zsum (map fst (takez fp rs))) None false
      end
  end.
(* the row search of Pile.move_cursor_to_coords and Pile.mouse_event: first item with wrow + r > row *)
Fixpoint pile_find (rs : list (Z * size)) (i wrow row : Z) : option (Z * Z * size) :=    (* (index, wrow, size) *)
  match rs with
  | [] => None
  | (r, cs) :: rest => if row <? wrow + r then Some (i, wrow, cs) else pile_find rest (i + 1) (wrow + r) row
  end.
(* Pile.move_cursor_to_coords *)
Definition pile_move (items : list (popt * cinfo)) (s : size) (col row : Z) : mplan :=
  match pile_find (pile_rows_sizes items s) 0 0 row with
  | None => MPFalse
  | Some (i, wrow, cs) =>
      let ci := nth_info (map snd items) i in
      if negb (i_sel ci) then MPFalse
      else if i_hasmove ci then MPAsk i cs col (row - wrow) (Some i)
      else MPFocus i
  end.
(* Pile.mouse_event: a button-1 press on a selectable child moves the focus BEFORE the focus flag is computed *)
Definition pile_route (items : list (popt * cinfo)) (fp : Z) (s : size) (col row : Z) (focus : bool) : option routed :=
  match pile_find (pile_rows_sizes items s) 0 0 row with
  | None => None
  | Some (i, wrow, cs) =>
      let ci := nth_info (map snd items) i in
      Some (Routed i cs col (row - wrow) (focus && (i_sel ci || (fp =? i))))
  end.
Definition pile_fits (items : list (popt * cinfo)) (fp : Z) (s : size) : bool :=
  let rs := pile_rows_sizes items s in
  negb (zlen items =? 0) && (0 <=? fp) && (fp <? zlen items)
  && forallb (fun p => 1 <=? fst p) rs
  && match snd s with
     | Some maxrow => (zsum (map fst rs) <=? maxrow) && (0 <? snd (pile_pass1 items (fst s)))   (* wtotal > 0 *)
     | None => true
     end.

(* ------------------------------------------------------------------------------------------ *)
(* Columns (columns.py); 'given' and 'weight' columns                                          *)
(* ------------------------------------------------------------------------------------------ *)
(* 'pack' columns are not part of this model: here they count as columns without a width (never fitting) *)
Definition static_w (o : copt) (mw : Z) : Z := match o with CGiven n => n | CWeight _ => mw | CPack => 0 end.
(* Columns.column_widths, first loop: static widths until there is no room (break), the space left, the
   weighted columns (weight, index) *)
Fixpoint cw_phase1 (opts : list copt) (i fp dc mw shared : Z) : list Z * Z * list (Z * Z) :=
  match opts with
  | [] => ([], shared, [])
  | o :: rest =>
      let sw := static_w o mw in
      if (shared <? sw + dc) && (fp <? i) then ([], shared, [])
      else
        let '(ws, sh, wt) := cw_phase1 rest (i + 1) fp dc mw (shared - (sw + dc)) in
        (sw :: ws, sh, match o with CWeight n => (n, i) :: wt | _ => wt end)
  end.
(* second loop: drop columns on the left until we fit *)
Fixpoint cw_phase2 (ws : list Z) (i dc shared : Z) (wt : list (Z * Z)) : list Z * Z * list (Z * Z) :=
  match ws with
  | [] => ([], shared, wt)
  | w :: rest =>
      if 0 <=? shared then (ws, shared, wt)
      else
        let wt' := match wt with (_, j) :: r => if j =? i then r else wt | [] => wt end in
        let '(ws', sh, wt'') := cw_phase2 rest (i + 1) dc (shared + (w + dc)) wt' in
        (0 :: ws', sh, wt'')
  end.
(* sorted(weighted): insertion sort on (weight, index) *)
Definition wle (a b : Z * Z) : bool := (fst a <? fst b) || ((fst a =? fst b) && (snd a <=? snd b)).
Fixpoint winsert (a : Z * Z) (l : list (Z * Z)) : list (Z * Z) :=
  match l with [] => [a] | b :: r => if wle a b then a :: l else b :: winsert a r end.
Fixpoint wsort (l : list (Z * Z)) : list (Z * Z) := match l with [] => [] | a :: r => winsert a (wsort r) end.
Fixpoint set_nth (l : list Z) (i : Z) (v : Z) : list Z :=
  match l with [] => [] | x :: r => if i =? 0 then v :: r else x :: set_nth r (i - 1) v end.
(* third loop: divide up the remaining space between weighted cols *)
Fixpoint cw_phase3 (sorted : list (Z * Z)) (ws : list Z) (grow wtotal mw : Z) : list Z :=
  match sorted with
  | [] => ws
  | (weight, i) :: rest =>
      let width := Z.max (rhu (grow * weight) wtotal) mw in
      cw_phase3 rest (set_nth ws i width) (grow - width) (wtotal - weight) mw
  end.
(* Columns.column_widths *)
Definition column_widths (opts : list copt) (fp dc mw maxcol : Z) : list Z :=
  let '(ws1, sh1, wt1) := cw_phase1 opts 0 fp dc mw (maxcol + dc) in
  let '(ws2, sh2, wt2) := cw_phase2 ws1 0 dc sh1 wt1 in
  if sh2 =? 0 then ws2
  else cw_phase3 (wsort wt2) ws2 (sh2 + zlen wt2 * mw) (zsum (map fst wt2)) mw.
(* Columns.get_column_sizes (a child is asked to be a box widget when its sizing() has BOX or it is flagged):
   (width, height, size handed to the child) per column that has a width *)
Definition col_items := list (copt * bool * cinfo).
Definition columns_sizes (items : col_items) (fp dc mw : Z) (s : size) : list (Z * Z * size) :=
  let widths := column_widths (map (fun it => fst (fst it)) items) fp dc mw (fst s) in
  let zipped := combine widths items in
  match snd s with
  | Some maxrow =>
      (* len(size) == 2 and BOX in w_sizing -> box; is_box -> box with max_height = size[1]; FLOW -> flow *)
      map (fun p : Z * (copt * bool * cinfo) => let '(width, (_, isbox, ci)) := p in
             if i_box ci || isbox then (width, maxrow, (width, Some maxrow))
             else (width, (if 0 <? width then i_rows ci width else 0), (width, None))) zipped
  | None =>
      let flow_heights :=
        flat_map (fun p : Z * (copt * bool * cinfo) => let '(width, (_, isbox, ci)) := p in
                   if isbox then [] else [if 0 <? width then i_rows ci width else 0]) zipped in
      let max_height := Z.max 1 (zmaxl flow_heights) in       (* max(1, *heights.values()); 1 without heights *)
      map (fun p : Z * (copt * bool * cinfo) => let '(width, (_, isbox, ci)) := p in
             if isbox then (width, max_height, (width, Some max_height))
             else (width, (if 0 <? width then i_rows ci width else 0), (width, None))) zipped
  end.
(* Columns.rows *)
Definition columns_info (items : col_items) (fp dc mw : Z) : cinfo :=
  CInfo (existsb (fun it => i_sel (snd it)) items) true true
        (fun c => Z.max 1 (zmaxl (map (fun t => snd (fst t)) (columns_sizes items fp dc mw (c, None)))))
        (* Columns.sizing: BOX only if ALL columns can be rendered as box widgets *)
        (forallb (fun it => i_box (snd it)) items).
(* Columns.render: columns with a width joined by CanvasJoin, each padded to width + dividechars but the last *)
Fixpoint columns_place_from (cs : list (Z * Z * size)) (i x n fp dc : Z) : list placed :=
  match cs with
  | [] => []
  | (width, _, csz) :: rest =>
      if width <=? 0 then columns_place_from rest (i + 1) x n fp dc
      else Placed i x 0 csz (fp =? i) false
           :: columns_place_from rest (i + 1) (x + width + (if i <? n - 1 then dc else 0)) n fp dc
  end.
Definition columns_place (items : col_items) (fp dc mw : Z) (s : size) : list placed :=
  let cs := columns_sizes items fp dc mw s in
  columns_place_from cs 0 0 (zlen cs) fp dc.
(* Columns.get_cursor_coords *)
Definition columns_cursor (items : col_items) (fp dc mw : Z) (s : size) : cplan :=
  match items with [] => CPNone | _ =>               (* if not self.contents: return None *)
  match nthz items fp with
  | None => CPErr IndexError
  | Some (_, _, ci) =>
      if negb (i_sel ci) then CPNone else
      if negb (i_hascur ci) then CPNone else
      let cs := columns_sizes items fp dc mw s in
      match nthz cs fp with
      | None => CPNone                                  (* len(widths) <= focus_position *)
      | Some (_, _, csz) =>
          CPAsk fp csz (zsum (map (fun t => let wc := fst (fst t) in if 0 <? wc then dc + wc else 0) (takez fp cs))) 0 None false
      end
  end end.
(* the column search of Columns.move_cursor_to_coords (integer col) *)
Fixpoint columns_best (cs : list (Z * Z * size)) (sels : list bool) (i x dc col : Z)
                      (best : option (Z * Z * Z * size)) : option (Z * Z * Z * size) :=     (* (i, x, end, size) *)
  match cs, sels with
  | (width, _, csz) :: rest, sel :: srest =>
      let end_ := x + width in
      if sel then
        match best with
        | None =>
            if col <? x then Some (i, x, end_, csz)                       (* no other choice *)
            else if col <? end_ then Some (i, x, end_, csz)               (* choose this one *)
            else columns_best rest srest (i + 1) (end_ + dc) dc col (Some (i, x, end_, csz))
        | Some (_, _, bend, _) =>
            if (col <? x) && (col - bend <? x - col) then best            (* choose one on left *)
            else if col <? end_ then Some (i, x, end_, csz)
            else columns_best rest srest (i + 1) (end_ + dc) dc col (Some (i, x, end_, csz))
        end
      else columns_best rest srest (i + 1) (end_ + dc) dc col best
  | _, _ => best
  end.
(* Columns.move_cursor_to_coords *)
Definition columns_move (items : col_items) (fp dc mw : Z) (s : size) (col row : Z) : mplan :=
  let cs := columns_sizes items fp dc mw s in
  match columns_best cs (map (fun it => i_sel (snd it)) items) 0 0 dc col None with
  | None => MPFalse
  | Some (i, x, end_, csz) =>
      let ci := nth_info (map snd items) i in
      if i_hasmove ci then MPAsk i csz (Z.min (Z.max 0 (col - x)) (end_ - x - 1)) row (Some i)
      else MPFocus i
  end.
(* Columns.mouse_event: the focus flag is computed BEFORE a button-1 press moves the focus *)
Fixpoint columns_route_from (cs : list (Z * Z * size)) (i x fp dc col row : Z) (focus : bool) : option routed :=
  match cs with
  | [] => None
  | (width, _, csz) :: rest =>
      if col <? x then None
      else if x + width <=? col then columns_route_from rest (i + 1) (x + width + dc) fp dc col row focus
      else Some (Routed i csz (col - x) row (focus && (fp =? i)))
  end.
Definition columns_route (items : col_items) (fp dc mw : Z) (s : size) (col row : Z) (focus : bool) : option routed :=
  columns_route_from (columns_sizes items fp dc mw s) 0 0 fp dc col row focus.
Definition columns_fits (items : col_items) (fp dc mw : Z) (s : size) : bool :=
  let cs := columns_sizes items fp dc mw s in
  let n := zlen items in
  negb (n =? 0) && (0 <=? fp) && (fp <? n) && (0 <=? dc) && (zlen cs =? n)
  && forallb (fun t => (1 <=? fst (fst t)) && (1 <=? snd (fst t))
                       && match snd s with Some maxrow => snd (fst t) <=? maxrow | None => true end) cs
  && (zsum (map (fun t => fst (fst t)) cs) + dc * (n - 1) <=? fst s)
  (* the static needs (given widths, min_width of the weighted columns, dividers) fit: no column is ever dropped,
     whatever the focus *)
  && forallb (fun it => 0 <=? static_w (fst (fst it)) mw) items
  && (zsum (map (fun it => static_w (fst (fst it)) mw + dc) items) <=? fst s + dc).

(* ------------------------------------------------------------------------------------------ *)
(* Frame (frame.py); children: 0 = body, 1 = header, 2 = footer; box widget only               *)
(* ------------------------------------------------------------------------------------------ *)
(* Frame.frame_top_bottom: ((htrim, ftrim), (hrows, frows)) *)
Definition frame_top_bottom (hdr ftr : option cinfo) (fpt : fpart) (maxcol maxrow : Z) : (Z * Z) * (Z * Z) :=
  let hrows := match hdr with Some ci => i_rows ci maxcol | None => 0 end in
  let frows := match ftr with Some ci => i_rows ci maxcol | None => 0 end in
  let remaining := maxrow in
  match fpt with
  | FFooter =>
      if remaining <=? frows then ((0, remaining), (hrows, frows))
      else let remaining := remaining - frows in
           if remaining <=? hrows then ((remaining, frows), (hrows, frows))
           else ((hrows, frows), (hrows, frows))
  | FHeader =>
      if maxrow <=? hrows then ((remaining, 0), (hrows, frows))
      else let remaining := remaining - hrows in
           if remaining <=? frows then ((hrows, remaining), (hrows, frows))
           else ((hrows, frows), (hrows, frows))
  | FBody =>
      if remaining <=? hrows + frows then
        let rless1 := Z.max 0 (remaining - 1) in
        if remaining - 1 <=? frows then ((0, rless1), (hrows, frows))
        else let remaining := remaining - frows in
             let rless1 := Z.max 0 (remaining - 1) in
             ((rless1, frows), (hrows, frows))
      else ((hrows, frows), (hrows, frows))
  end.
Definition fpart_eqb (a b : fpart) : bool :=
  match a, b with FBody, FBody | FHeader, FHeader | FFooter, FFooter => true | _, _ => false end.
Definition frame_info : cinfo := CInfo true true false (fun _ => 0) true.
(* Frame.render *)
Definition frame_place (hdr ftr : option cinfo) (fpt : fpart) (s : size) : list placed :=
  match snd s with
  | None => []
  | Some maxrow =>
      let maxcol := fst s in
      let '((htrim, ftrim), _) := frame_top_bottom hdr ftr fpt maxcol maxrow in
      let head := if htrim =? 0 then [] else [Placed 1 0 0 (maxcol, None) (fpart_eqb fpt FHeader) false] in
      let hy := if htrim =? 0 then 0 else htrim in
      let body := if ftrim + htrim <? maxrow
                  then [Placed 0 0 hy (maxcol, Some (maxrow - ftrim - htrim)) (fpart_eqb fpt FBody) false] else [] in
      let by_ := if ftrim + htrim <? maxrow then hy + (maxrow - ftrim - htrim) else hy in
      let foot := if ftrim =? 0 then [] else [Placed 2 0 by_ (maxcol, None) (fpart_eqb fpt FFooter) false] in
      head ++ body ++ foot
  end.
(* Frame.get_cursor_coords; [bi] is the body's info *)
Definition frame_cursor (bi : cinfo) (hdr ftr : option cinfo) (fpt : fpart) (s : size) : cplan :=
  match snd s with
  | None => CPErr ValueError
  | Some maxrow =>
      let maxcol := fst s in
      let fi := match fpt with FBody => Some bi | FHeader => hdr | FFooter => ftr end in
      match fi with
      | None => CPErr OtherError                       (* AttributeError: the focus part does not exist *)
      | Some ci =>
          if negb (i_sel ci) then CPNone else
          if negb (i_hascur ci) then CPNone else
          let '((hrows, frows), _) := frame_top_bottom hdr ftr fpt maxcol maxrow in
          match fpt with
          | FHeader => CPAsk 1 (maxcol, None) 0 0 None false
          | FBody => CPAsk 0 (maxcol, Some (maxrow - hrows - frows)) 0 hrows None false
          | FFooter => CPAsk 2 (maxcol, None) 0 (maxrow - frows) None false
          end
      end
  end.
(* Frame.mouse_event: the focus flag is computed BEFORE a button-1 press moves the focus *)
Definition frame_route (hdr ftr : option cinfo) (fpt : fpart) (s : size) (col row : Z) (focus : bool) : option routed :=
  match snd s with
  | None => None
  | Some maxrow =>
      let maxcol := fst s in
      let '((htrim, ftrim), _) := frame_top_bottom hdr ftr fpt maxcol maxrow in
      if row <? htrim then Some (Routed 1 (maxcol, None) col row (focus && fpart_eqb fpt FHeader))
      else if negb (ftrim =? 0) && (maxrow - ftrim <=? row)          (* if ftrim and row >= maxrow - ftrim *)
      then Some (Routed 2 (maxcol, None) col (row - maxrow + ftrim) (focus && fpart_eqb fpt FFooter))
      else Some (Routed 0 (maxcol, Some (maxrow - htrim - ftrim)) col (row - htrim) (focus && fpart_eqb fpt FBody))
  end.
Definition frame_fits (hdr ftr : option cinfo) (fpt : fpart) (s : size) : bool :=
  match snd s with
  | None => false
  | Some maxrow =>
      let '((htrim, ftrim), (hrows, frows)) := frame_top_bottom hdr ftr fpt (fst s) maxrow in
      (htrim =? hrows) && (ftrim =? frows) && (1 <=? maxrow - htrim - ftrim)
      && (match hdr with Some _ => 1 <=? hrows | None => negb (fpart_eqb fpt FHeader) end)
      && (match ftr with Some _ => 1 <=? frows | None => negb (fpart_eqb fpt FFooter) end)
  end.

(* ------------------------------------------------------------------------------------------ *)
(* Overlay (overlay.py); children: 0 = top_w, 1 = bottom_w; box size; width given / relative;  *)
(* height 'pack' (flow top_w), given or relative (box top_w)                                   *)
(* ------------------------------------------------------------------------------------------ *)
Record ovopts := OvOpts { ov_pad : padopts; ov_fill : fillopts }.
(* Overlay.calculate_padding_filler *)
Definition overlay_lrtb (o : ovopts) (ti : cinfo) (maxcol maxrow : Z) : Z * Z * Z * Z :=
  let '(l, r) := padding_values (ov_pad o) maxcol in
  let f := ov_fill o in
  if is_pack (fi_ht f) then
    let height := i_rows ti (maxcol - l - r) in  (* self.top_w.rows((maxcol - left - right,), focus=focus) *)
    let '(t, b) := calculate_top_bottom_filler maxrow (fi_vt f) (fi_vamt f) GGiven height None (fi_top f) (fi_bottom f) in
    let b := if maxrow <? height then maxrow - height else b in
    (l, r, t, b)
  else
    let '(t, b) := calculate_top_bottom_filler maxrow (fi_vt f) (fi_vamt f) (fi_ht f) (fi_hamt f) (fi_minh f) (fi_top f) (fi_bottom f) in
    (l, r, t, b).
(* Overlay.top_w_size *)
Definition overlay_top_size (o : ovopts) (maxcol maxrow l r t b : Z) : size :=
  if is_pack (fi_ht (ov_fill o)) then (maxcol - l - r, None) else (maxcol - l - r, Some (maxrow - t - b)).
Definition overlay_info (ti : cinfo) : cinfo := CInfo (i_sel ti) true false (fun _ => 0) true.
(* Overlay.render: bottom_w at the full size without focus, top_w overlaid at (left, top) *)
Definition overlay_place (o : ovopts) (ti : cinfo) (s : size) : list placed :=
  match snd s with
  | None => []
  | Some maxrow =>
      let maxcol := fst s in
      let '(l, r, t, b) := overlay_lrtb o ti maxcol maxrow in
      [Placed 1 0 0 (maxcol, Some maxrow) false true;
       Placed 0 (Z.max l 0) t (overlay_top_size o maxcol maxrow l r t b) true false]     (* CanvasOverlay(top_c, bottom_c, max(left, 0), top) *)
  end.
(* Overlay.get_cursor_coords: top_w is asked with top_w_size(...); None stays None *)
Definition overlay_cursor (o : ovopts) (ti : cinfo) (s : size) : cplan :=
  if negb (i_hascur ti) then CPNone else
  match snd s with
  | None => CPErr ValueError
  | Some maxrow =>
      let maxcol := fst s in
      let '(l, r, t, b) := overlay_lrtb o ti maxcol maxrow in
      CPAsk 0 (overlay_top_size o maxcol maxrow l r t b) l t (Some maxrow) false
  end.
(* Overlay.mouse_event *)
Definition overlay_route (o : ovopts) (ti : cinfo) (s : size) (col row : Z) (focus : bool) : option routed :=
  match snd s with
  | None => None
  | Some maxrow =>
      let maxcol := fst s in
      let '(l, r, t, b) := overlay_lrtb o ti maxcol maxrow in
      if (col <? l) || (maxcol - r <=? col) || (row <? t) || (maxrow - b <=? row) then None
      else Some (Routed 0 (overlay_top_size o maxcol maxrow l r t b) (col - l) (row - t) focus)
  end.
(* nothing clipped: non-negative margins and the top widget's canvas inside the area *)
Definition overlay_fits (o : ovopts) (ti : cinfo) (s : size) : bool :=
  match snd s with
  | None => false
  | Some maxrow =>
      let maxcol := fst s in
      let '(l, r, t, b) := overlay_lrtb o ti maxcol maxrow in
      (0 <=? l) && (0 <=? r) && (0 <=? t) && (0 <=? b)
      && (if is_pack (fi_ht (ov_fill o)) then t + i_rows ti (maxcol - l - r) <=? maxrow else true)
  end.

(* ------------------------------------------------------------------------------------------ *)
(* composition over the tree                                                                   *)
(* ------------------------------------------------------------------------------------------ *)
Record rect := Rect { rc_id : Z; rc_x : Z; rc_y : Z; rc_cols : Z; rc_rows : Z; rc_focus : bool; rc_size : size;
                      rc_bg : bool (* inside the background of an Overlay: possibly covered, never hit-tested *) }.
Record hit := Hit { h_id : Z; h_col : Z; h_row : Z; h_focus : bool; h_size : size }.
Record mres := MRes {
  m_ok : bool;                               (* return value *)
  m_w : widget;                              (* the tree afterwards *)
  m_asked : option (Z * Z * Z * size)        (* the leaf that was finally asked: (id, col, row, size) *)
}.

Record wview := View {
  v_info : cinfo;
  v_place : size -> list placed;                     (* children as placed by render (empty for a leaf) *)
  v_rects : size -> bool -> list rect;               (* leaves drawn by render(size, focus), absolute *)
  v_rcursor : size -> bool -> option xy;             (* cursor of render(size, focus) *)
  v_cursor : size -> cres;                           (* get_cursor_coords(size) *)
  v_mouse : size -> Z -> Z -> bool -> option hit;    (* leaf receiving a button-1 press at (col, row) *)
  v_move : size -> Z -> Z -> mres;                   (* move_cursor_to_coords(size, col, row) *)
  v_fits : size -> bool                              (* no widget on the way hidden or clipped *)
}.

(* the view of a child that does not exist (Frame without header / footer): nothing is drawn; a mouse event
   routed to it is an AttributeError in Python (None.selectable()), reported as a hit on the pseudo leaf -2 *)
Definition dummy_view (w : widget) : wview :=
  View dummy_info (fun _ => []) (fun _ _ => []) (fun _ _ => None) (fun _ => CNone)
       (fun _ _ _ _ => Some (Hit (-2) 0 0 false (0, None))) (fun _ _ _ => MRes false w None) (fun _ => false).
Definition nth_view (d : widget) (l : list wview) (i : Z) : wview :=
  match nthz l i with Some v => v | None => dummy_view d end.

Definition shift_rect (dx dy : Z) (bg : bool) (r : rect) : rect :=
  Rect (rc_id r) (rc_x r + dx) (rc_y r + dy) (rc_cols r) (rc_rows r) (rc_focus r) (rc_size r) (rc_bg r || bg).

(* the local methods of one node, given what it knows about its children *)
Record node := Node {
  n_info : cinfo;
  n_place : size -> list placed;
  n_cursor : size -> cplan;
  n_route : size -> Z -> Z -> bool -> option routed;
  n_move : size -> Z -> Z -> mplan;
  n_fits : size -> bool
}.

(* canvas composition: CanvasCombine / CanvasJoin / CanvasOverlay / pad_trim update the coords dictionary
   with every child's translated coords: the last child that has a cursor wins *)
Definition interp_rcursor (d : widget) (nd : node) (kids : list wview) (s : size) (focus : bool) : option xy :=
  fold_left (fun acc p =>
               match v_rcursor (nth_view d kids (p_idx p)) (p_size p) (focus && p_isfocus p) with
               | Some (x, y) => Some (x + p_x p, y + p_y p)
               | None => acc
               end) (n_place nd s) None.
Definition interp_rects (d : widget) (nd : node) (kids : list wview) (s : size) (focus : bool) : list rect :=
  flat_map (fun p => map (shift_rect (p_x p) (p_y p) (p_bg p))
                         (v_rects (nth_view d kids (p_idx p)) (p_size p) (focus && p_isfocus p)))
           (n_place nd s).
Definition interp_cursor (d : widget) (nd : node) (kids : list wview) (s : size) : cres :=
  match n_cursor nd s with
  | CPNone => CNone
  | CPErr e => CErr e
  | CPAsk i cs dx dy clamp none_raises =>
      match v_cursor (nth_view d kids i) cs with
      | CNone => if none_raises then CErr TypeError else CNone
      | CErr e => CErr e
      | CSome x y =>
          let y1 := match clamp with Some m => if m <=? y then m - 1 else y | None => y end in
          CSome (x + dx) (y1 + dy)
      end
  end.
Definition interp_mouse (d : widget) (nd : node) (kids : list wview) (s : size) (col row : Z) (focus : bool) : option hit :=
  match n_route nd s col row focus with
  | None => None
  | Some r => v_mouse (nth_view d kids (r_idx r)) (r_size r) (r_col r) (r_row r) (r_focus r)
  end.
Definition interp_fits (d : widget) (nd : node) (kids : list wview) (s : size) : bool :=
  (1 <=? fst s) && (match snd s with Some r => 1 <=? r | None => true end)
  && n_fits nd s && forallb (fun p => v_fits (nth_view d kids (p_idx p)) (p_size p)) (n_place nd s).

(* rebuilding the tree after a successful move *)
Fixpoint set_nth_w {A} (l : list (A * widget)) (i : Z) (w' : widget) : list (A * widget) :=
  match l with
  | [] => []
  | (a, w) :: r => if i =? 0 then (a, w') :: r else (a, w) :: set_nth_w r (i - 1) w'
  end.
Definition set_child (w : widget) (i : Z) (c : widget) : widget :=
  match w with
  | Leaf l => Leaf l
  | Pile items fp => Pile (set_nth_w items i c) fp
  | Columns items fp dc mw => Columns (set_nth_w items i c) fp dc mw
  | Padding _ a b c0 d e f g => Padding c a b c0 d e f g
  | Filler _ a b c0 d e f g => Filler c a b c0 d e f g
  | Frame body hdr ftr fpt =>
      if i =? 0 then Frame c hdr ftr fpt else if i =? 1 then Frame body (Some c) ftr fpt else Frame body hdr (Some c) fpt
  | BoxAdapter _ h => BoxAdapter c h
  | AttrMap _ => AttrMap c
  | Overlay t b a1 a2 a3 a4 a5 a6 a7 b1 b2 b3 b4 b5 b6 b7 =>
      if i =? 0 then Overlay c b a1 a2 a3 a4 a5 a6 a7 b1 b2 b3 b4 b5 b6 b7 else Overlay t c a1 a2 a3 a4 a5 a6 a7 b1 b2 b3 b4 b5 b6 b7
  end.
Definition set_focus (w : widget) (i : Z) : widget :=
  match w with
  | Pile items _ => Pile items i
  | Columns items _ dc mw => Columns items i dc mw
  | _ => w
  end.
Definition interp_move (w : widget) (nd : node) (kids : list wview) (s : size) (col row : Z) : mres :=
  match n_move nd s col row with
  | MPFalse => MRes false w None
  | MPTrue => MRes true w None
  | MPFocus i => MRes true (set_focus w i) None
  | MPAsk i cs c r nf =>
      let m := v_move (nth_view w kids i) cs c r in
      if m_ok m then
        let w1 := set_child w i (m_w m) in
        MRes true (match nf with Some f => set_focus w1 f | None => w1 end) (m_asked m)
      else MRes false w (m_asked m)
  end.

Definition interp (w : widget) (nd : node) (kids : list wview) : wview :=
  View (n_info nd) (n_place nd)
       (interp_rects w nd kids) (interp_rcursor w nd kids) (interp_cursor w nd kids)
       (interp_mouse w nd kids) (interp_move w nd kids) (interp_fits w nd kids).

Definition leaf_view (l : leafd) : wview :=
  View (leaf_info l)
       (fun _ => [])
       (fun s focus => [Rect (lid l) 0 0 (fst s) (leaf_nrows l s) focus s false])
       (fun s focus => if focus then leaf_cursor l s else None)
       (fun s => match leaf_cursor l s with Some (x, y) => CSome x y | None => CNone end)
       (fun s col row focus => Some (Hit (lid l) col row focus s))
       (fun s col row =>
          if leaf_accepts l s row then MRes true (Leaf (leaf_moved l s col row)) (Some (lid l, col, row, s))
          else MRes false (Leaf l) (Some (lid l, col, row, s)))
       (leaf_fits l).



(* the node of a widget, from the infos of its children (in child order) *)
Definition node_of (w : widget) (ki : list cinfo) : node :=
  match w with
  | Leaf l => Node (leaf_info l) (fun _ => []) (fun _ => CPNone) (fun _ _ _ _ => None) (fun _ _ _ => MPFalse) (fun _ => false)
  | AttrMap _ =>
      let ci := nth_info ki 0 in
      Node (attrmap_info ci) attrmap_place attrmap_cursor attrmap_route attrmap_move attrmap_fits
  | BoxAdapter _ h =>
      let ci := nth_info ki 0 in
      Node (boxadapter_info h ci) (boxadapter_place h) (boxadapter_cursor h ci) (boxadapter_route h)
           (boxadapter_move h ci) (boxadapter_fits h)
  | Padding _ at_ aamt wt wamt minw lft rgt =>
      let ci := nth_info ki 0 in
      let o := PadOpts at_ aamt wt wamt minw lft rgt in
      Node (padding_info o ci) (padding_place o) (padding_cursor o ci) (padding_route o) (padding_move o ci) (padding_fits o)
  | Filler _ vt vamt ht hamt minh top bottom =>
      let ci := nth_info ki 0 in
      let o := FillOpts vt vamt ht hamt minh top bottom in
      Node (filler_info o ci) (filler_place o ci) (filler_cursor o ci) (filler_route o ci) (filler_move o ci) (filler_fits o ci)
  | Pile items fp =>
      let its := combine (map fst items) ki in
      Node (pile_info its) (pile_place its fp) (pile_cursor its fp) (pile_route its fp) (pile_move its) (pile_fits its fp)
  | Columns items fp dc mw =>
      let its := combine (map fst items) ki in
      Node (columns_info its fp dc mw) (columns_place its fp dc mw) (columns_cursor its fp dc mw)
           (columns_route its fp dc mw) (columns_move its fp dc mw) (columns_fits its fp dc mw)
  | Frame _ hdr ftr fpt =>
      let bi := nth_info ki 0 in
      let hi := match hdr with Some _ => Some (nth_info ki 1) | None => None end in
      let fi := match ftr with Some _ => Some (nth_info ki 2) | None => None end in
      Node frame_info (frame_place hi fi fpt) (frame_cursor bi hi fi fpt) (frame_route hi fi fpt)
           (fun _ _ _ => MPFalse) (frame_fits hi fi fpt)
  | Overlay _ _ at_ aamt wt wamt minw lft rgt vt vamt ht hamt minh top bottom =>
      let ti := nth_info ki 0 in
      let o := OvOpts (PadOpts at_ aamt wt wamt minw lft rgt) (FillOpts vt vamt ht hamt minh top bottom) in
      Node (overlay_info ti) (overlay_place o ti) (overlay_cursor o ti) (overlay_route o ti)
           (fun _ _ _ => MPFalse) (overlay_fits o ti)
  end.

(* the views of the children, in child order (Frame: body, header, footer; a missing part is a dummy) *)
Definition kids_with (view : widget -> wview) (w : widget) : list wview :=
  match w with
  | Leaf _ => []
  | Pile items _ => map (fun it => view (snd it)) items
  | Columns items _ _ _ => map (fun it => view (snd it)) items
  | Padding c _ _ _ _ _ _ _ => [view c]
  | Filler c _ _ _ _ _ _ _ => [view c]
  | Frame body hdr ftr _ =>
      [view body;
       match hdr with Some h => view h | None => dummy_view w end;
       match ftr with Some f => view f | None => dummy_view w end]
  | BoxAdapter c _ => [view c]
  | AttrMap c => [view c]
  | Overlay t b _ _ _ _ _ _ _ _ _ _ _ _ _ _ => [view t; view b]
  end.
Fixpoint view (w : widget) : wview :=
  let kids : list wview :=
    match w with
    | Leaf _ => []
    | Pile items _ => map (fun it => view (snd it)) items
    | Columns items _ _ _ => map (fun it => view (snd it)) items
    | Padding c _ _ _ _ _ _ _ => [view c]
    | Filler c _ _ _ _ _ _ _ => [view c]
    | Frame body hdr ftr _ =>
        [view body;
         match hdr with Some h => view h | None => dummy_view w end;
         match ftr with Some f => view f | None => dummy_view w end]
    | BoxAdapter c _ => [view c]
    | AttrMap c => [view c]
    | Overlay t b _ _ _ _ _ _ _ _ _ _ _ _ _ _ => [view t; view b]
    end in
  match w with
  | Leaf l => leaf_view l
  | _ => interp w (node_of w (map v_info kids)) kids
  end.

Definition kidviews (w : widget) : list wview := kids_with view w.
Definition wnode (w : widget) : node := node_of w (map v_info (kidviews w)).

(* ---- LineBox (line_box.py): a composition of Pile and Columns around the wrapped widget ---- *)
Definition border_leaf (box : bool) : widget := Leaf (LeafD (-1) box 1 0 false false None [] 1 0).
Definition linebox (w : widget) (tline bline : bool) : widget :=
  let top := Columns [(CGiven 1, false, border_leaf false); (CWeight 1, false, border_leaf false); (CGiven 1, false, border_leaf false)] 0 0 1 in
  let middle := Columns [(CGiven 1, true, border_leaf true); (CWeight 1, false, w); (CGiven 1, true, border_leaf true)] 1 0 1 in
  let bottom := Columns [(CGiven 1, false, border_leaf false); (CWeight 1, false, border_leaf false); (CGiven 1, false, border_leaf false)] 0 0 1 in
  Pile ((if tline then [(PPack, top)] else []) ++ [(PWeight 1, middle)] ++ (if bline then [(PPack, bottom)] else []))
       (if tline then 1 else 0).

(* ------------------------------------------------------------------------------------------ *)
(* top-level names used by the property statements                                             *)
(* ------------------------------------------------------------------------------------------ *)
Definition place (w : widget) (s : size) : list placed := v_place (view w) s.
Definition mouse_route (w : widget) := n_route (wnode w).
Definition info (w : widget) : cinfo := v_info (view w).
Definition cursor_coords (w : widget) (s : size) : cres := v_cursor (view w) s.
Definition render_cursor (w : widget) (s : size) (focus : bool) : option xy := v_rcursor (view w) s focus.
Definition mouse_leaf (w : widget) := v_mouse (view w).
Definition move_cursor (w : widget) := v_move (view w).
Definition leaf_rects (w : widget) := v_rects (view w).
Definition fits (w : widget) (s : size) : bool := v_fits (view w) s.
Definition canvas_rows (w : widget) (s : size) : Z := crows (v_info (view w)) s.

(* ------------------------------------------------------------------------------------------ *)
(* wire format (harness <-> extracted model)                                                   *)
(*   case  = cols hasrows rows nmoves (col row)* tree                                          *)
(*   tree  = 0 id box h wrap sel api hascur cx cy nrej rej* minw fw         leaf (fw > 0: fixed)*)
(*         | 1 focus n (optcode optn tree)*                                 pile               *)
(*         | 2 focus dc mw n (optcode optn box tree)*        columns (optcode 0 = 'pack')      *)
(*         | 3 at aamt wt wamt minw? left right tree                        padding            *)
(*         | 4 vt vamt ht hamt minh? top bottom tree                        filler             *)
(*         | 5 fpart hashdr hasftr body [hdr] [ftr]                         frame              *)
(*         | 6 h tree | 7 tree                                              boxadapter attrmap *)
(*         | 8 at aamt wt wamt minw? left right vt vamt ht hamt minh? top bottom top bottom    *)
(*         | 9 tline bline tree | 10                                        linebox, fill      *)
(* ------------------------------------------------------------------------------------------ *)
Definition zb (z : Z) : bool := negb (z =? 0).
Definition dec_at (z : Z) : gatype := if z =? 0 then GLeft else if z =? 1 then GCenter else if z =? 2 then GRight else GARelative.
Definition dec_vt (z : Z) : gvtype := if z =? 0 then GTop else if z =? 1 then GMiddle else if z =? 2 then GBottom else GVRelative.
Definition dec_wt (z : Z) : gwtype := if z =? 0 then GPack else if z =? 1 then GGiven else GRelative.

Definition dec_pad (l : list Z) : option (padopts * list Z) :=
  match l with
  | a :: aamt :: wt :: wamt :: r =>
      match dec_oz r with
      | Some (minw, lft :: rgt :: r') => Some (PadOpts (dec_at a) aamt (dec_wt wt) wamt minw lft rgt, r')
      | _ => None
      end
  | _ => None
  end.
Definition dec_fill (l : list Z) : option (fillopts * list Z) :=
  match l with
  | v :: vamt :: ht :: hamt :: r =>
      match dec_oz r with
      | Some (minh, tp :: bt :: r') => Some (FillOpts (dec_vt v) vamt (dec_wt ht) hamt minh tp bt, r')
      | _ => None
      end
  | _ => None
  end.

Fixpoint dec_w (fuel : nat) (l : list Z) : option (widget * list Z) :=
  match fuel with
  | O => None
  | S k =>
    let dec_pitems :=
      fix go (n : nat) (l : list Z) : option (list (popt * widget) * list Z) :=
        match n with
        | O => Some ([], l)
        | S n' =>
            match l with
            | oc :: on :: r =>
                match dec_w k r with
                | Some (c, r') =>
                    match go n' r' with
                    | Some (its, r'') =>
                        Some ((if oc =? 0 then PPack else if oc =? 1 then PGiven on else PWeight on, c) :: its, r'')
                    | None => None
                    end
                | None => None
                end
            | _ => None
            end
        end in
    let dec_citems :=
      fix go (n : nat) (l : list Z) : option (list (copt * bool * widget) * list Z) :=
        match n with
        | O => Some ([], l)
        | S n' =>
            match l with
            | oc :: on :: b :: r =>
                match dec_w k r with
                | Some (c, r') =>
                    match go n' r' with
                    | Some (its, r'') => Some ((if oc =? 0 then CPack else if oc =? 1 then CGiven on else CWeight on, zb b, c) :: its, r'')
                    | None => None
                    end
                | None => None
                end
            | _ => None
            end
        end in
    match l with
    | 0 :: id :: box :: h :: wrap :: sel :: api :: hc :: cx :: cy :: r =>
        match dec_list r with
        | Some (rej, minw :: fw :: r') =>
            Some (Leaf (LeafD id (zb box) h wrap (zb sel) (zb api) (if zb hc then Some (cx, cy) else None) rej minw fw), r')
        | _ => None
        end
    | 1 :: fp :: n :: r =>
        match dec_pitems (Z.to_nat n) r with Some (its, r') => Some (Pile its fp, r') | None => None end
    | 2 :: fp :: dc :: mw :: n :: r =>
        match dec_citems (Z.to_nat n) r with Some (its, r') => Some (Columns its fp dc mw, r') | None => None end
    | 3 :: r =>
        match dec_pad r with
        | Some (o, r') =>
            match dec_w k r' with
            | Some (c, r'') => Some (Padding c (pa_at o) (pa_aamt o) (pa_wt o) (pa_wamt o) (pa_minw o) (pa_left o) (pa_right o), r'')
            | None => None
            end
        | None => None
        end
    | 4 :: r =>
        match dec_fill r with
        | Some (o, r') =>
            match dec_w k r' with
            | Some (c, r'') => Some (Filler c (fi_vt o) (fi_vamt o) (fi_ht o) (fi_hamt o) (fi_minh o) (fi_top o) (fi_bottom o), r'')
            | None => None
            end
        | None => None
        end
    | 5 :: fpt :: hh :: hf :: r =>
        match dec_w k r with
        | Some (body, r1) =>
            let dec_opt (has : Z) (l : list Z) : option (option widget * list Z) :=
              if zb has then match dec_w k l with Some (c, r') => Some (Some c, r') | None => None end
              else Some (None, l) in
            match dec_opt hh r1 with
            | Some (hdr, r2) =>
                match dec_opt hf r2 with
                | Some (ftr, r3) =>
                    Some (Frame body hdr ftr (if fpt =? 0 then FBody else if fpt =? 1 then FHeader else FFooter), r3)
                | None => None
                end
            | None => None
            end
        | None => None
        end
    | 6 :: h :: r => match dec_w k r with Some (c, r') => Some (BoxAdapter c h, r') | None => None end
    | 7 :: r => match dec_w k r with Some (c, r') => Some (AttrMap c, r') | None => None end
    | 8 :: r =>
        match dec_pad r with
        | Some (po, r1) =>
            match dec_fill r1 with
            | Some (fo, r2) =>
                match dec_w k r2 with
                | Some (t, r3) =>
                    match dec_w k r3 with
                    | Some (b, r4) =>
                        Some (Overlay t b (pa_at po) (pa_aamt po) (pa_wt po) (pa_wamt po) (pa_minw po) (pa_left po) (pa_right po)
                                      (fi_vt fo) (fi_vamt fo) (fi_ht fo) (fi_hamt fo) (fi_minh fo) (fi_top fo) (fi_bottom fo), r4)
                    | None => None
                    end
                | None => None
                end
            | None => None
            end
        | None => None
        end
    | 9 :: tl :: bl :: r => match dec_w k r with Some (c, r') => Some (linebox c (zb tl) (zb bl), r') | None => None end
    | 10 :: r => Some (border_leaf true, r)
    | _ => None
    end
  end.

Definition enc_size (s : size) : list Z := [fst s; match snd s with Some r => r | None => -1 end].
Definition enc_oxy (o : option xy) : list Z := match o with None => [0] | Some (x, y) => [1; x; y] end.
Definition enc_cres (c : cres) : list Z :=
  match c with CNone => [0] | CSome x y => [1; x; y] | CErr e => [2; errcode e] end.
Definition enc_rect (r : rect) : list Z :=
  [rc_id r; rc_x r; rc_y r; rc_cols r; rc_rows r; enc_bool (rc_focus r)] ++ enc_size (rc_size r).
Definition enc_hit (o : option hit) : list Z :=
  match o with
  | None => [0]
  | Some h => if h_id h =? -2 then [2]
              else if h_id h <? 0 then [0] else [1; h_id h; h_col h; h_row h; enc_bool (h_focus h)] ++ enc_size (h_size h)
  end.
Fixpoint zrange (n : nat) (from : Z) : list Z := match n with O => [] | S k => from :: zrange k (from + 1) end.
Fixpoint dec_pairs (n : nat) (l : list Z) : list (Z * Z) * list Z :=
  match n, l with
  | S k, a :: b :: r => let '(ps, r') := dec_pairs k r in ((a, b) :: ps, r')
  | _, _ => ([], l)
  end.

Definition run_tree (w : widget) (s : size) (moves : list (Z * Z)) : list Z :=
  let v := view w in
  let cols := fst s in
  let rows := crows (v_info v) s in
  let rects := filter (fun r => 0 <=? rc_id r) (v_rects v s true) in
  let cells := flat_map (fun y => map (fun x => (x, y)) (zrange (Z.to_nat cols) 0)) (zrange (Z.to_nat rows) 0) in
  [enc_bool (v_fits v s); enc_bool (i_hascur (v_info v)); enc_bool (i_hasmove (v_info v)); cols; rows]
  ++ enc_oxy (v_rcursor v s true)
  ++ enc_cres (v_cursor v s)
  ++ zlen rects :: flat_map enc_rect rects
  ++ zlen cells :: flat_map (fun c => enc_hit (v_mouse v s (fst c) (snd c) true)) cells
  ++ zlen moves :: flat_map (fun m =>
       let r := v_move v s (fst m) (snd m) in
       let v' := view (m_w r) in
       enc_bool (m_ok r)
       :: match m_asked r with
          | Some (id, c, rw, cs) => if id <? 0 then [0] else [1; id; c; rw] ++ enc_size cs
          | None => [0]
          end
       ++ enc_cres (v_cursor v' s) ++ enc_oxy (v_rcursor v' s true)) moves.

Definition run_case (l : list Z) : list Z :=
  match l with
  | cols :: hasr :: rows :: nm :: r =>
      let '(moves, r') := dec_pairs (Z.to_nat nm) r in
      match dec_w (S (length r')) r' with
      | Some (w, _) => run_tree w (cols, if zb hasr then Some rows else None) moves
      | None => [-1]
      end
  | _ => [-1]
  end.
