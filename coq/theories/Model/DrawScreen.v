(* C04 - model of urwid/display/_raw_display_base.py: Screen.draw_screen, Screen._last_row,
   Screen._attrspec_to_escape, Screen.clear and the resize flag, as functions producing TOKENS
   (executable definitions only, no proofs).  Text is modelled at the character level: a run's
   bytes are a list of (code point, column width); the harness does the decoding.

   Hand-written line by line from the Python source; tied to it by the exact token-stream
   correspondence on every frame of every generated history. *)
From Coq Require Import ZArith List Bool Lia.
From Urwid Require Import PyBase PyList attrspec_escape_gen TermRef.
Import ListNotations.
Open Scope Z_scope.

(* ---------- canvas content ---------- *)
Definition chr := (Z * Z)%type.                      (* code point, width *)
Definition crun := (Z * Z * list chr)%type.          (* attribute id, charset flag (0 None, 1 "0", 2 "U"), text *)
Definition crow := list crun.

Definition chr_eqb (a b : chr) : bool := (fst a =? fst b) && (snd a =? snd b).
Fixpoint text_eqb (a b : list chr) : bool :=
  match a, b with
  | [], [] => true
  | x :: a', y :: b' => chr_eqb x y && text_eqb a' b'
  | _, _ => false
  end.
Definition run_eqb (a b : crun) : bool :=
  let '(aa, ac, at_) := a in let '(ba, bc, bt) := b in (aa =? ba) && (ac =? bc) && text_eqb at_ bt.
Fixpoint row_eqb (a b : crow) : bool :=
  match a, b with
  | [], [] => true
  | x :: a', y :: b' => run_eqb x y && row_eqb a' b'
  | _, _ => false
  end.

(* ---------- attributes: AttrSpec as the fields _attrspec_to_escape reads ---------- *)
Record aspec := mkSpec {
  s_fgk : Z;            (* 3 foreground_true, 2 foreground_high, 1 foreground_basic, 0 default *)
  s_fgn : Z;            (* foreground_number *)
  s_fr : Z; s_fg : Z; s_fb : Z;
  s_bgk : Z; s_bgn : Z; s_br : Z; s_bg : Z; s_bb : Z;
  s_bold : bool; s_ital : bool; s_under : bool; s_blink : bool; s_stand : bool; s_strike : bool }.

Definition default_spec : aspec := mkSpec 0 0 0 0 0 0 0 0 0 0 false false false false false false.

(* canvas attribute kinds: 0 = key of _pal_escape (registered palette name, None) with its
   _pal_attrspec entry; 1 = an AttrSpec object; 2 = anything else (undefined name) *)
Definition aentry := (Z * aspec)%type.

Record cfg := mkCfg {
  g_utf8 : bool;        (* util.get_encoding() == "utf-8" *)
  g_bce : bool;         (* self.back_color_erase *)
  g_bib : bool;         (* self.fg_bright_is_bold *)
  g_bbb : bool;         (* self.bg_bright_is_blink *)
  g_atab : list aentry }.

(* Screen._attrspec_to_escape (term != "fbterm"): the SGR parameter list.  The body is TRANSLATED from the
   source on every run (Gen/attrspec_escape_gen.v, tools/py2v/mods/attrspec_escape.py); here only the
   AttrSpec properties it reads are supplied from the record *)
Definition spec_to_sgr (bib bbb : bool) (a : aspec) : list Z :=
  attrspec_to_sgr_gen (s_fgk a =? 3) (s_fgk a =? 2) (s_fgk a =? 1) (s_fgn a) (s_fr a) (s_fg a) (s_fb a)
                      (s_bold a) (s_ital a) (s_under a) (s_blink a) (s_stand a) (s_strike a)
                      (s_bgk a =? 3) (s_bgk a =? 2) (s_bgk a =? 1) (s_bgn a) (s_br a) (s_bg a) (s_bb a) bib bbb.

Definition lookup_attr (c : cfg) (a : Z) : aentry :=
  match nthz (g_atab c) a with Some e => e | None => (2, default_spec) end.

(* draw_screen.attr_to_escape *)
Definition attr_to_escape (c : cfg) (a : Z) : list tok :=
  let '(k, sp) := lookup_attr c a in
  if k =? 2 then [TSgr (spec_to_sgr (g_bib c) (g_bbb c) default_spec)]
  else [TSgr (spec_to_sgr (g_bib c) (g_bbb c) sp)].

(* draw_screen.using_standout_or_underline *)
Definition using_sul (c : cfg) (a : Z) : bool :=
  let '(k, sp) := lookup_attr c a in
  if k =? 2 then false else s_stand sp || s_under sp || s_strike sp.

(* ---------- str_util on character lists ---------- *)
Fixpoint calc_width (t : list chr) : Z :=
  match t with [] => 0 | c :: r => snd c + calc_width r end.

(* str_util.calc_text_pos(text, 0, len(text), pref_col), utf8 branch: (index, column) *)
Fixpoint text_pos_utf8 (t : list chr) (pref i sc : Z) : Z * Z :=
  match t with
  | [] => (i, sc)
  | c :: r => if pref <? snd c + sc then (i, sc) else text_pos_utf8 r pref (i + 1) (sc + snd c)
  end.

(* narrow branch *)
Definition text_pos_narrow (t : list chr) (pref : Z) : Z * Z :=
  if zlen t <=? pref then (zlen t, zlen t) else (pref, pref).

Definition calc_text_pos (utf8 : bool) (t : list chr) (pref : Z) : Z * Z :=
  if utf8 then text_pos_utf8 t pref 0 0 else text_pos_narrow t pref.

Definition text_width (utf8 : bool) (t : list chr) : Z := if utf8 then calc_width t else zlen t.

Definition is_space (c : chr) : bool := fst c =? 32.

(* bytes.rstrip(b" ") *)
Fixpoint rstrip_rev (r : list chr) : list chr :=
  match r with
  | c :: r' => if is_space c then rstrip_rev r' else r
  | [] => []
  end.
Definition rstrip (t : list chr) : list chr := rev (rstrip_rev (rev t)).

(* bytes.strip() is empty: only ASCII whitespace *)
Definition is_ws (c : chr) : bool :=
  let x := fst c in (x =? 32) || ((9 <=? x) && (x <=? 13)).
Definition is_blank_row (row : crow) : result bool :=
  match row with
  | [] => Err IndexError
  | [(_, _, t)] => Ok (forallb is_ws t)
  | _ => Ok false
  end.

Fixpoint last_opt {A} (l : list A) : option A :=
  match l with [] => None | [x] => Some x | _ :: r => last_opt r end.

(* ---------- Screen._last_row ---------- *)
(* returns (new_row, back, ins) *)
Definition last_row (utf8 : bool) (row : crow) : result (crow * Z * option crun) :=
  match last_opt row with
  | None => Err IndexError
  | Some (z_attr, z_cs, last_text) =>
      let new_row := removelast row in
      let last_cols := text_width utf8 last_text in
      (* the last run holds only zero-width characters: it is no Z to slide into place *)
      if last_cols =? 0 then Ok (row, 0, None) else
      let '(last_offs, z_col) := calc_text_pos utf8 last_text (last_cols - 1) in
      if last_offs =? 0 then
        match last_opt new_row with
        | None => Ok (row, 0, None)                  (* Z fills the whole row *)
        | Some (y_attr, y_cs, nlast_text) =>
            let z_text := last_text in
            let new_row := removelast new_row in
            let nlast_cols := text_width utf8 nlast_text in
            (* only zero-width characters before Z: no Y to slide it into place with *)
            if nlast_cols =? 0 then Ok (row, 0, None) else
            let '(nlast_offs, y_col) := calc_text_pos utf8 nlast_text (nlast_cols - 1) in
            let y_text := dropz nlast_offs nlast_text in
            let new_row := if nlast_offs =? 0 then new_row else new_row ++ [(y_attr, y_cs, takez nlast_offs nlast_text)] in
            let new_row := new_row ++ [(z_attr, z_cs, z_text)] in
            Ok (new_row, text_width utf8 z_text, Some (y_attr, y_cs, y_text))
        end
      else if last_offs <? 0 then Err ValueError      (* calc_width(last_text, 0, -1) raises *)
      else
        let z_text := dropz last_offs last_text in
        let pre := takez last_offs last_text in
        let nlast_cols := text_width utf8 pre in
        if nlast_cols =? 0 then Ok (row, 0, None) else
        let '(nlast_offs, y_col) := calc_text_pos utf8 pre (nlast_cols - 1) in
        let y_text := dropz nlast_offs pre in
        let new_row := if nlast_offs =? 0 then new_row else new_row ++ [(z_attr, z_cs, takez nlast_offs last_text)] in
        let new_row := new_row ++ [(z_attr, z_cs, z_text)] in
        Ok (new_row, text_width utf8 z_text, Some (z_attr, z_cs, y_text))
  end.

(* ---------- pieces of draw_screen ---------- *)
Definition cuu (n : Z) : list tok := if n <? 1 then [] else [TCuu n].
Definition cud (n : Z) : list tok := if n <? 1 then [] else [TCud n].
Definition cuf (n : Z) : list tok := if n <? 1 then [] else [TCuf n].

(* draw_screen.set_cursor_home *)
Definition set_cursor_home (partial : bool) (cy : Z) : list tok :=
  if negb partial then [TCup 1 1] else TCr :: cuu cy.

(* draw_screen.set_cursor_position *)
Definition set_cursor_position (partial : bool) (cy x y : Z) : list tok :=
  if negb partial then [TCup (y + 1) (x + 1)]
  else if y <? cy then TBs :: TCr :: cuu (cy - y) ++ cuf x
  else TBs :: TCr :: cud (y - cy) ++ cuf x.

(* run.translate(UNPRINTABLE_TRANS_TABLE): control characters become '?' *)
Definition trans_chr (c : chr) : chr := if fst c <? 32 then (63, 1) else c.
(* draw_screen, "unprintable" translation of a run: C0 control characters take no columns in UTF-8 (they are
   dropped) and one column otherwise (shown as "?") *)
Definition trans_text (utf8 : bool) (text : list chr) : list chr :=
  if utf8 then filter (fun ch : chr => negb (fst ch <? 32)) text else map trans_chr text.
Definition ch_tok (c : chr) : tok := TCh (fst c) (snd c).

(* state threaded through the runs of the rows: last_attributes, first, last_charset_flag *)
Record rstate := mkRs { r_last : Z; r_first : bool; r_lcs : Z }.

Definition cs_tok (cs : Z) : tok := if cs =? 0 then TSi else if cs =? 2 then TIbmOn else TSo.

(* body of "for a, cs, run in row" *)
Definition emit_run (c : cfg) (st : rstate) (r : crun) : list tok * rstate :=
  let '(a, cs, text) := r in
  let text' := if cs =? 2 then text else trans_text (g_utf8 c) text in
  let ta := if r_last st =? a then [] else attr_to_escape c a in
  let switch := negb (g_utf8 c) && (r_first st || negb (r_lcs st =? cs)) in
  let tc := if switch then (if r_lcs st =? 2 then [TIbmOff] else []) ++ [cs_tok cs] else [] in
  (ta ++ tc ++ map ch_tok text', mkRs a false (if switch then cs else r_lcs st)).

Fixpoint emit_runs (c : cfg) (st : rstate) (row : crow) : list tok * rstate :=
  match row with
  | [] => ([], st)
  | r :: rest =>
      let '(t1, st1) := emit_run c st r in
      let '(t2, st2) := emit_runs c st1 rest in
      (t1 ++ t2, st2)
  end.

(* "if ins:" block *)
Definition emit_ins (c : cfg) (st : rstate) (back : Z) (ins : crun) : list tok :=
  let '(ia, ics, itext0) := ins in
  let itext := if ics =? 2 then itext0 else trans_text (g_utf8 c) itext0 in
  repeat TBs (Z.to_nat back) ++ attr_to_escape c ia
  ++ (if negb (g_utf8 c) then (if r_lcs st =? 2 then [TIbmOff] else []) ++ [cs_tok ics] else [])
  ++ [TIrmOn] ++ map ch_tok itext ++ [TIrmOff]
  ++ (if negb (g_utf8 c) && (ics =? 2) then [TIbmOff] else []).

(* accumulator of the row loop *)
Record dacc := mkAcc {
  d_out : list tok;          (* output so far *)
  d_sb : list crow;          (* sb *)
  d_cy : Z;                  (* cy *)
  d_rs : rstate;
  d_ru : option Z }.         (* self._rows_used *)

(* one iteration of "for row in canvas.content()" *)
Definition draw_row (c : cfg) (maxcol maxrow : Z) (osb : list crow) (y : Z) (row : crow) (acc : dacc) : result dacc :=
  let same := match osb with [] => false | _ =>
                match nthz osb y with Some o => row_eqb o row | None => false end end in
  if same then Ok (mkAcc (d_out acc) (d_sb acc ++ [row]) (d_cy acc) (d_rs acc) (d_ru acc))
  else
  let sb := d_sb acc ++ [row] in
  let partial := match d_ru acc with Some _ => true | None => false end in
  (* leave blank lines off display (partial screen) *)
  bind (match d_ru acc with
        | Some ru => if ru <? y then bind (is_blank_row row) (fun b => Ok (if b then None else Some (Some y)))
                     else Ok (Some (Some ru))
        | None => Ok (Some None)
        end) (fun skip =>
  match skip with
  | None => Ok (mkAcc (d_out acc) sb (d_cy acc) (d_rs acc) (d_ru acc))
  | Some ru' =>
      let t_pos := if negb (y =? 0) || partial then set_cursor_position partial (d_cy acc) 0 y else [] in
      let cy := y in
      bind (match last_opt row with
            | None => Ok (false, row, 0, None)
            | Some (a, cs, run) =>
                if (match last_opt run with Some ch => is_space ch | None => false end)
                   && g_bce c && negb (using_sul c a)
                then Ok (true, removelast row ++ [(a, cs, rstrip run)], 0, None)
                else if (y =? maxrow - 1) && (1 <? maxcol)
                then bind (last_row (g_utf8 c) row) (fun '(nr, back, ins) => Ok (false, nr, back, ins))
                else Ok (false, row, 0, None)
            end) (fun '(ws, row', back, ins) =>
      let '(t_runs, rs) := emit_runs c (d_rs acc) row' in
      let t_ins := match ins with Some i => emit_ins c rs back i | None => [] end in
      let t_el := if ws then [TEl] else [] in
      Ok (mkAcc (d_out acc ++ t_pos ++ t_runs ++ t_ins ++ t_el) sb cy rs ru'))
  end).

Fixpoint draw_rows (c : cfg) (maxcol maxrow : Z) (osb : list crow) (y : Z) (rows : list crow) (acc : dacc) : result dacc :=
  match rows with
  | [] => Ok acc
  | r :: rest => bind (draw_row c maxcol maxrow osb y r acc) (fun acc' => draw_rows c maxcol maxrow osb (y + 1) rest acc')
  end.

(* ---------- the screen object ---------- *)
Record scr := mkScr {
  s_buf : list crow;         (* self.screen_buf ([] also stands for None: both are falsy) *)
  s_ru : option Z;           (* self._rows_used (None: full screen) *)
  s_cy : Z;                  (* self._cy *)
  s_resized : bool;          (* self._resized *)
  s_g1 : bool }.             (* self._setup_G1_done *)

Definition init_scr (partial : bool) : scr := mkScr [] (if partial then Some 0 else None) 0 false false.

(* Screen.clear *)
Definition clear (s : scr) : scr := mkScr [] (s_ru s) (s_cy s) (s_resized s) (s_g1 s).
(* Screen._sigwinch_handler *)
Definition winch (s : scr) : scr := mkScr [] (s_ru s) (s_cy s) true (s_g1 s).
(* parse_input: the "window resize" key is delivered *)
Definition ack (s : scr) : scr := mkScr (s_buf s) (s_ru s) (s_cy s) false (s_g1 s).

(* Screen.draw_screen((maxcol, maxrow), canvas); [same] = "canvas is self._screen_buf_canvas";
   [interrupted] = SIGWINCH is delivered while the rows are being produced (the handler sets _resized
   and forgets the screen buffer): the second "if self._resized: return" abandons the frame before
   anything but the G1 designation is written; the screen buffer, _rows_used and _cy are NOT updated *)
Definition draw_screen (c : cfg) (s : scr) (maxcol maxrow : Z) (rows : list crow) (cursor : option (Z * Z)) (same : bool)
                       (interrupted : bool) : result (list tok * scr) :=
  if negb (maxrow =? zlen rows) then Err ValueError else
  if (match s_buf s with [] => false | _ => true end) && same then Ok ([], s) else
  let t_g1 := if s_g1 s then [] else [TG1] in
  let s1 := mkScr (s_buf s) (s_ru s) (s_cy s) (s_resized s) true in
  if s_resized s then Ok (t_g1, s1) else
  let partial := match s_ru s with Some _ => true | None => false end in
  let out0 := [THide] ++ attr_to_escape c 0 ++ (if partial then [] else [THome]) ++ set_cursor_home partial (s_cy s) in
  bind (draw_rows c maxcol maxrow (s_buf s) 0 rows (mkAcc out0 [] 0 (mkRs 0 true 0) (s_ru s))) (fun acc =>
  (* do not leave the IBMPC mapping selected for the next frame *)
  let t_ibm := if negb (g_utf8 c) && (r_lcs (d_rs acc) =? 2) then [TIbmOff] else [] in
  let '(t_cur, cy') := match cursor with
                       | Some (x, y) => (set_cursor_position partial (d_cy acc) x y ++ [TShow], y)
                       | None => ([], d_cy acc)      (* the output cursor stays on the last row drawn *)
                       end in
  if interrupted then Ok (t_g1, mkScr [] (s_ru s) (s_cy s) true true)     (* _rows_used restored, _cy not assigned *)
  else Ok (t_g1 ++ d_out acc ++ t_ibm ++ t_cur, mkScr (d_sb acc) (d_ru acc) cy' false true)).

(* ---------- wire format ---------- *)
Definition dec_bool (z : Z) : bool := negb (z =? 0).

Definition dec_spec (l : list Z) : option (aentry * list Z) :=
  match l with
  | k :: fk :: fn :: fr :: fg :: fb :: bk :: bn :: br :: bg :: bb :: fl :: r =>
      Some ((k, mkSpec fk fn fr fg fb bk bn br bg bb
                       (Z.odd fl) (Z.odd (fl / 2)) (Z.odd (fl / 4)) (Z.odd (fl / 8)) (Z.odd (fl / 16)) (Z.odd (fl / 32))), r)
  | _ => None
  end.

Fixpoint dec_n {A} (f : list Z -> option (A * list Z)) (n : nat) (l : list Z) : option (list A * list Z) :=
  match n with
  | O => Some ([], l)
  | S k => match f l with
           | Some (a, r) => match dec_n f k r with Some (as_, r') => Some (a :: as_, r') | None => None end
           | None => None
           end
  end.

Definition dec_counted {A} (f : list Z -> option (A * list Z)) (l : list Z) : option (list A * list Z) :=
  match l with
  | n :: r => if n <? 0 then None else dec_n f (Z.to_nat n) r
  | [] => None
  end.

Definition dec_chr (l : list Z) : option (chr * list Z) :=
  match l with cp :: w :: r => Some ((cp, w), r) | _ => None end.
Definition dec_run (l : list Z) : option (crun * list Z) :=
  match l with
  | a :: cs :: r => match dec_counted dec_chr r with Some (t, r') => Some ((a, cs, t), r') | None => None end
  | _ => None
  end.
Definition dec_row (l : list Z) : option (crow * list Z) := dec_counted dec_run l.

Inductive frame :=
  | FDraw (cols rows size_rows scramble : Z) (same : bool) (intr : bool) (cursor : option (Z * Z)) (content : list crow)
  | FClear (scramble : Z)
  | FWinch
  | FAck.

Definition dec_frame (l : list Z) : option (frame * list Z) :=
  match l with
  | 1 :: cols :: rows :: srows :: scr_ :: same :: intr :: r =>
      match (match r with
             | 0 :: r' => Some (None, r')
             | 1 :: x :: y :: r' => Some (Some (x, y), r')
             | _ => None end) with
      | Some (cur, r1) =>
          match dec_counted dec_row r1 with
          | Some (content, r2) => Some (FDraw cols rows srows scr_ (dec_bool same) (dec_bool intr) cur content, r2)
          | None => None
          end
      | None => None
      end
  | 2 :: k :: r => Some (FClear k, r)
  | 3 :: r => Some (FWinch, r)
  | 4 :: r => Some (FAck, r)
  | _ => None
  end.

(* the harness' history loop (run_history): the screen object and the reference terminal side by side *)
Definition enc_frame_out (err : Z) (toks : list tok) (t : option term) : list Z :=
  let ti := flat_map enc_tok toks in
  let si := match t with Some t => snapshot t | None => [] end in
  err :: zlen ti :: ti ++ zlen si :: si.

Definition run_frame (c : cfg) (partial : bool) (origin : Z) (st : scr * option term) (f : frame)
  : (scr * option term) * list Z :=
  let '(s, t) := st in
  match f with
  | FClear k =>
      let t' := match t with Some t0 => Some (if (0 <=? k) && negb partial then scramble t0 k else t0) | None => None end in
      ((clear s, t'), enc_frame_out 0 [] t')
  | FWinch => ((winch s, t), enc_frame_out 0 [] t)
  | FAck => ((ack s, t), enc_frame_out 0 [] t)
  | FDraw cols rows srows k same intr cur content =>
      let t1 := match t with
                | None =>
                    let t0 := new_term cols rows in
                    if partial then set_pos t0 0 origin false
                    else if 0 <=? k then scramble t0 k else t0
                | Some t0 =>
                    if (t_cols t0 =? cols) && (t_rows t0 =? rows) then t0
                    else resize t0 cols rows (if 0 <=? k then k else 0)
                end in
      match draw_screen c s cols srows content cur same intr with
      | Ok (toks, s') =>
          let t2 := run t1 toks in
          ((s', Some t2), enc_frame_out 0 toks (Some t2))
      | Err e => ((s, Some t1), enc_frame_out (errcode e) [] (Some t1))
      end
  end.

Fixpoint run_frames (c : cfg) (partial : bool) (origin : Z) (st : scr * option term) (fs : list frame) : list Z :=
  match fs with
  | [] => []
  | f :: r => let '(st', out) := run_frame c partial origin st f in out ++ run_frames c partial origin st' r
  end.

(* sub-model 1: a whole history.  sub-model 2: the reference terminal alone on a token stream. *)
Definition run_case_draw (l : list Z) : list Z :=
  match l with
  | 1 :: utf8 :: bce :: bib :: bbb :: partial :: origin :: r =>
      match dec_counted dec_spec r with
      | Some (atab, r1) =>
          match dec_counted dec_frame r1 with
          | Some (frames, _) =>
              let c := mkCfg (dec_bool utf8) (dec_bool bce) (dec_bool bib) (dec_bool bbb) atab in
              run_frames c (dec_bool partial) origin (init_scr (dec_bool partial), None) frames
          | None => [-2]
          end
      | None => [-3]
      end
  | 2 :: cols :: rows :: r =>
      snapshot (run (new_term cols rows) (dec_toks (length r) r))
  | _ => [-1]
  end.
