(* Executable model of urwid.event_loop.zmq_loop.ZMQEventLoop: the same machine as
   SelectEventLoop (Model/SelectLoop.v: alarms heap, idle callbacks, callback scripts,
   environment, events) with its differences, written line for line from zmq_loop.py:
   - descriptors are registered with a zmq.Poller (self._poller) as file OBJECTS, one new object per
     watch_file() call, while the callbacks live in self._queue_callbacks keyed by fileno();
   - remove_watch_file(handle) unregisters the object (False when it is not registered) and pops the
     callback of its fileno in any case;
   - _loop looks the callback up when it calls it (self._queue_callbacks.get(queue)) and skips a
     descriptor whose callback was removed by a callback of the same ready batch;
   - an alarm is popped only when its due time has been reached on the clock;
   - poll() is also called when nothing is registered (time.sleep(timeout) when timeout > 0);
   - _did_something starts True.
   No proofs in this file. *)
From Coq Require Import ZArith List Bool.
Import ListNotations.
From Urwid Require Import PyBase SelectLoop.
Open Scope Z_scope.

Record zstate := mkZ {
  zs : state;                 (* _alarms, _queue_callbacks (field watch), _idle_callbacks, _did_something, clock, history *)
  psock : list (Z * Z);       (* self._poller.sockets : (file object identity, its fileno), registration order *)
  nobj : Z;                   (* identity of the next file object *)
  latest : list (Z * Z)       (* harness bookkeeping: fd -> the object most recently returned by watch_file(fd) *)
}.

Definition zinit : zstate := mkZ (set_did true init) [] 0 [].
Definition with_zs (s : state) (z : zstate) : zstate := mkZ s (psock z) (nobj z) (latest z).

(* ZMQEventLoop.watch_file(fileobj, callback) *)
Definition zop_watch (fd id : Z) (z : zstate) : zstate :=
  let s := zs z in
  mkZ (log (EWatchSet fd id) (set_watch (dict_set fd id (watch s)) s))
      (psock z ++ [(nobj z, fd)]) (nobj z + 1) (dict_set fd (nobj z) (latest z)).

(* ZMQEventLoop.remove_watch_file(handle) with handle = the object last returned for fd (a fresh,
   never registered object when there is none):
     try: try: self._poller.unregister(handle)  finally: self._queue_callbacks.pop(handle.fileno(), None)
     except KeyError: return False
     return True *)
Definition zop_remove_watch (fd : Z) (z : zstate) : zstate :=
  let s := zs z in
  let obj := match lookup fd (latest z) with Some o => o | None => -1 end in
  let registered := mem obj (psock z) in
  mkZ (log (ERmWatch fd registered) (set_watch (dict_del fd (watch s)) s))
      (if registered then dict_del obj (psock z) else psock z) (nobj z) (latest z).

Definition zexec_action (a : action) (z : zstate) : zstate * signal :=
  match a with
  | AddWatch fd id => (zop_watch fd id z, SCont)
  | RemoveWatch fd => (zop_remove_watch fd z, SCont)
  | _ => let '(s', sig) := exec_action a (zs z) in (with_zs s' z, sig)
  end.

Fixpoint zrun_actions (acts : list action) (z : zstate) : zstate * signal :=
  match acts with
  | [] => (z, SCont)
  | a :: r =>
    match zexec_action a z with
    | (z', SCont) => zrun_actions r z'
    | x => x
    end
  end.

Definition zrun_cb (beh : behaviour) (e : event) (id : Z) (z : zstate) : zstate * signal :=
  let n := ncalls id (rtrace (zs z)) in
  zrun_actions (beh id n) (with_zs (log e (zs z)) z).

(* ZMQEventLoop._entering_idle *)
Fixpoint zidle_round (beh : behaviour) (snap : list (Z * Z)) (z : zstate) : zstate * signal :=
  match snap with
  | [] => (z, SCont)
  | (h, id) :: r =>
    if mem h (idles (zs z)) then
      match zrun_cb beh (EIdleCall h id (now (zs z))) id z with
      | (z', SCont) => zidle_round beh r z'
      | x => x
      end
    else zidle_round beh r z
  end.

(* for queue in ready:
       callback = self._queue_callbacks.get(queue)
       if callback is None: continue      # removed by a callback called earlier in this batch
       callback(); self._did_something = True *)
Fixpoint zprocess_ready (beh : behaviour) (ready : list Z) (z : zstate) : zstate * signal :=
  match ready with
  | [] => (z, SCont)
  | fd :: r =>
    match lookup fd (watch (zs z)) with
    | None => zprocess_ready beh r z
    | Some id =>
      match zrun_cb beh (EWatchCall fd id (now (zs z))) id z with
      | (z', SCont) => zprocess_ready beh r (with_zs (set_did true (zs z')) z')
      | x => x
      end
    end
  end.

(* dict(self._poller.poll(...)) : first occurrence of each descriptor, in order *)
Fixpoint dedupe (l : list Z) : list Z :=
  match l with
  | [] => []
  | x :: r => x :: filter (fun y => negb (y =? x)) (dedupe r)
  end.

(* self._poller.poll(timeout * 1000) / time.sleep(timeout) under the environment of SelectLoop.v:
   the registered descriptors are those of the poller objects *)
Definition zdo_select (timeout : option Z) (st : step) (z : zstate) : zstate * option (list Z) :=
  let s := zs z in
  let regs := map snd (psock z) in
  let d := Z.max 0 (s_dt st) in
  let ready := filter (fun fd => existsb (fun r => r =? fd) regs) (s_fds st) in
  let ev := ESelect timeout regs (now s) ready in
  match ready, timeout with
  | [], None => (with_zs (log ev s) z, None)
  | [], Some t => (with_zs (set_now (now s + t + d) (log ev s)) z, Some [])
  | _, None => (with_zs (set_now (now s + d) (log ev s)) z, Some (dedupe ready))
  | _, Some t => (with_zs (set_now (now s + Z.min d t) (log ev s)) z, Some (dedupe ready))
  end.

(* the part of ZMQEventLoop._loop before the poll: Some (timeout, state) ; None = poll() without
   timeout on an empty poller, which returns at once: run() spins *)
Definition zplan (z : zstate) : option (option Z * tm_t) :=
  let s := zs z in
  match alarms s, did s with
  | [], false =>
      match psock z with
      | [] => None
      | _ => Some (None, TmNone)                (* ready = dict(self._poller.poll()) *)
      end
  | al, d =>
      let '(timeout, tm) :=
        match al with
        | [] => (0, TmNone)
        | a :: _ => (Z.max 0 (a_due a - now s), TmAlarm)
        end in
      if d && (match al with [] => true | _ => 0 <? timeout end)
      then Some (Some 0, TmIdle)
      else Some (Some timeout, tm)
  end.

(* the part of _loop after the poll *)
Definition zafter_select (beh : behaviour) (tm : tm_t) (ready : list Z) (z : zstate) : zstate * signal :=
  let '(z1, sig) :=
    match ready with
    | [] =>
      match tm with
      | TmIdle =>
          match zidle_round beh (idles (zs z)) z with
          | (z', SCont) => (with_zs (set_did false (zs z')) z', SCont)
          | x => x
          end
      | TmAlarm =>
          match alarms (zs z) with
          | a :: rest =>
              if a_due a <=? now (zs z) then      (* elif state == "alarm" and self._alarms[0][0] <= time.time() *)
                match zrun_cb beh (EAlarmCall (a_tie a) (a_cb a) (now (zs z))) (a_cb a) (with_zs (set_alarms rest (zs z)) z) with
                | (z', SCont) => (with_zs (set_did true (zs z')) z', SCont)
                | x => x
                end
              else (z, SCont)
          | [] => (z, SCont)
          end
      | TmNone => (z, SCont)
      end
    | _ => (z, SCont)
    end in
  match sig with
  | SCont => zprocess_ready beh ready z1
  | _ => (z1, sig)
  end.

Fixpoint zrun_loop (beh : behaviour) (env : list step) (z : zstate) : zstate * outcome :=
  match zplan z with
  | None => (z, OSpin)
  | Some (timeout, tm) =>
    match env with
    | [] => (with_zs (log (ESelect timeout (map snd (psock z)) (now (zs z)) []) (zs z)) z, OEnvEnd)
    | st :: env' =>
      match zdo_select timeout st z with
      | (z1, None) => (z1, OBlocked)
      | (z1, Some ready) =>
        match zafter_select beh tm ready z1 with
        | (z2, SCont) => zrun_loop beh env' z2
        | (z2, SExit) => (z2, OReturned)
        | (z2, SOther) => (z2, ORaised)
        end
      end
    end
  end.

Definition zscenario (setup : list action) (beh : behaviour) (env : list step) : zstate * outcome :=
  zrun_loop beh env (fst (zrun_actions setup zinit)).

Definition run_zmq_case (l : list Z) : list Z :=
  match l with
  | ns :: r0 =>
    let '(setup, r1) := dec_actions (Z.to_nat ns) r0 in
    match r1 with
    | nb :: r2 =>
      let '(tbl, r3) := dec_beh (Z.to_nat nb) r2 in
      match r3 with
      | ne :: r4 =>
          let '(z, o) := zscenario setup (beh_of tbl) (dec_env (Z.to_nat ne) r4) in
          enc_result (zs z, o) ++ enc_list (map snd (psock z))
      | _ => [-1]
      end
    | _ => [-1]
    end
  | _ => [-1]
  end.

(* first integer selects the sub-model: 0 = SelectEventLoop, 1 = ZMQEventLoop *)
Definition run_case01 (l : list Z) : list Z :=
  match l with
  | 0 :: r => run_select_case r
  | 1 :: r => run_zmq_case r
  | _ => [-2]
  end.
