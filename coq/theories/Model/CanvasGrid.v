(* C02: the reference semantics - the same operation language as Model/Canvas.v, interpreted
   over a plain two-dimensional array of cells (a list of rows of cells).  No shards, no
   cviews, no iterators: every operation is the obvious list manipulation.  [gstep] is
   defined (Some) exactly where the property defines the operation: positive sizes, equal
   widths when stacking, join widths not smaller than the canvases, an overlay that lies
   inside the bottom canvas, trims that leave something, a canvas that is not finalized.
   Executable definitions only. *)
From Coq Require Import ZArith List Bool Lia.
From Urwid Require Import PyBase Canvas.
Import ListNotations.
Open Scope Z_scope.

Definition grid := list row.
Definition gwidth (g : grid) : Z := match g with [] => 0 | r :: _ => zlen r end.
Definition gheight (g : grid) : Z := zlen g.
Definition blank_row (w : Z) : row := repeatz (space 0) w.
Definition blank_grid (w h : Z) : grid := repeatz (blank_row w) h.

(* a grid value: the cells, the coordinates carried along, finalized?, is it a leaf canvas object? *)
Record gval := GV { gg : grid; gco : coords; gfin : bool; gleaf : bool }.

(* ---- leaves ---- *)
Definition leaf_okb (c : canvas) : bool :=
  match cknd c with
  | LText rws mc => (0 <? mc) && (0 <? zlen rws) && forallb (fun r : row => (zlen r =? mc) && row_cleanb r) rws
  | LSolid _ _ cols rows => (0 <? cols) && (0 <? rows)
  | LBlank => false
  end.
Definition leaf_grid (c : canvas) : grid :=
  match cknd c with
  | LText rws _ => rws
  | LSolid cs ch cols rows => repeatz (repeatz (Cell KN 0 cs ch) cols) rows
  | LBlank => []
  end.

(* ---- the operations on grids ---- *)
(* columns [s, e) of a row; a double-width character cut at an end becomes a space *)
Definition g_window (r : row) (s e : Z) : row := trim_cells r s e.

Definition g_vstack (gs : list grid) : grid := concat gs.

Definition g_pad_trim_lr (g : grid) (l r : Z) : grid :=
  let w := gwidth g in
  map (fun R : row => blank_row (Z.max 0 l) ++ g_window R (Z.max 0 (- l)) (w - Z.max 0 (- r)) ++ blank_row (Z.max 0 r)) g.

Definition g_pad_trim_tb (g : grid) (t b : Z) : grid :=
  let w := gwidth g in
  let h := gheight g in
  blank_grid w (Z.max 0 t) ++ takez (h - Z.max 0 (- t) - Z.max 0 (- b)) (dropz (Z.max 0 (- t)) g) ++ blank_grid w (Z.max 0 b).

Definition g_trim (g : grid) (top : Z) (count : option Z) : grid :=
  match count with None => dropz top g | Some n => takez n (dropz top g) end.

Definition g_fill (m : dict) (g : grid) : grid := map (map (cell_map_attr (Some m))) g.

Definition hcat2 (a b : grid) : grid := map (fun p : row * row => fst p ++ snd p) (combine a b).
(* pad a grid on the right to [cols] columns and at the bottom to [maxrow] rows *)
Definition g_pad_to (g : grid) (cols maxrow : Z) : grid :=
  map (fun R : row => R ++ blank_row (cols - gwidth g)) g ++ blank_grid cols (maxrow - gheight g).
Fixpoint g_hcat (gs : list grid) : grid :=
  match gs with
  | [] => []
  | g :: gs' => match gs' with [] => g | _ :: _ => hcat2 g (g_hcat gs') end
  end.
Definition g_join (l : list (grid * Z)) : grid :=
  let maxrow := fold_right (fun gc acc => Z.max (gheight (fst gc)) acc) 0 l in
  g_hcat (map (fun gc : grid * Z => g_pad_to (fst gc) (snd gc) maxrow) l).

Definition g_overlay (bottom top_g : grid) (left top : Z) : grid :=
  let W := gwidth bottom in
  let w := gwidth top_g in
  let h := gheight top_g in
  takez top bottom
  ++ map (fun p : row * row => g_window (fst p) 0 left ++ snd p ++ g_window (fst p) (left + w) W)
         (combine (takez h (dropz top bottom)) top_g)
  ++ dropz (top + h) bottom.

(* a cursor moves with the content it belongs to: when a trim removes that content the cursor
   is gone (pop-up coordinates are kept) *)
Definition g_drop_cursor (g : grid) (c : coords) : coords :=
  match cur c with
  | Some (x, y) =>
      if (0 <=? x) && (x <? gwidth g) && (0 <=? y) && (y <? gheight g) then c else Coords None (pop c)
  | None => c
  end.
(* coordinates after pad_trim_top_bottom: the trimming part drops a cursor that left the
   trimmed canvas, then the top padding shifts what is left *)
Definition g_padtb_coords (g : grid) (t b : Z) (c : coords) : coords :=
  let trimmed := takez (gheight g - Z.max 0 (- t) - Z.max 0 (- b)) (dropz (Z.max 0 (- t)) g) in
  let c1 := if (t <? 0) || (b <? 0) then g_drop_cursor trimmed (translate_coords c 0 (- Z.max 0 (- t))) else c in
  if 0 <? t then translate_coords c1 0 t else c1.

(* ---- coordinates: they move with the content; where several operands carry one, the
   later operand's wins (dict.update order) ---- *)
Fixpoint g_combine_coords (vs : list gval) (row : Z) (co : coords) : coords :=
  match vs with
  | [] => co
  | v :: vs' => g_combine_coords vs' (row + gheight (gg v)) (coords_update co (translate_coords (gco v) 0 row))
  end.
Fixpoint g_join_coords (l : list (gval * Z)) (col : Z) (co : coords) : coords :=
  match l with
  | [] => co
  | (v, c) :: l' => g_join_coords l' (col + c) (coords_update co (translate_coords (gco v) col 0))
  end.

(* ---- the machine ---- *)
Record gstate := GS { gstack : list gval; genv : list gval }.

Definition on_gcomp (st : gstate) (f : gval -> option gval) : option gstate :=
  match gstack st with
  | v :: rest =>
      if gleaf v || gfin v then None
      else match f v with Some v' => Some (GS (v' :: rest) (genv st)) | None => None end
  | [] => None
  end.

Definition same_width (vs : list gval) : bool :=
  match vs with
  | [] => false
  | v :: _ => forallb (fun u : gval => gwidth (gg u) =? gwidth (gg v)) vs
  end.

Definition gstep (leaves : list (canvas * option (Z * Z))) (st : gstate) (i : instr) : option gstate :=
  match i with
  | ILeaf k =>
      match nthz leaves (k - 1) with
      | Some (c, cu) =>
          if leaf_okb c then Some (GS (GV (leaf_grid c) (Coords cu None) false true :: gstack st) (genv st)) else None
      | None => None
      end
  | IRef k =>
      match nthz (genv st) k with
      | Some v => Some (GS (v :: gstack st) (genv st))
      | None => None
      end
  | IWrap =>
      match gstack st with
      | v :: rest => Some (GS (GV (gg v) (gco v) false false :: rest) (genv st))
      | [] => None
      end
  | ICombine n =>
      match pop_n n (gstack st) with
      | Ok (vs, rest) =>
          if same_width vs
          then Some (GS (GV (g_vstack (map gg vs)) (g_combine_coords vs 0 no_coords) false false :: rest) (genv st))
          else None
      | Err _ => None
      end
  | IJoin cols =>
      match pop_n (zlen cols) (gstack st) with
      | Ok (vs, rest) =>
          if (0 <? zlen cols) && forallb (fun vc : gval * Z => gwidth (gg (fst vc)) <=? snd vc) (combine vs cols)
          then Some (GS (GV (g_join (combine (map gg vs) cols)) (g_join_coords (combine vs cols) 0 no_coords) false false :: rest)
                        (genv st))
          else None
      | Err _ => None
      end
  | IOverlay lft tp =>
      match gstack st with
      | top_v :: bottom_v :: rest =>
          if negb (gleaf top_v) && (0 <=? lft) && (0 <=? tp)
             && (lft + gwidth (gg top_v) <=? gwidth (gg bottom_v))
             && (tp + gheight (gg top_v) <=? gheight (gg bottom_v))
          then Some (GS (GV (g_overlay (gg bottom_v) (gg top_v) lft tp)
                            (coords_update (gco bottom_v) (translate_coords (gco top_v) lft tp)) false false :: rest)
                        (genv st))
          else None
      | _ => None
      end
  | IPadLR l r =>
      on_gcomp st (fun v =>
        if 0 <? gwidth (gg v) + Z.min l 0 + Z.min r 0
        then let g' := g_pad_trim_lr (gg v) l r in
             let co := translate_coords (gco v) l 0 in
             Some (GV g' (if (l <? 0) || (r <? 0) then g_drop_cursor g' co else co) false false)
        else None)
  | IPadTB t b =>
      on_gcomp st (fun v =>
        if 0 <? gheight (gg v) + Z.min t 0 + Z.min b 0
        then Some (GV (g_pad_trim_tb (gg v) t b) (g_padtb_coords (gg v) t b (gco v)) false false) else None)
  | ITrim top count =>
      on_gcomp st (fun v =>
        if (0 <=? top) && (top <? gheight (gg v)) && (match count with None => true | Some n => 0 <? n end)
        then let g' := g_trim (gg v) top count in
             Some (GV g' (g_drop_cursor g' (translate_coords (gco v) 0 (- top))) false false)
        else None)
  | ITrimEnd e =>
      on_gcomp st (fun v =>
        if (0 <? e) && (e <? gheight (gg v))
        then let g' := takez (gheight (gg v) - e) (gg v) in Some (GV g' (g_drop_cursor g' (gco v)) false false)
        else None)
  | IFillAttr m =>
      on_gcomp st (fun v => Some (GV (g_fill (dict_of_list m) (gg v)) (gco v) false false))
  | ISetCursor cu =>
      on_gcomp st (fun v => Some (GV (gg v) (Coords cu (pop (gco v))) false false))
  | ISetPopUp w x y =>
      on_gcomp st (fun v => Some (GV (gg v) (Coords (cur (gco v)) (Some (x, y, w))) false false))
  | IFinalize =>
      on_gcomp st (fun v => Some (GV (gg v) (gco v) true false))
  | IBind =>
      match gstack st with
      | v :: rest => Some (GS rest (genv st ++ [v]))
      | [] => None
      end
  | IDelta a b =>
      match nthz (genv st) a, nthz (genv st) b with
      | Some _, Some _ => Some st
      | _, _ => None
      end
  end.

Fixpoint grun (leaves : list (canvas * option (Z * Z))) (st : gstate) (prog : list instr) : option gstate :=
  match prog with
  | [] => Some st
  | i :: prog' => match gstep leaves st i with Some st' => grun leaves st' prog' | None => None end
  end.

(* ---- content_delta: applying a delta to the old rows ---- *)
Fixpoint apply_delta_row (old : row) (items : list ditem) : row :=
  match items with
  | [] => []
  | DSkip n :: items' => takez n old ++ apply_delta_row (dropz n old) items'
  | DCell c :: items' => c :: apply_delta_row (dropz 1 old) items'
  end.
Definition apply_delta (old : grid) (delta : list (list ditem)) : grid :=
  map (fun p : row * list ditem => apply_delta_row (fst p) (snd p)) (combine old delta).
