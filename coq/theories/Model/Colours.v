(* C18 - executable model of urwid.display.common.AttrSpec (definitions only, no proofs).

   Translated from the source on every run (Gen/colours_gen.v): the constant tables, the bit masks,
   int_scale, _value_lookup_table, _gray_num_*, the numeric cores of _parse_color_* / _color_desc_* /
   _true_to_256 (string lexing abstracted, see Base/ColourBase.v), AttrSpec.colors and the one-line
   flag / number properties.
   Hand-written here, mirroring the code line by line: AttrSpec.__init__ (including the removal of
   the _HIGH_TRUE_COLOR marker when no true colour is used), __set_foreground, __set_background,
   _foreground_color, foreground, background, get_rgb_values (basic colours are looked up in
   _BASIC_COLOR_VALUES at every depth), __eq__, __hash__.
   The packed integer AttrSpec.__value is a Z; Python's unbounded-precision &, |, ~, <<, >> are
   Z.land, Z.lor, Z.lnot, Z.shiftl, Z.shiftr. *)
From Coq Require Import ZArith List Bool.
Import ListNotations.
From Urwid Require Import PyBase PyList ColourBase ColourStr colours_gen.
Open Scope Z_scope.

(* one comma-separated, stripped part of a foreground string *)
Inductive part := PSet (s : setting) | PCol (d : desc).

Definition TRUE_DEPTH : Z := 16777216.     (* 2**24 *)

(* colors not in {1, 16, 88, 256, 2**24} *)
Definition valid_depth (c : Z) : bool :=
  (c =? 1) || (c =? 16) || (c =? 88) || (c =? 256) || (c =? TRUE_DEPTH).

(* self.__value = 0 | _HIGH_88_COLOR * (colors == 88) | _HIGH_TRUE_COLOR * (colors == 2**24) *)
Definition init_value (colors : Z) : Z :=
  Z.lor (Z.lor 0 (HIGH_88_COLOR * b2z (colors =? 88))) (HIGH_TRUE_COLOR * b2z (colors =? TRUE_DEPTH)).

(* the if/elif chain shared by __set_foreground and __set_background:
     part in {"", "default"} / part in _BASIC_COLORS / self.__value & _HIGH_88_COLOR /
     self.__value & _HIGH_TRUE_COLOR / else _parse_color_256(_true_to_256(part) or part)
   returns (scolor, the kind flag that is or-ed into flags) *)
Definition parse_part (v : Z) (d : desc) (f_basic f_high f_true : Z) : result (option Z * Z) :=
  match d with
  | DDefault => Ok (Some 0, 0)
  | DBasic n => Ok (Some n, f_basic)
  | _ =>
      if negb (Z.land v HIGH_88_COLOR =? 0) then
        bind (parse_color_88 d) (fun c => Ok (c, f_high))
      else if negb (Z.land v HIGH_TRUE_COLOR =? 0) then
        bind (parse_color_true d) (fun c => Ok (c, f_true))
      else
        bind (true_to_256 d) (fun t =>
        bind (parse_color_256 (match t with Some d' => d' | None => d end)) (fun c => Ok (c, f_high)))
  end.

(* AttrSpec.__set_foreground: the loop over foreground.split(",") *)
Fixpoint fg_loop (v : Z) (parts : list part) (color : option Z) (flags : Z) : res (option Z * Z) :=
  match parts with
  | [] => ROk (color, flags)
  | PSet s :: rest =>
      if negb (Z.land flags (ATTRIBUTES s) =? 0) then RErr AttrSpecError 1
      else fg_loop v rest color (Z.lor flags (ATTRIBUTES s))
  | PCol d :: rest =>
      match parse_part v d FG_BASIC_COLOR FG_HIGH_COLOR FG_TRUE_COLOR with
      | Err e => RErr e 0
      | Ok (scolor, kf) =>
          let flags' := Z.lor flags kf in
          match scolor with
          | None => RErr AttrSpecError 2
          | Some sc =>
              match color with
              | Some _ => RErr AttrSpecError 3
              | None => fg_loop v rest (Some sc) flags'
              end
          end
      end
  end.

(* self.__value = (self.__value & ~_FG_MASK) | color | flags *)
Definition set_foreground (v : Z) (parts : list part) : res Z :=
  rbind (fg_loop v parts None 0) (fun cf =>
  let color := match fst cf with Some c => c | None => 0 end in
  ROk (Z.lor (Z.lor (Z.land v (Z.lnot FG_MASK)) color) (snd cf))).

(* AttrSpec.__set_background;  self.__value = (self.__value & ~_BG_MASK) | (color << _BG_SHIFT) | flags *)
Definition set_background (v : Z) (d : desc) : res Z :=
  rbind (lift (parse_part v d BG_BASIC_COLOR BG_HIGH_COLOR BG_TRUE_COLOR)) (fun cf =>
  match fst cf with
  | None => RErr AttrSpecError 4
  | Some color => ROk (Z.lor (Z.lor (Z.land v (Z.lnot BG_MASK)) (Z.shiftl color BG_SHIFT)) (snd cf))
  end).

(* if not self.__value & (_FG_TRUE_COLOR | _BG_TRUE_COLOR): self.__value &= ~_HIGH_TRUE_COLOR *)
Definition drop_marker (v : Z) : Z :=
  if Z.land v (Z.lor FG_TRUE_COLOR BG_TRUE_COLOR) =? 0 then Z.land v (Z.lnot HIGH_TRUE_COLOR) else v.

(* AttrSpec.__init__ *)
Definition attrspec_new (fg : list part) (bg : desc) (colors : Z) : res Z :=
  if negb (valid_depth colors) then RErr AttrSpecError 6
  else
    rbind (set_foreground (init_value colors) fg) (fun v1 =>
    rbind (set_background v1 bg) (fun v2 =>
    let v3 := drop_marker v2 in
    if colors <? attr_colors v3 then RErr AttrSpecError 5 else ROk v3)).

(* _BASIC_COLORS[n] for n >= 0 *)
Definition basic_name (n : Z) : result desc :=
  if (0 <=? n) && (n <? 16) then Ok (DBasic n) else Err IndexError.

(* AttrSpec._foreground_color *)
Definition foreground_color (v : Z) : result desc :=
  if negb (attr_foreground_basic v || attr_foreground_high v || attr_foreground_true v) then Ok DDefault
  else if attr_foreground_basic v then basic_name (attr_foreground_number v)
  else if attr_colors v =? 88 then color_desc_88 (attr_foreground_number v)
  else if attr_colors v =? TRUE_DEPTH then color_desc_true (attr_foreground_number v)
  else color_desc_256 (attr_foreground_number v).

(* AttrSpec.foreground: the colour and the settings in the order
   bold, italics, standout, blink, underline, strikethrough *)
Definition settings_of (v : Z) : list bool :=
  [attr_bold v; attr_italics v; attr_standout v; attr_blink v; attr_underline v; attr_strikethrough v].
Definition foreground (v : Z) : result (desc * list bool) :=
  bind (foreground_color v) (fun d => Ok (d, settings_of v)).

(* AttrSpec.background *)
Definition background (v : Z) : result desc :=
  if negb (attr_background_basic v || attr_background_high v || attr_background_true v) then Ok DDefault
  else if attr_background_basic v then basic_name (attr_background_number v)
  else if negb (Z.land v HIGH_88_COLOR =? 0) then color_desc_88 (attr_background_number v)
  else if attr_colors v =? TRUE_DEPTH then color_desc_true (attr_background_number v)
  else color_desc_256 (attr_background_number v).

(* h = f"{n:06x}"; tuple(int(x, 16) for x in (h[0:2], h[2:4], h[4:6]))   for 0 <= n < 2**24 *)
Definition hex_rgb (n : Z) : Z * Z * Z := (n / 65536, (n / 256) mod 256, n mod 256).

(* AttrSpec.get_rgb_values, foreground half and background half *)
Definition rgb_fg (v : Z) : result (option (Z * Z * Z)) :=
  if negb (attr_foreground_basic v || attr_foreground_high v || attr_foreground_true v) then Ok None
  else if attr_foreground_basic v then
    bind (get_index BASIC_COLOR_VALUES (attr_foreground_number v)) (fun t => Ok (Some t))
  else if attr_colors v =? 88 then
    if 88 <=? attr_foreground_number v then Err ValueError
    else bind (get_index COLOR_VALUES_88 (attr_foreground_number v)) (fun t => Ok (Some t))
  else if attr_colors v =? TRUE_DEPTH then Ok (Some (hex_rgb (attr_foreground_number v)))
  else bind (get_index COLOR_VALUES_256 (attr_foreground_number v)) (fun t => Ok (Some t)).

Definition rgb_bg (v : Z) : result (option (Z * Z * Z)) :=
  if negb (attr_background_basic v || attr_background_high v || attr_background_true v) then Ok None
  else if attr_background_basic v then
    bind (get_index BASIC_COLOR_VALUES (attr_background_number v)) (fun t => Ok (Some t))
  else if attr_colors v =? 88 then
    if 88 <=? attr_background_number v then Err ValueError
    else bind (get_index COLOR_VALUES_88 (attr_background_number v)) (fun t => Ok (Some t))
  else if attr_colors v =? TRUE_DEPTH then Ok (Some (hex_rgb (attr_background_number v)))
  else bind (get_index COLOR_VALUES_256 (attr_background_number v)) (fun t => Ok (Some t)).

Definition get_rgb_values (v : Z) : result (option (Z * Z * Z) * option (Z * Z * Z)) :=
  bind (rgb_fg v) (fun f => bind (rgb_bg v) (fun b => Ok (f, b))).

(* __eq__ compares the packed values; __hash__ is hash((class, value)), a function of the value *)
Definition spec_eq (a b : Z) : bool := a =? b.
Definition spec_hash (a : Z) : Z := a.

(* the parts that AttrSpec.foreground denotes again after split(",") *)
Definition setting_order : list setting := [SBold; SItalics; SStandout; SBlink; SUnderline; SStrike].
Fixpoint parts_of_settings (ss : list setting) (bs : list bool) : list part :=
  match ss, bs with
  | s :: ss', b :: bs' => (if b then [PSet s] else []) ++ parts_of_settings ss' bs'
  | _, _ => []
  end.
Definition parts_of_foreground (f : desc * list bool) : list part :=
  PCol (fst f) :: parts_of_settings setting_order (snd f).

(* ================= string level =================
   The same constructor and describers on raw strings (lists of code points): foreground.split(","),
   part.strip(), `part in _ATTRIBUTES`, `part in {"", "default"}`, `part in _BASIC_COLORS`,
   _BASIC_COLORS.index(part) and the string-level parsers / describers of Gen/colours_gen.v
   (translated from the source without any lexical abstraction). *)
Definition S_default : str := [100; 101; 102; 97; 117; 108; 116].                       (* "default" *)
(* the colour branch of __set_foreground / __set_background on a string *)
Definition parse_part_s (v : Z) (p : str) (f_basic f_high f_true : Z) : result (option Z * Z) :=
  if str_eqb p [] || str_eqb p S_default then Ok (Some 0, 0)
  else match str_index BASIC_COLORS p with
  | Some i => Ok (Some i, f_basic)
  | None =>
      if negb (Z.land v HIGH_88_COLOR =? 0) then
        bind (parse_color_88_s p) (fun c => Ok (c, f_high))
      else if negb (Z.land v HIGH_TRUE_COLOR =? 0) then
        bind (parse_color_true_s p) (fun c => Ok (c, f_true))
      else
        (* _parse_color_256(_true_to_256(part) or part): an empty string is falsy too *)
        bind (true_to_256_s p) (fun t =>
        bind (parse_color_256_s (match t with Some (c :: r) => c :: r | _ => p end)) (fun c => Ok (c, f_high)))
  end.

(* the loop of __set_foreground over the stripped parts *)
Fixpoint fg_loop_s (v : Z) (parts : list str) (color : option Z) (flags : Z) : res (option Z * Z) :=
  match parts with
  | [] => ROk (color, flags)
  | p :: rest =>
      match find_setting ATTRIBUTE_NAMES p with
      | Some s =>
          if negb (Z.land flags (ATTRIBUTES s) =? 0) then RErr AttrSpecError 1
          else fg_loop_s v rest color (Z.lor flags (ATTRIBUTES s))
      | None =>
          match parse_part_s v p FG_BASIC_COLOR FG_HIGH_COLOR FG_TRUE_COLOR with
          | Err e => RErr e 0
          | Ok (scolor, kf) =>
              let flags' := Z.lor flags kf in
              match scolor with
              | None => RErr AttrSpecError 2
              | Some sc =>
                  match color with
                  | Some _ => RErr AttrSpecError 3
                  | None => fg_loop_s v rest (Some sc) flags'
                  end
              end
          end
      end
  end.

Definition fg_parts (fg : str) : list str := map strip (split_on 44 fg).      (* 44 = "," *)

Definition set_foreground_s (v : Z) (fg : str) : res Z :=
  rbind (fg_loop_s v (fg_parts fg) None 0) (fun cf =>
  let color := match fst cf with Some c => c | None => 0 end in
  ROk (Z.lor (Z.lor (Z.land v (Z.lnot FG_MASK)) color) (snd cf))).

Definition set_background_s (v : Z) (bg : str) : res Z :=
  rbind (lift (parse_part_s v bg BG_BASIC_COLOR BG_HIGH_COLOR BG_TRUE_COLOR)) (fun cf =>
  match fst cf with
  | None => RErr AttrSpecError 4
  | Some color => ROk (Z.lor (Z.lor (Z.land v (Z.lnot BG_MASK)) (Z.shiftl color BG_SHIFT)) (snd cf))
  end).

Definition attrspec_new_s (fg bg : str) (colors : Z) : res Z :=
  if negb (valid_depth colors) then RErr AttrSpecError 6
  else
    rbind (set_foreground_s (init_value colors) fg) (fun v1 =>
    rbind (set_background_s v1 bg) (fun v2 =>
    let v3 := drop_marker v2 in
    if colors <? attr_colors v3 then RErr AttrSpecError 5 else ROk v3)).

(* _BASIC_COLORS[n] for n >= 0 *)
Definition basic_name_s (n : Z) : result str := get_index BASIC_COLORS n.

Definition foreground_color_s (v : Z) : result str :=
  if negb (attr_foreground_basic v || attr_foreground_high v || attr_foreground_true v) then Ok S_default
  else if attr_foreground_basic v then basic_name_s (attr_foreground_number v)
  else if attr_colors v =? 88 then color_desc_88_s (attr_foreground_number v)
  else if attr_colors v =? TRUE_DEPTH then color_desc_true_s (attr_foreground_number v)
  else color_desc_256_s (attr_foreground_number v).

(* ",bold" * self.bold + ",italics" * self.italics + ... *)
Definition S_bold : str := [44; 98; 111; 108; 100].
Definition S_italics : str := [44; 105; 116; 97; 108; 105; 99; 115].
Definition S_standout : str := [44; 115; 116; 97; 110; 100; 111; 117; 116].
Definition S_blink : str := [44; 98; 108; 105; 110; 107].
Definition S_underline : str := [44; 117; 110; 100; 101; 114; 108; 105; 110; 101].
Definition S_strikethrough : str := [44; 115; 116; 114; 105; 107; 101; 116; 104; 114; 111; 117; 103; 104].
Definition settings_suffix (v : Z) : str :=
  times S_bold (attr_bold v) ++ times S_italics (attr_italics v) ++ times S_standout (attr_standout v)
  ++ times S_blink (attr_blink v) ++ times S_underline (attr_underline v)
  ++ times S_strikethrough (attr_strikethrough v).
Definition foreground_s (v : Z) : result str :=
  bind (foreground_color_s v) (fun c => Ok (c ++ settings_suffix v)).

Definition background_s (v : Z) : result str :=
  if negb (attr_background_basic v || attr_background_high v || attr_background_true v) then Ok S_default
  else if attr_background_basic v then basic_name_s (attr_background_number v)
  else if negb (Z.land v HIGH_88_COLOR =? 0) then color_desc_88_s (attr_background_number v)
  else if attr_colors v =? TRUE_DEPTH then color_desc_true_s (attr_background_number v)
  else color_desc_256_s (attr_background_number v).

(* ---------------- wire format ---------------- *)
(* case:  colors, nparts, part*, desc      part = 0 k | 1 tag payload      desc = tag payload
   reply: 0 errcode why
        | 1 value colors  <fg>  <bg>  <rgb>
             <fg>  = 0 errcode | 1 tag payload b1..b6
             <bg>  = 0 errcode | 1 tag payload
             <rgb> = 0 errcode | 1 (0 | 1 r g b) (0 | 1 r g b)            *)
Definition dec_desc (t p : Z) : desc :=
  if t =? 0 then DDefault else if t =? 1 then DBasic p else if t =? 2 then DH p
  else if t =? 3 then DCube p else if t =? 4 then DGrayDec p else if t =? 5 then DGrayHex p
  else if t =? 6 then DTrue p else DBad.
Definition enc_desc (d : desc) : list Z :=
  match d with
  | DDefault => [0; 0] | DBasic n => [1; n] | DH n => [2; n] | DCube n => [3; n]
  | DGrayDec n => [4; n] | DGrayHex n => [5; n] | DTrue n => [6; n] | DBad => [7; 0]
  end.
Definition dec_setting (k : Z) : setting :=
  if k =? 0 then SBold else if k =? 1 then SItalics else if k =? 2 then SUnderline
  else if k =? 3 then SBlink else if k =? 4 then SStandout else SStrike.

Fixpoint dec_parts (n : nat) (l : list Z) : option (list part * list Z) :=
  match n with
  | O => Some ([], l)
  | S n' =>
      match l with
      | 0 :: k :: r =>
          match dec_parts n' r with Some (ps, r') => Some (PSet (dec_setting k) :: ps, r') | None => None end
      | 1 :: t :: p :: r =>
          match dec_parts n' r with Some (ps, r') => Some (PCol (dec_desc t p) :: ps, r') | None => None end
      | _ => None
      end
  end.

Definition enc_triple (o : option (Z * Z * Z)) : list Z :=
  match o with None => [0] | Some (r, g, b) => [1; r; g; b] end.

Definition describe_wire (v : Z) : list Z :=
  [1; v; attr_colors v]
  ++ match foreground v with
     | Ok (d, bs) => 1 :: enc_desc d ++ map enc_bool bs
     | Err e => [0; errcode e]
     end
  ++ match background v with
     | Ok d => 1 :: enc_desc d
     | Err e => [0; errcode e]
     end
  ++ match get_rgb_values v with
     | Ok (f, b) => 1 :: enc_triple f ++ enc_triple b
     | Err e => [0; errcode e]
     end.

Definition run_desc_case (l : list Z) : list Z :=
  match l with
  | colors :: n :: r =>
      if n <? 0 then [9] else
      match dec_parts (Z.to_nat n) r with
      | Some (ps, [t; p]) =>
          match attrspec_new ps (dec_desc t p) colors with
          | RErr e w => [0; errcode e; w]
          | ROk v => describe_wire v
          end
      | _ => [9]
      end
  | _ => [9]
  end.

(* string level reply, computed with the functions TRANSLATED from the source (Gen/colours_gen.v:
   attrspec_init_gen, foreground_gen, background_gen, get_rgb_values_gen, copy_modified_gen); the
   hand-written string model above is proved equal to them (Proofs/ColoursGenMeth.v) and serves the proofs.
     0 errcode why | 1 value colors <fg> <bg> <rgb> <copy>
     <fg>,<bg> = 0 errcode | 1 len cp*     <rgb> = 0 errcode | 1 (0 | 1 x){6}     <copy> = 0 errcode why | 1 value *)
Definition enc_str_res (r : result str) : list Z :=
  match r with Ok s => 1 :: enc_list s | Err e => [0; errcode e] end.
Definition enc_res_value (r : res Z) : list Z :=
  match r with ROk v => [1; v] | RErr e w => [0; errcode e; w] end.
Definition describe_wire_s (v : Z) : list Z :=
  [1; v; attr_colors v] ++ enc_str_res (foreground_gen v) ++ enc_str_res (background_gen v)
  ++ match get_rgb_values_gen v with
     | Ok l => 1 :: flat_map enc_oz l
     | Err e => [0; errcode e]
     end
  ++ enc_res_value (copy_modified_gen v None None None).
Definition run_str_case (l : list Z) : list Z :=
  match l with
  | colors :: r =>
      match dec_list r with
      | Some (fg, r') =>
          match dec_list r' with
          | Some (bg, []) =>
              match attrspec_init_gen fg bg colors with
              | RErr e w => [0; errcode e; w]
              | ROk v => describe_wire_s v
              end
          | _ => [9]
          end
      | None => [9]
      end
  | _ => [9]
  end.

(* primitives: int(chr(c)) / chr(c).isspace() for a range of code points; int(s, base); s.strip(); s.split(",") *)
Fixpoint cp_scan (n : nat) (c : Z) : list Z :=
  match n with
  | O => []
  | S k => (match py_int 10 [c] with Some d => d | None => -1 end) :: enc_bool (uni_isspace c) :: cp_scan k (c + 1)
  end.
Definition run_prim (op : Z) (l : list Z) : list Z :=
  if op =? 2 then match l with [lo; hi] => cp_scan (Z.to_nat (hi - lo)) lo | _ => [9] end
  else if op =? 3 then match l with base :: s => enc_oz (py_int base s) | _ => [9] end
  else if op =? 4 then strip l
  else if op =? 5 then flat_map enc_list (split_on 44 l)
  else [9].

(* the first integer selects the sub-model: 0 description level (harness lexer), 1 raw strings, 2.. primitives *)
Definition run_case (l : list Z) : list Z :=
  match l with
  | 0 :: r => run_desc_case r
  | 1 :: r => run_str_case r
  | op :: r => run_prim op r
  | [] => [9]
  end.
