(* C17 end to end: the bridge from this property's palette model (Model/AttrFlow.v) to the
   draw_screen model of property C04 (Model/DrawScreen.v, Model/TermRef.v - imported read-only).
   Executable definitions only.

   [cfg_of] builds the attribute table draw_screen works with from the Screen state this
   property models: canvas attribute id 0 is None, id i+1 is the name i; a name that has a
   palette entry is a key of _pal_escape whose AttrSpec is the entry for the active colour depth,
   any other name is undefined. *)
From Coq Require Import ZArith List Bool Lia.
Import ListNotations.
From Urwid Require Import PyBase PyList TermRef DrawScreen AttrFlow.
Open Scope Z_scope.

(* an AttrSpec of this model in the form draw_screen's model reads it *)
Definition conv (a : AttrFlow.aspec) : DrawScreen.aspec :=
  let kind (t h b : bool) : Z := if t then 3 else if h then 2 else if b then 1 else 0 in
  let comp (t : bool) (n i : Z) : Z := if t then nth (Z.to_nat i) (rgb_of n) 0 else 0 in
  mkSpec (kind (fg_true a) (fg_high a) (fg_basic a)) (fg_num a)
         (comp (fg_true a) (fg_num a) 0) (comp (fg_true a) (fg_num a) 1) (comp (fg_true a) (fg_num a) 2)
         (kind (bg_true a) (bg_high a) (bg_basic a)) (bg_num a)
         (comp (bg_true a) (bg_num a) 0) (comp (bg_true a) (bg_num a) 1) (comp (bg_true a) (bg_num a) 2)
         (a_bold a) (a_italics a) (a_underline a) (a_blink a) (a_standout a) (a_strike a).

(* canvas attribute ids *)
Definition attr_of_id (i : Z) : attr := if i =? 0 then None else Some (i - 1).
Definition id_of_attr (a : attr) : Z := match a with None => 0 | Some n => n + 1 end.

(* the palette entry of a name at the active depth, if it has one *)
Definition spec_for (s : screen) (a : attr) : option AttrFlow.aspec :=
  match plookup a (s_palette s) with
  | Some e => match select_spec (s_colors s) e with Ok sp => Some sp | Err _ => None end
  | None => None
  end.

Definition entry_of (s : screen) (a : attr) : aentry :=
  match spec_for s a with
  | Some sp => (0, conv sp)
  | None => (2, DrawScreen.default_spec)
  end.

Fixpoint ids (n : nat) (i : Z) : list Z := match n with O => [] | S k => i :: ids k (i + 1) end.

Definition cfg_of (s : screen) (ntab : Z) (utf8 bce : bool) : cfg :=
  mkCfg utf8 bce (s_bib s) (s_bbb s) (map (fun i => entry_of s (attr_of_id i)) (ids (Z.to_nat ntab) 0)).

(* palette history (as sub-model 5, no queries), then: bce ntab frame*  -> C04's frame output *)
Definition run_e2e (l : list Z) : list Z :=
  match l with
  | bib :: bbb :: n :: r =>
      match dec_pops (Z.to_nat n) r with
      | Some (ops, _nq :: bce :: ntab :: r1) =>
          let '(s, errs) := wrun (screen_init (AttrFlow.dec_bool bib) (AttrFlow.dec_bool bbb)) ops in
          match dec_counted dec_frame r1 with
          | Some (frames, _) =>
              let c := cfg_of s ntab true (AttrFlow.dec_bool bce) in
              0 :: enc_list errs ++ run_frames c false 0 (init_scr false, None) frames
          | None => [-2]
          end
      | _ => [-2]
      end
  | _ => [-2]
  end.

Definition run_case (l : list Z) : list Z :=
  match l with
  | 101 :: r => run_e2e r
  | _ => run_case_attr l
  end.
