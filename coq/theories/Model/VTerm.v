(* C15 - executable model of urwid/vterm.py : class TermCanvas (the terminal emulator proper).
   Hand model, mirrored function by function from the Python source (the Python name is given above
   each definition); tied to the code by the extracted-model correspondence of harness/props/c15.py.
   The CSI table, constrain_coords, the DEC special-character map and a few constants come from
   Gen/vterm_csi_gen.v (re-translated from the source on every run).
   NO proofs in this file.

   Conventions
   - bytes objects are lists of byte values; a screen character is the bytes object stored in the cell
   - charset names: default/vt100/ibmpc/user = 0/1/2/3 ; charset.current: None/"0"/"U" = 0/1/2
   - AttrSpec is modelled by the numbers vterm.py reads back from it (see [attr]); the construction
     fails ([Err OtherError]) outside the domain on which that reading is exact - the theorems show the
     emulator never leaves it
   - util.get_encoding(): enc = 0 "utf8" | 1 "utf-8" | 2 "ascii"  (the three the harness exercises)
   - exceptions are [Err kind]; Python list indexing/insert/pop are the PyList functions *)
From Coq Require Import ZArith List Bool.
Import ListNotations.
From Urwid Require Import PyBase PyList vterm_csi_gen.
Open Scope Z_scope.

Notation "'do' x <- a ; b" := (bind a (fun x => b)) (at level 200, x name, a at level 100, b at level 200).

(* ---------- data ---------- *)
(* what vterm.py can read back from an AttrSpec it built: "default" in foreground / foreground_number,
   the same for the background, .colors (derived: 1 when both colours are default), the four settings *)
Record attr := mkAttr { a_fg : oz; a_bg : oz; a_colors : Z; a_bold : bool; a_ul : bool; a_blink : bool; a_so : bool }.
Definition cell := (option attr * Z * list Z)%type.      (* (attrspec, charset.current, char) *)
Definition row := list cell.
(* calls into the widget, in order *)
Inductive event := Respond (s : list Z) | Title (t : list Z) | Beep | Leds (n : Z).

Record modes_t := mkModes {
  m_display_ctrl : bool;
  m_insert : bool;
  m_lfnl : bool;
  m_keys_decckm : bool;
  m_reverse_video : bool;
  m_constrain : bool;
  m_autowrap : bool;
  m_visible : bool;
  m_bracketed : bool;
  m_main_charset : Z
}.
Definition set_m_display_ctrl (s : modes_t) (v : bool) : modes_t := mkModes v (m_insert s) (m_lfnl s) (m_keys_decckm s) (m_reverse_video s) (m_constrain s) (m_autowrap s) (m_visible s) (m_bracketed s) (m_main_charset s).
Definition set_m_insert (s : modes_t) (v : bool) : modes_t := mkModes (m_display_ctrl s) v (m_lfnl s) (m_keys_decckm s) (m_reverse_video s) (m_constrain s) (m_autowrap s) (m_visible s) (m_bracketed s) (m_main_charset s).
Definition set_m_lfnl (s : modes_t) (v : bool) : modes_t := mkModes (m_display_ctrl s) (m_insert s) v (m_keys_decckm s) (m_reverse_video s) (m_constrain s) (m_autowrap s) (m_visible s) (m_bracketed s) (m_main_charset s).
Definition set_m_keys_decckm (s : modes_t) (v : bool) : modes_t := mkModes (m_display_ctrl s) (m_insert s) (m_lfnl s) v (m_reverse_video s) (m_constrain s) (m_autowrap s) (m_visible s) (m_bracketed s) (m_main_charset s).
Definition set_m_reverse_video (s : modes_t) (v : bool) : modes_t := mkModes (m_display_ctrl s) (m_insert s) (m_lfnl s) (m_keys_decckm s) v (m_constrain s) (m_autowrap s) (m_visible s) (m_bracketed s) (m_main_charset s).
Definition set_m_constrain (s : modes_t) (v : bool) : modes_t := mkModes (m_display_ctrl s) (m_insert s) (m_lfnl s) (m_keys_decckm s) (m_reverse_video s) v (m_autowrap s) (m_visible s) (m_bracketed s) (m_main_charset s).
Definition set_m_autowrap (s : modes_t) (v : bool) : modes_t := mkModes (m_display_ctrl s) (m_insert s) (m_lfnl s) (m_keys_decckm s) (m_reverse_video s) (m_constrain s) v (m_visible s) (m_bracketed s) (m_main_charset s).
Definition set_m_visible (s : modes_t) (v : bool) : modes_t := mkModes (m_display_ctrl s) (m_insert s) (m_lfnl s) (m_keys_decckm s) (m_reverse_video s) (m_constrain s) (m_autowrap s) v (m_bracketed s) (m_main_charset s).
Definition set_m_bracketed (s : modes_t) (v : bool) : modes_t := mkModes (m_display_ctrl s) (m_insert s) (m_lfnl s) (m_keys_decckm s) (m_reverse_video s) (m_constrain s) (m_autowrap s) (m_visible s) v (m_main_charset s).
Definition set_m_main_charset (s : modes_t) (v : Z) : modes_t := mkModes (m_display_ctrl s) (m_insert s) (m_lfnl s) (m_keys_decckm s) (m_reverse_video s) (m_constrain s) (m_autowrap s) (m_visible s) (m_bracketed s) v.

Record charset_t := mkCharset {
  cs_g0 : Z;
  cs_g1 : Z;
  cs_sgr : bool;
  cs_active : Z;
  cs_current : Z
}.
Definition set_cs_g0 (s : charset_t) (v : Z) : charset_t := mkCharset v (cs_g1 s) (cs_sgr s) (cs_active s) (cs_current s).
Definition set_cs_g1 (s : charset_t) (v : Z) : charset_t := mkCharset (cs_g0 s) v (cs_sgr s) (cs_active s) (cs_current s).
Definition set_cs_sgr (s : charset_t) (v : bool) : charset_t := mkCharset (cs_g0 s) (cs_g1 s) v (cs_active s) (cs_current s).
Definition set_cs_active (s : charset_t) (v : Z) : charset_t := mkCharset (cs_g0 s) (cs_g1 s) (cs_sgr s) v (cs_current s).
Definition set_cs_current (s : charset_t) (v : Z) : charset_t := mkCharset (cs_g0 s) (cs_g1 s) (cs_sgr s) (cs_active s) v.

Record st := mkSt {
  width : Z;
  height : Z;
  term : list row;
  cur : Z * Z;
  cursor : option (Z * Z);
  has_focus : bool;
  sb : list row;
  sup : Z;
  u8eat : oz;
  u8buf : list Z;
  escbuf : list Z;
  inesc : bool;
  pstate : Z;
  attrspec : option attr;
  cset : charset_t;
  saved_cur : option (Z * Z);
  saved_attrs : option (option attr * (bool * Z * Z));
  rotten : bool;
  sr_start : Z;
  sr_end : Z;
  tabstops : list Z;
  modes : modes_t;
  events : list event;
  enc : Z
}.
Definition with_width (s : st) (v : Z) : st := mkSt v (height s) (term s) (cur s) (cursor s) (has_focus s) (sb s) (sup s) (u8eat s) (u8buf s) (escbuf s) (inesc s) (pstate s) (attrspec s) (cset s) (saved_cur s) (saved_attrs s) (rotten s) (sr_start s) (sr_end s) (tabstops s) (modes s) (events s) (enc s).
Definition with_height (s : st) (v : Z) : st := mkSt (width s) v (term s) (cur s) (cursor s) (has_focus s) (sb s) (sup s) (u8eat s) (u8buf s) (escbuf s) (inesc s) (pstate s) (attrspec s) (cset s) (saved_cur s) (saved_attrs s) (rotten s) (sr_start s) (sr_end s) (tabstops s) (modes s) (events s) (enc s).
Definition with_term (s : st) (v : list row) : st := mkSt (width s) (height s) v (cur s) (cursor s) (has_focus s) (sb s) (sup s) (u8eat s) (u8buf s) (escbuf s) (inesc s) (pstate s) (attrspec s) (cset s) (saved_cur s) (saved_attrs s) (rotten s) (sr_start s) (sr_end s) (tabstops s) (modes s) (events s) (enc s).
Definition with_cur (s : st) (v : Z * Z) : st := mkSt (width s) (height s) (term s) v (cursor s) (has_focus s) (sb s) (sup s) (u8eat s) (u8buf s) (escbuf s) (inesc s) (pstate s) (attrspec s) (cset s) (saved_cur s) (saved_attrs s) (rotten s) (sr_start s) (sr_end s) (tabstops s) (modes s) (events s) (enc s).
Definition with_cursor (s : st) (v : option (Z * Z)) : st := mkSt (width s) (height s) (term s) (cur s) v (has_focus s) (sb s) (sup s) (u8eat s) (u8buf s) (escbuf s) (inesc s) (pstate s) (attrspec s) (cset s) (saved_cur s) (saved_attrs s) (rotten s) (sr_start s) (sr_end s) (tabstops s) (modes s) (events s) (enc s).
Definition with_has_focus (s : st) (v : bool) : st := mkSt (width s) (height s) (term s) (cur s) (cursor s) v (sb s) (sup s) (u8eat s) (u8buf s) (escbuf s) (inesc s) (pstate s) (attrspec s) (cset s) (saved_cur s) (saved_attrs s) (rotten s) (sr_start s) (sr_end s) (tabstops s) (modes s) (events s) (enc s).
Definition with_sb (s : st) (v : list row) : st := mkSt (width s) (height s) (term s) (cur s) (cursor s) (has_focus s) v (sup s) (u8eat s) (u8buf s) (escbuf s) (inesc s) (pstate s) (attrspec s) (cset s) (saved_cur s) (saved_attrs s) (rotten s) (sr_start s) (sr_end s) (tabstops s) (modes s) (events s) (enc s).
Definition with_sup (s : st) (v : Z) : st := mkSt (width s) (height s) (term s) (cur s) (cursor s) (has_focus s) (sb s) v (u8eat s) (u8buf s) (escbuf s) (inesc s) (pstate s) (attrspec s) (cset s) (saved_cur s) (saved_attrs s) (rotten s) (sr_start s) (sr_end s) (tabstops s) (modes s) (events s) (enc s).
Definition with_u8eat (s : st) (v : oz) : st := mkSt (width s) (height s) (term s) (cur s) (cursor s) (has_focus s) (sb s) (sup s) v (u8buf s) (escbuf s) (inesc s) (pstate s) (attrspec s) (cset s) (saved_cur s) (saved_attrs s) (rotten s) (sr_start s) (sr_end s) (tabstops s) (modes s) (events s) (enc s).
Definition with_u8buf (s : st) (v : list Z) : st := mkSt (width s) (height s) (term s) (cur s) (cursor s) (has_focus s) (sb s) (sup s) (u8eat s) v (escbuf s) (inesc s) (pstate s) (attrspec s) (cset s) (saved_cur s) (saved_attrs s) (rotten s) (sr_start s) (sr_end s) (tabstops s) (modes s) (events s) (enc s).
Definition with_escbuf (s : st) (v : list Z) : st := mkSt (width s) (height s) (term s) (cur s) (cursor s) (has_focus s) (sb s) (sup s) (u8eat s) (u8buf s) v (inesc s) (pstate s) (attrspec s) (cset s) (saved_cur s) (saved_attrs s) (rotten s) (sr_start s) (sr_end s) (tabstops s) (modes s) (events s) (enc s).
Definition with_inesc (s : st) (v : bool) : st := mkSt (width s) (height s) (term s) (cur s) (cursor s) (has_focus s) (sb s) (sup s) (u8eat s) (u8buf s) (escbuf s) v (pstate s) (attrspec s) (cset s) (saved_cur s) (saved_attrs s) (rotten s) (sr_start s) (sr_end s) (tabstops s) (modes s) (events s) (enc s).
Definition with_pstate (s : st) (v : Z) : st := mkSt (width s) (height s) (term s) (cur s) (cursor s) (has_focus s) (sb s) (sup s) (u8eat s) (u8buf s) (escbuf s) (inesc s) v (attrspec s) (cset s) (saved_cur s) (saved_attrs s) (rotten s) (sr_start s) (sr_end s) (tabstops s) (modes s) (events s) (enc s).
Definition with_attrspec (s : st) (v : option attr) : st := mkSt (width s) (height s) (term s) (cur s) (cursor s) (has_focus s) (sb s) (sup s) (u8eat s) (u8buf s) (escbuf s) (inesc s) (pstate s) v (cset s) (saved_cur s) (saved_attrs s) (rotten s) (sr_start s) (sr_end s) (tabstops s) (modes s) (events s) (enc s).
Definition with_cset (s : st) (v : charset_t) : st := mkSt (width s) (height s) (term s) (cur s) (cursor s) (has_focus s) (sb s) (sup s) (u8eat s) (u8buf s) (escbuf s) (inesc s) (pstate s) (attrspec s) v (saved_cur s) (saved_attrs s) (rotten s) (sr_start s) (sr_end s) (tabstops s) (modes s) (events s) (enc s).
Definition with_saved_cur (s : st) (v : option (Z * Z)) : st := mkSt (width s) (height s) (term s) (cur s) (cursor s) (has_focus s) (sb s) (sup s) (u8eat s) (u8buf s) (escbuf s) (inesc s) (pstate s) (attrspec s) (cset s) v (saved_attrs s) (rotten s) (sr_start s) (sr_end s) (tabstops s) (modes s) (events s) (enc s).
Definition with_saved_attrs (s : st) (v : option (option attr * (bool * Z * Z))) : st := mkSt (width s) (height s) (term s) (cur s) (cursor s) (has_focus s) (sb s) (sup s) (u8eat s) (u8buf s) (escbuf s) (inesc s) (pstate s) (attrspec s) (cset s) (saved_cur s) v (rotten s) (sr_start s) (sr_end s) (tabstops s) (modes s) (events s) (enc s).
Definition with_rotten (s : st) (v : bool) : st := mkSt (width s) (height s) (term s) (cur s) (cursor s) (has_focus s) (sb s) (sup s) (u8eat s) (u8buf s) (escbuf s) (inesc s) (pstate s) (attrspec s) (cset s) (saved_cur s) (saved_attrs s) v (sr_start s) (sr_end s) (tabstops s) (modes s) (events s) (enc s).
Definition with_sr_start (s : st) (v : Z) : st := mkSt (width s) (height s) (term s) (cur s) (cursor s) (has_focus s) (sb s) (sup s) (u8eat s) (u8buf s) (escbuf s) (inesc s) (pstate s) (attrspec s) (cset s) (saved_cur s) (saved_attrs s) (rotten s) v (sr_end s) (tabstops s) (modes s) (events s) (enc s).
Definition with_sr_end (s : st) (v : Z) : st := mkSt (width s) (height s) (term s) (cur s) (cursor s) (has_focus s) (sb s) (sup s) (u8eat s) (u8buf s) (escbuf s) (inesc s) (pstate s) (attrspec s) (cset s) (saved_cur s) (saved_attrs s) (rotten s) (sr_start s) v (tabstops s) (modes s) (events s) (enc s).
Definition with_tabstops (s : st) (v : list Z) : st := mkSt (width s) (height s) (term s) (cur s) (cursor s) (has_focus s) (sb s) (sup s) (u8eat s) (u8buf s) (escbuf s) (inesc s) (pstate s) (attrspec s) (cset s) (saved_cur s) (saved_attrs s) (rotten s) (sr_start s) (sr_end s) v (modes s) (events s) (enc s).
Definition with_modes (s : st) (v : modes_t) : st := mkSt (width s) (height s) (term s) (cur s) (cursor s) (has_focus s) (sb s) (sup s) (u8eat s) (u8buf s) (escbuf s) (inesc s) (pstate s) (attrspec s) (cset s) (saved_cur s) (saved_attrs s) (rotten s) (sr_start s) (sr_end s) (tabstops s) v (events s) (enc s).
Definition with_events (s : st) (v : list event) : st := mkSt (width s) (height s) (term s) (cur s) (cursor s) (has_focus s) (sb s) (sup s) (u8eat s) (u8buf s) (escbuf s) (inesc s) (pstate s) (attrspec s) (cset s) (saved_cur s) (saved_attrs s) (rotten s) (sr_start s) (sr_end s) (tabstops s) (modes s) v (enc s).
Definition with_enc (s : st) (v : Z) : st := mkSt (width s) (height s) (term s) (cur s) (cursor s) (has_focus s) (sb s) (sup s) (u8eat s) (u8buf s) (escbuf s) (inesc s) (pstate s) (attrspec s) (cset s) (saved_cur s) (saved_attrs s) (rotten s) (sr_start s) (sr_end s) (tabstops s) (modes s) (events s) v.

(* ---------- small helpers ---------- *)
Definition repeatz {A} (x : A) (n : Z) : list A := repeat x (Z.to_nat n).   (* [x] * n *)
Definition is1 (ch : list Z) (b : Z) : bool := match ch with [c] => c =? b | _ => false end.   (* char == bytes([b]) *)
Fixpoint memz (b : Z) (l : list Z) : bool := match l with [] => false | x :: r => (x =? b) || memz b r end.
(* char in b"..." / char in {b"x", ...} for the one-byte alphabets used by vterm.py (a multi-byte char only
   has bytes >= 0x80 and is never a substring of those ASCII alphabets) *)
Definition in1 (ch : list Z) (l : list Z) : bool := match ch with [c] => memz c l | _ => false end.
Fixpoint list_eqb (a b : list Z) : bool :=
  match a, b with
  | [], [] => true
  | x :: a', y :: b' => (x =? y) && list_eqb a' b'
  | _, _ => false
  end.
Definition last_opt (l : list Z) : list Z := match rev l with [] => [] | x :: _ => [x] end.     (* l[-1:] *)
Fixpoint lstrip0 (l : list Z) : list Z := match l with 48 :: r => lstrip0 r | _ => l end.        (* l.lstrip(b"0") *)
Fixpoint iter_res {A} (n : nat) (f : A -> result A) (a : A) : result A :=
  match n with O => Ok a | S k => do a' <- f a; iter_res k f a' end.

(* ---------- cursor ---------- *)
(* TermCanvas.constrain_coords (translated: constrain_coords_gen) *)
Definition constrain (s : st) (x y ign : Z) : Z * Z :=
  constrain_coords_gen (width s) (height s) (m_constrain (modes s)) (sr_start s) (sr_end s) x y ign.

(* TermCanvas.set_term_cursor(x, y) *)
Definition set_term_cursor (s : st) (x y : Z) : st :=
  let '(x, y) := constrain s x y 0 in
  let s := with_cur s (x, y) in
  if has_focus s && m_visible (modes s) && (sup s <? height s - y)
  then with_cursor s (Some (x, y + sup s))
  else with_cursor s None.
(* set_term_cursor() : both axes omitted *)
Definition set_term_cursor_here (s : st) : st := set_term_cursor s (fst (cur s)) (snd (cur s)).

(* TermCanvas.reset_scroll *)
Definition reset_scroll (s : st) : st := with_sr_end (with_sr_start s 0) (height s - 1).

(* TermCanvas.scroll_buffer(up, reset, lines) *)
Definition scroll_buffer (s : st) (up reset : bool) (lines : oz) : st :=
  if reset then set_term_cursor_here (with_sup s 0) else
  let lines := match lines with None => height s / 2 | Some l => l end in
  let lines := if up then lines else - lines in
  let maxscroll := zlen (sb s) in
  let su := sup s + lines in
  let su := if maxscroll <? su then maxscroll else if su <? 0 then 0 else su in
  set_term_cursor_here (with_sup s su).

(* ---------- lines, tab stops ---------- *)
(* TermCanvas.empty_char / empty_line *)
Definition empty_char (s : st) (ch : list Z) : cell := (attrspec s, cs_current (cset s), ch).
Definition empty_line (s : st) (ch : list Z) : row := repeatz (empty_char s ch) (width s).

(* TermCanvas.init_tabstops(extend) *)
Definition init_tabstops (s : st) (extend : bool) : st :=
  let q := width s / 8 in
  let tablen := if 0 <? width s mod 8 then q + 1 else q in
  if extend then with_tabstops s (tabstops s ++ repeatz 1 (tablen - zlen (tabstops s)))
  else with_tabstops s (repeatz 1 tablen).

(* TermCanvas.set_tabstop(x, remove, clear) ; x is always term_cursor[0] *)
Definition set_tabstop (s : st) (x : Z) (remove clear : bool) : result st :=
  if clear then Ok (with_tabstops s (map (fun _ => 0) (tabstops s))) else
  let dv := x / 8 in
  let md := x mod 8 in
  do t <- get_index (tabstops s) dv;
  do l <- set_index (tabstops s) dv (if remove then Z.land t (Z.lnot (Z.shiftl 1 md)) else Z.lor t (Z.shiftl 1 md));
  Ok (with_tabstops s l).

(* TermCanvas.is_tabstop(x) *)
Definition is_tabstop (s : st) (x : Z) : result bool :=
  do t <- get_index (tabstops s) (x / 8);
  Ok (0 <? Z.land t (Z.shiftl 1 (x mod 8))).

(* TermCanvas.clear(cursor) *)
Definition clear (s : st) (c : option (Z * Z)) : st :=
  let s := with_term s (repeatz (empty_line s [32]) (height s)) in
  match c with None => set_term_cursor s 0 0 | Some (x, y) => set_term_cursor s x y end.

(* TermModes.reset : bracketed_paste is not reset *)
Definition modes_reset (m : modes_t) : modes_t :=
  mkModes false false false false false false true true (m_bracketed m) charset_default_gen.

(* TermCharset() *)
Definition charset_new : charset_t := mkCharset 0 1 false 0 (charset_mapping_gen 0).
Definition cs_g (c : charset_t) (g : Z) : Z := if g =? 0 then cs_g0 c else cs_g1 c.
(* TermCharset.activate(g) *)
Definition cs_activate (c : charset_t) (g : Z) : charset_t :=
  set_cs_current (set_cs_active c g) (charset_mapping_gen (cs_g c g)).
(* TermCharset.define(g, charset) *)
Definition cs_define (c : charset_t) (g name : Z) : charset_t :=
  let c := if g =? 0 then set_cs_g0 c name else set_cs_g1 c name in
  cs_activate c (cs_active c).

(* TermCanvas.reset *)
Definition reset (s : st) : st :=
  let s := with_escbuf s [] in
  let s := with_inesc s false in
  let s := with_pstate s 0 in
  let s := with_attrspec s None in
  let s := with_cset s charset_new in
  let s := with_saved_cur s None in
  let s := with_saved_attrs s None in
  let s := with_rotten s false in
  let s := reset_scroll s in
  let s := init_tabstops s false in
  let s := with_modes s (modes_reset (modes s)) in
  clear s None.

(* TermCanvas.__init__(width, height, widget) with a fresh TermModes ; e = util.get_encoding() *)
Definition init (w h e : Z) : st :=
  reset (mkSt w h [] (0, 0) (Some (0, 0)) false [] 0 None [] [] false 0 None charset_new None None false
              0 (h - 1) [] (mkModes false false false false false false true true false charset_default_gen) [] e).

(* deque(maxlen=...).append *)
Definition sb_append (s : st) (r : row) : st :=
  let l := sb s ++ [r] in
  with_sb s (if scrollback_maxlen_gen <? zlen l then dropz 1 l else l).

(* TermCanvas.scroll(reverse) *)
Definition scroll (s : st) (reverse : bool) : result st :=
  if reverse then
    do p <- pop (term s) (sr_end s);
    Ok (with_term s (insert (snd p) (sr_start s) (empty_line s [32])))
  else
    do p <- pop (term s) (sr_start s);
    let s := sb_append s (fst p) in
    Ok (with_term s (insert (snd p) (sr_end s) (empty_line s [32]))).

(* TermCanvas.linefeed(reverse) *)
Definition linefeed (s : st) (reverse : bool) : result st :=
  let '(x, y) := cur s in
  if reverse then
    if (y <=? 0) && (0 <? sr_start s) then Ok (set_term_cursor s x y)
    else if y =? sr_start s then do s <- scroll s true; Ok (set_term_cursor s x y)
    else Ok (set_term_cursor s x (y - 1))
  else
    if (height s - 1 <=? y) && (sr_end s <? height s - 1) then Ok (set_term_cursor s x y)
    else if y =? sr_end s then do s <- scroll s false; Ok (set_term_cursor s x y)
    else Ok (set_term_cursor s x (y + 1)).

(* TermCanvas.carriage_return / newline *)
Definition carriage_return (s : st) : st := set_term_cursor (with_rotten s false) 0 (snd (cur s)).
Definition newline (s : st) : result st := linefeed (carriage_return s) false.

(* TermCanvas.move_cursor(x, y, relative_x, relative_y, relative) *)
Definition move_cursor (s : st) (x y : Z) (relx rely rel : bool) : st :=
  let rely := rely || rel in
  let relx := relx || rel in
  let x := if relx then x + fst (cur s) else x in
  let y := if rely then y + snd (cur s) else if m_constrain (modes s) then y + sr_start s else y in
  set_term_cursor (with_rotten s false) x y.

(* ---------- cells ---------- *)
(* TermCanvas.set_char(char, x, y) *)
Definition set_char (s : st) (ch : list Z) (x y : Z) : result st :=
  let '(x, y) := constrain s x y 0 in
  do r <- get_index (term s) y;
  do r' <- set_index r x (attrspec s, cs_current (cset s), ch);
  do t <- set_index (term s) y r';
  Ok (with_term s t).

(* TermCanvas.insert_chars(position, chars, char) *)
Definition insert_chars (s : st) (position : Z * Z) (chars : Z) (ch : option (list Z)) : result st :=
  let chars := if chars =? 0 then 1 else chars in
  let spec := match ch with None => empty_char s [32] | Some c => (attrspec s, cs_current (cset s), c) end in
  let '(x, y) := position in
  let chars := Z.min chars (width s) in
  do t <- iter_res (Z.to_nat chars)
            (fun t => do r <- get_index t y;
                      do p <- pop (insert r x spec) (-1);
                      set_index t y (snd p)) (term s);
  Ok (with_term s t).

(* TermCanvas.remove_chars(position, chars) *)
Definition remove_chars (s : st) (position : Z * Z) (chars : Z) : result st :=
  let chars := if chars =? 0 then 1 else chars in
  let '(x, y) := position in
  let chars := Z.min chars (width s) in
  do t <- iter_res (Z.to_nat chars)
            (fun t => do r <- get_index t y;
                      do p <- pop r x;
                      set_index t y (snd p ++ [empty_char s [32]])) (term s);
  Ok (with_term s t).

(* TermCanvas.insert_lines(row=None, lines) *)
Definition insert_lines (s : st) (lines : Z) : result st :=
  let rw := snd (cur s) in
  if negb ((sr_start s <=? rw) && (rw <=? sr_end s)) then Ok s else     (* outside the scrolling region: ignored *)
  let lines := if lines =? 0 then 1 else lines in
  let lines := Z.min lines (height s) in
  do t <- iter_res (Z.to_nat lines)
            (fun t => do p <- pop t (sr_end s); Ok (insert (snd p) rw (empty_line s [32]))) (term s);
  Ok (with_term s t).

(* TermCanvas.remove_lines(row=None, lines) *)
Definition remove_lines (s : st) (lines : Z) : result st :=
  let rw := snd (cur s) in
  if negb ((sr_start s <=? rw) && (rw <=? sr_end s)) then Ok s else     (* outside the scrolling region: ignored *)
  let lines := if lines =? 0 then 1 else lines in
  let lines := Z.min lines (height s) in
  do t <- iter_res (Z.to_nat lines)
            (fun t => do p <- pop t rw; Ok (insert (snd p) (sr_end s) (empty_line s [32]))) (term s);
  Ok (with_term s t).

(* for x in range(a, b): r[x] = v *)
Fixpoint set_range_n (n : nat) (r : row) (x : Z) (v : cell) : result row :=
  match n with O => Ok r | S k => do r' <- set_index r x v; set_range_n k r' (x + 1) v end.
Definition set_range (r : row) (a b : Z) (v : cell) : result row := set_range_n (Z.to_nat (b - a)) r a v.
(* for x in range(a, b): self.term[y][x] = self.empty_char() *)
Definition set_cells (s : st) (y a b : Z) : result st :=
  if b <=? a then Ok s else
  do r <- get_index (term s) y;
  do r' <- set_range r a b (empty_char s [32]);
  do t <- set_index (term s) y r';
  Ok (with_term s t).

(* TermCanvas.blank_line(row) *)
Definition blank_line (s : st) (y : Z) : result st :=
  do t <- set_index (term s) y (empty_line s [32]); Ok (with_term s t).

(* TermCanvas.decaln *)
Fixpoint decaln_n (n : nat) (s : st) (y : Z) : result st :=
  match n with
  | O => Ok s
  | S k => do t <- set_index (term s) y (empty_line s [69]); decaln_n k (with_term s t) (y + 1)
  end.
Definition decaln (s : st) : result st := decaln_n (Z.to_nat (height s)) s 0.

(* TermCanvas.erase(start, end) *)
Fixpoint erase_rows (n : nat) (s : st) (y sx sy ex ey : Z) : result st :=
  match n with
  | O => Ok s
  | S k =>
      do s' <- (if y =? sy then set_cells s y sx (width s)
                else if y =? ey then set_cells s y 0 (ex + 1)
                else blank_line s y);
      erase_rows k s' (y + 1) sx sy ex ey
  end.
Definition erase (s : st) (st_ en : Z * Z) : result st :=
  let '(sx, sy) := constrain s (fst st_) (snd st_) 1 in       (* ignore_scrolling=True *)
  let '(ex, ey) := constrain s (fst en) (snd en) 1 in
  if sy =? ey then set_cells s sy sx (ex + 1)
  else erase_rows (Z.to_nat (ey - sy + 1)) s sy sx sy ex ey.

(* ---------- SGR ---------- *)
(* running values of sgi_to_attrspec's loop: fg, bg, colors, the 'attributes' set, and the two
   side effects on self.charset / self.modes.display_ctrl *)
Record sgi_t := mkSgi { g_fg : oz; g_bg : oz; g_colors : Z; g_bold : bool; g_ul : bool; g_blink : bool; g_so : bool;
                        g_cs : charset_t; g_dc : bool;
                        g_fgi : bool; g_bgi : bool }.     (* fg_is_index, bg_is_index *)
Definition sgi_step1 (a : Z) (g : sgi_t) : sgi_t :=
  let '(mkSgi fg bg colors bold ul blink so cs dc fi bi) := g in
  if (30 <=? a) && (a <=? 37) then mkSgi (Some (a - 30)) bg (Z.max 16 colors) bold ul blink so cs dc true bi
  else if (40 <=? a) && (a <=? 47) then mkSgi fg (Some (a - 40)) (Z.max 16 colors) bold ul blink so cs dc fi true
  else if (90 <=? a) && (a <=? 97) then mkSgi (Some (a - 90 + 8)) bg (Z.max 16 colors) bold ul blink so cs dc true bi
  else if (100 <=? a) && (a <=? 107) then mkSgi fg (Some (a - 100 + 8)) (Z.max 16 colors) bold ul blink so cs dc fi true
  else if a =? 39 then mkSgi None bg colors bold ul blink so cs dc fi bi
  else if a =? 49 then mkSgi fg None colors bold ul blink so cs dc fi bi
  else if a =? 10 then (* charset.reset_sgr_ibmpc(); display_ctrl = False *)
    mkSgi fg bg colors bold ul blink so (cs_activate (set_cs_sgr cs false) (cs_active cs)) false fi bi
  else if (a =? 11) || (a =? 12) then mkSgi fg bg colors bold ul blink so (set_cs_sgr cs true) true fi bi
  else if a =? 1 then mkSgi fg bg colors true ul blink so cs dc fi bi
  else if a =? 4 then mkSgi fg bg colors bold true blink so cs dc fi bi
  else if a =? 5 then mkSgi fg bg colors bold ul true so cs dc fi bi
  else if a =? 7 then mkSgi fg bg colors bold ul blink true cs dc fi bi
  else if a =? 24 then mkSgi fg bg colors bold false blink so cs dc fi bi
  else if a =? 25 then mkSgi fg bg colors bold ul false so cs dc fi bi
  else if a =? 27 then mkSgi fg bg colors bold ul blink false cs dc fi bi
  else if a =? 0 then mkSgi None None colors false false false false cs dc fi bi
  else g.
(* fg, fg_is_index = color, idx   (or bg) *)
Definition sgi_setcolor (a c newcolors : Z) (idx : bool) (g : sgi_t) : sgi_t :=
  let '(mkSgi fg bg _ bold ul blink so cs dc fi bi) := g in
  if a =? 38 then mkSgi (Some c) bg newcolors bold ul blink so cs dc idx bi
  else mkSgi fg (Some c) newcolors bold ul blink so cs dc fi idx.
Definition rgb_color (cr cg cb : Z) : Z := Z.shiftl (Z.min cr 255) 16 + Z.shiftl (Z.min cg 255) 8 + Z.min cb 255.
Fixpoint sgi_loop (l : list Z) (g : sgi_t) : sgi_t :=
  match l with
  | [] => g
  | a :: r =>
      if (a =? 38) || (a =? 48) then
        match r with
        | b :: c :: r' =>
            (* idx + 2 < len(attrs) and attrs[idx + 1] == 5 *)
            if b =? 5 then sgi_loop r' (sgi_setcolor a (Z.min c 255) (Z.max 256 (g_colors g)) true g)
            else
              match r' with
              | cg :: cb :: r'' =>
                  (* idx + 4 < len(attrs) and attrs[idx + 1] == 2 *)
                  if b =? 2 then sgi_loop r'' (sgi_setcolor a (rgb_color c cg cb) 16777216 false g)
                  else sgi_loop r g
              | _ => sgi_loop r g
              end
        | _ => sgi_loop r g
        end
      else sgi_loop r (sgi_step1 a g)
  end.

(* _defaulter + AttrSpec(fg, bg, colors): the colour numbers are read back unchanged exactly when they
   fit the colour depth; outside that domain this model does not follow the code (OtherError) *)
Definition color_ok (c : oz) (colors : Z) : bool :=
  match c with
  | None => true
  | Some c => (0 <=? c) &&
      (if colors =? 16777216 then c <? 16777216 else if colors =? 256 then c <? 256
       else if colors =? 16 then c <? 16 else false)
  end.
Definition colors_ok (colors : Z) : bool :=
  (colors =? 1) || (colors =? 16) || (colors =? 256) || (colors =? 16777216).
Definition is_none (o : oz) : bool := match o with None => true | Some _ => false end.
Definition mk_attrspec (fg bg : oz) (colors : Z) (bold ul blink so : bool) : result (option attr) :=
  if colors_ok colors && color_ok fg colors && color_ok bg colors then
    if is_none fg && is_none bg && negb (bold || ul || blink || so) then Ok None
    else Ok (Some (mkAttr fg bg (if is_none fg && is_none bg then 1 else colors) bold ul blink so))
  else Err OtherError.

(* a true colour attrspec holds rgb values only: palette indexes are looked up in _COLOR_VALUES_256 *)
Definition palette_rgb (c : oz) (is_index : bool) : result oz :=
  match c with
  | Some n => if is_index then do v <- get_index color_values_256_gen n; Ok (Some v) else Ok (Some n)
  | None => Ok None
  end.

(* TermCanvas.sgi_to_attrspec(attrs, fg, bg, attributes, prev_colors), with its side effects *)
Definition sgi_to_attrspec (s : st) (attrs : list Z) (fg bg : oz) (bold ul blink so : bool) (prev_colors : Z)
  : result (st * option attr) :=
  let idx0 := negb (prev_colors =? 16777216) in
  let g := sgi_loop attrs (mkSgi fg bg prev_colors bold ul blink so (cset s) (m_display_ctrl (modes s)) idx0 idx0) in
  let s := with_modes (with_cset s (g_cs g)) (set_m_display_ctrl (modes s) (g_dc g)) in
  let fg := match g_fg g with
            | Some f => if g_bold g && (g_colors g =? 16) && (f <? 8) then Some (f + 8) else Some f
            | None => None
            end in
  do fb <- (if g_colors g =? 16777216 then
              do fg' <- palette_rgb fg (g_fgi g); do bg' <- palette_rgb (g_bg g) (g_bgi g); Ok (fg', bg')
            else Ok (fg, g_bg g));
  do a <- mk_attrspec (fst fb) (snd fb) (g_colors g) (g_bold g) (g_ul g) (g_blink g) (g_so g);
  Ok (s, a).

(* TermCanvas.reverse_attrspec(attrspec, undo) *)
Definition reverse_attrspec (a : option attr) (undo : bool) : attr :=
  let a := match a with None => mkAttr None None 1 false false false false | Some a => a end in
  if a_so a && undo then mkAttr (a_fg a) (a_bg a) (a_colors a) (a_bold a) (a_ul a) (a_blink a) false
  else if negb (a_so a) && negb undo then mkAttr (a_fg a) (a_bg a) (a_colors a) (a_bold a) (a_ul a) (a_blink a) true
  else a.

(* TermCanvas.csi_set_attr(attrs) *)
Definition unbright (a : attr) (c : oz) : oz :=
  match c with Some n => Some (if (8 <=? n) && (a_colors a =? 16) then n - 8 else n) | None => None end.
Definition csi_set_attr (s : st) (attrs : list Z) : result st :=
  do r <- match attrspec s with
          | None => sgi_to_attrspec s attrs None None false false false false 1
          | Some a => sgi_to_attrspec s attrs (unbright a (a_fg a)) (unbright a (a_bg a))
                        (a_bold a) (a_ul a) (a_blink a) (a_so a) (a_colors a)
          end;
  let '(s, a) := r in
  if m_reverse_video (modes s) then Ok (with_attrspec s (Some (reverse_attrspec a false)))
  else Ok (with_attrspec s a).

(* TermCanvas.reverse_video(undo): every cell of the height x width grid (outside exact dimensions the
   model does not follow the code) *)
Definition dims_ok (s : st) : bool :=
  (zlen (term s) =? height s) && forallb (fun r => zlen r =? width s) (term s).
Definition reverse_video (s : st) (undo : bool) : result st :=
  if dims_ok s then
    Ok (with_term s (map (map (fun c : cell => let '(a, cs, ch) := c in (Some (reverse_attrspec a undo), cs, ch))) (term s)))
  else Err OtherError.

(* ---------- modes, scrolling region, reports ---------- *)
(* TermCanvas.set_mode(mode, flag, qmark, reset) *)
Definition set_mode (s : st) (mode : Z) (flag qmark : bool) : result st :=
  let m := modes s in
  if qmark then
    if mode =? 1 then Ok (with_modes s (set_m_keys_decckm m flag))
    else if mode =? 3 then Ok (clear s None)
    else if mode =? 5 then
      do s <- (if Bool.eqb (m_reverse_video m) flag then Ok s else reverse_video s (negb flag));
      Ok (with_modes s (set_m_reverse_video (modes s) flag))
    else if mode =? 6 then Ok (set_term_cursor (with_rotten (with_modes s (set_m_constrain m flag)) false) 0 0)
    else if mode =? 7 then Ok (with_modes s (set_m_autowrap m flag))
    else if mode =? 25 then Ok (set_term_cursor_here (with_modes s (set_m_visible m flag)))
    else if mode =? 2004 then Ok (with_modes s (set_m_bracketed m flag))
    else Ok s
  else
    if mode =? 3 then Ok (with_modes s (set_m_display_ctrl m flag))
    else if mode =? 4 then Ok (with_modes s (set_m_insert m flag))
    else if mode =? 20 then Ok (with_modes s (set_m_lfnl m flag))
    else Ok s.

(* TermCanvas.csi_set_modes(modes, qmark, reset) *)
Fixpoint csi_set_modes (s : st) (ms : list Z) (qmark reset_ : bool) : result st :=
  match ms with
  | [] => Ok s
  | m :: r => do s' <- set_mode s m (negb reset_) qmark; csi_set_modes s' r qmark reset_
  end.

(* TermCanvas.csi_set_scroll(top, bottom) *)
Definition csi_set_scroll (s : st) (top bottom : Z) : st :=
  let top := if top =? 0 then 1 else top in
  let bottom := if bottom =? 0 then height s else bottom in
  if (top <? bottom) && (bottom <=? height s) then
    let s := with_sr_start s (snd (constrain s 0 (top - 1) 1)) in
    let s := with_sr_end s (snd (constrain s 0 (bottom - 1) 1)) in
    set_term_cursor (with_rotten s false) 0 0
  else s.

(* TermCanvas.csi_clear_tabstop(mode) *)
Definition csi_clear_tabstop (s : st) (mode : Z) : result st :=
  if mode =? 0 then set_tabstop s (fst (cur s)) true false
  else if mode =? 3 then set_tabstop s (fst (cur s)) false true
  else Ok s.

(* f"{n:d}" *)
Fixpoint dec_digits (fuel : nat) (n : Z) : list Z :=
  match fuel with
  | O => [48 + n mod 10]
  | S k => if n <? 10 then [48 + n] else dec_digits k (n / 10) ++ [48 + n mod 10]
  end.
Definition dec_str (n : Z) : list Z :=
  if n <? 0 then 45 :: dec_digits (Z.to_nat (Z.log2 (- n))) (- n) else dec_digits (Z.to_nat (Z.log2 n)) n.
Definition respond (s : st) (r : list Z) : st := with_events s (Respond r :: events s).
Definition reply_da : list Z := [27; 91; 63; 54; 99].                (* ESC [ ? 6 c *)
Definition reply_ok : list Z := [27; 91; 48; 110].                   (* ESC [ 0 n *)
Definition reply_cpr (y x : Z) : list Z := [27; 91] ++ dec_str y ++ [59] ++ dec_str x ++ [82].

(* TermCanvas.csi_get_device_attributes(qmark) *)
Definition csi_get_device_attributes (s : st) (qmark : bool) : st := if qmark then s else respond s reply_da.
(* TermCanvas.csi_status_report(mode) *)
Definition csi_status_report (s : st) (mode : Z) : st :=
  if mode =? 5 then respond s reply_ok
  else if mode =? 6 then
    (* origin mode: rows are reported relative to the top margin *)
    let y := if m_constrain (modes s) then snd (cur s) - sr_start s else snd (cur s) in
    respond s (reply_cpr (y + 1) (fst (cur s) + 1))
  else s.

(* TermCanvas.csi_erase_line(mode) *)
Definition csi_erase_line (s : st) (mode : Z) : result st :=
  let '(x, y) := cur s in
  if mode =? 0 then erase s (cur s) (width s - 1, y)
  else if mode =? 1 then erase s (0, y) (x, y)
  else if mode =? 2 then blank_line s y
  else Ok s.

(* TermCanvas.csi_erase_display(mode) *)
Definition csi_erase_display (s : st) (mode : Z) : result st :=
  do s <- (if mode =? 0 then erase s (cur s) (width s - 1, height s - 1) else Ok s);
  if mode =? 1 then erase s (0, 0) (cur s)
  else if mode =? 2 then Ok (clear s (Some (cur s)))
  else Ok s.

(* TermCanvas.csi_set_keyboard_leds(mode) *)
Definition csi_set_keyboard_leds (s : st) (mode : Z) : st :=
  if (0 <=? mode) && (mode <=? 3) then with_events s (Leds mode :: events s) else s.

(* TermCanvas.save_cursor / restore_cursor (copy.copy(self.charset) shares the _g list with the live
   charset: only _sgr_mapping, active and current are really saved) *)
Definition save_cursor (s : st) (with_attrs : bool) : st :=
  let s := with_saved_cur s (Some (cur s)) in
  if with_attrs then
    with_saved_attrs s (Some (attrspec s, (cs_sgr (cset s), cs_active (cset s), cs_current (cset s))))
  else s.
Definition restore_cursor (s : st) (with_attrs : bool) : st :=
  match saved_cur s with
  | None => s
  | Some (x, y) =>
      let s := set_term_cursor (with_rotten s false) x y in
      if with_attrs then
        match saved_attrs s with
        | Some (a, (sg, ac, cu)) =>
            with_cset (with_attrspec s a) (mkCharset (cs_g0 (cset s)) (cs_g1 (cset s)) sg ac cu)
        | None => s
        end
      else s
  end.

(* ---------- printing ---------- *)
(* TermCanvas.tab *)
Fixpoint tab_loop (fuel : nat) (s : st) (x : Z) : result (st * Z) :=
  match fuel with
  | O => Err RuntimeErrorK          (* out of fuel: never, the loop runs fewer than width times *)
  | S k =>
      if x <? width s - 1 then
        do b <- is_tabstop s (x + 1);
        if b then Ok (s, x + 1) else tab_loop k s (x + 1)
      else Ok (s, x)
  end.
Definition tab (s : st) : result st :=
  let '(x, y) := cur s in
  do p <- tab_loop (S (Z.to_nat (width s))) s x;
  Ok (set_term_cursor (with_rotten (fst p) false) (snd p) y).

(* TermCharset.apply_mapping(char) *)
Fixpoint assoc_bytes (k : list Z) (l : list (list Z * Z)) : option Z :=
  match l with [] => None | (k', v) :: r => if list_eqb k k' then Some v else assoc_bytes k r end.
Definition dec_lookup (ch : list Z) : option Z :=
  match ch with [b] => dec_special_map b | _ => assoc_bytes ch dec_special_multi end.
Definition apply_mapping (c : charset_t) (ch : list Z) : charset_t * list Z :=
  if cs_sgr c || (cs_g c (cs_active c) =? 2) then
    match dec_lookup ch with
    | Some r => (set_cs_current c 1, [r])
    | None => (set_cs_current c 2, ch)
    end
  else (c, ch).

(* TermCanvas.push_char(char, x, y)  (char is never None on the paths of addbyte) *)
Definition push_char (s : st) (ch : list Z) (x y : Z) : result st :=
  let '(c, ch) := apply_mapping (cset s) ch in
  let s := with_cset s c in
  do s <- (if m_insert (modes s) then insert_chars s (cur s) 1 (Some ch)
           else set_char s ch (fst (cur s)) (snd (cur s)));
  Ok (set_term_cursor s x y).

(* TermCanvas.push_cursor(char) *)
Definition push_cursor (s : st) (ch : list Z) : result st :=
  let '(x, y) := cur s in
  if m_autowrap (modes s) then
    if (width s <=? x + 1) && negb (rotten s) then push_char (with_rotten s true) ch x y
    else
      let x := x + 1 in
      do r <- (if (width s <=? x) && rotten s then
                 do s' <- (if y =? sr_end s then scroll s false else Ok s);
                 let y' := if y =? sr_end s then y else if y <? height s - 1 then y + 1 else y in
                 Ok (set_term_cursor s' 0 y', 1, y')
               else Ok (s, x, y));
      let '(s, x, y) := r in
      do s <- push_char s ch x y;
      (* still "rotten" if the character went into the rightmost position (one column terminal) *)
      Ok (with_rotten s (width s <=? x))
  else
    let x := if x + 1 <? width s then x + 1 else x in
    push_char (with_rotten s false) ch x y.

(* ---------- escape sequences ---------- *)
(* TermCanvas.leave_escape *)
Definition leave_escape (s : st) : st := with_escbuf (with_pstate (with_inesc s false) 0) [].

(* TermCanvas.set_g01(char, mod) *)
Definition set_g01 (s : st) (ch md : list Z) : st :=
  if negb (m_main_charset (modes s) =? charset_default_gen) then s else
  let g := if list_eqb md [40] then 0 else 1 in
  let name := if is1 ch 48 then 1 else if is1 ch 85 then 2 else if is1 ch 75 then 3 else 0 in
  with_cset s (cs_define (cset s) g name).

(* int(arg) or None on ValueError (args only hold ASCII digits; more than 4300 digits is a ValueError) *)
Fixpoint digits_val (l : list Z) (acc : Z) : option Z :=
  match l with
  | [] => Some acc
  | d :: r => if (48 <=? d) && (d <=? 57) then digits_val r (acc * 10 + (d - 48)) else None
  end.
Definition parse_int (l : list Z) : oz :=
  match l with [] => None | _ => if 4300 <? zlen l then None else digits_val l 0 end.
(* bytes.split(b";") *)
Fixpoint split59 (l cur_ : list Z) : list (list Z) :=
  match l with
  | [] => [rev cur_]
  | c :: r => if c =? 59 then rev cur_ :: split59 r [] else split59 r (c :: cur_)
  end.

(* the callbacks of CSI_COMMANDS (text checked by tools/py2v/mods/vterm_csi.py) *)
Definition arg (args : list Z) (i : nat) : Z := nth i args 0.
Definition csi_dispatch (s : st) (c : Z) (args : list Z) (q : bool) : result st :=
  let a0 := arg args 0 in
  let '(cx, cy) := cur s in
  if c =? 64 then insert_chars s (cur s) a0 None
  else if c =? 65 then Ok (move_cursor s 0 (- a0) false false true)
  else if c =? 66 then Ok (move_cursor s 0 a0 false false true)
  else if c =? 67 then Ok (move_cursor s a0 0 false false true)
  else if c =? 68 then Ok (move_cursor s (- a0) 0 false false true)
  else if c =? 69 then Ok (move_cursor s 0 a0 false true false)
  else if c =? 70 then Ok (move_cursor s 0 (- a0) false true false)
  else if c =? 71 then Ok (move_cursor s (a0 - 1) 0 false true false)
  else if c =? 72 then Ok (move_cursor s (arg args 1 - 1) (a0 - 1) false false false)
  else if c =? 74 then csi_erase_display s a0
  else if c =? 75 then csi_erase_line s a0
  else if c =? 76 then insert_lines s a0
  else if c =? 77 then remove_lines s a0
  else if c =? 80 then remove_chars s (cur s) a0
  else if c =? 88 then erase s (cur s) (cx + a0 - 1, cy)
  else if c =? 99 then Ok (csi_get_device_attributes s q)
  else if c =? 100 then Ok (move_cursor s 0 (a0 - 1) true false false)
  else if c =? 103 then csi_clear_tabstop s a0
  else if c =? 104 then csi_set_modes s args q false
  else if c =? 108 then csi_set_modes s args q true
  else if c =? 109 then csi_set_attr s args
  else if c =? 110 then Ok (csi_status_report s a0)
  else if c =? 113 then Ok (csi_set_keyboard_leds s a0)
  else if c =? 114 then Ok (csi_set_scroll s a0 (arg args 1))
  else if c =? 115 then Ok (save_cursor s false)
  else if c =? 117 then Ok (restore_cursor s false)
  else Ok s.

(* TermCanvas.parse_csi(char) *)
Definition parse_csi (s : st) (c : Z) : result st :=
  let qmark := match escbuf s with 63 :: _ => true | _ => false end in
  let raw := split59 (if qmark then tl (escbuf s) else escbuf s) [] in
  let nums := map parse_int raw in
  match csi_table c with
  | None => Err KeyErrorK
  | Some (nargs, dflt, tgt) =>
      let nums := nums ++ repeatz None (nargs - zlen nums) in
      let args := map (fun a : oz => match a with None => dflt | Some v => if v =? 0 then dflt else v end) nums in
      csi_dispatch s tgt args qmark
  end.

(* TermCanvas.parse_osc(buf) *)
Fixpoint after59 (l : list Z) : list Z := match l with [] => [] | c :: r => if c =? 59 then r else after59 r end.
Definition parse_osc (s : st) (buf : list Z) : st :=
  match buf with
  | 59 :: _ | 48 :: 59 :: _ | 50 :: 59 :: _ => with_events s (Title (after59 buf) :: events s)
  | _ => s
  end.

(* TermCanvas.parse_noncsi(char, mod) *)
Definition parse_noncsi (s : st) (ch md : list Z) : result st :=
  if list_eqb md [35] && is1 ch 56 then decaln s
  else if list_eqb md [37] then
    if is1 ch 64 then Ok (with_modes s (set_m_main_charset (modes s) charset_default_gen))
    else if in1 ch [71; 56] then Ok (with_modes s (set_m_main_charset (modes s) charset_utf8_gen))
    else Ok s
  else if list_eqb md [40] || list_eqb md [41] then Ok (set_g01 s ch md)
  else if is1 ch 77 then linefeed s true
  else if is1 ch 68 then linefeed s false
  else if is1 ch 99 then Ok (reset s)
  else if is1 ch 69 then newline s
  else if is1 ch 72 then set_tabstop s (fst (cur s)) false false
  else if is1 ch 90 then Ok (respond s reply_da)
  else if is1 ch 55 then Ok (save_cursor s true)
  else if is1 ch 56 then Ok (restore_cursor s true)
  else Ok s.

(* TermCanvas.parse_escape(char) *)
Definition parse_escape (s : st) (ch : list Z) : result st :=
  let ps := pstate s in
  if ps =? 1 then
    match ch with
    | [c] =>
        match csi_table c with
        | Some _ => do s' <- parse_csi s c; Ok (leave_escape (with_pstate s' 0))
        | None =>
            if memz c [48; 49; 50; 51; 52; 53; 54; 55; 56; 57; 59] || (match escbuf s with [] => c =? 63 | _ => false end)
            then Ok (with_escbuf s (escbuf s ++ ch))
            else Ok (leave_escape s)
        end
    | _ => Ok (leave_escape s)
    end
  else if (ps =? 0) && is1 ch 93 then Ok (with_pstate (with_escbuf s []) 2)
  else if (ps =? 2) && is1 ch 7 then Ok (leave_escape (parse_osc s (lstrip0 (escbuf s))))
  else if (ps =? 2) && list_eqb (last_opt (escbuf s) ++ ch) [27; 92]
       then Ok (leave_escape (parse_osc s (lstrip0 (removelast (escbuf s)))))
  else if (ps =? 2) && (match escbuf s with 80 :: _ => true | _ => false end) && (zlen (escbuf s) =? 8)
       then Ok (leave_escape s)
  else if (ps =? 2) && (match escbuf s with [] => true | _ => false end) && is1 ch 82 then Ok (leave_escape s)
  else if ps =? 2 then Ok (with_escbuf s (escbuf s ++ ch))
  else if (ps =? 0) && is1 ch 91 then Ok (with_pstate (with_escbuf s []) 1)
  else if (ps =? 0) && in1 ch [37; 35; 40; 41] then Ok (with_pstate (with_escbuf s ch) 3)
  else if ps =? 3 then do s' <- parse_noncsi s ch (escbuf s); Ok (leave_escape s')
  else if in1 ch [99; 68; 69; 72; 77; 90; 55; 56; 62; 61] then do s' <- parse_noncsi s ch []; Ok (leave_escape s')
  else Ok (leave_escape s).

(* TermCanvas.process_char(char) *)
Definition process_char (s : st) (ch : list Z) : result st :=
  let '(x, y) := cur s in
  let dc := m_display_ctrl (modes s) in
  let ndc := negb dc in
  if is1 ch 27 && negb (pstate s =? 2) then Ok (with_inesc s true)
  else if ndc && is1 ch 13 then Ok (carriage_return s)
  else if ndc && is1 ch 15 then Ok (with_cset s (cs_activate (cset s) 0))
  else if ndc && is1 ch 14 then Ok (with_cset s (cs_activate (cset s) 1))
  else if ndc && in1 ch [10; 11; 12] then
    do s' <- linefeed s false;
    if m_lfnl (modes s') then Ok (carriage_return s') else Ok s'
  else if ndc && is1 ch 9 then tab s
  else if ndc && is1 ch 8 then
    (let s := with_rotten s false in if 0 <? x then Ok (set_term_cursor s (x - 1) y) else Ok s)
  else if ndc && is1 ch 7 && negb (pstate s =? 2) then Ok (with_events s (Beep :: events s))
  else if ndc && in1 ch [24; 26] then Ok (leave_escape s)
  else if ndc && in1 ch [0; 127] then Ok s
  else if inesc s then parse_escape s ch
  else if ndc && is1 ch 155 then Ok (with_pstate (with_escbuf (with_inesc s true) []) 1)
  else push_cursor s ch.

(* TermCanvas.get_utf8_len(bytenum): the number of 1 bits below bit 7 before the first 0 bit
   (bytenum is not masked to 8 bits by the shifts, so 0xFF gives 7) *)
Fixpoint utf8_len_n (n : nat) (b : Z) (i : Z) : Z :=
  match n with O => 0 | S k => if Z.testbit b i then 1 + utf8_len_n k b (i - 1) else 0 end.
Definition get_utf8_len (b : Z) : Z := utf8_len_n 7 b 6.

(* (utf8_buffer + bytes([byte])).decode("utf-8", "ignore") is one character or "": here the buffer is a
   start byte >= 0xC0 followed by exactly get_utf8_len(start) continuation bytes *)
Definition utf8_one_char (buf : list Z) : bool :=
  match buf with
  | b0 :: b1 :: _ =>
      ((194 <=? b0) && (b0 <=? 223))
      || ((224 <=? b0) && (b0 <=? 239) && (negb (b0 =? 224) || (160 <=? b1)) && (negb (b0 =? 237) || (b1 <=? 159)))
      || ((240 <=? b0) && (b0 <=? 244) && (negb (b0 =? 240) || (144 <=? b1)) && (negb (b0 =? 244) || (b1 <=? 143)))
  | _ => false
  end.

(* TermCanvas.addbyte(byte) *)
Definition addbyte (s : st) (b : Z) : result st :=
  if (m_main_charset (modes s) =? charset_utf8_gen) || (enc s =? 0) then
    if 192 <=? b then Ok (with_u8buf (with_u8eat s (Some (get_utf8_len b))) [b])
    else
      match u8eat s with
      | Some n =>
          if (128 <=? b) && (b <? 192) then
            if 1 <? n then Ok (with_u8buf (with_u8eat s (Some (n - 1))) (u8buf s ++ [b]))
            else
              let s := with_u8eat s None in
              let sq := u8buf s ++ [b] in
              if utf8_one_char sq then process_char s (if enc s =? 2 then [63] else sq)
              else Ok s
          else process_char (with_u8eat s None) [b]
      | None => process_char (with_u8eat s None) [b]
      end
  else process_char s [b].

(* TermCanvas.addstr(data) *)
Fixpoint addbytes (s : st) (l : list Z) : result st :=
  match l with [] => Ok s | b :: r => do s' <- addbyte s b; addbytes s' r end.
Definition addstr (s : st) (data : list Z) : result st :=
  if (width s <=? 0) || (height s <=? 0) then Ok s else addbytes s data.

(* ---------- resize, view ---------- *)
(* the "grow" loop of resize: for _y in range(self.height, height) *)
Fixpoint resize_grow (n : nat) (s : st) : st :=
  match n with
  | O => s
  | S k =>
      match rev (sb s) with
      | [] => resize_grow k (with_sr_end (with_term s (term s ++ [empty_line s [32]])) (sr_end s + 1))
      | last_line :: rest =>
          let s := with_sb s (rev rest) in
          let padding := width s - zlen last_line in
          let line := if 0 <? padding then last_line ++ repeatz (empty_char s [32]) padding
                      else takez (width s) last_line in
          resize_grow k (with_term s (insert (term s) 0 line))
      end
  end.
(* the "shrink" loop: for _y in range(height, self.height): scrollback.append(term.pop(0)) *)
Fixpoint resize_shrink (n : nat) (s : st) : result st :=
  match n with
  | O => Ok s
  | S k => do p <- pop (term s) 0; resize_shrink k (with_term (sb_append s (fst p)) (snd p))
  end.

(* TermCanvas.resize(width, height) *)
Definition resize (s : st) (w h : Z) : result st :=
  let '(x, y) := cur s in
  (* both width loops rebind y: "for y in range(self.height)" *)
  let y := if (negb (w =? width s)) && (0 <? height s) then height s - 1 else y in
  do t <- (if width s <? w then
             if zlen (term s) <? height s then Err IndexError else
             Ok (map (fun r => r ++ repeatz (empty_char s [32]) (w - width s)) (takez (height s) (term s))
                 ++ dropz (height s) (term s))
           else if w <? width s then
             if zlen (term s) <? height s then Err IndexError else
             Ok (map (fun r => takez (Z.max 0 w) r) (takez (height s) (term s)) ++ dropz (height s) (term s))
           else Ok (term s));
  let s := with_width (with_term s t) w in
  do s <- (if height s <? h then Ok (resize_grow (Z.to_nat (h - height s)) s)
           else if h <? height s then resize_shrink (Z.to_nat (height s - h)) s
           else Ok s);
  let s := with_height s h in
  let s := with_sup s (Z.min (sup s) (zlen (sb s))) in      (* lines may have been taken back from the scrollback *)
  let s := reset_scroll s in
  let '(x, y) := constrain s x y 0 in
  let s := set_term_cursor s x y in
  Ok (init_tabstops s true).

(* TermCanvas.content() *)
(* scrollback lines keep the width they had when they were scrolled out: padded / cut to the current width *)
Definition fit_line (s : st) (line : row) : row :=
  let padding := width s - zlen line in
  if 0 <? padding then line ++ repeatz (empty_char s [32]) padding else takez (width s) line.
Definition content (s : st) : list row :=
  if sup s =? 0 then term s else
  let buf := sb s ++ term s in
  let '(a, b, _) := slice_indices (zlen buf) (Some (- (height s + sup s))) (Some (- sup s)) None in
  map (fit_line s) (takez (b - a) (dropz a buf)).

(* Terminal.change_focus's effect on the canvas *)
Definition set_focus (s : st) (f : bool) : st := set_term_cursor_here (with_has_focus s f).

(* ---------- operations of a session and the wire format ---------- *)
Inductive op :=
  | Feed (data : list Z)                       (* Terminal.feed -> TermCanvas.addstr *)
  | Resize (w h : Z)                           (* Terminal.touch_term -> TermCanvas.resize *)
  | ScrollBuf (up : bool) (lines : oz)         (* 'page up' / 'page down' -> scroll_buffer *)
  | ScrollReset                                (* any other key -> scroll_buffer(reset=True) *)
  | Focus (f : bool).                          (* Terminal.change_focus *)

Definition step (s : st) (o : op) : result st :=
  match o with
  | Feed d => addstr s d
  | Resize w h => resize s w h
  | ScrollBuf up lines => Ok (scroll_buffer s up false lines)
  | ScrollReset => Ok (scroll_buffer s true true None)
  | Focus f => Ok (set_focus s f)
  end.

Fixpoint run (s : st) (ops : list op) : result st :=
  match ops with [] => Ok s | o :: r => do s' <- step s o; run s' r end.

(* case  = enc w h nops op*     op = 1 n byte* | 2 w h | 3 up haslines lines | 4 | 5 f
   reply = per op: 0 summary(13 ints) ... ; on an exception: errcode index and nothing more;
           then -1 and the final snapshot *)
Definition dec_op (l : list Z) : option (op * list Z) :=
  match l with
  | 1 :: r => match dec_list r with Some (d, r') => Some (Feed d, r') | None => None end
  | 2 :: w :: h :: r => Some (Resize w h, r)
  | 3 :: up :: hl :: n :: r => Some (ScrollBuf (negb (up =? 0)) (if hl =? 0 then None else Some n), r)
  | 4 :: r => Some (ScrollReset, r)
  | 5 :: f :: r => Some (Focus (negb (f =? 0)), r)
  | _ => None
  end.
Fixpoint dec_ops (fuel : nat) (l : list Z) : list op :=
  match fuel with
  | O => []
  | S k => match dec_op l with Some (o, r) => o :: dec_ops k r | None => [] end
  end.

Definition enc_pair (o : option (Z * Z)) : list Z := match o with None => [0; 0; 0] | Some (a, b) => [1; a; b] end.
Definition enc_attr (a : option attr) : list Z :=
  match a with
  | None => [0]
  | Some a => [1] ++ enc_oz (a_fg a) ++ enc_oz (a_bg a)
              ++ [a_colors a; enc_bool (a_bold a); enc_bool (a_ul a); enc_bool (a_blink a); enc_bool (a_so a)]
  end.
Definition enc_cell (c : cell) : list Z := let '(a, cs, ch) := c in enc_attr a ++ [cs] ++ enc_list ch.
Definition enc_row (r : row) : list Z := zlen r :: flat_map enc_cell r.
Definition enc_rows (l : list row) : list Z := zlen l :: flat_map enc_row l.
Definition enc_event (e : event) : list Z :=
  match e with
  | Respond r => 1 :: enc_list r
  | Title t => 2 :: enc_list t
  | Beep => [3]
  | Leds n => [4; n]
  end.
Definition enc_modes (m : modes_t) : list Z :=
  [enc_bool (m_display_ctrl m); enc_bool (m_insert m); enc_bool (m_lfnl m); enc_bool (m_keys_decckm m);
   enc_bool (m_reverse_video m); enc_bool (m_constrain m); enc_bool (m_autowrap m); enc_bool (m_visible m);
   enc_bool (m_bracketed m); m_main_charset m].
Definition enc_charset (c : charset_t) : list Z := [cs_g0 c; cs_g1 c; enc_bool (cs_sgr c); cs_active c; cs_current c].

Definition minmax_len (l : list row) : Z * Z :=
  match l with
  | [] => (0, 0)
  | r :: rest => fold_left (fun acc r => (Z.min (fst acc) (zlen r), Z.max (snd acc) (zlen r))) rest (zlen r, zlen r)
  end.
Definition summary (s : st) : list Z :=
  let c := content s in
  let '(mn, mx) := minmax_len c in
  [zlen c; mn; mx] ++ enc_pair (cursor s) ++ [fst (cur s); snd (cur s); sr_start s; sr_end s; width s; height s;
   zlen (term s)].
Definition snapshot (s : st) : list Z :=
  [width s; height s] ++ enc_rows (term s) ++ [fst (cur s); snd (cur s)] ++ enc_pair (cursor s)
  ++ [enc_bool (has_focus s)] ++ enc_rows (sb s) ++ [sup s] ++ enc_oz (u8eat s) ++ enc_list (u8buf s)
  ++ enc_list (escbuf s) ++ [enc_bool (inesc s); pstate s] ++ enc_attr (attrspec s) ++ enc_charset (cset s)
  ++ enc_pair (saved_cur s)
  ++ (match saved_attrs s with
      | None => [0]
      | Some (a, (sg, ac, cu)) => [1] ++ enc_attr a ++ [enc_bool sg; ac; cu]
      end)
  ++ [enc_bool (rotten s); sr_start s; sr_end s] ++ enc_list (tabstops s) ++ enc_modes (modes s)
  ++ (zlen (events s) :: flat_map enc_event (rev (events s)))
  ++ enc_rows (content s).

Fixpoint run_trace (s : st) (ops : list op) (i : Z) : list Z :=
  match ops with
  | [] => -1 :: snapshot s
  | o :: r =>
      match step s o with
      | Ok s' => 0 :: summary s' ++ run_trace s' r (i + 1)
      | Err e => [errcode e; i]
      end
  end.

Definition run_vterm (l : list Z) : list Z :=
  match l with
  | e :: w :: h :: r => run_trace (init w h e) (dec_ops (length r) r) 0
  | _ => [-2]
  end.
