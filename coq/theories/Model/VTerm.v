(* C15 - executable model of urwid/vterm.py : class TermCanvas (the terminal emulator proper).
   Hand model, mirrored function by function from the Python source (the Python name is given above
   each definition); tied to the code by the extracted-model correspondence of harness/props/c15.py.
   The CSI table, constrain_coords, the DEC special-character map and a few constants come from
   Gen/vterm_csi_gen.v (re-translated from the source on every run).
   NO proofs in this file.

   Conventions
   - bytes objects are lists of byte values; a screen character is the bytes object stored in the cell
   - charset names: default/vt100/ibmpc/user = 0/1/2/3 ; charset.current: None/"0"/"U" = 0/1/2
   - AttrSpec is modelled by the numbers vterm.py reads back from it (see [attr]); the construction
     fails ([Err OtherError]) outside the domain on which that reading is exact - the theorems show the
     emulator never leaves it
   - util.get_encoding(): enc = 0 "utf8" | 1 "utf-8" | 2 "ascii"  (the three the harness exercises)
   - exceptions are [Err kind]; Python list indexing/insert/pop are the PyList functions *)
From Coq Require Import ZArith List Bool.
Import ListNotations.
From Urwid Require Import PyBase PyList vterm_csi_gen.
Open Scope Z_scope.

Notation "'do' x <- a ; b" := (bind a (fun x => b)) (at level 200, x name, a at level 100, b at level 200).

(* ---------- data ---------- *)
(* what vterm.py can read back from an AttrSpec it built: "default" in foreground / foreground_number,
   the same for the background, .colors (derived: 1 when both colours are default), the four settings *)
Record attr := mkAttr { a_fg : oz; a_bg : oz; a_colors : Z; a_bold : bool; a_ul : bool; a_blink : bool; a_so : bool }.
Definition cell := (option attr * Z * list Z)%type.      (* (attrspec, charset.current, char) *)
Definition row := list cell.
(* calls into the widget, in order *)
Inductive event := Respond (s : list Z) | Title (t : list Z) | Beep | Leds (n : Z).

Record modes_t := mkModes {
  m_display_ctrl : bool;
  m_insert : bool;
  m_lfnl : bool;
  m_keys_decckm : bool;
  m_reverse_video : bool;
  m_constrain : bool;
  m_autowrap : bool;
  m_visible : bool;
  m_bracketed : bool;
  m_main_charset : Z
}.
Definition set_m_display_ctrl (s : modes_t) (v : bool) : modes_t := mkModes v (m_insert s) (m_lfnl s) (m_keys_decckm s) (m_reverse_video s) (m_constrain s) (m_autowrap s) (m_visible s) (m_bracketed s) (m_main_charset s).
Definition set_m_insert (s : modes_t) (v : bool) : modes_t := mkModes (m_display_ctrl s) v (m_lfnl s) (m_keys_decckm s) (m_reverse_video s) (m_constrain s) (m_autowrap s) (m_visible s) (m_bracketed s) (m_main_charset s).
Definition set_m_lfnl (s : modes_t) (v : bool) : modes_t := mkModes (m_display_ctrl s) (m_insert s) v (m_keys_decckm s) (m_reverse_video s) (m_constrain s) (m_autowrap s) (m_visible s) (m_bracketed s) (m_main_charset s).
Definition set_m_keys_decckm (s : modes_t) (v : bool) : modes_t := mkModes (m_display_ctrl s) (m_insert s) (m_lfnl s) v (m_reverse_video s) (m_constrain s) (m_autowrap s) (m_visible s) (m_bracketed s) (m_main_charset s).
Definition set_m_reverse_video (s : modes_t) (v : bool) : modes_t := mkModes (m_display_ctrl s) (m_insert s) (m_lfnl s) (m_keys_decckm s) v (m_constrain s) (m_autowrap s) (m_visible s) (m_bracketed s) (m_main_charset s).
Definition set_m_constrain (s : modes_t) (v : bool) : modes_t := mkModes (m_display_ctrl s) (m_insert s) (m_lfnl s) (m_keys_decckm s) (m_reverse_video s) v (m_autowrap s) (m_visible s) (m_bracketed s) (m_main_charset s).
Definition set_m_autowrap (s : modes_t) (v : bool) : modes_t := mkModes (m_display_ctrl s) (m_insert s) (m_lfnl s) (m_keys_decckm s) (m_reverse_video s) (m_constrain s) v (m_visible s) (m_bracketed s) (m_main_charset s).
Definition set_m_visible (s : modes_t) (v : bool) : modes_t := mkModes (m_display_ctrl s) (m_insert s) (m_lfnl s) (m_keys_decckm s) (m_reverse_video s) (m_constrain s) (m_autowrap s) v (m_bracketed s) (m_main_charset s).
Definition set_m_bracketed (s : modes_t) (v : bool) : modes_t := mkModes (m_display_ctrl s) (m_insert s) (m_lfnl s) (m_keys_decckm s) (m_reverse_video s) (m_constrain s) (m_autowrap s) (m_visible s) v (m_main_charset s).
Definition set_m_main_charset (s : modes_t) (v : Z) : modes_t := mkModes (m_display_ctrl s) (m_insert s) (m_lfnl s) (m_keys_decckm s) (m_reverse_video s) (m_constrain s) (m_autowrap s) (m_visible s) (m_bracketed s) v.

Record charset_t := mkCharset {
  cs_g0 : Z;
  cs_g1 : Z;
  cs_sgr : bool;
  cs_active : Z;
  cs_current : Z
}.
Definition set_cs_g0 (s : charset_t) (v : Z) : charset_t := mkCharset v (cs_g1 s) (cs_sgr s) (cs_active s) (cs_current s).
Definition set_cs_g1 (s : charset_t) (v : Z) : charset_t := mkCharset (cs_g0 s) v (cs_sgr s) (cs_active s) (cs_current s).
Definition set_cs_sgr (s : charset_t) (v : bool) : charset_t := mkCharset (cs_g0 s) (cs_g1 s) v (cs_active s) (cs_current s).
Definition set_cs_active (s : charset_t) (v : Z) : charset_t := mkCharset (cs_g0 s) (cs_g1 s) (cs_sgr s) v (cs_current s).
Definition set_cs_current (s : charset_t) (v : Z) : charset_t := mkCharset (cs_g0 s) (cs_g1 s) (cs_sgr s) (cs_active s) v.

Record st := mkSt {
  width : Z;
  height : Z;
  term : list row;
  cur : Z * Z;
  cursor : option (Z * Z);
  has_focus : bool;
  sb : list row;
  sup : Z;
  u8eat : oz;
  u8buf : list Z;
  escbuf : list Z;
  inesc : bool;
  pstate : Z;
  attrspec : option attr;
  cset : charset_t;
  saved_cur : option (Z * Z);
  saved_attrs : option (option attr * (bool * Z * Z));
  rotten : bool;
  sr_start : Z;
  sr_end : Z;
  tabstops : list Z;
  modes : modes_t;
  events : list event;
  enc : Z
}.
Definition with_width (s : st) (v : Z) : st := mkSt v (height s) (term s) (cur s) (cursor s) (has_focus s) (sb s) (sup s) (u8eat s) (u8buf s) (escbuf s) (inesc s) (pstate s) (attrspec s) (cset s) (saved_cur s) (saved_attrs s) (rotten s) (sr_start s) (sr_end s) (tabstops s) (modes s) (events s) (enc s).
Definition with_height (s : st) (v : Z) : st := mkSt (width s) v (term s) (cur s) (cursor s) (has_focus s) (sb s) (sup s) (u8eat s) (u8buf s) (escbuf s) (inesc s) (pstate s) (attrspec s) (cset s) (saved_cur s) (saved_attrs s) (rotten s) (sr_start s) (sr_end s) (tabstops s) (modes s) (events s) (enc s).
Definition with_term (s : st) (v : list row) : st := mkSt (width s) (height s) v (cur s) (cursor s) (has_focus s) (sb s) (sup s) (u8eat s) (u8buf s) (escbuf s) (inesc s) (pstate s) (attrspec s) (cset s) (saved_cur s) (saved_attrs s) (rotten s) (sr_start s) (sr_end s) (tabstops s) (modes s) (events s) (enc s).
Definition with_cur (s : st) (v : Z * Z) : st := mkSt (width s) (height s) (term s) v (cursor s) (has_focus s) (sb s) (sup s) (u8eat s) (u8buf s) (escbuf s) (inesc s) (pstate s) (attrspec s) (cset s) (saved_cur s) (saved_attrs s) (rotten s) (sr_start s) (sr_end s) (tabstops s) (modes s) (events s) (enc s).
Definition with_cursor (s : st) (v : option (Z * Z)) : st := mkSt (width s) (height s) (term s) (cur s) v (has_focus s) (sb s) (sup s) (u8eat s) (u8buf s) (escbuf s) (inesc s) (pstate s) (attrspec s) (cset s) (saved_cur s) (saved_attrs s) (rotten s) (sr_start s) (sr_end s) (tabstops s) (modes s) (events s) (enc s).
Definition with_has_focus (s : st) (v : bool) : st := mkSt (width s) (height s) (term s) (cur s) (cursor s) v (sb s) (sup s) (u8eat s) (u8buf s) (escbuf s) (inesc s) (pstate s) (attrspec s) (cset s) (saved_cur s) (saved_attrs s) (rotten s) (sr_start s) (sr_end s) (tabstops s) (modes s) (events s) (enc s).
Definition with_sb (s : st) (v : list row) : st := mkSt (width s) (height s) (term s) (cur s) (cursor s) (has_focus s) v (sup s) (u8eat s) (u8buf s) (escbuf s) (inesc s) (pstate s) (attrspec s) (cset s) (saved_cur s) (saved_attrs s) (rotten s) (sr_start s) (sr_end s) (tabstops s) (modes s) (events s) (enc s).
Definition with_sup (s : st) (v : Z) : st := mkSt (width s) (height s) (term s) (cur s) (cursor s) (has_focus s) (sb s) v (u8eat s) (u8buf s) (escbuf s) (inesc s) (pstate s) (attrspec s) (cset s) (saved_cur s) (saved_attrs s) (rotten s) (sr_start s) (sr_end s) (tabstops s) (modes s) (events s) (enc s).
Definition with_u8eat (s : st) (v : oz) : st := mkSt (width s) (height s) (term s) (cur s) (cursor s) (has_focus s) (sb s) (sup s) v (u8buf s) (escbuf s) (inesc s) (pstate s) (attrspec s) (cset s) (saved_cur s) (saved_attrs s) (rotten s) (sr_start s) (sr_end s) (tabstops s) (modes s) (events s) (enc s).
Definition with_u8buf (s : st) (v : list Z) : st := mkSt (width s) (height s) (term s) (cur s) (cursor s) (has_focus s) (sb s) (sup s) (u8eat s) v (escbuf s) (inesc s) (pstate s) (attrspec s) (cset s) (saved_cur s) (saved_attrs s) (rotten s) (sr_start s) (sr_end s) (tabstops s) (modes s) (events s) (enc s).
Definition with_escbuf (s : st) (v : list Z) : st := mkSt (width s) (height s) (term s) (cur s) (cursor s) (has_focus s) (sb s) (sup s) (u8eat s) (u8buf s) v (inesc s) (pstate s) (attrspec s) (cset s) (saved_cur s) (saved_attrs s) (rotten s) (sr_start s) (sr_end s) (tabstops s) (modes s) (events s) (enc s).
Definition with_inesc (s : st) (v : bool) : st := mkSt (width s) (height s) (term s) (cur s) (cursor s) (has_focus s) (sb s) (sup s) (u8eat s) (u8buf s) (escbuf s) v (pstate s) (attrspec s) (cset s) (saved_cur s) (saved_attrs s) (rotten s) (sr_start s) (sr_end s) (tabstops s) (modes s) (events s) (enc s).
Definition with_pstate (s : st) (v : Z) : st := mkSt (width s) (height s) (term s) (cur s) (cursor s) (has_focus s) (sb s) (sup s) (u8eat s) (u8buf s) (escbuf s) (inesc s) v (attrspec s) (cset s) (saved_cur s) (saved_attrs s) (rotten s) (sr_start s) (sr_end s) (tabstops s) (modes s) (events s) (enc s).
Definition with_attrspec (s : st) (v : option attr) : st := mkSt (width s) (height s) (term s) (cur s) (cursor s) (has_focus s) (sb s) (sup s) (u8eat s) (u8buf s) (escbuf s) (inesc s) (pstate s) v (cset s) (saved_cur s) (saved_attrs s) (rotten s) (sr_start s) (sr_end s) (tabstops s) (modes s) (events s) (enc s).
Definition with_cset (s : st) (v : charset_t) : st := mkSt (width s) (height s) (term s) (cur s) (cursor s) (has_focus s) (sb s) (sup s) (u8eat s) (u8buf s) (escbuf s) (inesc s) (pstate s) (attrspec s) v (saved_cur s) (saved_attrs s) (rotten s) (sr_start s) (sr_end s) (tabstops s) (modes s) (events s) (enc s).
Definition with_saved_cur (s : st) (v : option (Z * Z)) : st := mkSt (width s) (height s) (term s) (cur s) (cursor s) (has_focus s) (sb s) (sup s) (u8eat s) (u8buf s) (escbuf s) (inesc s) (pstate s) (attrspec s) (cset s) v (saved_attrs s) (rotten s) (sr_start s) (sr_end s) (tabstops s) (modes s) (events s) (enc s).
Definition with_saved_attrs (s : st) (v : option (option attr * (bool * Z * Z))) : st := mkSt (width s) (height s) (term s) (cur s) (cursor s) (has_focus s) (sb s) (sup s) (u8eat s) (u8buf s) (escbuf s) (inesc s) (pstate s) (attrspec s) (cset s) (saved_cur s) v (rotten s) (sr_start s) (sr_end s) (tabstops s) (modes s) (events s) (enc s).
Definition with_rotten (s : st) (v : bool) : st := mkSt (width s) (height s) (term s) (cur s) (cursor s) (has_focus s) (sb s) (sup s) (u8eat s) (u8buf s) (escbuf s) (inesc s) (pstate s) (attrspec s) (cset s) (saved_cur s) (saved_attrs s) v (sr_start s) (sr_end s) (tabstops s) (modes s) (events s) (enc s).
Definition with_sr_start (s : st) (v : Z) : st := mkSt (width s) (height s) (term s) (cur s) (cursor s) (has_focus s) (sb s) (sup s) (u8eat s) (u8buf s) (escbuf s) (inesc s) (pstate s) (attrspec s) (cset s) (saved_cur s) (saved_attrs s) (rotten s) v (sr_end s) (tabstops s) (modes s) (events s) (enc s).
Definition with_sr_end (s : st) (v : Z) : st := mkSt (width s) (height s) (term s) (cur s) (cursor s) (has_focus s) (sb s) (sup s) (u8eat s) (u8buf s) (escbuf s) (inesc s) (pstate s) (attrspec s) (cset s) (saved_cur s) (saved_attrs s) (rotten s) (sr_start s) v (tabstops s) (modes s) (events s) (enc s).
Definition with_tabstops (s : st) (v : list Z) : st := mkSt (width s) (height s) (term s) (cur s) (cursor s) (has_focus s) (sb s) (sup s) (u8eat s) (u8buf s) (escbuf s) (inesc s) (pstate s) (attrspec s) (cset s) (saved_cur s) (saved_attrs s) (rotten s) (sr_start s) (sr_end s) v (modes s) (events s) (enc s).
Definition with_modes (s : st) (v : modes_t) : st := mkSt (width s) (height s) (term s) (cur s) (cursor s) (has_focus s) (sb s) (sup s) (u8eat s) (u8buf s) (escbuf s) (inesc s) (pstate s) (attrspec s) (cset s) (saved_cur s) (saved_attrs s) (rotten s) (sr_start s) (sr_end s) (tabstops s) v (events s) (enc s).
Definition with_events (s : st) (v : list event) : st := mkSt (width s) (height s) (term s) (cur s) (cursor s) (has_focus s) (sb s) (sup s) (u8eat s) (u8buf s) (escbuf s) (inesc s) (pstate s) (attrspec s) (cset s) (saved_cur s) (saved_attrs s) (rotten s) (sr_start s) (sr_end s) (tabstops s) (modes s) v (enc s).
Definition with_enc (s : st) (v : Z) : st := mkSt (width s) (height s) (term s) (cur s) (cursor s) (has_focus s) (sb s) (sup s) (u8eat s) (u8buf s) (escbuf s) (inesc s) (pstate s) (attrspec s) (cset s) (saved_cur s) (saved_attrs s) (rotten s) (sr_start s) (sr_end s) (tabstops s) (modes s) (events s) v.
