(* Executable model of urwid.widget.monitored_list.MonitoredFocusList.
   The focus arithmetic is NOT written here: it is [adjust_focus_gen], regenerated from
   /repo on every run by tools/py2v.  The wiring of each overridden method around it
   (compute focus -> list operation -> modified callback -> focus setter) is written by
   hand, line for line, and validated by the correspondence check (harness/props/c16.py).
   Items are integers standing for object identities (and sort keys).  No proofs here. *)
From Coq Require Import ZArith List Bool Lia.
Import ListNotations.
From Urwid Require Import PyBase PyList monitored_list_gen.
Open Scope Z_scope.

Record state := St { items : list Z; focus_raw : Z }.

Inductive op :=
  | DelItem (i : Z)
  | SetItem (i : Z) (x : Z)
  | DelSlice (a b st : oz)
  | SetSlice (a b st : oz) (xs : list Z)
  | Insert (i : Z) (x : Z)
  | Append (x : Z)
  | Extend (xs : list Z)
  | Pop (i : Z)
  | Remove (x : Z)
  | Reverse
  | Sort (rv : bool)
  | IAdd (xs : list Z)
  | IMul (n : Z)
  | Clear
  | SetFocus (i : Z).

Inductive event := Modified | FocusChanged (n : Z).

(* outcome of one call: the exception that left the call (if any) and the callbacks fired *)
Record out := Out { o_err : option errkind; o_events : list event }.

(* the [focus] property *)
Definition focus (s : state) : option Z :=
  match items s with [] => None | _ => Some (focus_raw s) end.

(* the focus setter, applied to a list that has already been modified *)
Definition set_focus (its : list Z) (old_raw : Z) (index : Z) (evs : list event) : state * out :=
  match its with
  | [] => (St its 0, Out None evs)
  | _ =>
    if (index <? 0) || (zlen its <=? index) then (St its old_raw, Out (Some IndexError) evs)
    else if negb (index =? old_raw) then (St its index, Out None (evs ++ [FocusChanged index]))
    else (St its index, Out None evs)
  end.

Definition fail (s : state) (e : errkind) : state * out := (s, Out (Some e) []).

(* y + 1 or None *)
Definition succ_or_none (y : Z) : oz := if y + 1 =? 0 then None else Some (y + 1).

(* the common tail of every overridden mutator: [focus] was computed before the list
   operation; the list operation either raised (nothing happened) or produced [its'] and
   called the modified callback; then the focus setter runs *)
Definition finish (s : state) (focus' : Z) (r : result (list Z)) : state * out :=
  match r with
  | Err e => fail s e
  | Ok its' => set_focus its' (focus_raw s) focus' [Modified]
  end.

Definition step (s : state) (o : op) : state * out :=
  let l := items s in
  let n := zlen l in
  let f := focus_raw s in
  match o with
  | DelItem y =>
      finish s (adjust_focus_gen n f (Some y) (succ_or_none y) None 0) (del_index l y)
  | SetItem i x =>
      finish s (adjust_focus_gen n f (Some i) (succ_or_none i) None 1) (set_index l i x)
  | DelSlice a b st =>
      if step_is_zero st then fail s ValueError
      else finish s (adjust_focus_gen n f a b st 0) (del_slice l a b st)
  | SetSlice a b st xs =>
      if step_is_zero st then fail s ValueError
      else finish s (adjust_focus_gen n f a b st (zlen xs)) (set_slice l a b st xs)
  | Insert i x =>
      finish s (adjust_focus_gen n f (Some i) (Some i) None 1) (Ok (insert l i x))
  | Append x =>
      finish s (adjust_focus_gen n f (Some n) (Some n) None 1) (Ok (l ++ [x]))
  | Extend xs =>
      finish s (adjust_focus_gen n f (Some n) (Some n) None (zlen xs)) (Ok (l ++ xs))
  | Pop i =>
      finish s (adjust_focus_gen n f (Some i) (succ_or_none i) None 0)
             (match pop l i with Ok (_, l') => Ok l' | Err e => Err e end)
  | Remove x =>
      match index_of l x with
      | None => fail s ValueError
      | Some j => finish s (adjust_focus_gen n f (Some j) (succ_or_none j) None 0) (remove_val l x)
      end
  | Reverse =>
      set_focus (rev l) f (Z.max 0 (n - f - 1)) [Modified]
  | Sort rv =>
      match l with
      | [] => (s, Out None [])
      | _ =>
        match nthz l f with
        | None => fail s IndexError
        | Some v =>
          let l' := sort_list rv l in
          match index_of l' v with
          | None => (St l' f, Out (Some ValueError) [Modified])
          | Some j => set_focus l' f j [Modified]
          end
        end
      end
  | IAdd xs => (St (l ++ xs) f, Out None [Modified])      (* not overridden: no focus work *)
  | IMul k =>
      if 0 <? k then
        finish s (adjust_focus_gen n f (Some n) (Some n) None (n * (k - 1))) (Ok (imul l k))
      else
        finish s (adjust_focus_gen n f (Some 0) (Some n) None 0) (Ok (imul l k))
  | Clear =>
      finish s (adjust_focus_gen n f (Some 0) (Some 0) None 0) (Ok [])
  | SetFocus i => set_focus l f i []
  end.

Definition run (s : state) (ops : list op) : state * list (out * option Z) :=
  fold_left (fun acc o => let '(s, outs) := acc in
                          let '(s', ou) := step s o in (s', outs ++ [(ou, focus s')]))
            ops (s, []).

Definition init (its : list Z) (f : Z) : state := St its f.

(* ---------- wire format (harness <-> extracted model) ----------
   case  = items(list) focus nops op*      op = code args...
   reply = per op: err(0|code) nevents ev* focus(oz) ; then items(list) focus(oz)        *)
Definition dec_op (l : list Z) : option (op * list Z) :=
  match l with
  | 1 :: i :: r => Some (DelItem i, r)
  | 2 :: i :: x :: r => Some (SetItem i x, r)
  | 3 :: r =>
      match dec_oz r with Some (a, r) =>
      match dec_oz r with Some (b, r) =>
      match dec_oz r with Some (st, r) => Some (DelSlice a b st, r) | None => None end
      | None => None end | None => None end
  | 4 :: r =>
      match dec_oz r with Some (a, r) =>
      match dec_oz r with Some (b, r) =>
      match dec_oz r with Some (st, r) =>
      match dec_list r with Some (xs, r) => Some (SetSlice a b st xs, r) | None => None end
      | None => None end | None => None end | None => None end
  | 5 :: i :: x :: r => Some (Insert i x, r)
  | 6 :: x :: r => Some (Append x, r)
  | 7 :: r => match dec_list r with Some (xs, r) => Some (Extend xs, r) | None => None end
  | 8 :: i :: r => Some (Pop i, r)
  | 9 :: x :: r => Some (Remove x, r)
  | 10 :: r => Some (Reverse, r)
  | 11 :: rv :: r => Some (Sort (negb (rv =? 0)), r)
  | 12 :: r => match dec_list r with Some (xs, r) => Some (IAdd xs, r) | None => None end
  | 13 :: k :: r => Some (IMul k, r)
  | 14 :: r => Some (Clear, r)
  | 15 :: i :: r => Some (SetFocus i, r)
  | _ => None
  end.

Fixpoint dec_ops (fuel : nat) (l : list Z) : list op :=
  match fuel with
  | O => []
  | S k => match dec_op l with Some (o, r) => o :: dec_ops k r | None => [] end
  end.

Definition enc_event (e : event) : list Z :=
  match e with Modified => [0] | FocusChanged n => [1; n] end.
Definition enc_out (of : out * option Z) : list Z :=
  let '(o, f) := of in
  (match o_err o with None => 0 | Some e => errcode e end)
    :: zlen (o_events o) :: flat_map enc_event (o_events o) ++ enc_oz f.

Definition run_case (l : list Z) : list Z :=
  match dec_list l with
  | Some (its, f :: r) =>
      let ops := dec_ops (length r) r in
      let '(s, outs) := run (init its f) ops in
      flat_map enc_out outs ++ enc_list (items s) ++ enc_oz (focus s)
  | _ => [-1]
  end.
