(* Executable model of the wrapper logic of urwid.event_loop.tornado_loop.TornadoEventLoop, line for line,
   over the abstract host of Model/AdapterLoop.v (tornado's IOLoop is a thin layer over an asyncio loop:
   add_timeout -> call_later(max(0, when - time())), remove_timeout -> handle.cancel(), add_handler ->
   add_reader, remove_handler -> remove_reader, start/stop -> run_forever/stop):
     alarm (wrapped callback, _pending_alarms), remove_alarm (True iff still in _pending_alarms),
     watch_file (_watch_handles, _max_watch_handle), remove_watch_file, enter_idle / remove_enter_idle,
     _also_call_idle, _entering_idle, handle_exit (ExitMainLoop / BaseException, idle handle clean-up, stop),
     run() (re-raise of _exc).
   Harness conventions: RemoveWatch fd uses the handle most recently returned for fd (handle -1 when
   there is none); AddWatch on a descriptor that still has a handler is not issued (tornado's add_handler
   raises ValueError for a second handler on one descriptor).
   The host calls are logged as in AdapterLoop.v.  No proofs in this file. *)
From Coq Require Import ZArith List Bool.
Import ListNotations.
From Urwid Require Import PyBase SelectLoop AdapterLoop.
Open Scope Z_scope.

Section TWrapper.
Variable H : Type.
Variable hst : host H.

Record tstate := mkTS {
  th : H;                       (* self._loop *)
  t_idleh : option Z;           (* self._idle_asyncio_handle *)
  t_idle_handle : Z;            (* self._idle_handle *)
  t_idles : list (Z * Z);       (* self._idle_callbacks *)
  t_exc : bool;                 (* self._exc is set *)
  t_handles : list (Z * Z);     (* harness: alarm number -> timeout handle *)
  t_nalarm : Z;
  t_trace : list event;
  t_hlog : list hcall;          (* ghost *)
  t_pend : list Z;              (* self._pending_alarms (keys, as alarm numbers) *)
  t_wtable : list (Z * Z);      (* self._watch_handles : watch handle -> fd *)
  t_wmax : Z;                   (* self._max_watch_handle *)
  t_live : list (Z * Z)         (* harness: fd -> watch handle returned by the last watch_file(fd) not yet removed *)
}.

Definition t_host h c s := mkTS h (t_idleh s) (t_idle_handle s) (t_idles s) (t_exc s) (t_handles s) (t_nalarm s) (t_trace s) (c :: t_hlog s) (t_pend s) (t_wtable s) (t_wmax s) (t_live s).
Definition t_with_idleh v s := mkTS (th s) v (t_idle_handle s) (t_idles s) (t_exc s) (t_handles s) (t_nalarm s) (t_trace s) (t_hlog s) (t_pend s) (t_wtable s) (t_wmax s) (t_live s).
Definition t_with_idles ih il s := mkTS (th s) (t_idleh s) ih il (t_exc s) (t_handles s) (t_nalarm s) (t_trace s) (t_hlog s) (t_pend s) (t_wtable s) (t_wmax s) (t_live s).
Definition t_with_exc v s := mkTS (th s) (t_idleh s) (t_idle_handle s) (t_idles s) v (t_handles s) (t_nalarm s) (t_trace s) (t_hlog s) (t_pend s) (t_wtable s) (t_wmax s) (t_live s).
Definition t_log e s := mkTS (th s) (t_idleh s) (t_idle_handle s) (t_idles s) (t_exc s) (t_handles s) (t_nalarm s) (e :: t_trace s) (t_hlog s) (t_pend s) (t_wtable s) (t_wmax s) (t_live s).
Definition t_with_pend p s := mkTS (th s) (t_idleh s) (t_idle_handle s) (t_idles s) (t_exc s) (t_handles s) (t_nalarm s) (t_trace s) (t_hlog s) p (t_wtable s) (t_wmax s) (t_live s).
Definition t_with_watch wt wm lv s := mkTS (th s) (t_idleh s) (t_idle_handle s) (t_idles s) (t_exc s) (t_handles s) (t_nalarm s) (t_trace s) (t_hlog s) (t_pend s) wt wm lv.

Definition zmem (k : Z) (l : list Z) : bool := existsb (fun x => x =? k) l.
Definition zdel (k : Z) (l : list Z) : list Z := filter (fun x => negb (x =? k)) l.

(* TornadoEventLoop.alarm : handle = self._loop.add_timeout(self._loop.time() + seconds, wrapped);
   self._pending_alarms[handle] = 1 ; tornado's call_at: call_later(max(0, when - self.time())) *)
Definition top_alarm (dt id : Z) (s : tstate) : tstate :=
  let k := t_nalarm s in
  let d := Z.max 0 dt in
  let '(h', hd, w) := h_call_later hst d (TAlarm k id) (th s) in
  mkTS h' (t_idleh s) (t_idle_handle s) (t_idles s) (t_exc s) ((k, hd) :: t_handles s) (k + 1)
       (EAlarmSet k w id :: t_trace s) (CLater (h_time hst (th s)) d (TAlarm k id) hd w :: t_hlog s)
       (k :: t_pend s) (t_wtable s) (t_wmax s) (t_live s).

(* TornadoEventLoop.remove_alarm : self._loop.remove_timeout(handle);
   try: del self._pending_alarms[handle] except KeyError: return False ; return True *)
Definition top_remove_alarm (k : Z) (s : tstate) : tstate :=
  match lookup k (t_handles s) with
  | None => t_log (ERmAlarm k false) s
  | Some hd =>
      let s1 := t_host (h_cancel hst hd (th s)) (CCancel hd) s in
      t_log (ERmAlarm k (zmem k (t_pend s))) (t_with_pend (zdel k (t_pend s)) s1)
  end.

(* TornadoEventLoop.watch_file : self._loop.add_handler(fd, handler, READ); handle = ++self._max_watch_handle;
   self._watch_handles[handle] = fd *)
Definition top_watch (fd id : Z) (s : tstate) : tstate :=
  if mem fd (t_live s) then s      (* not issued by the harness: add_handler would raise ValueError *)
  else
    let h := t_wmax s + 1 in
    t_log (EWatchSet fd id)
      (t_with_watch (t_wtable s ++ [(h, fd)]) h (dict_set fd h (t_live s))
         (t_host (h_add_reader hst fd id (th s)) (CAddReader fd id) s)).

(* TornadoEventLoop.remove_watch_file(handle) :
   if (fd := self._watch_handles.pop(handle, None)) is not None: self._loop.remove_handler(fd); return True
   return False *)
Definition top_remove_watch (fd : Z) (s : tstate) : tstate :=
  match lookup fd (t_live s) with
  | None => t_log (ERmWatch fd false) s                       (* remove_watch_file(-1) *)
  | Some h =>
      match lookup h (t_wtable s) with
      | None => t_log (ERmWatch fd false) (t_with_watch (t_wtable s) (t_wmax s) (dict_del fd (t_live s)) s)
      | Some fd' =>
          let '(h', ok) := h_remove_reader hst fd' (th s) in
          t_log (ERmWatch fd true)
            (t_with_watch (dict_del h (t_wtable s)) (t_wmax s) (dict_del fd (t_live s))
               (t_host h' (CRemoveReader fd' ok) s))
      end
  end.

Definition top_idle (id : Z) (s : tstate) : tstate :=
  let h := t_idle_handle s + 1 in
  t_log (EIdleSet h id) (t_with_idles h (t_idles s ++ [(h, id)]) s).
Definition top_remove_idle (h : Z) (s : tstate) : tstate :=
  if mem h (t_idles s)
  then t_log (ERmIdle h true) (t_with_idles (t_idle_handle s) (dict_del h (t_idles s)) s)
  else t_log (ERmIdle h false) s.

Definition texec_action (a : action) (s : tstate) : tstate * signal :=
  match a with
  | Nop => (s, SCont)
  | AddAlarm dt id => (top_alarm dt id s, SCont)
  | RemoveAlarm k => (top_remove_alarm k s, SCont)
  | AddWatch fd id => (top_watch fd id s, SCont)
  | RemoveWatch fd => (top_remove_watch fd s, SCont)
  | AddIdle id => (top_idle id s, SCont)
  | RemoveIdle h => (top_remove_idle h s, SCont)
  | Sleep d => (t_host (h_sleep hst (Z.max 0 d) (th s)) (CSleep (Z.max 0 d)) s, SCont)
  | RaiseExit => (t_log (ERaise true) s, SExit)
  | RaiseOther => (t_log (ERaise false) s, SOther)
  end.

Fixpoint trun_actions (acts : list action) (s : tstate) : tstate * signal :=
  match acts with
  | [] => (s, SCont)
  | a :: r =>
    match texec_action a s with
    | (s', SCont) => trun_actions r s'
    | x => x
    end
  end.

Definition trun_cb (beh : behaviour) (e : event) (id : Z) (s : tstate) : tstate * signal :=
  let n := ncalls id (t_trace s) in
  trun_actions (beh id n) (t_log e s).

(* the tail of TornadoEventLoop.handle_exit's wrapper after f raised:
     except ExitMainLoop: pass ; except BaseException as exc: self._exc = exc
     if self._idle_asyncio_handle: self._loop.remove_timeout(it); self._idle_asyncio_handle = None
     self._loop.stop() *)
Definition thandle_exit (sig : signal) (s : tstate) : tstate :=
  match sig with
  | SCont => s
  | _ =>
    let s0 := match sig with SOther => t_with_exc true s | _ => s end in
    let s1 := match t_idleh s0 with
              | Some hd => t_with_idleh None (t_host (h_cancel hst hd (th s0)) (CCancel hd) s0)
              | None => s0
              end in
    t_host (h_stop hst (th s1)) CStop s1
  end.

Definition talso_call_idle (s : tstate) : tstate :=
  match t_idleh s with
  | Some _ => s
  | None =>
      let '(h', hd, w) := h_call_later hst 0 TIdle (th s) in
      t_with_idleh (Some hd) (t_host h' (CLater (h_time hst (th s)) 0 TIdle hd w) s)
  end.

Fixpoint tidle_round (beh : behaviour) (snap : list (Z * Z)) (s : tstate) : tstate * signal :=
  match snap with
  | [] => (s, SCont)
  | (h, id) :: r =>
    if mem h (t_idles s) then
      match trun_cb beh (EIdleCall h id (h_time hst (th s))) id s with
      | (s', SCont) => tidle_round beh r s'
      | x => x
      end
    else tidle_round beh r s
  end.

(* one callback run by the IOLoop *)
Definition tdispatch (beh : behaviour) (ev : hevent) (s : tstate) : tstate :=
  match ev with
  | HTimer _ (TAlarm k id) =>
      (* wrapped (under _also_call_idle): del self._pending_alarms[handle] (KeyError suppressed); self.handle_exit(callback)() *)
      let s1 := talso_call_idle s in
      let s1' := t_with_pend (zdel k (t_pend s1)) s1 in
      let '(s2, sig) := trun_cb beh (EAlarmCall k id (h_time hst (th s))) id s1' in
      thandle_exit sig s2
  | HTimer _ TIdle =>
      (* self.handle_exit(self._entering_idle) *)
      let '(s1, sig) := tidle_round beh (t_idles s) s in
      thandle_exit sig (t_with_idleh None s1)
  | HReader fd id =>
      let s1 := talso_call_idle s in
      let '(s2, sig) := trun_cb beh (EWatchCall fd id (h_time hst (th s))) id s1 in
      thandle_exit sig s2
  | _ => s
  end.

(* TornadoEventLoop.run : self._loop.start(); if self._exc: exc, self._exc = self._exc, None; raise exc *)
Fixpoint trun_loop (fuel : nat) (beh : behaviour) (env : list step) (s : tstate) : tstate * outcome :=
  match fuel with
  | O => (s, OSpin)
  | S fuel' =>
    let '(h', ev, used) := h_next hst (hd_error env) (th s) in
    let env' := if used then tl env else env in
    let s1 := t_host h' (CNext (h_time hst h') ev) s in
    match ev with
    | HSelect to regs t ready => trun_loop fuel' beh env' (t_log (ESelect to regs t ready) s1)
    | HEnvEnd to regs t => (t_log (ESelect to regs t []) s1, OEnvEnd)
    | HBlocked regs t => (t_log (ESelect None regs t []) s1, OBlocked)
    | HStopped => if t_exc s1 then (t_with_exc false s1, ORaised) else (s1, OReturned)
    | _ => trun_loop fuel' beh env' (tdispatch beh ev s1)
    end
  end.

Definition t_init0 (h0 : H) : tstate := mkTS h0 None 0 [] false [] 0 [] [] [] [] 0 [].

Definition tgscenario (h0 : H) (setup : list action) (beh : behaviour) (env : list step) (fuel : nat) : tstate * outcome :=
  trun_loop fuel beh env (fst (trun_actions setup (t_init0 h0))).

End TWrapper.

(* TornadoEventLoop over the asyncio host model of AdapterLoop.v *)
Definition tscenario (setup : list action) (beh : behaviour) (env : list step) : tstate ahost * outcome :=
  tgscenario ahost asyncio_host ah_init setup beh env (64 * (S (length env)) + 64 * length setup + 256).

Definition enc_tresult (r : tstate ahost * outcome) : list Z :=
  let '(s, o) := r in
  [enc_outcome o; enc_bool (t_exc ahost s); clock (th ahost s)]
    ++ enc_list (flat_map (fun k => [k; 0; 0]) (t_pend ahost s)) ++ enc_list (flat_map (fun p => [fst p; snd (snd p)]) (readers (th ahost s)))
    ++ enc_list (flat_map (fun p => [fst p; snd p]) (t_idles ahost s))
    ++ [zlen (t_trace ahost s)] ++ flat_map enc_event (rev (t_trace ahost s)).
