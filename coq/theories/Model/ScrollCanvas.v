(* C20 - Scrollable.render at the level of the canvas objects it manipulates.

   Model/Scrollable.v describes the canvas Scrollable.render returns by its provenance ([view]: which rows and columns
   of the wrapped canvas, how much blank padding).  Here the SAME method body is written once, as a skeleton over an
   abstract canvas type with the operations render calls on it ([cops]), and instantiated four times:

     [dims_ops]  sizes and cursor only                 - proved equal to Model/Scrollable.s_render (ScrollCanvasProofs.v),
                                                          which the correspondence ties to the code on every run;
     [comp_ops]  C02's model of CompositeCanvas        - Model/Canvas.v: shards, cviews, coords;
     [heap_ops]  C02's object-identity layer           - Model/CanvasHeap.v: which list OBJECTS are shared / copied /
                                                          appended to in place ("canv = CompositeCanvas(canv_full)" shares
                                                          the wrapped canvas's shards list!);
     [grid_ops]  C02's reference semantics             - Model/CanvasGrid.v: a plain 2-D array of cells.

   Model/Canvas.v, CanvasHeap.v, CanvasGrid.v belong to property C02 and are imported read-only.
   Executable definitions only. *)
From Coq Require Import ZArith List Bool.
From Urwid Require Import PyBase Canvas CanvasGrid CanvasHeap ScrollBase scrollable_gen Scrollable.
Import ListNotations.
Open Scope Z_scope.

(* the canvas operations Scrollable.render uses, on an abstract canvas T *)
Record cops (T : Type) := COps {
  o_cols : T -> Z;                                  (* canv.cols() *)
  o_rows : T -> Z;                                  (* canv.rows() *)
  o_cursor : T -> ScrollBase.coords;                (* canv.cursor *)
  o_padr : T -> Z -> result T;                      (* canv.pad_trim_left_right(0, r) *)
  o_padb : T -> Z -> result T;                      (* canv.pad_trim_top_bottom(0, b) *)
  o_trim : T -> Z -> result T;                      (* canv.trim(top) *)
  o_trim_end : T -> Z -> result T;                  (* canv.trim_end(end) *)
  o_nocursor : T -> result T                        (* canv.cursor = None *)
}.
Arguments o_cols {T}. Arguments o_rows {T}. Arguments o_cursor {T}. Arguments o_padr {T}. Arguments o_padb {T}.
Arguments o_trim {T}. Arguments o_trim_end {T}. Arguments o_nocursor {T}.

Definition when {T} (b : bool) (f : T -> result T) (t : T) : result T := if b then f t else Ok t.

(* Scrollable.render from "canv = canvas.CompositeCanvas(canv_full)" (already done: [canv]) to "return canv".
   [full_cursor] = canv_full.cursor, [sel] = ow.selectable(). *)
Definition render_skel {T} (O : cops T) (st : sstate) (maxcol maxrow : Z) (sel : bool)
           (full_cursor : ScrollBase.coords) (canv : T) : result (sstate * T) :=
  (* canv_cols, canv_rows = canv.cols(), canv.rows() *)
  let canv_cols := o_cols O canv in
  let canv_rows := o_rows O canv in
  (* if canv_cols <= maxcol and (pad_width := maxcol - canv_cols) > 0: canv.pad_trim_left_right(0, pad_width) *)
  match when ((canv_cols <=? maxcol) && (0 <? maxcol - canv_cols)) (fun c => o_padr O c (maxcol - canv_cols)) canv with
  | Err e => Err e
  | Ok c1 =>
  (* if canv_rows <= maxrow and (fill_height := maxrow - canv_rows) > 0: canv.pad_trim_top_bottom(0, fill_height) *)
  match when ((canv_rows <=? maxrow) && (0 <? maxrow - canv_rows)) (fun c => o_padb O c (maxrow - canv_rows)) c1 with
  | Err e => Err e
  | Ok c2 =>
  (* if canv_cols <= maxcol and canv_rows <= maxrow: reset position / action / forwarding; return canv *)
  if (canv_cols <=? maxcol) && (canv_rows <=? maxrow) then
    Ok (SState 0 ANone (match full_cursor with Some _ => true | None => sel end) (old_cursor st) (rows_cached st), c2)
  else
    (* self._adjust_trim_top(canv, size) *)
    let '(tp, act, old) :=
      adjust_trim_top_gen (trim_top st) (action st) (old_cursor st) (o_rows O c2) (o_cursor O c2) (maxcol, maxrow) in
    let trim_end := canv_rows - maxrow - tp in
    let trim_right := canv_cols - maxcol in
    (* if trim_top > 0: canv.trim(trim_top) *)
    match when (0 <? tp) (fun c => o_trim O c tp) c2 with
    | Err e => Err e
    | Ok c3 =>
    (* if trim_end > 0: canv.trim_end(trim_end) *)
    match when (0 <? trim_end) (fun c => o_trim_end O c trim_end) c3 with
    | Err e => Err e
    | Ok c4 =>
    (* if trim_right > 0: canv.pad_trim_left_right(0, -trim_right) *)
    match when (0 <? trim_right) (fun c => o_padr O c (- trim_right)) c4 with
    | Err e => Err e
    | Ok c5 =>
    (* if canv.cursor is not None: if cursrow >= maxrow or cursrow < 0: canv.cursor = None *)
    match when (match o_cursor O c5 with Some (_, y) => (maxrow <=? y) || (y <? 0) | None => false end)
               (o_nocursor O) c5 with
    | Err e => Err e
    | Ok c6 =>
    (* forwarding decision *)
    let fwd := match o_cursor O c6 with
               | Some _ => true
               | None => match full_cursor with Some _ => false | None => sel end
               end in
    Ok (SState tp act fwd old (rows_cached st), c6)
    end end end end
  end end.

(* ------------------------------------------------------------------ instance 1: sizes and cursor only *)
Record dims := Dims { d_cols : Z; d_rows : Z; d_cur : ScrollBase.coords }.

Definition dims_ops : cops dims := COps dims
  d_cols d_rows d_cur
  (* pad_trim_left_right(0, r): pads for r > 0; trims and drops an outside cursor for r < 0 *)
  (fun d r => if 0 <? r then Ok (Dims (d_cols d + r) (d_rows d) (d_cur d))
              else if r <? 0 then Ok (Dims (d_cols d + r) (d_rows d) (inside_canvas (d_cols d + r) (d_rows d) (d_cur d)))
              else Ok d)
  (* pad_trim_top_bottom(0, b): pads for b > 0; trims and drops an outside cursor for b < 0 *)
  (fun d b => Ok (Dims (d_cols d) (d_rows d + b)
                       (if b <? 0 then inside_canvas (d_cols d) (d_rows d + b) (d_cur d) else d_cur d)))
  (* trim(top): ValueError when top >= rows *)
  (fun d top => if d_rows d <=? top then Err ValueError
                else Ok (Dims (d_cols d) (d_rows d - top)
                              (inside_canvas (d_cols d) (d_rows d - top)
                                        (match d_cur d with Some (x, y) => Some (x, y - top) | None => None end))))
  (* trim_end(e): ValueError when e > rows *)
  (fun d e => if d_rows d <? e then Err ValueError
              else Ok (Dims (d_cols d) (d_rows d - e) (inside_canvas (d_cols d) (d_rows d - e) (d_cur d))))
  (fun d => Ok (Dims (d_cols d) (d_rows d) None)).

(* ------------------------------------------------------------------ instance 2: C02's CompositeCanvas model *)
Definition comp_ops : cops comp := COps comp
  (fun c => shards_cols (cshards c))
  (fun c => shards_rows (cshards c))
  (fun c => cur (ccoords c))
  (fun c r => comp_pad_trim_left_right c 0 r)
  (fun c b => comp_pad_trim_top_bottom c 0 b)
  (fun c top => comp_trim c top None)
  comp_trim_end
  (fun c => comp_set_cursor c None).

(* Scrollable.render on a wrapped canvas value: "canv = canvas.CompositeCanvas(canv_full)" first *)
Definition sc_render (st : sstate) (maxcol maxrow : Z) (sel : bool) (v : value) : result (sstate * comp) :=
  match wrap v with
  | Err e => Err e
  | Ok c0 => render_skel comp_ops st maxcol maxrow sel (cur (vcoords v)) c0
  end.

(* ------------------------------------------------------------------ instance 3: list objects on a heap *)
Definition hc := (heap * hcomp)%type.
Definition lift_h (r : result (heap * hcomp)) : result hc := r.

Definition heap_ops : cops hc := COps hc
  (fun x => shards_cols (deref (fst x) (hid (snd x))))
  (fun x => shards_rows (deref (fst x) (hid (snd x))))
  (fun x => cur (hcoords (snd x)))
  (fun x r => h_pad_trim_left_right (fst x) (snd x) 0 r)
  (fun x b => h_pad_trim_top_bottom (fst x) (snd x) 0 b)
  (fun x top => h_trim (fst x) (snd x) top None)
  (fun x e => h_trim_end (fst x) (snd x) e)
  (fun x => h_same (fst x) (snd x) (fun c => comp_set_cursor c None)).

Definition sh_render (st : sstate) (maxcol maxrow : Z) (sel : bool) (h : heap) (v : hvalue) : result (sstate * hc) :=
  match h_wrap h v with
  | Err e => Err e
  | Ok x => render_skel heap_ops st maxcol maxrow sel (cur (vcoords (to_value h v))) x
  end.

(* ------------------------------------------------------------------ instance 4: a plain grid of cells *)
(* every operation is defined (Ok) exactly where C02's reference semantics defines it: a canvas that is not finalized,
   trims that leave something; elsewhere ValueError (the concrete canvas raises there too, or is outside C02's domain) *)
Definition gguard (g : gval) (b : bool) (r : gval) : result gval :=
  if negb (gfin g) && b then Ok r else Err ValueError.

Definition grid_ops : cops gval := COps gval
  (fun g => gwidth (gg g))
  (fun g => gheight (gg g))
  (fun g => cur (gco g))
  (fun g r => gguard g (0 <? gwidth (gg g) + Z.min r 0)
                (GV (g_pad_trim_lr (gg g) 0 r)
                    (if r <? 0 then g_drop_cursor (g_pad_trim_lr (gg g) 0 r) (translate_coords (gco g) 0 0)
                     else translate_coords (gco g) 0 0) false false))
  (fun g b => gguard g (0 <? gheight (gg g) + Z.min b 0)
                (GV (g_pad_trim_tb (gg g) 0 b) (g_padtb_coords (gg g) 0 b (gco g)) false false))
  (fun g top => gguard g ((0 <=? top) && (top <? gheight (gg g)))
                  (GV (g_trim (gg g) top None)
                      (g_drop_cursor (g_trim (gg g) top None) (translate_coords (gco g) 0 (- top))) false false))
  (fun g e => gguard g ((0 <? e) && (e <? gheight (gg g)))
                (GV (takez (gheight (gg g) - e) (gg g))
                    (g_drop_cursor (takez (gheight (gg g) - e) (gg g)) (gco g)) false false))
  (fun g => gguard g true (GV (gg g) (Coords None (pop (gco g))) false false)).

Definition sg_render (st : sstate) (maxcol maxrow : Z) (sel : bool) (gv : gval) : result (sstate * gval) :=
  render_skel grid_ops st maxcol maxrow sel (cur (gco gv)) (GV (gg gv) (gco gv) false false).

(* what the property says the result is: rows [p, p+maxrow) of the grid, each cut to / padded with blanks to maxcol
   columns, followed by blank rows when the grid is shorter than the view *)
Definition spec_grid (g : grid) (p maxcol maxrow : Z) : grid :=
  map (fun R : row => g_window R 0 (Z.min (gwidth g) maxcol) ++ blank_row (Z.max 0 (maxcol - gwidth g)))
      (takez maxrow (dropz p g))
  ++ blank_grid maxcol (Z.max 0 (maxrow - gheight g)).
