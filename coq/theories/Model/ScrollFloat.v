(* C20 - exact software model of the binary64 operations used by ScrollBar.render.
   Executable definitions only (proofs: Proofs/ScrollFloatProofs.v).

   A Python float that is neither inf/nan nor subnormal is a rational m * 2^e with |m| < 2^53.  The
   operations the thumb geometry uses ( int / int,  float(int),  float / int,  float * int,  round(),
   int(), min(1.0, .), comparisons with 0 ) are, by IEEE 754 and CPython's correctly rounded
   conversions, "compute the exact rational result, then round to the nearest 53-bit value, ties to
   even".  [rn] is that rounding on exact rationals (unbounded exponent: overflow to inf and gradual
   underflow are outside the model - they need |values| >= 2^1024 resp. < 2^-1022, impossible for
   row counts below 2^53).  The agreement of these definitions with hardware binary64 is checked inside
   Coq against the kernel's primitive floats on a grid (Proofs/ThumbPrimCheck.v) and against CPython on
   every run (correspondence). *)
From Coq Require Import ZArith QArith Qround Qpower Bool.
Open Scope Q_scope.

(* round half to even, Q -> Z : Python round(x) on the exact value *)
Definition rhe (x : Q) : Z :=
  let f := Qfloor x in
  match Qcompare (x - inject_Z f) (1 # 2) with
  | Lt => f
  | Gt => (f + 1)%Z
  | Eq => if Z.even f then f else (f + 1)%Z
  end.

(* truncation toward zero : Python int(x) *)
Definition qtrunc (x : Q) : Z :=
  if Qle_bool 0 x then Qfloor x else (- Qfloor (- x))%Z.

Definition pow2 (k : Z) : Q := 2 ^ k.

(* floor(log2 x) for x > 0 *)
Definition qlog2 (x : Q) : Z :=
  let d := (Z.log2 (Qnum x) - Z.log2 (Zpos (Qden x)))%Z in
  if Qle_bool (pow2 d) x then d else (d - 1)%Z.

(* round to nearest, ties to even, 53 significant bits *)
Definition rn_pos (x : Q) : Q :=
  let u := pow2 (qlog2 x - 52) in
  inject_Z (rhe (x / u)) * u.

Definition rn (x : Q) : Q :=
  match Qnum x with
  | Z0 => 0
  | Zpos _ => rn_pos x
  | Zneg _ => - rn_pos (- x)
  end.

(* the Python operations *)
Definition f_of_int (n : Z) : Q := rn (inject_Z n).                      (* float(n) *)
Definition f_div_int_int (a b : Z) : Q := rn (inject_Z a / inject_Z b).   (* a / b on ints: correctly rounded *)
Definition f_div (a b : Q) : Q := rn (a / b).                             (* float / float *)
Definition f_mul (a b : Q) : Q := rn (a * b).                             (* float * float *)
Definition f_min1 (x : Q) : Q := if Qle_bool 1 x then 1 else x.           (* min(1.0, x) *)

(* ------------------------------------------------------------------ ScrollBar thumb arithmetic *)
Open Scope Z_scope.

(* ScrollBar.render from "thumb_height = ..." to "bottom_height = ..." ; floats are exact rationals
   rounded by ScrollFloat.rn.  Returns (top_height, thumb_height, bottom_height). *)
Definition thumb_geom (maxrow pos posmax : Z) (thumb_weight : Q) : Z * Z * Z :=
  (* thumb_height = max(1, round(thumb_weight * maxrow)) *)
  let thumb_height := Z.max 1 (rhe (f_mul thumb_weight (f_of_int maxrow))) in
  (* top_weight = float(pos) / max(1, posmax) *)
  let top_weight := f_div (f_of_int pos) (f_of_int (Z.max 1 posmax)) in
  (* top_height = int((maxrow - thumb_height) * top_weight) *)
  let top_height := qtrunc (f_mul (f_of_int (maxrow - thumb_height)) top_weight) in
  (* if top_height == 0 and top_weight > 0: top_height = min(1, maxrow - thumb_height) *)
  let top_height := if (top_height =? 0) && negb (Qle_bool top_weight 0)
                    then Z.min 1 (maxrow - thumb_height) else top_height in
  (* bottom_height = maxrow - thumb_height - top_height *)
  (top_height, thumb_height, maxrow - thumb_height - top_height).

(* thumb_weight = min(1.0, maxrow / max(1, ow_rows_max)) *)
Definition thumb_weight_of (maxrow rows_max : Z) : Q :=
  f_min1 (f_div_int_int maxrow (Z.max 1 rows_max)).

