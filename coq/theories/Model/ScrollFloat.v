(* C20 - exact software model of the binary64 operations used by ScrollBar.render.
   Executable definitions only (proofs: Proofs/ScrollFloatProofs.v).

   A Python float that is neither inf/nan nor subnormal is a rational m * 2^e with |m| < 2^53.  The
   operations the thumb geometry uses ( int / int,  float(int),  float / int,  float * int,  round(),
   int(), min(1.0, .), comparisons with 0 ) are, by IEEE 754 and CPython's correctly rounded
   conversions, "compute the exact rational result, then round to the nearest 53-bit value, ties to
   even".  [rn] is that rounding on exact rationals (unbounded exponent: overflow to inf and gradual
   underflow are outside the model - they need |values| >= 2^1024 resp. < 2^-1022, impossible for
   row counts below 2^53).  The agreement of these definitions with hardware binary64 is checked inside
   Coq against the kernel's primitive floats on a grid (Proofs/ThumbPrimCheck.v) and against CPython on
   every run (correspondence). *)
From Coq Require Import ZArith QArith Qround Qpower Bool.
Open Scope Q_scope.

(* round half to even, Q -> Z : Python round(x) on the exact value *)
Definition rhe (x : Q) : Z :=
  let f := Qfloor x in
  match Qcompare (x - inject_Z f) (1 # 2) with
  | Lt => f
  | Gt => (f + 1)%Z
  | Eq => if Z.even f then f else (f + 1)%Z
  end.

(* truncation toward zero : Python int(x) *)
Definition qtrunc (x : Q) : Z :=
  if Qle_bool 0 x then Qfloor x else (- Qfloor (- x))%Z.

Definition pow2 (k : Z) : Q := 2 ^ k.

(* floor(log2 x) for x > 0 *)
Definition qlog2 (x : Q) : Z :=
  let d := (Z.log2 (Qnum x) - Z.log2 (Zpos (Qden x)))%Z in
  if Qle_bool (pow2 d) x then d else (d - 1)%Z.

(* round to nearest, ties to even, 53 significant bits *)
Definition rn_pos (x : Q) : Q :=
  let u := pow2 (qlog2 x - 52) in
  inject_Z (rhe (x / u)) * u.

Definition rn (x : Q) : Q :=
  match Qnum x with
  | Z0 => 0
  | Zpos _ => rn_pos x
  | Zneg _ => - rn_pos (- x)
  end.

(* the Python operations *)
Definition f_of_int (n : Z) : Q := rn (inject_Z n).                      (* float(n) *)
Definition f_div_int_int (a b : Z) : Q := rn (inject_Z a / inject_Z b).   (* a / b on ints: correctly rounded *)
Definition f_div (a b : Q) : Q := rn (a / b).                             (* float / float *)
Definition f_mul (a b : Q) : Q := rn (a * b).                             (* float * float *)
Definition f_min1 (x : Q) : Q := if Qle_bool 1 x then 1 else x.           (* min(1.0, x) *)
