(* C04 - model of urwid/display/html_fragment.py: HtmlGenerator.draw_screen and html_span, at the
   level of spans (attribute, colours swapped?, text); executable definitions only.
   The last definition is the [run_case] of property C04 (dispatching to Model/DrawScreen.v). *)
From Coq Require Import ZArith List Bool Lia.
From Urwid Require Import PyBase TermRef DrawScreen.
Import ListNotations.
Open Scope Z_scope.

Inductive hspan := HSpan (a : Z) (swapped : bool) (text : list chr).
Definition hs_text (s : hspan) : list chr := let 'HSpan _ _ t := s in t.
Definition hs_swapped (s : hspan) : bool := let 'HSpan _ b _ := s in b.

(* html_span(s, aspec, cursor): one span, or three with the cursor character's colours swapped.
   _span returns "" when the whole run s is empty. *)
Definition html_span (a : Z) (s : list chr) (cursor : Z) : result (list hspan) :=
  if 0 <=? cursor then
    let '(c_off, _) := text_pos_utf8 s cursor 0 0 in           (* calc_text_pos on a str *)
    if zlen s <=? c_off then Err ValueError                     (* move_next_char raises *)
    else Ok [HSpan a false (takez c_off s); HSpan a true (takez 1 (dropz c_off s)); HSpan a false (dropz (c_off + 1) s)]
  else match s with [] => Ok [] | _ => Ok [HSpan a false s] end.

(* body of "for a, _cs, run in row" (an unknown attribute name uses the default palette entry: the
   colours are outside this model, so every attribute is treated alike) *)
Fixpoint html_runs (on_cursor_row : bool) (cx : Z) (col : Z) (row : crow) : result (list hspan) :=
  match row with
  | [] => Ok []
  | (a, _, run) :: rest =>
      let t_run := map trans_chr run in
      if on_cursor_row && (col <=? cx) then
        let run_width := calc_width t_run in
        bind (if cx <? col + run_width then html_span a t_run (cx - col) else html_span a t_run (-1)) (fun sp =>
        bind (html_runs on_cursor_row cx (col + run_width) rest) (fun more => Ok (sp ++ more)))
      else
        bind (html_span a t_run (-1)) (fun sp =>
        bind (html_runs on_cursor_row cx col rest) (fun more => Ok (sp ++ more)))
  end.

Fixpoint html_rows (cursor : option (Z * Z)) (y : Z) (rows : list crow) : result (list (list hspan)) :=
  match rows with
  | [] => Ok []
  | row :: rest =>
      let '(on_row, cx) := match cursor with Some (x, cy) => (y =? cy, x) | None => (false, 0) end in
      bind (html_runs on_row cx 0 row) (fun spans =>
      bind (html_rows cursor (y + 1) rest) (fun more => Ok (spans :: more)))
  end.

(* HtmlGenerator.draw_screen((cols, rows), canvas) *)
Definition html_draw (maxrow : Z) (rows : list crow) (cursor : option (Z * Z)) : result (list (list hspan)) :=
  if negb (maxrow =? zlen rows) then Err ValueError else html_rows cursor 0 rows.

(* ---------- html.escape(string) (quote=True), on code points ---------- *)
Definition escape_chr (c : Z) : list Z :=
  if c =? 38 then [38; 97; 109; 112; 59]                    (* &amp; *)
  else if c =? 60 then [38; 108; 116; 59]                   (* &lt; *)
  else if c =? 62 then [38; 103; 116; 59]                   (* &gt; *)
  else if c =? 34 then [38; 113; 117; 111; 116; 59]         (* &quot; *)
  else if c =? 39 then [38; 35; 120; 50; 55; 59]            (* &#x27; *)
  else [c].
Definition html_escape (s : list Z) : list Z := flat_map escape_chr s.

(* a reader of the emitted text: the five entities html.escape produces, anything else literally *)
Fixpoint strip_prefix (p l : list Z) : option (list Z) :=
  match p with
  | [] => Some l
  | x :: p' => match l with y :: l' => if x =? y then strip_prefix p' l' else None | [] => None end
  end.
Definition entities : list (list Z * Z) :=
  [([38; 97; 109; 112; 59], 38); ([38; 108; 116; 59], 60); ([38; 103; 116; 59], 62);
   ([38; 113; 117; 111; 116; 59], 34); ([38; 35; 120; 50; 55; 59], 39)].
Fixpoint read_entity (es : list (list Z * Z)) (l : list Z) : option (Z * list Z) :=
  match es with
  | [] => None
  | (p, c) :: es' => match strip_prefix p l with Some r => Some (c, r) | None => read_entity es' l end
  end.
Fixpoint html_unescape (fuel : nat) (l : list Z) : list Z :=
  match fuel with
  | O => []
  | S k => match l with
           | [] => []
           | c :: r => match read_entity entities l with
                       | Some (ch, rest) => ch :: html_unescape k rest
                       | None => c :: html_unescape k r
                       end
           end
  end.

(* the text between <span ...> and </span> *)
Definition span_markup (s : hspan) : list Z := html_escape (map fst (hs_text s)).

(* ---------- wire ---------- *)
Definition enc_span (s : hspan) : list Z :=
  let 'HSpan a b t := s in a :: enc_bool b :: zlen (span_markup s) :: span_markup s.
Definition enc_hrow (r : list hspan) : list Z := zlen r :: flat_map enc_span r.

Definition html_case (l : list Z) : list Z :=
  match l with
  | maxrow :: r =>
      match (match r with
             | 0 :: r' => Some (None, r')
             | 1 :: x :: y :: r' => Some (Some (x, y), r')
             | _ => None end) with
      | Some (cur, r1) =>
          match dec_counted dec_row r1 with
          | Some (rows, _) =>
              match html_draw maxrow rows cur with
              | Ok out => 0 :: zlen out :: flat_map enc_hrow out
              | Err e => [errcode e]
              end
          | None => [-2]
          end
      | None => [-4]
      end
  | [] => [-1]
  end.

(* sub-model 1: a whole raw-display history; 2: the reference terminal alone; 3: the HTML back-end *)
Definition run_case (l : list Z) : list Z :=
  match l with
  | 3 :: r => html_case r
  | _ => run_case_draw l
  end.
