(* C01 - dimension semantics of the bundled urwid container widgets.

   Executable definitions only (no proofs).  Every definition names the Python function it mirrors
   (urwid/widget/*.py, urwid/canvas.py as they are NOW).  A canvas is abstracted to what the size
   contract speaks about: cols(), rows(), the cursor, and two flags
     rect    - every content row is exactly cols() wide (lost when CanvasCombine stacks canvases
               of different widths; nothing repairs it afterwards).  Conservative: never compared
               with the implementation, the oracle measures the real rows.

   One deviation from the code, made explicit.  It marks a situation in which the property is
   meaningless below the widget under consideration, and the harness flags exactly the same
   situation on the implementation with a spy around every render()/rows()/pack():
     EStarved - a widget is asked for a size with a component <= 0 (its container had no room);
                what a real leaf does at such a size is not part of its contract.
   (ECut is only the wire code of a LEAF that reports a canvas with the cursor outside it: such a
   leaf breaks its own contract and no prediction is made for the tree.  Since aa8a06a the canvas
   trimming operations drop a cursor that they cut away, so no container produces it.)

   Leaves are tables of what the real leaf reports (rows / pack / render dims per width and focus),
   measured by the harness; their contract is a hypothesis of the theorems (leaf_ok). *)
From Coq Require Import ZArith List Bool Lia.
Import ListNotations.
Open Scope Z_scope.

(* ---------- results ---------- *)
Inductive err := EIndex | EValue | EType | EWidget | ECanvas | EOther | EZeroDiv | ENoData | EStarved | ECut.
Definition err_code (e : err) : Z :=
  match e with EIndex => 1 | EValue => 2 | EType => 3 | EWidget => 4 | ECanvas => 5 | EOther => 10
             | EZeroDiv => 11 | ENoData => 12 | EStarved => 13 | ECut => 14 end.
Definition err_of_code (z : Z) : err :=
  if z =? 1 then EIndex else if z =? 2 then EValue else if z =? 3 then EType else if z =? 4 then EWidget
  else if z =? 5 then ECanvas else if z =? 11 then EZeroDiv else if z =? 12 then ENoData
  else if z =? 13 then EStarved else if z =? 14 then ECut else EOther.

Inductive res (A : Type) := Ok (a : A) | Err (e : err).
Arguments Ok {A} a.
Arguments Err {A} e.
Definition bind {A B} (r : res A) (f : A -> res B) : res B :=
  match r with Ok a => f a | Err e => Err e end.
Notation "'let*' x ':=' r 'in' k" := (bind r (fun x => k)) (at level 200, x pattern, r at level 100, k at level 200).

Fixpoint mapM {A B} (f : A -> res B) (l : list A) : res (list B) :=
  match l with
  | [] => Ok []
  | x :: r => let* y := f x in let* ys := mapM f r in Ok (y :: ys)
  end.

(* ---------- sizes, sizing sets, canvases ---------- *)
Record sizing := mkS { s_box : bool; s_flow : bool; s_fixed : bool }.
Inductive size := SFixed | SFlow (c : Z) | SBox (c r : Z).

Record canv := mkC { cc : Z; cr : Z; cur : option (Z * Z); rect : bool }.

Definition degenerate (sz : size) : bool :=
  match sz with SFixed => false | SFlow c => c <=? 0 | SBox c r => (c <=? 0) || (r <=? 0) end.

(* widget.py validate_size (sizes with a zero component never get here: they are EStarved) *)
Definition validate (sz : size) (cv : canv) : res canv :=
  match sz with
  | SFixed => Ok cv
  | SFlow c => if c =? cc cv then Ok cv else Err EWidget
  | SBox c r => if (c =? cc cv) && (r =? cr cv) then Ok cv else Err EWidget
  end.

(* the semantic object a widget denotes: what sizing()/rows()/pack()/render() answer *)
Record sem := mkSem {
  m_sizing : sizing;
  m_rows : Z -> bool -> res Z;
  m_pack : size -> bool -> res (Z * Z);
  m_render : size -> bool -> res canv
}.

(* Widget.pack default (widget.py) on top of a node's own sizing and rows *)
Definition default_pack (sz : sizing) (rows : Z -> bool -> res Z) (s : size) (f : bool) : res (Z * Z) :=
  match s with
  | SFixed => if s_fixed sz then Err EOther (* NotImplementedError *) else Err EWidget
  | SFlow c => if s_flow sz then (let* r := rows c f in Ok (c, r)) else Err EWidget
  | SBox c r => Ok (c, r)
  end.

(* every class's render()/rows() is wrapped by the metaclass: the spy/starvation check first,
   validate_size after *)
Definition wrap_rows (raw : Z -> bool -> res Z) (c : Z) (f : bool) : res Z :=
  if c <=? 0 then Err EStarved else raw c f.
Definition wrap_render (raw : size -> bool -> res canv) (sz : size) (f : bool) : res canv :=
  if degenerate sz then Err EStarved else let* cv := raw sz f in validate sz cv.

Definition mk_node (sz : sizing) (rows : Z -> bool -> res Z)
           (pack_fixed : bool -> res (Z * Z)) (render : size -> bool -> res canv) : sem :=
  let r := wrap_rows rows in
  mkSem sz r
        (fun s f => if degenerate s then Err EStarved else
                    match s with SFixed => pack_fixed f | _ => default_pack sz r s f end)
        (wrap_render render).

(* ---------- canvas.py size laws ---------- *)
Definition shift_cur (c : option (Z * Z)) (dx dy : Z) : option (Z * Z) :=
  match c with Some (x, y) => Some (x + dx, y + dy) | None => None end.

Definition blank (c r : Z) : canv := mkC c r None true.   (* SolidCanvas *)

(* CompositeCanvas._drop_cursor_outside *)
Definition drop_outside (c r : Z) (cu : option (Z * Z)) : option (Z * Z) :=
  match cu with
  | Some (x, y) => if (0 <=? x) && (x <? c) && (0 <=? y) && (y <? r) then cu else None
  | None => None
  end.

(* CompositeCanvas.pad_trim_left_right; shards_trim_sides raises ValueError when cols <= 0 *)
Definition pad_trim_lr (cv : canv) (left right : Z) : res canv :=
  if (left <? 0) || (right <? 0) then
    let cols := cc cv - Z.max 0 (- left) - Z.max 0 (- right) in
    if cols <=? 0 then Err EValue
    else let w := cols + Z.max 0 left + Z.max 0 right in
         Ok (mkC w (cr cv) (drop_outside w (cr cv) (shift_cur (cur cv) left 0)) (rect cv))
  else Ok (mkC (cc cv + left + right) (cr cv) (shift_cur (cur cv) left 0) (rect cv)).

(* CompositeCanvas.trim(top, count) *)
Definition trim (cv : canv) (top : Z) (count : option Z) : res canv :=
  if top <? 0 then Err EValue
  else if cr cv <=? top then Err EValue
  else match count with
       | None => Ok (mkC (cc cv) (cr cv - top) (drop_outside (cc cv) (cr cv - top) (shift_cur (cur cv) 0 (- top))) (rect cv))
       | Some n =>
           if n =? 0 then Ok (mkC 0 0 None (rect cv))
           else if n <? 0 then Err EValue
           else let r := Z.min n (cr cv - top) in
                Ok (mkC (cc cv) r (drop_outside (cc cv) r (shift_cur (cur cv) 0 (- top))) (rect cv))
       end.

(* CompositeCanvas.pad_trim_top_bottom *)
Definition pad_trim_tb (cv : canv) (top bottom : Z) : res canv :=
  let* cv1 := (if (top <? 0) || (bottom <? 0)
               then trim cv (Z.max 0 (- top)) (Some (cr cv - Z.max 0 (- top) - Z.max 0 (- bottom)))
               else Ok cv) in
  let cv2 := if 0 <? top then mkC (cc cv1) (cr cv1 + top) (shift_cur (cur cv1) 0 top) (rect cv1) else cv1 in
  Ok (if 0 <? bottom then mkC (cc cv2) (cr cv2 + bottom) (cur cv2) (rect cv2) else cv2).

Definition later_cur (a b : option (Z * Z)) : option (Z * Z) :=
  match b with Some _ => b | None => a end.

(* CanvasCombine: rows add up; cols() is the width of the first shard; coords.update in order *)
Fixpoint combine_from (w0 row : Z) (l : list canv) (acc : canv) : canv :=
  match l with
  | [] => acc
  | c :: r =>
      combine_from w0 (row + cr c) r
        (mkC w0 (cr acc + cr c) (later_cur (cur acc) (shift_cur (cur c) 0 row))
             (rect acc && rect c && (cc c =? w0)))
  end.
Definition canvas_combine (l : list canv) : canv :=
  match l with
  | [] => mkC 0 0 None true
  | c :: _ => combine_from (cc c) 0 l (mkC (cc c) 0 None true)
  end.

(* CanvasJoin: each canvas padded/trimmed to its column width and padded to the tallest *)
Definition maxrows (l : list (canv * Z)) : Z := fold_left (fun m x => Z.max m (cr (fst x))) l 0.
Fixpoint join_from (maxrow col : Z) (l : list (canv * Z)) (acc : canv) : res canv :=
  match l with
  | [] => Ok acc
  | (c, w) :: r =>
      let pad_right := w - cc c in
      let* c1 := (if pad_right =? 0 then Ok c else pad_trim_lr c 0 pad_right) in
      let* c2 := (if cr c1 <? maxrow then pad_trim_tb c1 0 (maxrow - cr c1) else Ok c1) in
      join_from maxrow (col + cc c2) r
        (mkC (cc acc + cc c2) maxrow (later_cur (cur acc) (shift_cur (cur c2) col 0))
             (rect acc && rect c2))
  end.
Definition canvas_join (l : list (canv * Z)) : res canv :=
  let m := maxrows l in join_from m 0 l (mkC 0 m None true).

(* CanvasOverlay / CompositeCanvas.overlay(other, left, top).  The rows above/below keep the bottom
   canvas's width; the middle band is left part + top canvas + right part. *)
Definition canvas_overlay (top_c bottom_c : canv) (left top : Z) : res canv :=
  let right := cc bottom_c - left - cc top_c in
  let bottom := cr bottom_c - top - cr top_c in
  if right <? 0 then Err EValue
  else if bottom <? 0 then Err EValue
  else if top <? 0 then Err EValue                               (* shards_trim_top(shards, top <= 0) *)
  else if (0 <? top) && (cr bottom_c <=? top) then Err ECanvas   (* trimmed out of existence *)
  else if (negb (bottom =? 0)) && (cr top_c <=? 0) then Err EValue   (* shards_trim_top(side, height <= 0) *)
  else
    let mid := if (negb (left =? 0)) || (negb (right =? 0)) then Z.max 0 left + cc top_c + Z.max 0 right else cc top_c in
    Ok (mkC (if 0 <? top then cc bottom_c else mid) (top + cr top_c + bottom)
            (later_cur (cur bottom_c) (shift_cur (cur top_c) left top))
            (rect bottom_c && rect top_c && ((mid =? cc bottom_c) || ((top =? 0) && (bottom =? 0))))).

(* ---------- arithmetic helpers ---------- *)
(* util.int_scale: num // dem with dem = (val_range-1)*2 > 0; Python floor division = Z.div *)
Definition int_scale (val val_range out_range : Z) : Z :=
  (val * (out_range - 1) * 2 + (val_range - 1)) / ((val_range - 1) * 2).

(* int(p / q + 0.5) for integers p, q > 0 (float division then truncation toward zero) *)
Definition round_half (p q : Z) : Z := Z.quot (2 * p + q) (2 * q).

Definition sumz (l : list Z) : Z := fold_left Z.add l 0.
Definition maxz (l : list Z) : Z := match l with [] => 0 | x :: r => fold_left Z.max r x end.
Definition zlength {A} (l : list A) : Z := Z.of_nat (length l).
Fixpoint nthd {A} (l : list A) (i : nat) (d : A) : A :=
  match l, i with [], _ => d | x :: _, O => x | _ :: r, S k => nthd r k d end.

(* WHSettings of an item *)
Inductive whk := KGiven | KPack | KWeight.

(* ============================================================ leaves ============================================================ *)
(* what a leaf reports, as measured: one entry per width 0..n-1 and focus *)
Record flow_entry := mkFE { fe_rows : res Z; fe_pack : res (Z * Z); fe_render : res canv }.
Record leafdata := mkLeaf {
  l_sizing : sizing;
  l_flow : bool -> Z -> res flow_entry;   (* focus, width: rows((c,)), pack((c,)), render((c,)) *)
  l_fixed_pack : bool -> res (Z * Z);
  l_fixed_render : bool -> res canv;
  l_box : Z -> Z -> bool -> res canv      (* render((c, r), focus) *)
}.

(* tables sent over the wire become functions; a question outside the table is ENoData *)
Definition table_fn (t0 t1 : list flow_entry) (f : bool) (c : Z) : res flow_entry :=
  if c <? 0 then Err ENoData
  else match nth_error (if f then t1 else t0) (Z.to_nat c) with Some e => Ok e | None => Err ENoData end.

Fixpoint box_lookup (l : list (Z * Z * bool * res canv)) (c r : Z) (f : bool) : res canv :=
  match l with
  | [] => Err ENoData
  | (c1, r1, f1, v) :: t => if (c1 =? c) && (r1 =? r) && Bool.eqb f1 f then v else box_lookup t c r f
  end.

Definition leaf_sem (d : leafdata) : sem :=
  mkSem (l_sizing d)
    (fun c f => if c <=? 0 then Err EStarved else let* e := l_flow d f c in fe_rows e)
    (fun s f => match s with
                | SFixed => l_fixed_pack d f
                | SFlow c => if c <=? 0 then Err EStarved else let* e := l_flow d f c in fe_pack e
                | SBox c r => if degenerate s then Err EStarved else Ok (c, r)
                end)
    (fun s f => if degenerate s then Err EStarved else
                match s with
                | SFixed => l_fixed_render d f
                | SFlow c => let* e := l_flow d f c in fe_render e
                | SBox c r => l_box d c r f
                end).

(* ============================================================ decorations ============================================================ *)
(* AttrMap.render / DelegateToWidgetMixin.render (LineBox): the child's canvas, re-validated *)
Definition attr_sem (s : sem) : sem :=
  mkSem (m_sizing s) (m_rows s) (m_pack s) (wrap_render (m_render s)).

(* BoxAdapter (box_adapter.py) *)
Definition boxadapter_sem (s : sem) (height : Z) : sem :=
  mk_node (mkS false true false)
    (fun _ _ => Ok height)
    (fun _ => Err EWidget)
    (fun sz f => match sz with
                 | SFlow c => m_render s (SBox c height) f
                 | _ => Err EValue            (* (maxcol,) = size *)
                 end).

(* --- Padding (padding.py) --- *)
Inductive wtype := WGiven (n : Z) | WPack | WClip | WRelative (pct : Z).

(* calculate_left_right_padding; [clip] is width_type == CLIP, relative carries the percentage *)
Definition clrp (maxcol align : Z) (wt : wtype) (given_width : Z) (min_width : option Z) (left right : Z) : Z * Z :=
  let width := match wt with
               | WRelative pct =>
                   let w := round_half (Z.max (maxcol - left - right) 0 * pct) 100 in
                   match min_width with Some m => Z.max w m | None => w end
               | _ => given_width
               end in
  let padding := maxcol - width - left - right in
  let right1 := right + int_scale (100 - align) 101 (padding + 1) in
  let left1 := maxcol - width - right1 in
  let '(left2, right2) :=
    if (right1 <? 0) && (0 <? left1) then (let sh := Z.min left1 (- right1) in (left1 - sh, right1 + sh))
    else if (left1 <? 0) && (0 <? right1) then (let sh := Z.min right1 (- left1) in (left1 + sh, right1 - sh))
    else (left1, right1) in
  match wt with
  | WClip => (left2, right2)
  | _ => if (left2 <? 0) || (right2 <? 0) then (Z.max left2 0, Z.max right2 0) else (left2, right2)
  end.

Definition omin (o : option Z) (d : Z) : Z := match o with Some m => if m =? 0 then d else m | None => d end.

(* Padding.padding_values *)
Definition padding_values (s : sem) (align : Z) (wt : wtype) (min_width : option Z) (left right : Z)
           (sz : size) (f : bool) : res (Z * Z) :=
  match wt with
  | WClip =>
      let* p := m_pack s SFixed f in
      match sz with
      | SFixed => Err EWidget
      | SFlow c | SBox c _ => Ok (clrp c align WClip (fst p) None left right)
      end
  | WPack =>
      match sz with
      | SFlow c | SBox c _ =>
          let maxwidth := Z.max (c - left - right) (omin min_width 0) in
          let* p := m_pack s (SFlow maxwidth) f in
          Ok (clrp c align (WGiven (fst p)) (fst p) min_width left right)
      | SFixed =>
          let* p := m_pack s SFixed f in
          Ok (clrp (fst p + left + right) align (WGiven (fst p)) (fst p) min_width left right)
      end
  | WGiven n =>
      let maxcol := match sz with SFlow c | SBox c _ => c | SFixed => n + left + right end in
      Ok (clrp maxcol align wt n min_width left right)
  | WRelative pct =>
      match sz with
      | SFlow c | SBox c _ => Ok (clrp c align wt 0 min_width left right)
      | SFixed =>
          let* p := m_pack s SFixed f in
          if pct =? 0 then Err EZeroDiv else
          Ok (clrp (Z.max (fst p * 100 / pct) (omin min_width 1) + left + right) align wt 0 min_width left right)
      end
  end.

Definition padding_sizing (cs : sizing) (wt : wtype) : sizing :=
  match wt with
  | WClip => mkS false true false
  | WGiven _ => if s_flow cs then mkS (s_box cs) true true else cs
  | _ => cs
  end.

(* Padding.rows *)
Definition padding_rows (s : sem) align wt min_width left right (c : Z) (f : bool) : res Z :=
  let* lr := padding_values s align wt min_width left right (SFlow c) f in
  match wt with
  | WPack => let* p := m_pack s (SFlow (c - fst lr - snd lr)) f in Ok (snd p)
  | WClip => let* p := m_pack s SFixed f in Ok (snd p)
  | _ => m_rows s (c - fst lr - snd lr) f
  end.

(* Padding.pack(()) *)
Definition padding_pack_fixed (s : sem) (wt : wtype) (min_width : option Z) (left right : Z) (f : bool) : res (Z * Z) :=
  match wt with
  | WClip => Err EWidget
  | WGiven n => let* r := m_rows s n f in Ok (Z.max n (omin min_width 1) + left + right, r)
  | WPack => let* p := m_pack s SFixed f in Ok (Z.max (fst p) (omin min_width 1) + left + right, snd p)
  | WRelative pct =>
      let* p := m_pack s SFixed f in
      if pct =? 0 then Err EZeroDiv else
      Ok (Z.max (round_half (fst p * 100) pct) (omin min_width 1) + left + right, snd p)
  end.

(* Padding.render *)
Definition padding_render (s : sem) align wt min_width left right (sz : size) (f : bool) : res canv :=
  let* lr := padding_values s align wt min_width left right sz f in
  let '(l, r) := lr in
  let* cv :=
    match wt, sz with
    | WClip, _ => m_render s SFixed f
    | _, SFlow c => m_render s (SFlow (c - (l + r))) f
    | _, SBox c rr => m_render s (SBox (c - (l + r)) rr) f
    | WGiven n, SFixed => m_render s (SFlow n) f
    | _, SFixed => m_render s SFixed f
    end in
  if cc cv =? 0 then
    match sz with
    | SFixed => Err EIndex
    | SFlow c | SBox c _ => Ok (blank c (cr cv))
    end
  else if (negb (l =? 0)) || (negb (r =? 0)) then pad_trim_lr cv l r else Ok cv.

Definition padding_sem (s : sem) (align : Z) (wt : wtype) (min_width : option Z) (left right : Z) : sem :=
  mk_node (padding_sizing (m_sizing s) wt)
    (padding_rows s align wt min_width left right)
    (padding_pack_fixed s wt min_width left right)
    (padding_render s align wt min_width left right).

(* --- Filler (filler.py) --- *)
Inductive htype := HGiven (n : Z) | HPack | HRelative (pct : Z).

(* calculate_top_bottom_filler (height_type GIVEN with [given] or RELATIVE) *)
Definition ctbf (maxrow valign : Z) (ht : htype) (given : Z) (min_height : option Z) (top bottom : Z) : Z * Z :=
  let height := match ht with
                | HRelative pct =>
                    let h := int_scale pct 101 (Z.max (maxrow - top - bottom) 0 + 1) in
                    match min_height with Some m => Z.max h m | None => h end
                | _ => given
                end in
  let filler := maxrow - height - top - bottom in
  let bottom1 := bottom + int_scale (100 - valign) 101 (filler + 1) in
  let top1 := maxrow - height - bottom1 in
  let '(top2, bottom2) :=
    if (bottom1 <? 0) && (0 <? top1) then (let sh := Z.min top1 (- bottom1) in (top1 - sh, bottom1 + sh))
    else if (top1 <? 0) && (0 <? bottom1) then (let sh := Z.min bottom1 (- top1) in (top1 + sh, bottom1 - sh))
    else (top1, bottom1) in
  (Z.max top2 0, Z.max bottom2 0).

Definition filler_sizing (ht : htype) : sizing :=
  match ht with HRelative _ => mkS true false false | _ => mkS true true false end.

Definition filler_rows (s : sem) (ht : htype) (top bottom : Z) (c : Z) (f : bool) : res Z :=
  match ht with
  | HPack => let* r := m_rows s c f in Ok (r + top + bottom)
  | HGiven n => Ok (n + top + bottom)
  | HRelative _ => Err EWidget
  end.

(* Filler.filler_values after maxcol, maxrow = self.pack(size, focus) *)
Definition filler_values (s : sem) (valign : Z) (ht : htype) (min_height : option Z) (top bottom : Z)
           (maxcol maxrow : Z) (f : bool) : res (Z * Z) :=
  match ht with
  | HPack => let* h := m_rows s maxcol f in Ok (ctbf maxrow valign (HGiven h) h None top bottom)
  | HGiven n => Ok (ctbf maxrow valign ht n min_height top bottom)
  | HRelative _ => Ok (ctbf maxrow valign ht 0 min_height top bottom)
  end.

Definition filler_render (s : sem) (valign : Z) (ht : htype) (min_height : option Z) (top bottom : Z)
           (self_rows : Z -> bool -> res Z) (sz : size) (f : bool) : res canv :=
  let* mc_mr := default_pack (filler_sizing ht) self_rows sz f in
  let '(maxcol, maxrow) := mc_mr in
  let* tb := filler_values s valign ht min_height top bottom maxcol maxrow f in
  let '(t, b) := tb in
  let* cv := match ht with
             | HPack => m_render s (SFlow maxcol) f
             | _ => m_render s (SBox maxcol (maxrow - t - b)) f
             end in
  let* cv1 :=
    (if (negb (maxrow =? 0)) && (maxrow <? cr cv) then
       match cur cv with
       | Some (_, cy) => if maxrow <=? cy then trim cv (cy - maxrow + 1) (Some (maxrow - t - b)) else Ok cv
       | None => Ok cv
       end
     else Ok cv) in
  if maxrow <? cr cv1 then trim cv1 0 (Some maxrow)
  else pad_trim_tb cv1 t b.

Definition filler_sem (s : sem) (valign : Z) (ht : htype) (min_height : option Z) (top bottom : Z) : sem :=
  let rows := filler_rows s ht top bottom in
  mk_node (filler_sizing ht) rows
    (fun _ => Err EWidget)
    (filler_render s valign ht min_height top bottom (wrap_rows rows)).

(* ============================================================ Pile (pile.py) ============================================================ *)
Record pitem := mkPI { pi_sem : sem; pi_kind : whk; pi_amount : Z }.

(* Pile.sizing: the per-item flag (BOX, FLOW, FIXED) *)
Definition pile_flag (k : whk) (cs : sizing) : bool * bool * bool :=
  match k with
  | KWeight => (s_box cs, s_flow cs, s_fixed cs && (s_box cs || s_flow cs))
  | KGiven => (s_box cs, s_box cs, false)
  | KPack => (false, s_flow cs, s_fixed cs)
  end.

(* the loop of Pile.sizing; None = the warning path (fallback BOX|FLOW) *)
Fixpoint pile_sizing_loop (l : list pitem) (sbox hflow hfixed : bool) : option sizing :=
  match l with
  | [] => Some (mkS sbox hflow hfixed)
  | it :: r =>
      let '(b, fl, fx) := pile_flag (pi_kind it) (m_sizing (pi_sem it)) in
      if negb (b || fl || fx) then None
      else if b && negb (fl || fx) then Some (mkS true false false)      (* strict_box: break *)
      else pile_sizing_loop r (sbox || b) (hflow || fl) (hfixed || fx)
  end.
Definition pile_sizing (l : list pitem) : sizing :=
  match l with
  | [] => mkS true true false
  | _ => match pile_sizing_loop l false false false with Some s => s | None => mkS true true false end
  end.

Definition item_focus (f : bool) (fp : Z) (i : Z) : bool := f && (i =? fp).

(* Pile.get_item_rows, flow branch (remaining is None) *)
Fixpoint pile_item_rows_flow (l : list pitem) (maxcol : Z) (f : bool) (fp i : Z) : res (list Z) :=
  match l with
  | [] => Ok []
  | it :: r =>
      let cs := m_sizing (pi_sem it) in
      let fo := item_focus f fp i in
      let* h := match pi_kind it with
                | KGiven => Ok (pi_amount it)
                | k => if s_flow cs then m_rows (pi_sem it) maxcol fo
                       else if s_fixed cs && (match k with KPack => true | _ => false end)
                       then (let* p := m_pack (pi_sem it) SFixed fo in Ok (snd p))
                       else m_rows (pi_sem it) maxcol fo
                end in
      let* hs := pile_item_rows_flow r maxcol f fp (i + 1) in
      Ok (h :: hs)
  end.

(* Pile.get_item_rows, box branch: first pass (None = weighted, to be filled) *)
Fixpoint pile_box_pass1 (l : list pitem) (maxcol : Z) (f : bool) (fp i : Z) (remaining wtotal : Z)
  : res (list (option Z) * Z * Z) :=
  match l with
  | [] => Ok ([], remaining, wtotal)
  | it :: r =>
      match pi_kind it with
      | KPack =>
          let cs := m_sizing (pi_sem it) in
          let* rows := (if negb (s_flow cs) && s_fixed cs
                        then (let* p := m_pack (pi_sem it) SFixed (item_focus f fp i) in Ok (snd p))
                        else m_rows (pi_sem it) maxcol (item_focus f fp i)) in
          let* t := pile_box_pass1 r maxcol f fp (i + 1) (remaining - rows) wtotal in
          let '(hs, rem, wt) := t in Ok (Some rows :: hs, rem, wt)
      | KGiven =>
          let* t := pile_box_pass1 r maxcol f fp (i + 1) (remaining - pi_amount it) wtotal in
          let '(hs, rem, wt) := t in Ok (Some (pi_amount it) :: hs, rem, wt)
      | KWeight =>
          if pi_amount it =? 0 then
            let* t := pile_box_pass1 r maxcol f fp (i + 1) remaining wtotal in
            let '(hs, rem, wt) := t in Ok (Some 0 :: hs, rem, wt)
          else
            let* t := pile_box_pass1 r maxcol f fp (i + 1) remaining (wtotal + pi_amount it) in
            let '(hs, rem, wt) := t in Ok (None :: hs, rem, wt)
      end
  end.
(* second pass: rows = int(float(remaining) * height / wtotal + 0.5) *)
Fixpoint pile_box_pass2 (l : list pitem) (hs : list (option Z)) (remaining wtotal : Z) : list Z :=
  match l, hs with
  | it :: r, Some h :: hr => h :: pile_box_pass2 r hr remaining wtotal
  | it :: r, None :: hr =>
      let rows := round_half (remaining * pi_amount it) wtotal in
      rows :: pile_box_pass2 r hr (remaining - rows) (wtotal - pi_amount it)
  | _, _ => []
  end.
Definition pile_item_rows_box (l : list pitem) (maxcol maxrow : Z) (f : bool) (fp : Z) : res (list Z) :=
  let* t := pile_box_pass1 l maxcol f fp 0 maxrow 0 in
  let '(hs, rem, wt) := t in
  if wt =? 0 then Err EWidget       (* PileError: No weighted widgets found *)
  else Ok (pile_box_pass2 l hs (Z.max rem 0) wt).

Definition pile_item_rows (l : list pitem) (sz : size) (f : bool) (fp : Z) : res (list Z) :=
  match sz with
  | SFlow c => pile_item_rows_flow l c f fp 0
  | SBox c r => pile_item_rows_box l c r f fp
  | SFixed => Err EIndex            (* size[0] *)
  end.

(* Pile.get_rows_sizes for a non-empty size: (heights, render sizes).  [item_rows] is computed
   lazily at the first weighted item of a box pile. *)
Fixpoint pile_rows_sizes (all l : list pitem) (sz : size) (maxcol : Z) (f : bool) (fp i : Z) (item_rows : option (list Z))
  : res (list (Z * size)) :=
  match l with
  | [] => Ok []
  | it :: r =>
      let cs := m_sizing (pi_sem it) in
      let fo := item_focus f fp i in
      let isbox := match sz with SBox _ _ => true | _ => false end in
      match pi_kind it with
      | KGiven =>
          let* rest := pile_rows_sizes all r sz maxcol f fp (i + 1) item_rows in
          Ok ((pi_amount it, SBox maxcol (pi_amount it)) :: rest)
      | k =>
          if (match k with KPack => true | _ => false end) || negb isbox then
            let arg := if s_flow cs then SFlow maxcol
                       else if s_fixed cs && (match k with KPack => true | _ => false end) then SFixed
                       else SFlow maxcol in
            let* p := m_pack (pi_sem it) arg fo in
            let* rest := pile_rows_sizes all r sz maxcol f fp (i + 1) item_rows in
            Ok ((snd p, arg) :: rest)
          else
            let* ir := match item_rows with Some ir => Ok ir | None => pile_item_rows all sz f fp end in
            let rows := nthd ir (Z.to_nat i) 0 in
            let* rest := pile_rows_sizes all r sz maxcol f fp (i + 1) (Some ir) in
            Ok ((rows, SBox maxcol rows) :: rest)
      end
  end.

(* Pile._get_fixed_rows_sizes: classification of one item in the first loop *)
Inductive fplan :=
  | FPFixed (w h : Z) (alsoflow : bool)      (* PACK, FIXED in sizing: pack(()) taken; flow ones re-done at max_width *)
  | FPFlow                                   (* PACK flow-only, WEIGHT flow: height at max_width *)
  | FPGivenBox (h : Z)
  | FPZero (isflow : bool)                   (* weight <= 0 *)
  | FPWeightBox (w h weight : Z)             (* weight, FIXED and BOX *)
  | FPWeightFlow (w : Z).                    (* weight, FIXED and FLOW, not BOX: width counts, then flow *)

Fixpoint pile_fixed_plan (l : list pitem) (f : bool) (fp i : Z) : res (list fplan) :=
  match l with
  | [] => Ok []
  | it :: r =>
      let cs := m_sizing (pi_sem it) in
      let fo := item_focus f fp i in
      let* p :=
        match pi_kind it with
        | KPack =>
            let* a := (if s_fixed cs then (let* wh := m_pack (pi_sem it) SFixed fo in Ok (Some wh)) else Ok None) in
            if negb (s_fixed cs || s_flow cs) then Err EWidget
            else match a with
                 | Some (w, h) => Ok (FPFixed w h (s_flow cs))
                 | None => Ok FPFlow
                 end
        | KGiven => if s_box cs then Ok (FPGivenBox (pi_amount it)) else Err EWidget
        | KWeight =>
            if pi_amount it <=? 0 then Ok (FPZero (s_flow cs))
            else if s_fixed cs && (s_box cs || s_flow cs) then
              let* wh := m_pack (pi_sem it) SFixed fo in
              if s_box cs then Ok (FPWeightBox (fst wh) (snd wh) (pi_amount it)) else Ok (FPWeightFlow (fst wh))
            else if s_flow cs then Ok FPFlow
            else Err EWidget
        end in
      let* ps := pile_fixed_plan r f fp (i + 1) in
      Ok (p :: ps)
  end.

Definition plan_width (p : fplan) : option Z :=
  match p with
  | FPFixed w _ _ => Some w | FPZero _ => Some 0 | FPWeightBox w _ _ => Some w | FPWeightFlow w => Some w
  | _ => None
  end.
Definition plan_widths (ps : list fplan) : list Z :=
  flat_map (fun p => match plan_width p with Some w => [w] | None => [] end) ps.

(* max over the weight groups of height/weight, kept as a fraction (h, w): weight_max_sizes[w] = max height *)
Fixpoint best_coef (ps : list fplan) (best : option (Z * Z)) : option (Z * Z) :=
  match ps with
  | [] => best
  | FPWeightBox _ h w :: r =>
      best_coef r (match best with
                   | None => Some (h, w)
                   | Some (bh, bw) => if bh * w <? h * bw then Some (h, w) else best
                   end)
  | _ :: r => best_coef r best
  end.

(* second phase: heights and render sizes of every item *)
Fixpoint pile_fixed_finish (l : list pitem) (ps : list fplan) (maxw : Z) (coef : option (Z * Z)) (f : bool) (fp i : Z)
  : res (list (Z * Z * size)) :=
  match l, ps with
  | it :: r, p :: pr =>
      let fo := item_focus f fp i in
      let* whs :=
        match p with
        | FPFixed w h false => Ok (w, h, SFixed)
        | FPFixed _ _ true | FPFlow | FPWeightFlow _ =>
            let* h := m_rows (pi_sem it) maxw fo in Ok (maxw, h, SFlow maxw)
        | FPGivenBox h => Ok (maxw, h, SBox maxw h)
        | FPZero isflow => Ok (0, 0, if isflow then SFlow 0 else SBox 0 0)
        | FPWeightBox _ _ weight =>
            match coef with
            | Some (bh, bw) => let h := Z.max (round_half (bh * weight) bw) 1 in Ok (maxw, h, SBox maxw h)
            | None => Err EOther
            end
        end in
      let* rest := pile_fixed_finish r pr maxw coef f fp (i + 1) in
      Ok (whs :: rest)
  | _, _ => Ok []
  end.

(* Note on evaluation order: the code computes the flow heights (rows at max_width) for all flow
   items first, then the weighted heights, then the boxes; all of them are pure except for errors
   of rows(), which are raised in item order among the flow items - as here. *)
Definition pile_fixed_sizes (l : list pitem) (f : bool) (fp : Z) : res (list (Z * Z * size)) :=
  match l with
  | [] => Ok []
  | _ =>
      let* ps := pile_fixed_plan l f fp 0 in
      match plan_widths ps with
      | [] => Err EWidget                    (* No widgets providing width information *)
      | ws => pile_fixed_finish l ps (maxz ws) (best_coef ps None) f fp 0
      end
  end.

(* (heights, sizes) for any size *)
Definition pile_sizes (l : list pitem) (sz : size) (f : bool) (fp : Z) : res (list (Z * size)) :=
  match sz with
  | SFixed => let* t := pile_fixed_sizes l f fp in Ok (map (fun x => (snd (fst x), snd x)) t)
  | SFlow c | SBox c _ => pile_rows_sizes l l sz c f fp 0 None
  end.

Fixpoint pile_render_items (l : list pitem) (hs : list (Z * size)) (f : bool) (fp i : Z) : res (list canv) :=
  match l, hs with
  | it :: r, (h, s) :: hr =>
      if 0 <? h then
        let* cv := m_render (pi_sem it) s (item_focus f fp i) in
        let* rest := pile_render_items r hr f fp (i + 1) in
        Ok (cv :: rest)
      else pile_render_items r hr f fp (i + 1)
  | _, _ => Ok []
  end.

(* Pile.render *)
Definition pile_render (l : list pitem) (fp : Z) (sz : size) (f : bool) : res canv :=
  let* hs := pile_sizes l sz f fp in
  let* cvs := pile_render_items l hs f fp 0 in
  match cvs with
  | [] => match sz with
          | SFixed => Err EIndex
          | SFlow c => Ok (blank c 0)
          | SBox c r => Ok (blank c r)
          end
  | _ =>
      let out := canvas_combine cvs in
      match sz with
      | SBox _ r => if r =? cr out then Ok out else pad_trim_tb out 0 (r - cr out)
      | _ => Ok out
      end
  end.

(* Pile.rows = sum(get_item_rows(size, focus)) *)
Definition pile_rows (l : list pitem) (fp : Z) (c : Z) (f : bool) : res Z :=
  let* hs := pile_item_rows_flow l c f fp 0 in Ok (sumz hs).

(* Pile.pack(()) = (max(widths), sum(heights)) *)
Definition pile_pack_fixed (l : list pitem) (fp : Z) (f : bool) : res (Z * Z) :=
  let* t := pile_fixed_sizes l f fp in
  match t with
  | [] => Err EValue      (* max(()) *)
  | _ => Ok (maxz (map (fun x => fst (fst x)) t), sumz (map (fun x => snd (fst x)) t))
  end.

Definition pile_sem (l : list pitem) (fp : Z) : sem :=
  mk_node (pile_sizing l) (pile_rows l fp) (pile_pack_fixed l fp) (pile_render l fp).

(* ============================================================ Columns (columns.py) ============================================================ *)
Record citem := mkCI { ci_sem : sem; ci_kind : whk; ci_amount : Z; ci_box : bool }.

(* Columns.sizing: per-item flag (BOX, FLOW, FIXED) *)
Definition cols_flag (k : whk) (cs : sizing) : bool * bool * bool :=
  match k with
  | KWeight => (s_box cs, s_flow cs, s_fixed cs && (s_box cs || s_flow cs))
  | KGiven => (s_box cs, s_flow cs, s_flow cs)
  | KPack => (false, s_flow cs, s_fixed cs)
  end.

(* state of the loop: (all flags have BOX, strict_box, has_flow, has_fixed, block_fixed); None = warning path *)
Fixpoint cols_sizing_loop (l : list citem) (allbox strict hflow hfixed block : bool) : option (bool * bool * bool * bool * bool) :=
  match l with
  | [] => Some (allbox, strict, hflow, hfixed, block)
  | it :: r =>
      let '(b, fl, fx) := cols_flag (ci_kind it) (m_sizing (ci_sem it)) in
      if negb (b || fl || fx) then None
      else
        let given_box := b && (match ci_kind it with KGiven => true | _ => false end) in
        cols_sizing_loop r (allbox && b)
          (strict || (b && negb (ci_box it || fl || fx)))
          (hflow || fl) (hfixed || fx)
          (block || (negb fx && negb given_box))
  end.
Definition cols_sizing (l : list citem) : sizing :=
  match l with
  | [] => mkS true true false
  | _ =>
      match cols_sizing_loop l true false false false false with
      | None => mkS true true false
      | Some (allbox, strict, hflow, hfixed, block) =>
          let fl := negb strict && (hflow || (hfixed && negb block)) in
          let fx := negb strict && hfixed && negb block in
          if negb (allbox || fl || fx) then mkS true true false else mkS allbox fl fx
      end
  end.

(* Columns.column_widths, first loop.  Returns widths (reversed order fixed below) and weighted (weight, index). *)
Fixpoint cw_loop1 (l : list citem) (maxcol d mw : Z) (f : bool) (fp i : Z) (shared : Z)
  : res (list Z * list (Z * Z) * Z) :=
  match l with
  | [] => Ok ([], [], shared)
  | it :: r =>
      let cs := m_sizing (ci_sem it) in
      let fo := item_focus f fp i in
      let* static_w :=
        match ci_kind it with
        | KGiven => Ok (ci_amount it)
        | KPack =>
            if s_fixed cs || s_flow cs then
              let* c1 := (if s_fixed cs then (let* p := m_pack (ci_sem it) SFixed fo in Ok (fst p)) else Ok 0) in
              if s_flow cs && ((c1 =? 0) || (maxcol <? c1))
              then (let* p := m_pack (ci_sem it) (SFlow maxcol) fo in Ok (fst p))
              else Ok c1
            else (let* p := m_pack (ci_sem it) (SFlow maxcol) fo in Ok (fst p))
        | KWeight => Ok mw
        end in
      if (shared <? static_w + d) && (fp <? i) then Ok ([], [], shared)
      else
        let* t := cw_loop1 r maxcol d mw f fp (i + 1) (shared - (static_w + d)) in
        let '(ws, wt, sh) := t in
        Ok (static_w :: ws,
            match ci_kind it with KWeight => (ci_amount it, i) :: wt | _ => wt end,
            sh)
  end.

(* "drop columns on the left until we fit" *)
Fixpoint cw_drop (ws : list Z) (d : Z) (i : Z) (shared : Z) (weighted : list (Z * Z)) : list Z * Z * list (Z * Z) :=
  match ws with
  | [] => ([], shared, weighted)
  | w :: r =>
      if 0 <=? shared then (ws, shared, weighted)
      else
        let weighted' := match weighted with
                         | (_, j) :: wr => if j =? i then wr else weighted
                         | [] => weighted
                         end in
        let '(r', sh, wt) := cw_drop r d (i + 1) (shared + (w + d)) weighted' in
        (0 :: r', sh, wt)
  end.

(* sorted(weighted): by (weight, index) *)
Definition wle (a b : Z * Z) : bool := (fst a <? fst b) || ((fst a =? fst b) && (snd a <=? snd b)).
Fixpoint winsert (x : Z * Z) (l : list (Z * Z)) : list (Z * Z) :=
  match l with [] => [x] | y :: r => if wle x y then x :: l else y :: winsert x r end.
Definition wsort (l : list (Z * Z)) : list (Z * Z) := fold_right winsert [] l.

Fixpoint set_nth (l : list Z) (i : nat) (v : Z) : list Z :=
  match l, i with [], _ => [] | _ :: r, O => v :: r | x :: r, S k => x :: set_nth r k v end.

(* "divide up the remaining space between weighted cols" *)
Fixpoint cw_grow (sorted : list (Z * Z)) (ws : list Z) (mw grow wtotal : Z) : res (list Z) :=
  match sorted with
  | [] => Ok ws
  | (weight, i) :: r =>
      if wtotal =? 0 then Err EZeroDiv else
      let width := Z.max (round_half (grow * weight) wtotal) mw in
      cw_grow r (set_nth ws (Z.to_nat i) width) mw (grow - width) (wtotal - weight)
  end.

Definition column_widths (l : list citem) (d mw fp : Z) (maxcol : Z) (f : bool) : res (list Z) :=
  let* t := cw_loop1 l maxcol d mw f fp 0 (maxcol + d) in
  let '(ws, weighted, shared) := t in
  let '(ws1, shared1, weighted1) := cw_drop ws d 0 shared weighted in
  if shared1 =? 0 then Ok ws1
  else cw_grow (wsort weighted1) ws1 mw (shared1 + zlength weighted1 * mw) (sumz (map fst weighted1)).

(* Columns.get_column_sizes for a non-empty size; one plan per (width, item) pair *)
Inductive cplan := CPDone (h : Z) (s : size) | CPBox.

Fixpoint cols_plan (ws : list Z) (l : list citem) (sz : size) (f : bool) (fp i : Z) : res (list cplan) :=
  match ws, l with
  | w :: wr, it :: r =>
      let cs := m_sizing (ci_sem it) in
      let fo := item_focus f fp i in
      let* p :=
        match sz with
        | SBox _ rr =>
            if s_box cs then Ok (CPDone rr (SBox w rr)) else
            if ci_box it then Ok CPBox else
            if s_flow cs then (let* h := (if 0 <? w then m_rows (ci_sem it) w fo else Ok 0) in Ok (CPDone h (SFlow w))) else
            match ci_kind it with
            | KPack => let* h := (if 0 <? w then (let* p := m_pack (ci_sem it) SFixed fo in Ok (snd p)) else Ok 0) in Ok (CPDone h SFixed)
            | _ => Ok CPBox
            end
        | _ =>
            if ci_box it then Ok CPBox else
            if s_flow cs then (let* h := (if 0 <? w then m_rows (ci_sem it) w fo else Ok 0) in Ok (CPDone h (SFlow w))) else
            match ci_kind it with
            | KPack => let* h := (if 0 <? w then (let* p := m_pack (ci_sem it) SFixed fo in Ok (snd p)) else Ok 0) in Ok (CPDone h SFixed)
            | _ => Ok CPBox
            end
        end in
      let* ps := cols_plan wr r sz f fp (i + 1) in
      Ok (p :: ps)
  | _, _ => Ok []
  end.

Definition cplan_heights (ps : list cplan) : list Z :=
  flat_map (fun p => match p with CPDone h _ => [h] | CPBox => [] end) ps.

Fixpoint cols_finish (ws : list Z) (ps : list cplan) (maxh : Z) : list (Z * Z * size) :=
  match ws, ps with
  | w :: wr, CPDone h s :: pr => (w, h, s) :: cols_finish wr pr maxh
  | w :: wr, CPBox :: pr => (w, maxh, SBox w maxh) :: cols_finish wr pr maxh
  | _, _ => []
  end.

(* Columns._get_fixed_column_sizes *)
Inductive cfplan :=
  | CFDone (w h : Z) (s : size)
  | CFGivenBox (w : Z)
  | CFZero (isbox : bool)
  | CFWeight (w weight : Z) (isbox : bool).

Fixpoint cols_fixed_plan (l : list citem) (mw : Z) (f : bool) (fp i : Z) : res (list cfplan) :=
  match l with
  | [] => Ok []
  | it :: r =>
      let cs := m_sizing (ci_sem it) in
      let fo := item_focus f fp i in
      let* p :=
        match ci_kind it with
        | KGiven =>
            if ci_box it then Ok (CFGivenBox (ci_amount it))
            else if s_flow cs then (let* h := m_rows (ci_sem it) (ci_amount it) fo in Ok (CFDone (ci_amount it) h (SFlow (ci_amount it))))
            else Err EWidget
        | k =>
            if (match k with KPack => true | _ => false end) && s_fixed cs && negb (ci_box it) then
              let* wh := m_pack (ci_sem it) SFixed fo in Ok (CFDone (fst wh) (snd wh) SFixed)
            else if (match k with KPack => true | _ => false end) then Err EType   (* None <= 0 *)
            else if ci_amount it <=? 0 then Ok (CFZero (ci_box it))
            else if s_flow cs || ci_box it then
              let* w := (if s_fixed cs then (let* wh := m_pack (ci_sem it) SFixed fo in Ok (fst wh)) else Ok mw) in
              Ok (CFWeight w (ci_amount it) (ci_box it))
            else Err EWidget
        end in
      let* ps := cols_fixed_plan r mw f fp (i + 1) in
      Ok (p :: ps)
  end.

Fixpoint best_wcoef (ps : list cfplan) (best : option (Z * Z)) : option (Z * Z) :=
  match ps with
  | [] => best
  | CFWeight w weight _ :: r =>
      best_wcoef r (match best with
                    | None => Some (w, weight)
                    | Some (bw, bwt) => if bw * weight <? w * bwt then Some (w, weight) else best
                    end)
  | _ :: r => best_wcoef r best
  end.

(* weighted widths and the heights of the non-box weighted items.  The code does this per weight
   group in dict insertion order; heights are pure apart from errors. *)
Fixpoint cols_fixed_mid (l : list citem) (ps : list cfplan) (mw : Z) (coef : option (Z * Z)) (f : bool) (fp i : Z)
  : res (list (Z * option Z * option size)) :=     (* width, height if known, size if known *)
  match l, ps with
  | it :: r, p :: pr =>
      let fo := item_focus f fp i in
      let* x :=
        match p with
        | CFDone w h s => Ok (w, Some h, Some s)
        | CFGivenBox w => Ok (w, None, None)
        | CFZero isbox => Ok (0, Some 1, if isbox then None else Some (SFlow 0))
        | CFWeight _ weight isbox =>
            match coef with
            | Some (bw, bwt) =>
                let w := Z.max (round_half (bw * weight) bwt) mw in
                if isbox then Ok (w, None, None)
                else (let* h := m_rows (ci_sem it) w fo in Ok (w, Some h, Some (SFlow w)))
            | None => Err EOther
            end
        end in
      let* rest := cols_fixed_mid r pr mw coef f fp (i + 1) in
      Ok (x :: rest)
  | _, _ => Ok []
  end.

Definition cols_fixed_sizes (l : list citem) (mw : Z) (f : bool) (fp : Z) : res (list (Z * Z * size)) :=
  let* ps := cols_fixed_plan l mw f fp 0 in
  let* mid := cols_fixed_mid l ps mw (best_wcoef ps None) f fp 0 in
  let hs := flat_map (fun x => match snd (fst x) with Some h => [h] | None => [] end) mid in
  match hs with
  | [] => Err EWidget                 (* No height information *)
  | _ =>
      let maxh := maxz hs in
      Ok (map (fun x => match x with
                        | (w, Some h, Some s) => (w, h, s)
                        | (w, _, _) => (w, maxh, SBox w maxh)
                        end) mid)
  end.

(* widths, heights, sizes for any size *)
Definition cols_sizes (l : list citem) (d mw fp : Z) (sz : size) (f : bool) : res (list (Z * Z * size)) :=
  match sz with
  | SFixed => cols_fixed_sizes l mw f fp
  | SFlow c | SBox c _ =>
      let* ws := column_widths l d mw fp c f in
      let* ps := cols_plan ws l sz f fp 0 in
      let maxh := match sz with
                  | SBox _ r => r
                  | _ => match cplan_heights ps with [] => 1 | hs => Z.max 1 (maxz hs) end   (* max(1, *heights.values()) *)
                  end in
      Ok (cols_finish ws ps maxh)
  end.

Fixpoint cols_render_items (l : list citem) (t : list (Z * Z * size)) (n d : Z) (f : bool) (fp i : Z) : res (list (canv * Z)) :=
  match l, t with
  | it :: r, (w, _, s) :: tr =>
      if w <=? 0 then cols_render_items r tr n d f fp (i + 1)
      else
        let* cv := m_render (ci_sem it) s (item_focus f fp i) in
        let* rest := cols_render_items r tr n d f fp (i + 1) in
        Ok ((cv, if i <? n - 1 then w + d else w) :: rest)
  | _, _ => Ok []
  end.

(* Columns.render *)
Definition cols_render (l : list citem) (d mw fp : Z) (sz : size) (f : bool) : res canv :=
  let* t := cols_sizes l d mw fp sz f in
  let* data := cols_render_items l t (zlength t) d f fp 0 in
  match data with
  | [] => match sz with
          | SFixed => Err EWidget
          | SFlow c => Ok (blank c 1)
          | SBox c r => Ok (blank c r)
          end
  | _ =>
      let* cv := canvas_join data in
      match sz with
      | SFlow c =>
          let* cv1 := (if cc cv <? c then pad_trim_lr cv 0 (c - cc cv) else Ok cv) in
          if cr cv1 <? 1 then pad_trim_tb cv1 0 1 else Ok cv1      (* rows() never reports less than one row *)
      | SBox c _ => if cc cv <? c then pad_trim_lr cv 0 (c - cc cv) else Ok cv
      | SFixed => Ok cv
      end
  end.

(* Columns.rows *)
Definition cols_rows (l : list citem) (d mw fp : Z) (c : Z) (f : bool) : res Z :=
  let* t := cols_sizes l d mw fp (SFlow c) f in
  match t with
  | [] => Ok 1
  | _ => Ok (Z.max 1 (maxz (map (fun x => snd (fst x)) t)))
  end.

(* Columns.pack(()) *)
Definition cols_pack_fixed (l : list citem) (d mw fp : Z) (f : bool) : res (Z * Z) :=
  let* t := cols_fixed_sizes l mw f fp in
  match t with
  | [] => Err EValue
  | _ => Ok (sumz (map (fun x => fst (fst x)) t) + d * Z.max (zlength t - 1) 0, maxz (map (fun x => snd (fst x)) t))
  end.

Definition cols_sem (l : list citem) (d mw fp : Z) : sem :=
  mk_node (cols_sizing l) (cols_rows l d mw fp) (cols_pack_fixed l d mw fp) (cols_render l d mw fp).

(* ============================================================ Frame (frame.py) ============================================================ *)
(* focus_part: 0 body, 1 header, 2 footer *)
Definition frame_top_bottom (hd ft : option sem) (fpart : Z) (maxcol maxrow : Z) (f : bool) : res (Z * Z * Z * Z) :=
  let* hrows := match hd with Some h => m_rows h maxcol ((fpart =? 1) && f) | None => Ok 0 end in
  let* frows := match ft with Some x => m_rows x maxcol ((fpart =? 2) && f) | None => Ok 0 end in
  let remaining := maxrow in
  if fpart =? 2 then
    if remaining <=? frows then Ok (0, remaining, hrows, frows)
    else if remaining - frows <=? hrows then Ok (remaining - frows, frows, hrows, frows)
    else Ok (hrows, frows, hrows, frows)
  else if fpart =? 1 then
    if maxrow <=? hrows then Ok (remaining, 0, hrows, frows)
    else if remaining - hrows <=? frows then Ok (hrows, remaining - hrows, hrows, frows)
    else Ok (hrows, frows, hrows, frows)
  else if remaining <=? hrows + frows then
    if remaining - 1 <=? frows then Ok (0, Z.max 0 (remaining - 1), hrows, frows)
    else Ok (Z.max 0 (remaining - frows - 1), frows, hrows, frows)
  else Ok (hrows, frows, hrows, frows).

(* the header/footer part of Frame.render: Filler(part, valign).render((maxcol, trim)) when clipped *)
Definition frame_part (p : option sem) (valign : Z) (trimv rows maxcol : Z) (f : bool) : res (option canv) :=
  match p with
  | None => Ok None
  | Some s =>
      if (negb (trimv =? 0)) && (trimv <? rows) then
        let* cv := m_render (filler_sem s valign HPack None 0 0) (SBox maxcol trimv) f in Ok (Some cv)
      else if negb (trimv =? 0) then
        let* cv := m_render s (SFlow maxcol) f in
        if cr cv =? rows then Ok (Some cv) else Err EOther      (* RuntimeError rows, render mismatch *)
      else Ok None
  end.

Definition frame_render (body : sem) (hd ft : option sem) (fpart : Z) (sz : size) (f : bool) : res canv :=
  match sz with
  | SBox maxcol maxrow =>
      let* t := frame_top_bottom hd ft fpart maxcol maxrow f in
      let '(htrim, ftrim, hrows, frows) := t in
      (* a header of zero rows: "if self.header" is about the widget, hrows = 0 gives htrim = 0 *)
      let* head := frame_part hd 0 htrim hrows maxcol (f && (fpart =? 1)) in
      let* bod := (if ftrim + htrim <? maxrow
                   then (let* cv := m_render body (SBox maxcol (maxrow - ftrim - htrim)) (f && (fpart =? 0)) in Ok (Some cv))
                   else Ok None) in
      let* foot := frame_part ft 100 ftrim frows maxcol (f && (fpart =? 2)) in
      let l := (match head with Some c => [c] | None => [] end)
                 ++ (match bod with Some c => [c] | None => [] end)
                 ++ (match foot with Some c => [c] | None => [] end) in
      Ok (canvas_combine l)
  | _ => Err EValue          (* (maxcol, maxrow) = size *)
  end.

Definition frame_sem (body : sem) (hd ft : option sem) (fpart : Z) : sem :=
  mk_node (mkS true false false)
    (fun _ _ => Err EOther)              (* Frame has no rows() *)
    (fun _ => Err EWidget)
    (frame_render body hd ft fpart).

(* ============================================================ Overlay (overlay.py) ============================================================ *)
Record ovp := mkOv {
  ov_align : Z; ov_wt : wtype; ov_valign : Z; ov_ht : htype;
  ov_minw : option Z; ov_minh : option Z;
  ov_left : Z; ov_right : Z; ov_top : Z; ov_bottom : Z
}.

Definition wt_amount (w : wtype) : Z := match w with WGiven n => n | WRelative p => p | _ => 0 end.
Definition ht_amount (h : htype) : Z := match h with HGiven n => n | HRelative p => p | _ => 0 end.
Definition osome (o : option Z) : bool := match o with Some m => negb (m =? 0) | None => false end.

Definition overlay_sizing (ts : sizing) (p : ovp) : sizing :=
  match ov_wt p with
  | WPack => mkS true false (s_fixed ts)
  | _ =>
      let wok := (negb (wt_amount (ov_wt p) =? 0)) && ((match ov_wt p with WGiven _ => true | _ => false end) || osome (ov_minw p)) in
      match ov_ht p with
      | HPack => if s_flow ts then mkS true true wok else mkS true false false
      | _ =>
          if (negb (ht_amount (ov_ht p) =? 0)) && ((match ov_ht p with HGiven _ => true | _ => false end) || osome (ov_minh p))
          then (if s_box ts then mkS true true wok else mkS true false false)
          else mkS true false false
      end
  end.

(* Overlay.pack(()) *)
Definition overlay_pack_fixed (t : sem) (p : ovp) (f : bool) : res (Z * Z) :=
  let extra_cols := ov_left p + ov_right p in
  let extra_rows := ov_top p + ov_bottom p in
  match ov_wt p with
  | WPack => let* cr := m_pack t SFixed f in Ok (fst cr + extra_cols, snd cr + extra_rows)
  | wt =>
      if wt_amount wt =? 0 then Err EWidget else
      let* wc :=
        match wt with
        | WGiven n => Ok (n, n + extra_cols)
        | WRelative pct => if osome (ov_minw p)
                           then (let m := omin (ov_minw p) 0 in Ok (m, round_half (m * 100) pct))
                           else Err EWidget
        | _ => Err EWidget
        end in
      let '(w_cols, cols) := wc in
      match ov_ht p with
      | HPack => let* r := m_rows t w_cols f in Ok (cols, r + extra_rows)
      | ht =>
          if ht_amount ht =? 0 then Err EWidget else
          match ht with
          | HGiven n => Ok (cols, n + extra_rows)
          | HRelative pct => if osome (ov_minh p) then Ok (cols, round_half (omin (ov_minh p) 0 * 100) pct) else Err EWidget
          | HPack => Err EWidget
          end
      end
  end.

(* Overlay.rows *)
Definition overlay_rows (t : sem) (p : ovp) (c : Z) (f : bool) : res Z :=
  let extra := ov_top p + ov_bottom p in
  match ov_ht p with
  | HGiven n => Ok (n + extra)
  | HRelative pct =>
      if osome (ov_minh p) then Ok (round_half (omin (ov_minh p) 0 * 100) pct) else Err EWidget
  | HPack =>
      match ov_wt p with
      | WGiven n => if negb (n =? 0) then (let* r := m_rows t n f in Ok (r + extra)) else Err EWidget
      | WRelative pct =>
          let width := Z.max (round_half (c * pct) 100) (omin (ov_minw p) 0) in
          let* r := m_rows t width f in Ok (r + extra)
      | _ => Err EWidget
      end
  end.

(* Overlay.calculate_padding_filler *)
Definition overlay_cpf (t : sem) (p : ovp) (maxcol maxrow : Z) (f : bool) : res (Z * Z * Z * Z) :=
  let* lrh :=
    match ov_wt p with
    | WPack =>
        let* wh := m_pack t SFixed f in
        if snd wh =? 0 then Err EWidget      (* fixed widget must have a height *)
        else Ok (clrp maxcol (ov_align p) WClip (fst wh) None (ov_left p) (ov_right p), Some (snd wh))
    | _ => Ok (clrp maxcol (ov_align p) (ov_wt p) (wt_amount (ov_wt p)) (ov_minw p) (ov_left p) (ov_right p), None)
    end in
  let '((lft, rgt), oh) := lrh in
  match oh with
  | Some height =>
      let '(top, bottom) := ctbf maxrow (ov_valign p) (HGiven height) height None (ov_top p) (ov_bottom p) in
      Ok (lft, rgt, top, if maxrow - top - bottom <? height then maxrow - top - height else bottom)
  | None =>
      match ov_ht p with
      | HPack =>
          let* height := m_rows t (maxcol - lft - rgt) f in
          let '(top, bottom) := ctbf maxrow (ov_valign p) (HGiven height) height None (ov_top p) (ov_bottom p) in
          Ok (lft, rgt, top, if maxrow <? height then maxrow - height else bottom)
      | _ =>
          let '(top, bottom) := ctbf maxrow (ov_valign p) (ov_ht p) (ht_amount (ov_ht p)) (ov_minh p) (ov_top p) (ov_bottom p) in
          Ok (lft, rgt, top, bottom)
      end
  end.

(* Overlay.render *)
Definition overlay_render (t b : sem) (p : ovp) (self_pack : size -> bool -> res (Z * Z)) (sz : size) (f : bool) : res canv :=
  let* real := self_pack sz f in
  let '(maxcol, maxrow) := real in
  let* pf := overlay_cpf t p maxcol maxrow f in
  let '(lft, rgt, top, bottom) := pf in
  let* bottom_c := m_render b (SBox maxcol maxrow) false in
  if (cc bottom_c =? 0) || (cr bottom_c =? 0) then Ok bottom_c else
  let tsize := match ov_wt p with
               | WPack => SFixed
               | _ => match ov_ht p with
                      | HPack => SFlow (maxcol - lft - rgt)
                      | _ => SBox (maxcol - lft - rgt) (maxrow - top - bottom)
                      end
               end in
  let* top_c := m_render t tsize f in
  if (cc top_c =? 0) || (cr top_c =? 0) then Ok bottom_c else       (* f9cf74e: an empty top canvas covers nothing *)
  let* top1 := (if (lft <? 0) || (rgt <? 0) then pad_trim_lr top_c (Z.min 0 lft) (Z.min 0 rgt) else Ok top_c) in
  let* top2 := (if (top <? 0) || (bottom <? 0) then pad_trim_tb top1 (Z.min 0 top) (Z.min 0 bottom) else Ok top1) in
  canvas_overlay top2 bottom_c (Z.max lft 0) top.

Definition overlay_sem (t b : sem) (p : ovp) : sem :=
  let sz := overlay_sizing (m_sizing t) p in
  let rows := wrap_rows (overlay_rows t p) in
  let pack := fun s f => if degenerate s then Err EStarved else
                         match s with SFixed => overlay_pack_fixed t p f | _ => default_pack sz rows s f end in
  mkSem sz rows pack (wrap_render (overlay_render t b p pack)).

(* ============================================================ widget trees ============================================================ *)
Inductive widget :=
  | WLeaf (d : leafdata)
  | WAttr (w : widget)                       (* AttrMap, and LineBox around its generated Pile *)
  | WBoxAdapter (w : widget) (h : Z)
  | WPadding (w : widget) (align : Z) (wt : wtype) (minw : option Z) (left right : Z)
  | WFiller (w : widget) (valign : Z) (ht : htype) (minh : option Z) (top bottom : Z)
  | WPile (items : pitems) (fp : Z)
  | WColumns (items : citems) (d mw fp : Z)
  | WFrame (body : widget) (hd ft : owidget) (fpart : Z)
  | WOverlay (t b : widget) (p : ovp)
with pitems := PNil | PCons (w : widget) (k : whk) (n : Z) (r : pitems)
with citems := CNil | CCons (w : widget) (k : whk) (n : Z) (b : bool) (r : citems)
with owidget := ONone | OSome (w : widget).

Fixpoint denote (w : widget) : sem :=
  match w with
  | WLeaf d => leaf_sem d
  | WAttr w => attr_sem (denote w)
  | WBoxAdapter w h => boxadapter_sem (denote w) h
  | WPadding w a wt mw l r => padding_sem (denote w) a wt mw l r
  | WFiller w va ht mh t b => filler_sem (denote w) va ht mh t b
  | WPile items fp => pile_sem (denote_p items) fp
  | WColumns items d mw fp => cols_sem (denote_c items) d mw fp
  | WFrame body hd ft fpart => frame_sem (denote body) (denote_o hd) (denote_o ft) fpart
  | WOverlay t b p => overlay_sem (denote t) (denote b) p
  end
with denote_p (l : pitems) : list pitem :=
  match l with PNil => [] | PCons w k n r => mkPI (denote w) k n :: denote_p r end
with denote_c (l : citems) : list citem :=
  match l with CNil => [] | CCons w k n b r => mkCI (denote w) k n b :: denote_c r end
with denote_o (o : owidget) : option sem :=
  match o with ONone => None | OSome w => Some (denote w) end.

(* ---------- WellFormed: every child supports the mode its container will ask of it ---------- *)
Definition impb (a b : bool) : bool := negb a || b.

Definition padding_child_ok (cs : sizing) (wt : wtype) : bool :=
  match wt with
  | WClip => s_fixed cs
  | WPack => impb (s_box cs) (s_flow cs)
  | WGiven n => (1 <=? n) && impb (s_fixed cs) (s_flow cs)
  | WRelative pct => 1 <=? pct
  end.
Definition filler_child_ok (cs : sizing) (ht : htype) : bool :=
  match ht with HPack => s_flow cs | HGiven n => (1 <=? n) && s_box cs | HRelative pct => (1 <=? pct) && s_box cs end.
Definition overlay_top_ok (ts : sizing) (p : ovp) : bool :=
  match ov_wt p with
  | WPack => s_fixed ts
  | WClip => false
  | wt => (1 <=? wt_amount wt) &&
          match ov_ht p with HPack => s_flow ts | ht => (1 <=? ht_amount ht) && s_box ts end
  end.

(* Pile: what each claimed mode asks of the item *)
Definition pile_child_ok (ps cs : sizing) (k : whk) (n : Z) : bool :=
  match k with
  | KGiven => (1 <=? n) && s_box cs
  | KPack => s_flow cs
  | KWeight => (1 <=? n) && (s_box cs || s_flow cs)
               && impb (s_box ps) (s_box cs)
               && impb (s_flow ps) (s_flow cs)
               && impb (s_fixed ps) (s_flow cs || (s_fixed cs && s_box cs))
  end.
(* Columns *)
Definition cols_child_ok (ps cs : sizing) (k : whk) (n : Z) (isbox : bool) : bool :=
  let flow_ok :=      (* flow render of the Columns *)
    if isbox then s_box cs else if s_flow cs then true
    else match k with KPack => s_fixed cs | _ => s_box cs end in
  let fixed_ok :=
    match k with
    | KGiven => if isbox then s_box cs else s_flow cs
    | KPack => s_fixed cs && negb isbox
    | KWeight => if isbox then s_box cs else s_flow cs
    end in
  (match k with KPack => s_flow cs || s_fixed cs | _ => (1 <=? n) && (s_box cs || s_flow cs) end)
  && impb (s_box ps) (s_box cs)
  && impb (s_flow ps) flow_ok
  && impb (s_fixed ps) fixed_ok.

Fixpoint wf_b (w : widget) : bool :=
  match w with
  | WLeaf _ => true
  | WAttr w => wf_b w
  | WBoxAdapter w h => wf_b w && s_box (m_sizing (denote w)) && (1 <=? h)
  | WPadding w a wt mw l r =>
      wf_b w && padding_child_ok (m_sizing (denote w)) wt && (0 <=? l) && (0 <=? r) && (0 <=? a) && (a <=? 100)
  | WFiller w va ht mh t b =>
      wf_b w && filler_child_ok (m_sizing (denote w)) ht && (0 <=? t) && (0 <=? b) && (0 <=? va) && (va <=? 100)
  | WPile items fp =>
      let ps := pile_sizing (denote_p items) in wf_p items ps && (0 <=? fp)
  | WColumns items d mw fp =>
      let cs := cols_sizing (denote_c items) in
      wf_c items cs && (0 <=? d) && (1 <=? mw) && (0 <=? fp)
      && (negb (s_fixed cs) || existsb (fun it => negb (ci_box it)) (denote_c items))
  | WFrame body hd ft fpart =>
      wf_b body && s_box (m_sizing (denote body)) && wf_o hd && wf_o ft
  | WOverlay t b p =>
      wf_b t && wf_b b && s_box (m_sizing (denote b)) && overlay_top_ok (m_sizing (denote t)) p
      && (0 <=? ov_left p) && (0 <=? ov_right p) && (0 <=? ov_top p) && (0 <=? ov_bottom p)
      && (0 <=? ov_align p) && (ov_align p <=? 100) && (0 <=? ov_valign p) && (ov_valign p <=? 100)
  end
with wf_p (l : pitems) (ps : sizing) : bool :=
  match l with
  | PNil => true
  | PCons w k n r => wf_b w && pile_child_ok ps (m_sizing (denote w)) k n && wf_p r ps
  end
with wf_c (l : citems) (cs : sizing) : bool :=
  match l with
  | CNil => true
  | CCons w k n b r => wf_b w && cols_child_ok cs (m_sizing (denote w)) k n b && wf_c r cs
  end
with wf_o (o : owidget) : bool :=
  match o with ONone => true | OSome w => wf_b w && s_flow (m_sizing (denote w)) end.

(* ============================================================ wire format ============================================================ *)
(* A parser is a function list Z -> option (A * list Z). *)
Definition P (A : Type) := list Z -> option (A * list Z).
Definition pz : P Z := fun l => match l with x :: r => Some (x, r) | [] => None end.
Definition pbind {A B} (p : P A) (f : A -> P B) : P B :=
  fun l => match p l with Some (a, r) => f a r | None => None end.
Definition pret {A} (a : A) : P A := fun l => Some (a, l).
Notation "'do' x '<-' p ';' k" := (pbind p (fun x => k)) (at level 200, x pattern, p at level 100, k at level 200).

Fixpoint prep {A} (n : nat) (p : P A) : P (list A) :=
  match n with
  | O => pret []
  | S k => do x <- p; do xs <- prep k p; pret (x :: xs)
  end.

Definition p_resz : P (res Z) :=
  do t <- pz; do v <- pz; pret (if t =? 0 then Ok v else Err (err_of_code v)).
Definition p_respair : P (res (Z * Z)) :=
  do t <- pz; if t =? 0 then (do a <- pz; do b <- pz; pret (Ok (a, b))) else (do v <- pz; pret (Err (err_of_code v))).
Definition p_rescanv : P (res canv) :=
  do t <- pz;
  if t =? 0 then
    (do c <- pz; do r <- pz; do cf <- pz; do x <- pz; do y <- pz; do rc <- pz;
     pret (Ok (mkC c r (if cf =? 0 then None else Some (x, y)) (negb (rc =? 0)))))
  else (do v <- pz; pret (Err (err_of_code v))).
Definition p_entry : P flow_entry :=
  do a <- p_resz; do b <- p_respair; do c <- p_rescanv; pret (mkFE a b c).
Definition p_table : P (list flow_entry) := do n <- pz; prep (Z.to_nat n) p_entry.
Definition p_sizing : P sizing :=
  do v <- pz; pret (mkS (Z.odd v) (Z.odd (v / 2)) (Z.odd (v / 4))).
Definition p_leaf : P leafdata :=
  do s <- p_sizing;
  do t0 <- p_table; do pk0 <- p_respair; do rd0 <- p_rescanv;
  do t1 <- p_table; do pk1 <- p_respair; do rd1 <- p_rescanv;
  do nb <- pz;
  do bx <- prep (Z.to_nat nb) (do c <- pz; do r <- pz; do f <- pz; do v <- p_rescanv; pret (c, r, negb (f =? 0), v));
  pret (mkLeaf s (table_fn t0 t1) (fun f => if f then pk1 else pk0) (fun f => if f then rd1 else rd0) (box_lookup bx)).
Definition p_oz : P (option Z) := do t <- pz; do v <- pz; pret (if t =? 0 then None else Some v).
Definition p_wtype : P wtype :=
  do k <- pz; do v <- pz;
  pret (if k =? 0 then WGiven v else if k =? 1 then WPack else if k =? 4 then WClip else WRelative v).
Definition p_htype : P htype :=
  do k <- pz; do v <- pz; pret (if k =? 0 then HGiven v else if k =? 1 then HPack else HRelative v).
Definition p_whk : P whk :=
  do k <- pz; pret (if k =? 0 then KGiven else if k =? 1 then KPack else KWeight).
Definition p_ovp : P ovp :=
  do a <- pz; do wt <- p_wtype; do va <- pz; do ht <- p_htype; do mw <- p_oz; do mh <- p_oz;
  do l <- pz; do r <- pz; do t <- pz; do b <- pz; pret (mkOv a wt va ht mw mh l r t b).

(* the tree parser; fuel = length of the input is always enough (every node consumes its tag) *)
Fixpoint p_widget (fuel : nat) : P widget :=
  match fuel with
  | O => fun _ => None
  | S k =>
      do tag <- pz;
      if tag =? 0 then (do d <- p_leaf; pret (WLeaf d))
      else if tag =? 1 then (do w <- p_widget k; pret (WAttr w))
      else if tag =? 2 then (do h <- pz; do w <- p_widget k; pret (WBoxAdapter w h))
      else if tag =? 3 then
        (do a <- pz; do wt <- p_wtype; do mw <- p_oz; do l <- pz; do r <- pz; do w <- p_widget k;
         pret (WPadding w a wt mw l r))
      else if tag =? 4 then
        (do va <- pz; do ht <- p_htype; do mh <- p_oz; do t <- pz; do b <- pz; do w <- p_widget k;
         pret (WFiller w va ht mh t b))
      else if tag =? 5 then
        (do n <- pz; do fp <- pz; do items <- p_pitems k (Z.to_nat n); pret (WPile items fp))
      else if tag =? 6 then
        (do n <- pz; do d <- pz; do mw <- pz; do fp <- pz; do items <- p_citems k (Z.to_nat n);
         pret (WColumns items d mw fp))
      else if tag =? 7 then
        (do fpart <- pz; do hh <- pz; do hf <- pz; do body <- p_widget k;
         do hd <- (if hh =? 0 then pret ONone else (do w <- p_widget k; pret (OSome w)));
         do ft <- (if hf =? 0 then pret ONone else (do w <- p_widget k; pret (OSome w)));
         pret (WFrame body hd ft fpart))
      else if tag =? 8 then
        (do p <- p_ovp; do t <- p_widget k; do b <- p_widget k; pret (WOverlay t b p))
      else fun _ => None
  end
with p_pitems (fuel : nat) (n : nat) : P pitems :=
  match fuel with
  | O => fun _ => None
  | S k =>
      match n with
      | O => pret PNil
      | S m => do kind <- p_whk; do amount <- pz; do w <- p_widget k; do r <- p_pitems k m; pret (PCons w kind amount r)
      end
  end
with p_citems (fuel : nat) (n : nat) : P citems :=
  match fuel with
  | O => fun _ => None
  | S k =>
      match n with
      | O => pret CNil
      | S m => do kind <- p_whk; do amount <- pz; do b <- pz; do w <- p_widget k; do r <- p_citems k m;
               pret (CCons w kind amount (negb (b =? 0)) r)
      end
  end.

(* probes: mode (0 fixed, 1 flow, 2 box), c, r, focus *)
Definition p_probe : P (size * bool) :=
  do m <- pz; do c <- pz; do r <- pz; do f <- pz;
  pret (if m =? 0 then SFixed else if m =? 1 then SFlow c else SBox c r, negb (f =? 0)).

Definition e_resz (r : res Z) : list Z := match r with Ok v => [0; v] | Err e => [1; err_code e] end.
Definition e_respair (r : res (Z * Z)) : list Z := match r with Ok (a, b) => [0; a; b] | Err e => [1; err_code e] end.
Definition e_rescanv (r : res canv) : list Z :=
  match r with
  | Ok c => [0; cc c; cr c] ++ (match cur c with Some (x, y) => [1; x; y] | None => [0; 0; 0] end)
  | Err e => [1; err_code e]
  end.
Definition e_bool (b : bool) : Z := if b then 1 else 0.

Definition run_probe (s : sem) (pr : size * bool) : list Z :=
  let '(sz, f) := pr in
  (match sz with SFlow c => e_resz (m_rows s c f) | _ => [] end)
  ++ (match sz with SBox _ _ => [] | _ => e_respair (m_pack s sz f) end)
  ++ e_rescanv (m_render s sz f).

(* input: tree, number of probes, probes.  output: sizing bits, wf flag, then per probe rows/pack/render;
   [-1] on a malformed input *)
Definition run_case (l : list Z) : list Z :=
  match p_widget (S (length l)) l with
  | None => [-1]
  | Some (w, rest) =>
      match (do n <- pz; prep (Z.to_nat n) p_probe) rest with
      | None => [-1]
      | Some (probes, _) =>
          let s := denote w in
          [e_bool (s_box (m_sizing s)); e_bool (s_flow (m_sizing s)); e_bool (s_fixed (m_sizing s)); e_bool (wf_b w)]
          ++ flat_map (run_probe s) probes
      end
  end.
