(* C15 - glue between the emulator model (VTerm.v) and the reference VT100 (VT100Ref.v):
   the byte encoding of the reference's commands, the comparison of the two states, and run_case. *)
From Coq Require Import ZArith List Bool.
Import ListNotations.
From Urwid Require Import PyBase vterm_csi_gen VTerm VT100Ref.
Open Scope Z_scope.

(* a parameter: negative = omitted *)
Definition enc_param (n : Z) : list Z := if n <? 0 then [] else dec_str n.
Fixpoint enc_params (l : list Z) : list Z :=
  match l with [] => [] | [n] => enc_param n | n :: r => enc_param n ++ 59 :: enc_params r end.
Definition csi (ps : list Z) (final : Z) : list Z := [27; 91] ++ enc_params ps ++ [final].
Definition enc_cmd (c : cmd) : list Z :=
  match c with
  | CCh ch => [ch]
  | CCr => [13] | CLf => [10] | CBs => [8] | CRi => [27; 77]
  | CCup r c => csi [r; c] 72
  | CCuu n => csi [n] 65 | CCud n => csi [n] 66 | CCuf n => csi [n] 67 | CCub n => csi [n] 68
  | CEl m => csi [m] 75 | CEd m => csi [m] 74
  | CIch n => csi [n] 64 | CDch n => csi [n] 80
  | CIl n => csi [n] 76 ++ [13] | CDl n => csi [n] 77 ++ [13]
  | CStbm t b => csi [t; b] 114
  | CSgr l => csi l 109
  | CDsr n => csi [n] 110
  | CHt => [9]
  | CSo => [14] | CSi => [15]
  | CDesig g c => [27; (if g =? 0 then 40 else 41); c]
  | CVpa r => csi [r] 100
  | CDecom on => [27; 91; 63; 54; (if on then 104 else 108)]
  end.
Definition enc_cmds (cs : list cmd) : list Z := flat_map enc_cmd cs.

(* a well-formed SGR parameter list: classic values (-1 = omitted), 38;5;n / 48;5;n with n in 0..255,
   38;2;r;g;b / 48;2;r;g;b with components in 0..255 *)
Definition sgr_classic : list Z :=
  [-1; 0; 1; 4; 5; 7; 24; 25; 27; 30; 31; 32; 33; 34; 35; 36; 37; 39; 40; 41; 42; 43; 44; 45; 46; 47; 49].
Definition in255 (c : Z) : bool := (0 <=? c) && (c <=? 255).
Fixpoint sgr_ok (l : list Z) : bool :=
  match l with
  | [] => true
  | n :: r =>
      if (n =? 38) || (n =? 48) then
        match r with
        | b :: c :: r' =>
            if b =? 5 then in255 c && sgr_ok r'
            else match r' with
                 | cg :: cb :: r'' => (b =? 2) && in255 c && in255 cg && in255 cb && sgr_ok r''
                 | _ => false
                 end
        | _ => false
        end
      else memz n sgr_classic && sgr_ok r
  end.

(* commands of the compared subset with parameters in their domain *)
Definition cmd_ok (c : cmd) : bool :=
  match c with
  | CCh ch => (32 <=? ch) && (ch <=? 126)
  | CEl m | CEd m => (m <=? 2)
  | CDsr n => (n =? 5) || (n =? 6)
  | CDesig g c => ((g =? 0) || (g =? 1)) && ((c =? 48) || (c =? 66))
  | CSgr l => sgr_ok l
  | _ => true
  end.

(* does the emulator's rendition show the reference rendition?  The number stored in the AttrSpec depends on its
   colour depth: at 16 colours bold is shown by the bright variant of the foreground (n + 8), at 2**24 colours a
   palette index c is stored as the rgb value _COLOR_VALUES_256[c]; reference colours: c < 256 palette index,
   256 + rgb direct colour *)
Definition palette (n : Z) : Z := match nthz color_values_256_gen n with Some v => v | None => 0 end.
Definition colour_shows (num : oz) (colors : Z) (bold fg_side : bool) (c : oz) : bool :=
  match num, c with
  | None, None => true
  | Some n, Some c =>
      if colors =? 16777216 then n =? (if c <? 256 then palette c else c - 256)
      else (c <? 256) && ((if (colors =? 16) && fg_side && bold && (8 <=? n) then n - 8 else n) =? c)
  | _, _ => false
  end.
Definition attr_shows (a : option attr) (ra : rattr) : bool :=
  match a with
  | None => match r_fg ra, r_bg ra with None, None => negb (r_bold ra || r_ul ra || r_blink ra || r_rev ra) | _, _ => false end
  | Some a =>
      colour_shows (a_fg a) (a_colors a) (a_bold a) true (r_fg ra) && colour_shows (a_bg a) (a_colors a) (a_bold a) false (r_bg ra)
      && Bool.eqb (a_bold a) (r_bold ra) && Bool.eqb (a_ul a) (r_ul ra) && Bool.eqb (a_blink a) (r_blink ra)
      && Bool.eqb (a_so a) (r_rev ra)
  end.
Definition cell_agrees (c : cell) (r : rcell) : bool :=
  let '(a, cs, ch) := c in
  list_eqb ch [fst r] && match snd r with None => true | Some (ra, rcs) => attr_shows a ra && (cs =? rcs) end.
Fixpoint all2 {A B} (f : A -> B -> bool) (l : list A) (m : list B) : bool :=
  match l, m with
  | [], [] => true
  | x :: l', y :: m' => f x y && all2 f l' m'
  | _, _ => false
  end.
(* screen contents, cursor, scrolling region and origin mode of the emulator equal those of the reference *)
Definition agrees (s : st) (v : vt) : bool :=
  all2 (all2 cell_agrees) (term s) (v_g v)
  && (fst (cur s) =? v_x v) && (snd (cur s) =? v_y v)
  && (sr_start s =? v_top v) && (sr_end s =? v_bot v)
  && Bool.eqb (m_constrain (modes s)) (v_origin v).

(* the history: the answers written to the host are the reference's answers, and (as long as the reference knows
   what the scrollback holds) the scrollback holds the lines that left the top of the screen, in order - the
   last scrollback_maxlen_gen of them (deque(maxlen=...)) *)
Definition replies_of (evs : list event) : list (list Z) :=
  flat_map (fun e => match e with Respond r => [r] | _ => [] end) (rev evs).
Definition render_reply (r : reply) : list Z :=
  match r with RStatusOk => reply_ok | RCursor row col => reply_cpr row col end.
Definition tail_max {A} (l : list A) : list A := dropz (zlen l - scrollback_maxlen_gen) l.
Fixpoint lists_eqb (a b : list (list Z)) : bool :=
  match a, b with
  | [], [] => true
  | x :: a', y :: b' => list_eqb x y && lists_eqb a' b'
  | _, _ => false
  end.
Definition agrees_history (s : st) (v : vt) : bool :=
  lists_eqb (replies_of (events s)) (map render_reply (v_replies v))
  && (if v_sbknown v then all2 (all2 cell_agrees) (sb s) (tail_max (v_sb v)) else true).

(* the reference, stopping before the first command on which terminals differ *)
Fixpoint run_ref_n (v : vt) (cs : list cmd) (n : Z) : vt * Z :=
  match cs with
  | [] => (v, n)
  | c :: r => if ambiguous v c then (v, n) else run_ref_n (exec v c) r (n + 1)
  end.

(* ---------- wire ---------- *)
Definition dec_cmd (l : list Z) : option (cmd * list Z) :=
  match l with
  | 1 :: c :: r => Some (CCh c, r)
  | 2 :: r => Some (CCr, r) | 3 :: r => Some (CLf, r) | 4 :: r => Some (CBs, r) | 5 :: r => Some (CRi, r)
  | 6 :: a :: b :: r => Some (CCup a b, r)
  | 7 :: n :: r => Some (CCuu n, r) | 8 :: n :: r => Some (CCud n, r)
  | 9 :: n :: r => Some (CCuf n, r) | 10 :: n :: r => Some (CCub n, r)
  | 11 :: n :: r => Some (CEl n, r) | 12 :: n :: r => Some (CEd n, r)
  | 13 :: n :: r => Some (CIch n, r) | 14 :: n :: r => Some (CDch n, r)
  | 15 :: n :: r => Some (CIl n, r) | 16 :: n :: r => Some (CDl n, r)
  | 17 :: a :: b :: r => Some (CStbm a b, r)
  | 19 :: n :: r => Some (CDsr n, r)
  | 20 :: r => Some (CHt, r)
  | 21 :: r => Some (CSo, r) | 22 :: r => Some (CSi, r)
  | 23 :: g :: c :: r => Some (CDesig g c, r)
  | 24 :: n :: r => Some (CVpa n, r)
  | 25 :: b :: r => Some (CDecom (negb (b =? 0)), r)
  | 18 :: r => match dec_list r with Some (l, r') => Some (CSgr l, r') | None => None end
  | _ => None
  end.
Fixpoint dec_cmds (fuel : nat) (l : list Z) : list cmd :=
  match fuel with
  | O => []
  | S k => match dec_cmd l with Some (c, r) => c :: dec_cmds k r | None => [] end
  end.

Definition enc_rattr (a : option rattr) : list Z :=
  match a with
  | None => [0]
  | Some a => [1] ++ enc_oz (r_fg a) ++ enc_oz (r_bg a)
              ++ [enc_bool (r_bold a); enc_bool (r_ul a); enc_bool (r_blink a); enc_bool (r_rev a)]
  end.
Definition enc_rcell (c : rcell) : list Z :=
  fst c :: match snd c with None => [0] | Some (a, cs) => enc_rattr (Some a) ++ [cs] end.
Definition enc_rrows (g : list rrow) : list Z :=
  zlen g :: flat_map (fun r : rrow => zlen r :: flat_map enc_rcell r) g.
Definition enc_vt (v : vt) : list Z :=
  [v_w v; v_h v] ++ enc_rrows (v_g v)
  ++ [v_x v; v_y v; enc_bool (v_pend v); v_top v; v_bot v] ++ enc_rattr (Some (v_attr v))
  ++ enc_rrows (v_sb v) ++ [enc_bool (v_sbknown v)]
  ++ (zlen (v_replies v) :: flat_map (fun r => match r with RStatusOk => [5; 0; 0] | RCursor a b => [6; a; b] end) (v_replies v))
  ++ (let '(g0, g1, sh) := v_cs v in [g0; g1; sh]) ++ [enc_bool (v_origin v)].

(* case  = 0 <vterm case>                        -> the emulator model alone
         | 1 e w h cmd*                          -> the emulator model fed with enc_cmds, then -7 and
                                                    the reference VT100 after the unambiguous prefix *)
Definition run_case (l : list Z) : list Z :=
  match l with
  | 0 :: r => run_vterm r
  | 1 :: e :: w :: h :: r =>
      let cs := dec_cmds (length r) r in
      let '(v, n) := run_ref_n (vt_init w h) cs 0 in
      run_trace (init w h e) [Feed (enc_cmds cs)] 0 ++ [-7; n] ++ enc_vt v
  | _ => [-2]
  end.
