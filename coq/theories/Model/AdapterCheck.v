(* Executable checker of the host specification [host_ok] (Proofs/AdapterLoopSpec.v) on a host log, and the
   dispatcher [run_case] of the extracted model.  The asyncio sub-model reports, for every case it runs,
   whether the log of its host model satisfied the specification: with the soundness lemma
   hostok_b_sound (Proofs/AdapterCheckProofs.v) a reported 1 means that the hypothesis of the adapter
   theorems holds for that run.  Definitions only. *)
From Coq Require Import ZArith List Bool.
Import ListNotations.
From Urwid Require Import PyBase SelectLoop ZmqLoop AdapterLoop TornadoLoop SelectLoopSpec AdapterLoopSpec.
Open Scope Z_scope.

Definition tcb_eqb (a b : tcb) : bool :=
  match a, b with
  | TAlarm k i, TAlarm k' i' => (k =? k') && (i =? i')
  | TIdle, TIdle => true
  | _, _ => false
  end.

Definition is_later_of (h : Z) (x : hcall) : bool := match x with CLater _ _ _ h' _ => h' =? h | _ => false end.
Definition later_b (h : Z) (c : tcb) (w : Z) (hl : list hcall) : bool :=
  existsb (fun x => match x with CLater _ _ c' h' w' => tcb_eqb c c' && (h' =? h) && (w' =? w) | _ => false end) hl.
Definition cancelled_b (h : Z) (hl : list hcall) : bool :=
  existsb (fun x => match x with CCancel h' => h' =? h | _ => false end) hl.
Definition fired_b (h : Z) (hl : list hcall) : bool :=
  existsb (fun x => match x with CNext _ (HTimer h' _) => h' =? h | _ => false end) hl.
Definition pending_b (h : Z) (c : tcb) (w : Z) (hl : list hcall) : bool :=
  later_b h c w hl && negb (cancelled_b h hl) && negb (fired_b h hl).

(* P holds of the due time of every timer created in hl that is neither cancelled nor fired *)
Definition all_pending (P : Z -> bool) (hl : list hcall) : bool :=
  forallb (fun x => match x with CLater _ _ _ h w => cancelled_b h hl || fired_b h hl || P w | _ => true end) hl.

Definition time_le_b (t : Z) (hl : list hcall) : bool :=
  forallb (fun x => match htime x with Some t' => t' <=? t | None => true end) hl.

Definition oz_eqb (a b : option Z) : bool :=
  match a, b with Some x, Some y => x =? y | None, None => true | _, _ => false end.

Definition wait_ok_b (to : option Z) (t0 : Z) (older : list hcall) : bool :=
  negb (stop_pending older) && time_le_b t0 older &&
  match to with
  | None => all_pending (fun _ => false) older
  | Some d => (0 <=? d) && ((d <=? 0) || all_pending (fun w => t0 + d <=? w) older)
  end.

Definition hcall_ok_b (c : hcall) (older : list hcall) : bool :=
  match c with
  | CLater t d cb h w => (w =? t + d) && negb (existsb (is_later_of h) older) && time_le_b t older
  | CCancelledQ h b => Bool.eqb b (cancelled_b h older)
  | CRemoveReader fd ok => Bool.eqb ok (match hreader fd older with Some _ => true | None => false end)
  | CNext t ev =>
      time_le_b t older &&
      match ev with
      | HTimer h cb => existsb (fun x => match x with CLater _ _ cb' h' w => tcb_eqb cb cb' && (h' =? h) && (w <=? t) | _ => false end) older
                       && negb (cancelled_b h older) && negb (fired_b h older)
      | HReader fd id => oz_eqb (hreader fd older) (Some id)
      | HSelect to regs t0 ready => wait_ok_b to t0 older && (t0 <=? t)
      | HEnvEnd to regs t0 => wait_ok_b to t0 older
      | HBlocked regs t0 => wait_ok_b None t0 older
      | HStopped => stop_pending older
      end
  | _ => true
  end.

Fixpoint hostok_b (hl : list hcall) : bool :=
  match hl with
  | [] => true
  | c :: older => hcall_ok_b c older && hostok_b older
  end.

(* the asyncio sub-model: the result of AdapterLoop.run_asyncio_case followed by the verdict of the checker *)
Definition run_asyncio_checked (l : list Z) : list Z :=
  match l with
  | ns :: r0 =>
    let '(setup, r1) := dec_actions (Z.to_nat ns) r0 in
    match r1 with
    | nb :: r2 =>
      let '(tbl, r3) := dec_beh (Z.to_nat nb) r2 in
      match r3 with
      | ne :: r4 =>
          let r := ascenario setup (beh_of tbl) (dec_env (Z.to_nat ne) r4) in
          enc_aresult r ++ [enc_bool (hostok_b (a_hlog ahost (fst r)))]
      | _ => [-1]
      end
    | _ => [-1]
    end
  | _ => [-1]
  end.

(* the tornado sub-model (TornadoEventLoop wrapper over the same asyncio host model), with the checker's verdict *)
Definition run_tornado_checked (l : list Z) : list Z :=
  match l with
  | ns :: r0 =>
    let '(setup, r1) := dec_actions (Z.to_nat ns) r0 in
    match r1 with
    | nb :: r2 =>
      let '(tbl, r3) := dec_beh (Z.to_nat nb) r2 in
      match r3 with
      | ne :: r4 =>
          let r := tscenario setup (beh_of tbl) (dec_env (Z.to_nat ne) r4) in
          enc_tresult r ++ [enc_bool (hostok_b (t_hlog ahost (fst r)))]
      | _ => [-1]
      end
    | _ => [-1]
    end
  | _ => [-1]
  end.

(* first integer selects the sub-model: 0 = SelectEventLoop, 1 = ZMQEventLoop, 2 = AsyncioEventLoop, 3 = TornadoEventLoop *)
Definition run_case (l : list Z) : list Z :=
  match l with
  | 2 :: r => run_asyncio_checked r
  | 3 :: r => run_tornado_checked r
  | _ => run_case01 l
  end.
