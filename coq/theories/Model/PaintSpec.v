(* C04 - what "the terminal shows the canvas" means (definitions only, no proofs).

   The canvas side: the cells a canvas row occupies, with the attribute a correct display shows
   for each canvas attribute ([visual], written from the meaning of an AttrSpec, independently of
   the SGR parameter list).  The comparison: VISUAL cell equality - on a blank cell only what can
   be seen on a blank (background, underline, standout, strikethrough; the foreground too under
   reverse video) is compared; on any other cell everything, including the charset flag. *)
From Coq Require Import ZArith List Bool Lia.
From Urwid Require Import PyBase TermRef DrawScreen.
Import ListNotations.
Open Scope Z_scope.

(* ---------- the attribute a correct display shows for an AttrSpec ---------- *)
Definition color_of (k n r g b : Z) : color :=
  if k =? 3 then CRgb r g b else if k =? 2 then CHigh n else if k =? 1 then CBasic n else CDef.

Definition visual (bib bbb : bool) (s : aspec) : vattr :=
  let fgb := (s_fgk s =? 1) && (7 <? s_fgn s) && bib in     (* bright foreground drawn as bold + dark colour *)
  let bgb := (s_bgk s =? 1) && (7 <? s_bgn s) && bbb in     (* bright background drawn as blink + dark colour *)
  mkAttr (if fgb then CBasic (s_fgn s - 8) else color_of (s_fgk s) (s_fgn s) (s_fr s) (s_fg s) (s_fb s))
         (if bgb then CBasic (s_bgn s - 8) else color_of (s_bgk s) (s_bgn s) (s_br s) (s_bg s) (s_bb s))
         (s_bold s || fgb) (s_ital s) (s_under s) (s_blink s || bgb) (s_stand s) (s_strike s).

Definition attr_vis (c : cfg) (a : Z) : vattr :=
  let '(k, sp) := lookup_attr c a in
  visual (g_bib c) (g_bbb c) (if k =? 2 then default_spec else sp).

(* basic colour numbers are 0..15 *)
Definition spec_ok (s : aspec) : Prop :=
  (s_fgk s = 1 -> 0 <= s_fgn s <= 15) /\ (s_bgk s = 1 -> 0 <= s_bgn s <= 15).
Definition cfg_ok (c : cfg) : Prop := Forall (fun e : aentry => spec_ok (snd e)) (g_atab c).

(* ---------- the cells of a canvas row ---------- *)
(* a zero-width (combining) character joins the last character painted before it *)
Definition combine_last (P : list cell) (cp : Z) : list cell :=
  match rev P with
  | [] => []
  | c :: r =>
      if c_w c =? 0 then match r with c2 :: r2 => rev r2 ++ [add_comb c2 cp; c] | [] => P end
      else rev r ++ [add_comb c cp]
  end.
Definition paint_chr (cs : Z) (v : vattr) (P : list cell) (ch : chr) : list cell :=
  if snd ch =? 0 then combine_last P (fst ch) else P ++ char_cells (fst ch) (snd ch) cs v.
Definition paint_text (P : list cell) (cs : Z) (v : vattr) (text : list chr) : list cell :=
  fold_left (paint_chr cs v) text P.
(* what draw_screen sends for the text of a run: C0 control characters are dropped under UTF-8 and become '?'
   otherwise; a run in the IBMPC charset "U" is sent as it is *)
Definition out_text (c : cfg) (cs : Z) (text : list chr) : list chr :=
  if cs =? 2 then text else trans_text (g_utf8 c) text.
Definition run_cells (c : cfg) (r : crun) : list cell :=
  let '(a, cs, text) := r in paint_text [] cs (attr_vis c a) (out_text c cs text).
(* every run of the canvases considered starts with a character that takes a column (run_ok below), so
   no combining character reaches into the run before: the row is the concatenation of its runs *)
Definition row_cells (c : cfg) (row : crow) : list cell := flat_map (run_cells c) row.
(* the cells of ANY row of runs: combining characters join the last character painted, also across runs;
   C0 control characters are dropped under UTF-8 and painted as '?' otherwise (equal to row_cells on the
   rows the theorems speak about) *)
Definition row_cells_threaded (c : cfg) (row : crow) : list cell :=
  fold_left (fun P (r : crun) => let '(a, cs, text) := r in
               paint_text P cs (attr_vis c a) (out_text c cs text)) row [].

(* ---------- visual equality of an expected cell e and a terminal cell g ---------- *)
Definition vis_eq (e g : cell) : Prop :=
  c_cp g = c_cp e /\ c_w g = c_w e /\ c_comb g = c_comb e /\
  (if (c_cp e =? 32) && (match c_comb e with [] => true | _ => false end) then
     a_bg (c_at g) = a_bg (c_at e) /\ a_under (c_at g) = a_under (c_at e) /\
     a_stand (c_at g) = a_stand (c_at e) /\ a_strike (c_at g) = a_strike (c_at e) /\
     (a_stand (c_at e) = true -> a_fg (c_at g) = a_fg (c_at e))
   else c_at g = c_at e /\ c_cs g = c_cs e).

Definition row_shows (c : cfg) (row : crow) (trow : list cell) : Prop :=
  Forall2 vis_eq (row_cells c row) trow.

(* every canvas row is what the terminal row with the same index shows *)
Definition grid_shows (c : cfg) (content : list crow) (grid : list (list cell)) : Prop :=
  zlen grid = zlen content /\
  forall y row, nthz content y = Some row -> row_shows c row (get_row grid y).

Definition cursor_shown (t : term) (cursor : option (Z * Z)) : Prop :=
  match cursor with
  | Some (x, y) => t_visible t = true /\ t_x t = x /\ t_y t = y /\ t_pending t = false
  | None => t_visible t = false
  end.

(* the terminal paints the canvas: every cell, the cursor, and it never scrolled *)
Definition Paints (c : cfg) (t : term) (content : list crow) (cursor : option (Z * Z)) : Prop :=
  grid_shows c content (t_grid t) /\ cursor_shown t cursor /\ t_scrolled t = false.

(* ---------- the canvases the theorems speak about ---------- *)
(* characters of width 1 (or 0 - combining - or 2 under UTF-8); the space is one column wide; a C0 control
   character takes no column under UTF-8 (str_util measures it so) and one column otherwise *)
Definition chr_ok (utf8 : bool) (ch : chr) : Prop :=
  0 <= fst ch /\ (snd ch = 1 \/ (utf8 = true /\ (snd ch = 0 \/ snd ch = 2))) /\ (fst ch = 32 -> snd ch = 1) /\
  (fst ch < 32 -> utf8 = true -> snd ch = 0).
(* a run is non-empty and starts with a character that takes a column; no charset flags under UTF-8;
   None, "0" (DEC special graphics) or "U" (IBMPC, sent untranslated: no control characters) otherwise *)
Definition starts_with_base (text : list chr) : Prop :=
  match text with ch :: _ => snd ch <> 0 | [] => True end.
Definition run_ok (c : cfg) (r : crun) : Prop :=
  let '(a, cs, text) := r in
  text <> [] /\ starts_with_base text /\ Forall (chr_ok (g_utf8 c)) text /\
  (if g_utf8 c then cs = 0 else cs = 0 \/ cs = 1 \/ cs = 2) /\
  (cs = 2 -> Forall (fun ch : chr => 32 <= fst ch) text).
Definition row_width (row : crow) : Z := fold_right (fun r acc => calc_width (snd r) + acc) 0 row.
Definition row_ok (c : cfg) (cols : Z) (row : crow) : Prop :=
  Forall (run_ok c) row /\ row_width row = cols.
Definition canvas_ok (c : cfg) (cols rows : Z) (content : list crow) : Prop :=
  zlen content = rows /\ Forall (row_ok c cols) content.
Definition cursor_ok (cols rows : Z) (cursor : option (Z * Z)) : Prop :=
  match cursor with Some (x, y) => 0 <= x < cols /\ 0 <= y < rows | None => True end.

(* ---------- the invariant between the Screen object and the terminal (full-screen mode) ---------- *)
Definition term_ok (t : term) : Prop :=
  1 <= t_cols t /\ 1 <= t_rows t /\ zlen (t_grid t) = t_rows t /\
  Forall (fun r => zlen r = t_cols t) (t_grid t).

Definition Sync (c : cfg) (s : scr) (t : term) : Prop :=
  s_ru s = None /\ s_resized s = false /\ term_ok t /\
  t_irm t = false /\ t_scrolled t = false /\ t_ibm t = false /\
  (g_utf8 c = true -> t_so t = false) /\
  (s_g1 s = true -> t_g1 t = true) /\
  (g_bce c = true -> t_bce t = true) /\
  (s_buf s <> [] -> grid_shows c (s_buf s) (t_grid t)).

(* ---------- histories: draws, forced clears, size changes ---------- *)
(* a terminal urwid may start on / find after a size change: any size >= 1x1, ANY content,
   insert mode off, default charset selected, not scrolled; BCE if urwid believes so *)
Definition term_start_ok (c : cfg) (t : term) : Prop :=
  term_ok t /\ t_irm t = false /\ t_scrolled t = false /\ t_ibm t = false /\ t_so t = false /\
  (g_bce c = true -> t_bce t = true).

(* t' is t with its cells replaced by anything of the same dimensions (what clear() is for) *)
Definition same_but_cells (t t' : term) : Prop :=
  t_cols t' = t_cols t /\ t_rows t' = t_rows t /\ zlen (t_grid t') = t_rows t /\
  Forall (fun r => zlen r = t_cols t) (t_grid t') /\
  t_irm t' = t_irm t /\ t_so t' = t_so t /\ t_ibm t' = t_ibm t /\ t_g1 t' = t_g1 t /\
  t_scrolled t' = t_scrolled t /\ t_bce t' = t_bce t.

(* t' is the terminal after a size change: new size, any content, same modes *)
Definition resized_from (t t' : term) : Prop :=
  term_ok t' /\ t_irm t' = t_irm t /\ t_so t' = t_so t /\ t_ibm t' = t_ibm t /\ t_g1 t' = t_g1 t /\
  t_scrolled t' = t_scrolled t /\ t_bce t' = t_bce t.

Definition canvas := (list crow * option (Z * Z))%type.

(* Reach c s t last shown: Screen state s and terminal t are reachable; [last] is the canvas object
   drawn last (None after a size change); [shown] = the last event was a draw *)
Inductive Reach (c : cfg) : scr -> term -> option canvas -> bool -> Prop :=
  | R_start t : term_start_ok c t -> Reach c (init_scr false) t None false
  | R_draw s t last shown content cursor toks s' :
      Reach c s t last shown ->
      canvas_ok c (t_cols t) (t_rows t) content -> cursor_ok (t_cols t) (t_rows t) cursor ->
      draw_screen c s (t_cols t) (t_rows t) content cursor false false = Ok (toks, s') ->
      Reach c s' (run t toks) (Some (content, cursor)) true
  | R_redraw s t shown content cursor toks s' :            (* the same canvas object again *)
      Reach c s t (Some (content, cursor)) shown ->
      draw_screen c s (t_cols t) (t_rows t) content cursor true false = Ok (toks, s') ->
      Reach c s' (run t toks) (Some (content, cursor)) true
  | R_clear s t last shown t' :                            (* Screen.clear(), terminal content unknown *)
      Reach c s t last shown -> same_but_cells t t' ->
      Reach c (clear s) t' last false
  | R_resize s t last shown t' :                           (* SIGWINCH delivered and acknowledged *)
      Reach c s t last shown -> resized_from t t' ->
      Reach c (ack (winch s)) t' None false
  | R_interrupted s t last shown content cursor toks s' t' :   (* SIGWINCH in the middle of a draw: the frame is abandoned *)
      Reach c s t last shown ->
      canvas_ok c (t_cols t) (t_rows t) content -> cursor_ok (t_cols t) (t_rows t) cursor ->
      draw_screen c s (t_cols t) (t_rows t) content cursor false true = Ok (toks, s') ->
      resized_from (run t toks) t' ->
      Reach c (ack s') t' None false.

(* ---------- plain histories of draws as a function ---------- *)
Fixpoint run_draws (c : cfg) (s : scr) (t : term) (frames : list canvas) : option (scr * term) :=
  match frames with
  | [] => Some (s, t)
  | (content, cursor) :: r =>
      match draw_screen c s (t_cols t) (t_rows t) content cursor false false with
      | Ok (toks, s') => run_draws c s' (run t toks) r
      | Err _ => None
      end
  end.

(* every history of draws (charsets None / "0" / "U") from a fresh terminal paints its last canvas *)
Definition draws_paint_statement (partial : bool) (paints : cfg -> scr -> term -> list crow -> option (Z * Z) -> Prop) : Prop :=
  forall c cols rows frames content cursor s t,
    cfg_ok c -> 1 <= cols -> 1 <= rows ->
    Forall (fun f : canvas => canvas_ok c cols rows (fst f) /\ cursor_ok cols rows (snd f)) (frames ++ [(content, cursor)]) ->
    run_draws c (init_scr partial) (new_term cols rows) (frames ++ [(content, cursor)]) = Some (s, t) ->
    paints c s t content cursor.

(* ---------- partial display (started without the alternate buffer; display origin = terminal row 0,
   the lines below it blank, as many terminal rows as canvas rows) ---------- *)
Definition blank_row_text (r : list cell) : Prop := Forall (fun x => c_cp x = 32 /\ c_w x = 1 /\ c_comb x = []) r.
Definition is_blank (row : crow) : bool := match is_blank_row row with Ok b => b | Err _ => false end.
(* a canvas row that is blank may never have been painted (urwid leaves blank lines off the display):
   then only its text is demanded; any other row is demanded in full *)
Definition row_shows_partial (c : cfg) (row : crow) (trow : list cell) : Prop :=
  row_shows c row trow \/ (is_blank row = true /\ blank_row_text trow).
(* the rows 0.._rows_used of the canvas are shown; the rows below are blank in the canvas and on the terminal *)
Definition PaintsPartial (c : cfg) (s : scr) (t : term) (content : list crow) (cursor : option (Z * Z)) : Prop :=
  (exists ru, s_ru s = Some ru /\ 0 <= ru /\
     forall y row, nthz content y = Some row ->
       (y <= ru -> row_shows_partial c row (get_row (t_grid t) y)) /\
       (ru < y -> is_blank row = true /\ blank_row_text (get_row (t_grid t) y))) /\
  cursor_shown t cursor /\ t_scrolled t = false.

(* ---------- the Screen / terminal invariant in partial display mode ---------- *)
Definition SyncP (c : cfg) (s : scr) (t : term) : Prop :=
  exists ru, s_ru s = Some ru /\ 0 <= ru < t_rows t /\ s_resized s = false /\ term_ok t /\
  t_irm t = false /\ t_scrolled t = false /\ t_ibm t = false /\ (g_utf8 c = true -> t_so t = false) /\
  (s_g1 s = true -> t_g1 t = true) /\ (g_bce c = true -> t_bce t = true) /\
  t_y t = s_cy s /\ 0 <= s_cy s < t_rows t /\
  (forall y, ru < y < t_rows t -> blank_row_text (get_row (t_grid t) y)) /\
  (s_buf s <> [] -> forall y row, nthz (s_buf s) y = Some row ->
       (y <= ru -> row_shows_partial c row (get_row (t_grid t) y)) /\ (ru < y -> is_blank row = true)).


(* histories in partial display mode: draws, clear(), frames abandoned by a SIGWINCH that arrives while
   the frame is produced (followed by the acknowledgement of the resize; the terminal keeps its size).
   [last] = the canvas drawn by the last event, if that event was a completed draw *)
(* what a size change may do to the terminal in partial display mode for the Screen's bookkeeping to stay
   valid: any new size with room for the used rows, any content in the used rows, the cursor still on row
   _cy, the lines below _rows_used blank, the modes kept *)
Definition resized_partial (s : scr) (t t' : term) : Prop :=
  term_ok t' /\ t_irm t' = t_irm t /\ t_so t' = t_so t /\ t_ibm t' = t_ibm t /\ t_g1 t' = t_g1 t /\
  t_scrolled t' = t_scrolled t /\ t_bce t' = t_bce t /\
  t_y t' = t_y t /\ t_y t' < t_rows t' /\
  (forall ru, s_ru s = Some ru -> ru < t_rows t' /\ forall y, ru < y < t_rows t' -> blank_row_text (get_row (t_grid t') y)).

Inductive ReachP (c : cfg) : scr -> term -> option canvas -> Prop :=
  | RP_start cols rows : 1 <= cols -> 1 <= rows -> ReachP c (init_scr true) (new_term cols rows) None
  | RP_draw s t last content cursor toks s' :
      ReachP c s t last ->
      canvas_ok c (t_cols t) (t_rows t) content -> cursor_ok (t_cols t) (t_rows t) cursor ->
      draw_screen c s (t_cols t) (t_rows t) content cursor false false = Ok (toks, s') ->
      ReachP c s' (run t toks) (Some (content, cursor))
  | RP_clear s t last : ReachP c s t last -> ReachP c (clear s) t None
  | RP_abandoned s t last content cursor toks s' :
      ReachP c s t last ->
      canvas_ok c (t_cols t) (t_rows t) content -> cursor_ok (t_cols t) (t_rows t) cursor ->
      draw_screen c s (t_cols t) (t_rows t) content cursor false true = Ok (toks, s') ->
      ReachP c (ack s') (run t toks) None
  | RP_resize s t last t' :          (* SIGWINCH delivered and acknowledged; see resized_partial *)
      ReachP c s t last -> resized_partial s t t' ->
      ReachP c (ack (winch s)) t' None.

(* ---------- any text: runs may start with a character that takes no column, or hold no column ---------- *)
Definition paint_run (c : cfg) (P : list cell) (r : crun) : list cell :=
  let '(a, cs, text) := r in paint_text P cs (attr_vis c a) (out_text c cs text).
Definition row_paint (c : cfg) (P : list cell) (row : crow) : list cell := fold_left (paint_run c) row P.
Definition run_any (c : cfg) (r : crun) : Prop :=
  let '(a, cs, text) := r in
  text <> [] /\ Forall (chr_ok (g_utf8 c)) text /\
  (if g_utf8 c then cs = 0 else cs = 0 \/ cs = 1 \/ cs = 2) /\
  (cs = 2 -> Forall (fun ch : chr => 32 <= fst ch) text).
Definition row_any (c : cfg) (cols : Z) (row : crow) : Prop := Forall (run_any c) row /\ row_width row = cols.
Definition canvas_any (c : cfg) (cols rows : Z) (content : list crow) : Prop :=
  zlen content = rows /\ Forall (row_any c cols) content.
Definition row_shows_any (c : cfg) (row : crow) (trow : list cell) : Prop :=
  Forall2 vis_eq (row_cells_threaded c row) trow.
Definition grid_shows_any (c : cfg) (content : list crow) (grid : list (list cell)) : Prop :=
  zlen grid = zlen content /\
  forall y row, nthz content y = Some row -> row_shows_any c row (get_row grid y).
Definition PaintsAny (c : cfg) (t : term) (content : list crow) (cursor : option (Z * Z)) : Prop :=
  grid_shows_any c content (t_grid t) /\ cursor_shown t cursor /\ t_scrolled t = false.
Definition SyncAny (c : cfg) (s : scr) (t : term) : Prop :=
  s_ru s = None /\ s_resized s = false /\ term_ok t /\
  t_irm t = false /\ t_scrolled t = false /\ t_ibm t = false /\
  (g_utf8 c = true -> t_so t = false) /\
  (s_g1 s = true -> t_g1 t = true) /\
  (g_bce c = true -> t_bce t = true) /\
  (s_buf s <> [] -> grid_shows_any c (s_buf s) (t_grid t)).
(* draw_paints for every canvas: the row spec threads combining characters across runs *)
Definition draw_paints_any_text_full : Prop :=
  forall c s t cols rows content cursor,
    cfg_ok c -> SyncAny c s t -> t_cols t = cols -> t_rows t = rows ->
    canvas_any c cols rows content -> cursor_ok cols rows cursor ->
    exists toks s', draw_screen c s cols rows content cursor false false = Ok (toks, s') /\
                    PaintsAny c (run t toks) content cursor /\ SyncAny c s' (run t toks).

(* every history of draws of ANY canvases from a fresh terminal paints its last canvas *)
Definition draws_paint_any_statement : Prop :=
  forall c cols rows frames content cursor s t,
    cfg_ok c -> 1 <= cols -> 1 <= rows ->
    Forall (fun f : canvas => canvas_any c cols rows (fst f) /\ cursor_ok cols rows (snd f)) (frames ++ [(content, cursor)]) ->
    run_draws c (init_scr false) (new_term cols rows) (frames ++ [(content, cursor)]) = Some (s, t) ->
    PaintsAny c t content cursor.
