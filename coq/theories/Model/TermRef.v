(* C04 - reference VT100/xterm interpreter over TOKENS (executable definitions only, no proofs).

   This is the specification side of property C04: what a VT100/xterm-compatible terminal does with
   the sequences urwid's raw display writes.  The same semantics is written a second time in Python
   (harness/props/c04.py, class RefTerm, fed with the REAL character stream); the two are compared
   cell by cell on every frame of every generated history.

   Modelled: autowrap with the pending-wrap ("last column") state, scrolling DETECTION (flag), wide
   characters as a left half + continuation cell with repair of split halves, zero-width (combining)
   characters joining the previous cell, IRM insert mode,
   EL (erase to end of line) with back-colour-erase, CUP/CR/LF/BS/CUU/CUD/CUF, SGR (16/88/256/true
   colour, bold italics underline blink standout strikethrough), SO/SI with a designated G1,
   SGR 10/11 (IBMPC mapping), DECTCEM cursor visibility. *)
From Coq Require Import ZArith List Bool Lia.
From Urwid Require Import PyBase.
Import ListNotations.
Open Scope Z_scope.

(* ---------- attributes and cells ---------- *)
Inductive color := CDef | CBasic (n : Z) | CHigh (n : Z) | CRgb (r g b : Z).

Record vattr := mkAttr {
  a_fg : color; a_bg : color;
  a_bold : bool; a_ital : bool; a_under : bool; a_blink : bool; a_stand : bool; a_strike : bool }.

Definition def_attr : vattr := mkAttr CDef CDef false false false false false false.

(* a cell: code point, width (1, 2; 0 = right half of a wide character, code point -1),
   charset flag (0 = none, 1 = DEC special graphics "0", 2 = IBMPC "U"), attribute *)
Record cell := mkCell { c_cp : Z; c_w : Z; c_cs : Z; c_at : vattr; c_comb : list Z }.

Definition blank_cell : cell := mkCell 32 1 0 def_attr [].
Definition blank_of (c : cell) : cell := mkCell 32 1 (c_cs c) (c_at c) [].

Inductive tok :=
  | TCh (cp w : Z)            (* one printable character and its column width *)
  | TCup (row col : Z)        (* ESC [ row ; col H   (1-based) *)
  | THome                     (* ESC [ H *)
  | TCr | TLf | TBs
  | TCuu (n : Z) | TCud (n : Z) | TCuf (n : Z)
  | TSgr (ps : list Z)        (* ESC [ p1 ; ... m *)
  | TEl                       (* ESC [ K *)
  | TIrmOn | TIrmOff          (* ESC [ 4 h / l *)
  | TSo | TSi                 (* ^N ^O *)
  | TIbmOn | TIbmOff          (* ESC [ 11 m / ESC [ 10 m *)
  | THide | TShow             (* ESC [ ? 25 l / h *)
  | TG1                       (* ESC ) 0 *)
  | TUnknown (x : Z).

Record term := mkTerm {
  t_cols : Z; t_rows : Z;
  t_grid : list (list cell);
  t_x : Z; t_y : Z; t_pending : bool;
  t_attr : vattr;
  t_irm : bool; t_so : bool; t_ibm : bool; t_g1 : bool;
  t_visible : bool; t_scrolled : bool; t_bce : bool }.

(* ---------- field updates ---------- *)
Definition set_pos (t : term) (x y : Z) (p : bool) : term :=
  mkTerm (t_cols t) (t_rows t) (t_grid t) x y p (t_attr t) (t_irm t) (t_so t) (t_ibm t) (t_g1 t)
         (t_visible t) (t_scrolled t) (t_bce t).
Definition set_grid (t : term) (g : list (list cell)) : term :=
  mkTerm (t_cols t) (t_rows t) g (t_x t) (t_y t) (t_pending t) (t_attr t) (t_irm t) (t_so t) (t_ibm t) (t_g1 t)
         (t_visible t) (t_scrolled t) (t_bce t).
Definition set_attr (t : term) (a : vattr) : term :=
  mkTerm (t_cols t) (t_rows t) (t_grid t) (t_x t) (t_y t) (t_pending t) a (t_irm t) (t_so t) (t_ibm t) (t_g1 t)
         (t_visible t) (t_scrolled t) (t_bce t).
Definition set_irm (t : term) (b : bool) : term :=
  mkTerm (t_cols t) (t_rows t) (t_grid t) (t_x t) (t_y t) (t_pending t) (t_attr t) b (t_so t) (t_ibm t) (t_g1 t)
         (t_visible t) (t_scrolled t) (t_bce t).
Definition set_so (t : term) (b : bool) : term :=
  mkTerm (t_cols t) (t_rows t) (t_grid t) (t_x t) (t_y t) (t_pending t) (t_attr t) (t_irm t) b (t_ibm t) (t_g1 t)
         (t_visible t) (t_scrolled t) (t_bce t).
Definition set_ibm (t : term) (b : bool) : term :=
  mkTerm (t_cols t) (t_rows t) (t_grid t) (t_x t) (t_y t) (t_pending t) (t_attr t) (t_irm t) (t_so t) b (t_g1 t)
         (t_visible t) (t_scrolled t) (t_bce t).
Definition set_g1 (t : term) (b : bool) : term :=
  mkTerm (t_cols t) (t_rows t) (t_grid t) (t_x t) (t_y t) (t_pending t) (t_attr t) (t_irm t) (t_so t) (t_ibm t) b
         (t_visible t) (t_scrolled t) (t_bce t).
Definition set_visible (t : term) (b : bool) : term :=
  mkTerm (t_cols t) (t_rows t) (t_grid t) (t_x t) (t_y t) (t_pending t) (t_attr t) (t_irm t) (t_so t) (t_ibm t) (t_g1 t)
         b (t_scrolled t) (t_bce t).
Definition set_scrolled (t : term) (b : bool) : term :=
  mkTerm (t_cols t) (t_rows t) (t_grid t) (t_x t) (t_y t) (t_pending t) (t_attr t) (t_irm t) (t_so t) (t_ibm t) (t_g1 t)
         (t_visible t) b (t_bce t).

(* ---------- rows ---------- *)
Definition blank_row (cols : Z) : list cell := repeat blank_cell (Z.to_nat cols).
Definition get_row (g : list (list cell)) (y : Z) : list cell :=
  match nthz g y with Some r => r | None => [] end.
Definition set_row (g : list (list cell)) (y : Z) (r : list cell) : list (list cell) :=
  takez y g ++ r :: dropz (y + 1) g.

(* halves of wide characters that lost their partner become blanks (keeping their attribute) *)
Fixpoint fix_split (prev_wide : bool) (r : list cell) : list cell :=
  match r with
  | [] => []
  | c :: r' =>
      if c_w c =? 0 then (if prev_wide then c else blank_of c) :: fix_split false r'
      else if c_w c =? 2 then
        match r' with
        | c2 :: _ => if c_w c2 =? 0 then c :: fix_split true r' else blank_of c :: fix_split false r'
        | [] => [blank_of c]
        end
      else c :: fix_split false r'
  end.

(* the cells a printed character of width w occupies (0: none; 2: left half + continuation) *)
Definition char_cells (cp w cs : Z) (a : vattr) : list cell :=
  if w =? 0 then [] else mkCell cp w cs a [] :: (if w =? 2 then [mkCell (-1) 0 cs a []] else []).

Definition cur_cs (t : term) : Z :=
  if t_ibm t then 2 else if t_so t && t_g1 t then 1 else 0.

(* the cursor is past the last column (or the row): next line, scrolling at the bottom *)
Definition wrap (t : term) : term :=
  if t_y t =? t_rows t - 1 then
    set_scrolled (set_grid (set_pos t 0 (t_y t) false) (dropz 1 (t_grid t) ++ [blank_row (t_cols t)])) true
  else set_pos t 0 (t_y t + 1) false.

(* a zero-width (combining) character joins the character before the cursor - the last one written when
   the cursor is in the pending-wrap state - and does not advance; with no character before the cursor on
   the line it is dropped *)
Definition add_comb (c : cell) (cp : Z) : cell := mkCell (c_cp c) (c_w c) (c_cs c) (c_at c) (c_comb c ++ [cp]).
Definition combine_at (row : list cell) (idx cp : Z) : list cell :=
  match nthz row idx with
  | Some c => takez idx row ++ add_comb c cp :: dropz (idx + 1) row
  | None => row
  end.
Definition put_zero (t : term) (cp : Z) : term :=
  let idx := if t_pending t then t_x t else t_x t - 1 in
  let row := get_row (t_grid t) (t_y t) in
  let idx := match nthz row idx with Some c => if c_w c =? 0 then idx - 1 else idx | None => idx end in
  match nthz row idx with
  | Some _ => set_grid t (set_row (t_grid t) (t_y t) (combine_at row idx cp))
  | None => t
  end.

Definition put (t : term) (cp w : Z) : term :=
  if w =? 0 then put_zero t cp else
  if t_cols t <? w then t else
  let t1 := if t_pending t || (t_cols t <? t_x t + w) then wrap t else t in
  let x := t_x t1 in
  let row := get_row (t_grid t1) (t_y t1) in
  let cs := cur_cs t1 in
  let cells := mkCell cp w cs (t_attr t1) [] :: (if w =? 2 then [mkCell (-1) 0 cs (t_attr t1) []] else []) in
  let row' := if t_irm t1 then takez (t_cols t1) (takez x row ++ cells ++ dropz x row)
              else takez x row ++ cells ++ dropz (x + w) row in
  let t2 := set_grid t1 (set_row (t_grid t1) (t_y t1) (fix_split false row')) in
  if t_cols t <=? x + w then set_pos t2 (t_cols t - 1) (t_y t2) true
  else set_pos t2 (x + w) (t_y t2) false.

(* ---------- SGR ---------- *)
Definition set_fg (a : vattr) (c : color) : vattr :=
  mkAttr c (a_bg a) (a_bold a) (a_ital a) (a_under a) (a_blink a) (a_stand a) (a_strike a).
Definition set_bg (a : vattr) (c : color) : vattr :=
  mkAttr (a_fg a) c (a_bold a) (a_ital a) (a_under a) (a_blink a) (a_stand a) (a_strike a).

Definition sgr1 (n : Z) (a : vattr) : vattr :=
  if n =? 0 then def_attr
  else if n =? 1 then mkAttr (a_fg a) (a_bg a) true (a_ital a) (a_under a) (a_blink a) (a_stand a) (a_strike a)
  else if n =? 3 then mkAttr (a_fg a) (a_bg a) (a_bold a) true (a_under a) (a_blink a) (a_stand a) (a_strike a)
  else if n =? 4 then mkAttr (a_fg a) (a_bg a) (a_bold a) (a_ital a) true (a_blink a) (a_stand a) (a_strike a)
  else if n =? 5 then mkAttr (a_fg a) (a_bg a) (a_bold a) (a_ital a) (a_under a) true (a_stand a) (a_strike a)
  else if n =? 7 then mkAttr (a_fg a) (a_bg a) (a_bold a) (a_ital a) (a_under a) (a_blink a) true (a_strike a)
  else if n =? 9 then mkAttr (a_fg a) (a_bg a) (a_bold a) (a_ital a) (a_under a) (a_blink a) (a_stand a) true
  else if (30 <=? n) && (n <=? 37) then set_fg a (CBasic (n - 30))
  else if (90 <=? n) && (n <=? 97) then set_fg a (CBasic (n - 90 + 8))
  else if n =? 39 then set_fg a CDef
  else if (40 <=? n) && (n <=? 47) then set_bg a (CBasic (n - 40))
  else if (100 <=? n) && (n <=? 107) then set_bg a (CBasic (n - 100 + 8))
  else if n =? 49 then set_bg a CDef
  else a.

Fixpoint apply_sgr (ps : list Z) (a : vattr) : vattr :=
  match ps with
  | [] => a
  | p :: r =>
      if (p =? 38) || (p =? 48) then
        match r with
        | m :: r1 =>
            if m =? 5 then
              match r1 with
              | n :: r2 => apply_sgr r2 (if p =? 38 then set_fg a (CHigh n) else set_bg a (CHigh n))
              | [] => apply_sgr r a
              end
            else if m =? 2 then
              match r1 with
              | cr :: cg :: cb :: r2 =>
                  apply_sgr r2 (if p =? 38 then set_fg a (CRgb cr cg cb) else set_bg a (CRgb cr cg cb))
              | _ => apply_sgr r a
              end
            else apply_sgr r a
        | [] => a
        end
      else apply_sgr r (sgr1 p a)
  end.

(* ---------- one token ---------- *)
Definition clampz (lo hi v : Z) : Z := Z.min (Z.max v lo) hi.
Definition arg1 (n : Z) : Z := if n =? 0 then 1 else n.

Definition erase_cell (t : term) : cell :=
  mkCell 32 1 0 (mkAttr CDef (if t_bce t then a_bg (t_attr t) else CDef) false false false false false false) [].

Definition step (t : term) (k : tok) : term :=
  match k with
  | TCh cp w => put t cp w
  | TCup r c => set_pos t (clampz 0 (t_cols t - 1) (arg1 c - 1)) (clampz 0 (t_rows t - 1) (arg1 r - 1)) false
  | THome => set_pos t 0 0 false
  | TCr => set_pos t 0 (t_y t) false
  | TLf => if t_y t =? t_rows t - 1
           then set_scrolled (set_grid t (dropz 1 (t_grid t) ++ [blank_row (t_cols t)])) true
           else set_pos t (t_x t) (t_y t + 1) (t_pending t)
  | TBs => set_pos t (if 0 <? t_x t then t_x t - 1 else t_x t) (t_y t) false
  | TCuu n => set_pos t (t_x t) (Z.max 0 (t_y t - arg1 n)) false
  | TCud n => set_pos t (t_x t) (Z.min (t_rows t - 1) (t_y t + arg1 n)) false
  | TCuf n => set_pos t (Z.min (t_cols t - 1) (t_x t + arg1 n)) (t_y t) false
  | TSgr ps => set_attr t (apply_sgr (match ps with [] => [0] | _ => ps end) (t_attr t))
  | TEl =>
      let row := get_row (t_grid t) (t_y t) in
      let row' := takez (t_x t) row ++ repeat (erase_cell t) (Z.to_nat (t_cols t - t_x t)) in
      set_grid t (set_row (t_grid t) (t_y t) (fix_split false row'))
  | TIrmOn => set_irm t true
  | TIrmOff => set_irm t false
  | TSo => set_so t true
  | TSi => set_so t false
  | TIbmOn => set_ibm t true
  | TIbmOff => set_ibm t false
  | THide => set_visible t false
  | TShow => set_visible t true
  | TG1 => set_g1 t true
  | TUnknown _ => t
  end.

Definition run (t : term) (ks : list tok) : term := fold_left step ks t.

(* ---------- creation, resize, scrambling (what the harness does to the terminal between frames) ---------- *)
Definition garbage_attr : vattr := mkAttr (CBasic 5) (CBasic 3) true false true false false true.

Fixpoint wide_pairs (n : nat) (room : Z) : list cell :=
  match n with
  | O => []
  | S k => if 2 <=? room
           then mkCell 19990 2 0 garbage_attr [] :: mkCell (-1) 0 0 garbage_attr [] :: wide_pairs k (room - 2)
           else []
  end.

Definition scramble_row (cols kind : Z) : list cell :=
  let g := mkCell 35 1 0 garbage_attr [] in
  let lead := if (kind =? 2) && (0 <? cols) then [g] else [] in
  let mid := if (kind =? 1) || (kind =? 2) then wide_pairs (Z.to_nat cols) (cols - zlen lead) else [] in
  lead ++ mid ++ repeat g (Z.to_nat (cols - zlen lead - zlen mid)).

Definition new_term (cols rows : Z) : term :=
  mkTerm cols rows (repeat (blank_row cols) (Z.to_nat rows)) 0 0 false def_attr false false false false true false true.

Definition scramble (t : term) (kind : Z) : term :=
  set_grid t (repeat (scramble_row (t_cols t) kind) (Z.to_nat (t_rows t))).

Definition resize (t : term) (cols rows kind : Z) : term :=
  mkTerm cols rows (repeat (scramble_row cols kind) (Z.to_nat rows)) 0 0 false (t_attr t) (t_irm t) (t_so t) (t_ibm t)
         (t_g1 t) (t_visible t) (t_scrolled t) (t_bce t).

(* ---------- wire: tokens and snapshots as flat integer lists ---------- *)
Definition enc_tok (k : tok) : list Z :=
  match k with
  | TCh cp w => [1; cp; w]
  | TCup r c => [2; r; c]
  | THome => [3] | TCr => [4] | TLf => [5] | TBs => [6]
  | TCuu n => [7; n] | TCud n => [8; n] | TCuf n => [9; n]
  | TSgr ps => 10 :: zlen ps :: ps
  | TEl => [11] | TIrmOn => [12] | TIrmOff => [13] | TSo => [14] | TSi => [15]
  | TIbmOn => [16] | TIbmOff => [17] | THide => [18] | TShow => [19] | TG1 => [20]
  | TUnknown x => [99; x]
  end.

Definition dec_tok (l : list Z) : option (tok * list Z) :=
  match l with
  | [] => None
  | h :: r =>
      if h =? 1 then match r with cp :: w :: r' => Some (TCh cp w, r') | _ => None end
      else if h =? 2 then match r with a :: b :: r' => Some (TCup a b, r') | _ => None end
      else if h =? 3 then Some (THome, r)
      else if h =? 4 then Some (TCr, r)
      else if h =? 5 then Some (TLf, r)
      else if h =? 6 then Some (TBs, r)
      else if h =? 7 then match r with n :: r' => Some (TCuu n, r') | _ => None end
      else if h =? 8 then match r with n :: r' => Some (TCud n, r') | _ => None end
      else if h =? 9 then match r with n :: r' => Some (TCuf n, r') | _ => None end
      else if h =? 10 then match dec_list r with Some (ps, r') => Some (TSgr ps, r') | None => None end
      else if h =? 11 then Some (TEl, r)
      else if h =? 12 then Some (TIrmOn, r)
      else if h =? 13 then Some (TIrmOff, r)
      else if h =? 14 then Some (TSo, r)
      else if h =? 15 then Some (TSi, r)
      else if h =? 16 then Some (TIbmOn, r)
      else if h =? 17 then Some (TIbmOff, r)
      else if h =? 18 then Some (THide, r)
      else if h =? 19 then Some (TShow, r)
      else if h =? 20 then Some (TG1, r)
      else if h =? 99 then match r with x :: r' => Some (TUnknown x, r') | _ => None end
      else None
  end.

Fixpoint dec_toks (fuel : nat) (l : list Z) : list tok :=
  match fuel with
  | O => []
  | S k => match dec_tok l with Some (t, r) => t :: dec_toks k r | None => [] end
  end.

Definition enc_color (c : color) : list Z :=
  match c with
  | CDef => [0; 0; 0; 0] | CBasic n => [1; n; 0; 0] | CHigh n => [2; n; 0; 0] | CRgb r g b => [3; r; g; b]
  end.
Definition enc_attr (a : vattr) : list Z :=
  enc_color (a_fg a) ++ enc_color (a_bg a)
  ++ [ (if a_bold a then 1 else 0) + (if a_ital a then 2 else 0) + (if a_under a then 4 else 0)
       + (if a_blink a then 8 else 0) + (if a_stand a then 16 else 0) + (if a_strike a then 32 else 0) ].
Definition enc_cell (c : cell) : list Z := [c_cp c; c_w c; c_cs c] ++ enc_attr (c_at c) ++ zlen (c_comb c) :: c_comb c.

Definition snapshot (t : term) : list Z :=
  [t_cols t; t_rows t; t_x t; t_y t; enc_bool (t_pending t); enc_bool (t_visible t); enc_bool (t_scrolled t);
   enc_bool (t_irm t); enc_bool (t_so t); enc_bool (t_ibm t); enc_bool (t_g1 t)]
  ++ enc_attr (t_attr t)
  ++ flat_map (fun row => flat_map enc_cell row) (t_grid t).
