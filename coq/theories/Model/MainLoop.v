(* C12 - executable model of urwid.MainLoop (urwid/event_loop/main_loop.py) running a scripted
   session with a fault plan, over a model of the display it drives:
     - raw_display.Screen  (urwid/display/_raw_display_base.py, _posix_raw_display.py,
                            BaseScreen.start/stop in urwid/display/common.py)
     - a plain BaseScreen without hook_event_loop (MainLoop._run_screen_event_loop path).
   Exceptions are values ([res]).  Every user callback invocation goes through [cb]: it appends a
   trace item, takes the next global invocation index and consults the fault plan.
   The event loop (SelectEventLoop) is abstracted to its C13 contract: due alarms fire in order,
   then the idle callbacks run, then the next scripted round of events arrives; ExitMainLoop
   ends run() normally, every other exception propagates.
   Deliberately not modelled (none of it is reachable in the scripted sessions): Screen._resized
   (a resize is delivered before the next redraw), tty_signal_keys (re-writes the values it read at
   start), gpm mouse tracking (linux console only), the canvas cache, screen_buf diffing inside
   Screen.draw_screen (only its cursor hide / show writes matter for the terminal modes).
   NO PROOFS IN THIS FILE.  Names of the Python functions are given above each definition. *)
From Coq Require Import ZArith List Bool.
Import ListNotations.
From Urwid Require Import PyBase.
Open Scope Z_scope.

(* ---------- data ---------- *)
Inductive key := KResize | KKey (c : Z) | KMouse (b col row : Z).
(* 'window resize' | a key string (its code; 12 = 'ctrl l') | ('mouse press', b, col, row) *)

Inductive fault := FExit | FRaise (e : Z).
Inductive exn := ExitMainLoop | UserExc (e : Z) | CantUseExternalLoop | PyErr (k : Z).
(* PyErr 1 = AttributeError, PyErr 2 = RuntimeError (raised by urwid itself) *)
Definition exn_of (f : fault) : exn := match f with FExit => ExitMainLoop | FRaise e => UserExc e end.

Inductive event :=
  | EInput (ks : list key)        (* bytes arrive on the screen's input descriptor *)
  | EResize                       (* SIGWINCH: the resize pipe becomes readable *)
  | EAlarm (id : Z)               (* MainLoop.set_alarm_in(0, cb, id) *)
  | EPipe (id data : Z)           (* os.write(MainLoop.watch_pipe(cb), data) *)
  | EFile (id : Z).               (* MainLoop.watch_file(fd, cb): fd readable *)

Inductive alarm := AUser (id : Z) | AEnteringIdle.

Inductive tev :=
  | TStart | TStop | TSetMouse | THook | TUnhook | TDraw | TClear | TColsRows
  | TWrite (mode : Z) (on : bool)
  | TFilter (ks : list key) | TKeypress (c : Z) | TMouse (b col row : Z) | TUnhandled (k : key)
  | TAlarm (id : Z) | TPipe (id data : Z) | TFile (id : Z) | TRender | TQuit
  | TGetInput | TTimeouts (sec : bool) | TPStart | TPStop
  | TWait                         (* the event loop is about to block: the next scripted round arrives *)
  | TPopKey (c : Z).              (* keypress of the pop-up widget (top of the PopUpTarget's Overlay) *)

Record config := Config {
  c_hook : bool;                 (* the screen has hook_event_loop (raw_display) / has not (plain) *)
  c_filter : option (list Z);    (* input_filter: None, or a function dropping the listed key codes *)
  c_unhandled : option bool;     (* unhandled_input: None, or a function returning this value *)
  c_handle_mouse : bool;
  c_pop_ups : bool;
  c_paste : bool;                (* Screen(bracketed_paste_mode=) *)
  c_focus : bool;                (* Screen(focus_reporting=) *)
  c_isatty : bool;               (* os.isatty(input fd) *)
  c_prestarted : bool;           (* screen.start() was called by the application before run() *)
  c_pre_alarms : list Z;         (* set_alarm_in(0, ..) calls made before run() *)
  w_selectable : bool;
  w_has_mouse : bool;            (* hasattr(widget, "mouse_event") *)
  w_keys : list (Z * Z);         (* keypress(code) returns: 0 = None (handled), else a key code; default: the key *)
  w_mouse : list Z;              (* buttons for which mouse_event returns True *)
  w_cursor : bool;               (* the rendered canvas has a cursor *)
  c_launcher : bool;             (* the body is wrapped in a PopUpLauncher: key 111 ('o') opens its pop-up;
                                    create_pop_up() returns the same (cached) widget every time *)
  w_pop_keys : list Z;           (* keys the pop-up widget handles; key 120 ('x') makes it close the pop-up *)
  c_second_run : bool            (* the application calls run() a second time on the same MainLoop and Screen
                                    (after a normal return, or after catching the exception run() raised) *)
}.

(* the terminal (what the escape sequences, termios and signal calls act on) *)
Record term := Term {
  t_alt : bool; t_cursor : bool; t_m1000 : bool; t_m1002 : bool; t_m1006 : bool;
  t_paste : bool; t_focus : bool;
  t_tios : Z * bool;             (* (settings, cbreak applied) *)
  t_winch : Z; t_tstp : Z; t_cont : Z;   (* handlers: 0 SIG_DFL, 1 SIG_IGN, 2 the application's, 3 urwid's *)
  t_plain : bool                 (* the plain screen's own _start.._stop bracket *)
}.

(* fields of the Screen object *)
Record screen := Screen {
  s_started : bool;              (* BaseScreen._started *)
  s_mouse_enabled : bool;        (* _mouse_tracking_enabled *)
  s_altbuf : bool;               (* _alternate_buffer *)
  s_old_tios : option (Z * bool);(* _old_termios_settings *)
  s_prev_winch : option Z; s_prev_tstp : option Z; s_prev_cont : option Z
}.

Record st := St {
  n : Z;                         (* next callback invocation index *)
  tr : list tev;                 (* trace, most recent first *)
  scr : screen;
  tm : term;
  size_known : bool;             (* MainLoop.screen_size is not None *)
  connected : nat;               (* how many times _reset_input_descriptors is connected to INPUT_DESCRIPTORS_CHANGED
                                    (connect_signal appends; only MainLoop.stop() disconnects one) *)
  idle_reg : nat;                (* how many MainLoop.entering_idle callbacks the event loop holds (enter_idle adds
                                    one; only MainLoop.stop() removes the latest) *)
  hooked : bool;                 (* the screen's watches are registered with the event loop *)
  alarms : list alarm;           (* event_loop._alarms, all due, in firing order *)
  wstate : Z;                    (* the widget's state: how many inputs it handled so far; an unchanged widget
                                    hands draw_screen the very same canvas object again (canvas cache) *)
  buf_ok : bool;                 (* Screen.screen_buf is not None *)
  buf_canvas : option Z;         (* Screen._screen_buf_canvas: the canvas painted last (its widget state);
                                    None: nothing yet, or a canvas object that is never handed out again *)
  l_pop : bool;                  (* PopUpLauncher._pop_up_widget is not None (the pop-up is open) *)
  t_pop : bool;                  (* PopUpTarget._pop_up is the pop-up widget (None otherwise) *)
  t_overlay : bool               (* PopUpTarget._current_widget is the Overlay (else the original widget) *)
}.

Inductive res (A : Type) := ROk (a : A) | RErr (e : exn).
Arguments ROk {A} a.
Arguments RErr {A} e.
Definition M (A : Type) := st -> res A * st.
Definition ret {A} (a : A) : M A := fun s => (ROk a, s).
Definition raise {A} (e : exn) : M A := fun s => (RErr e, s).
Definition bindM {A B} (m : M A) (f : A -> M B) : M B :=
  fun s => match m s with (ROk a, s') => f a s' | (RErr e, s') => (RErr e, s') end.
Notation "x <- m ;; k" := (bindM m (fun x => k)) (at level 61, m at next level, right associativity).
Notation "m ;;; k" := (bindM m (fun _ => k)) (at level 61, right associativity).
(* try: m finally: h *)
Definition finally {A} (m : M A) (h : M unit) : M A :=
  fun s => match m s with
           | (r, s') => match h s' with (ROk _, s'') => (r, s'') | (RErr e, s'') => (RErr e, s'') end
           end.
(* with suppress(ExitMainLoop): m *)
Definition suppress_exit (m : M unit) : M unit :=
  fun s => match m s with (RErr ExitMainLoop, s') => (ROk tt, s') | x => x end.

(* state updates *)
Definition emit (t : tev) : M unit :=
  fun s => (ROk tt, St (n s) (t :: tr s) (scr s) (tm s) (size_known s) (connected s) (idle_reg s) (hooked s) (alarms s) (wstate s) (buf_ok s) (buf_canvas s) (l_pop s) (t_pop s) (t_overlay s)).
Definition upd_scr (f : screen -> screen) : M unit :=
  fun s => (ROk tt, St (n s) (tr s) (f (scr s)) (tm s) (size_known s) (connected s) (idle_reg s) (hooked s) (alarms s) (wstate s) (buf_ok s) (buf_canvas s) (l_pop s) (t_pop s) (t_overlay s)).
Definition upd_tm (f : term -> term) : M unit :=
  fun s => (ROk tt, St (n s) (tr s) (scr s) (f (tm s)) (size_known s) (connected s) (idle_reg s) (hooked s) (alarms s) (wstate s) (buf_ok s) (buf_canvas s) (l_pop s) (t_pop s) (t_overlay s)).
Definition set_size_known (b : bool) : M unit :=
  fun s => (ROk tt, St (n s) (tr s) (scr s) (tm s) b (connected s) (idle_reg s) (hooked s) (alarms s) (wstate s) (buf_ok s) (buf_canvas s) (l_pop s) (t_pop s) (t_overlay s)).
Definition set_connected (b : nat) : M unit :=
  fun s => (ROk tt, St (n s) (tr s) (scr s) (tm s) (size_known s) b (idle_reg s) (hooked s) (alarms s) (wstate s) (buf_ok s) (buf_canvas s) (l_pop s) (t_pop s) (t_overlay s)).
Definition set_idle_reg (b : nat) : M unit :=
  fun s => (ROk tt, St (n s) (tr s) (scr s) (tm s) (size_known s) (connected s) b (hooked s) (alarms s) (wstate s) (buf_ok s) (buf_canvas s) (l_pop s) (t_pop s) (t_overlay s)).
Definition set_hooked (b : bool) : M unit :=
  fun s => (ROk tt, St (n s) (tr s) (scr s) (tm s) (size_known s) (connected s) (idle_reg s) b (alarms s) (wstate s) (buf_ok s) (buf_canvas s) (l_pop s) (t_pop s) (t_overlay s)).
Definition set_alarms (l : list alarm) : M unit :=
  fun s => (ROk tt, St (n s) (tr s) (scr s) (tm s) (size_known s) (connected s) (idle_reg s) (hooked s) l (wstate s) (buf_ok s) (buf_canvas s) (l_pop s) (t_pop s) (t_overlay s)).
Definition set_wstate (v : Z) : M unit :=
  fun s => (ROk tt, St (n s) (tr s) (scr s) (tm s) (size_known s) (connected s) (idle_reg s) (hooked s) (alarms s) v (buf_ok s) (buf_canvas s) (l_pop s) (t_pop s) (t_overlay s)).
Definition set_buf_ok (b : bool) : M unit :=
  fun s => (ROk tt, St (n s) (tr s) (scr s) (tm s) (size_known s) (connected s) (idle_reg s) (hooked s) (alarms s) (wstate s) b (buf_canvas s) (l_pop s) (t_pop s) (t_overlay s)).
Definition set_buf_canvas (o : option Z) : M unit :=
  fun s => (ROk tt, St (n s) (tr s) (scr s) (tm s) (size_known s) (connected s) (idle_reg s) (hooked s) (alarms s) (wstate s) (buf_ok s) o (l_pop s) (t_pop s) (t_overlay s)).
Definition set_l_pop (b : bool) : M unit :=
  fun s => (ROk tt, St (n s) (tr s) (scr s) (tm s) (size_known s) (connected s) (idle_reg s) (hooked s) (alarms s) (wstate s) (buf_ok s) (buf_canvas s) b (t_pop s) (t_overlay s)).
Definition set_t_pop (b : bool) : M unit :=
  fun s => (ROk tt, St (n s) (tr s) (scr s) (tm s) (size_known s) (connected s) (idle_reg s) (hooked s) (alarms s) (wstate s) (buf_ok s) (buf_canvas s) (l_pop s) b (t_overlay s)).
Definition set_t_overlay (b : bool) : M unit :=
  fun s => (ROk tt, St (n s) (tr s) (scr s) (tm s) (size_known s) (connected s) (idle_reg s) (hooked s) (alarms s) (wstate s) (buf_ok s) (buf_canvas s) (l_pop s) (t_pop s) b).
Definition get {A} (f : st -> A) : M A := fun s => (ROk (f s), s).

Definition set_started b (x : screen) := Screen b (s_mouse_enabled x) (s_altbuf x) (s_old_tios x) (s_prev_winch x) (s_prev_tstp x) (s_prev_cont x).
Definition set_mouse_enabled b (x : screen) := Screen (s_started x) b (s_altbuf x) (s_old_tios x) (s_prev_winch x) (s_prev_tstp x) (s_prev_cont x).
Definition set_altbuf b (x : screen) := Screen (s_started x) (s_mouse_enabled x) b (s_old_tios x) (s_prev_winch x) (s_prev_tstp x) (s_prev_cont x).
Definition set_old_tios o (x : screen) := Screen (s_started x) (s_mouse_enabled x) (s_altbuf x) o (s_prev_winch x) (s_prev_tstp x) (s_prev_cont x).
Definition set_prev_winch o (x : screen) := Screen (s_started x) (s_mouse_enabled x) (s_altbuf x) (s_old_tios x) o (s_prev_tstp x) (s_prev_cont x).
Definition set_prev_tstp o (x : screen) := Screen (s_started x) (s_mouse_enabled x) (s_altbuf x) (s_old_tios x) (s_prev_winch x) o (s_prev_cont x).

Definition set_mode (mode : Z) (on : bool) (t : term) : term :=
  if mode =? 1049 then Term on (t_cursor t) (t_m1000 t) (t_m1002 t) (t_m1006 t) (t_paste t) (t_focus t) (t_tios t) (t_winch t) (t_tstp t) (t_cont t) (t_plain t)
  else if mode =? 25 then Term (t_alt t) on (t_m1000 t) (t_m1002 t) (t_m1006 t) (t_paste t) (t_focus t) (t_tios t) (t_winch t) (t_tstp t) (t_cont t) (t_plain t)
  else if mode =? 1000 then Term (t_alt t) (t_cursor t) on (t_m1002 t) (t_m1006 t) (t_paste t) (t_focus t) (t_tios t) (t_winch t) (t_tstp t) (t_cont t) (t_plain t)
  else if mode =? 1002 then Term (t_alt t) (t_cursor t) (t_m1000 t) on (t_m1006 t) (t_paste t) (t_focus t) (t_tios t) (t_winch t) (t_tstp t) (t_cont t) (t_plain t)
  else if mode =? 1006 then Term (t_alt t) (t_cursor t) (t_m1000 t) (t_m1002 t) on (t_paste t) (t_focus t) (t_tios t) (t_winch t) (t_tstp t) (t_cont t) (t_plain t)
  else if mode =? 2004 then Term (t_alt t) (t_cursor t) (t_m1000 t) (t_m1002 t) (t_m1006 t) on (t_focus t) (t_tios t) (t_winch t) (t_tstp t) (t_cont t) (t_plain t)
  else if mode =? 1004 then Term (t_alt t) (t_cursor t) (t_m1000 t) (t_m1002 t) (t_m1006 t) (t_paste t) on (t_tios t) (t_winch t) (t_tstp t) (t_cont t) (t_plain t)
  else t.
Definition set_tios v (t : term) := Term (t_alt t) (t_cursor t) (t_m1000 t) (t_m1002 t) (t_m1006 t) (t_paste t) (t_focus t) v (t_winch t) (t_tstp t) (t_cont t) (t_plain t).
Definition set_winch v (t : term) := Term (t_alt t) (t_cursor t) (t_m1000 t) (t_m1002 t) (t_m1006 t) (t_paste t) (t_focus t) (t_tios t) v (t_tstp t) (t_cont t) (t_plain t).
Definition set_tstp v (t : term) := Term (t_alt t) (t_cursor t) (t_m1000 t) (t_m1002 t) (t_m1006 t) (t_paste t) (t_focus t) (t_tios t) (t_winch t) v (t_cont t) (t_plain t).
Definition set_cont v (t : term) := Term (t_alt t) (t_cursor t) (t_m1000 t) (t_m1002 t) (t_m1006 t) (t_paste t) (t_focus t) (t_tios t) (t_winch t) (t_tstp t) v (t_plain t).
Definition set_plain v (t : term) := Term (t_alt t) (t_cursor t) (t_m1000 t) (t_m1002 t) (t_m1006 t) (t_paste t) (t_focus t) (t_tios t) (t_winch t) (t_tstp t) (t_cont t) v.

(* Screen.write(escape sequence setting one DEC private mode) *)
Definition write_mode (mode : Z) (on : bool) : M unit :=
  emit (TWrite mode on) ;;; upd_tm (set_mode mode on).

Fixpoint plan_at (p : list (Z * fault)) (i : Z) : option fault :=
  match p with
  | [] => None
  | (j, f) :: r => if j =? i then Some f else plan_at r i
  end.

Fixpoint assoc_default (l : list (Z * Z)) (k d : Z) : Z :=
  match l with
  | [] => d
  | (a, b) :: r => if a =? k then b else assoc_default r k d
  end.
Fixpoint memz (x : Z) (l : list Z) : bool :=
  match l with [] => false | y :: r => if y =? x then true else memz x r end.

Definition is_resize (k : key) : bool := match k with KResize => true | _ => false end.
Definition has_resize (ks : list key) : bool := existsb is_resize ks.
(* command_map[key] == Command.REDRAW_SCREEN: the default command map binds only 'ctrl l' *)
Definition is_redraw (k : key) : bool := match k with KKey c => c =? 12 | _ => false end.
Definition is_nil {A} (l : list A) : bool := match l with [] => true | _ => false end.

Section WithConfig.
Variable c : config.
Variable p : list (Z * fault).

(* one invocation of a user callback: trace it, take the next index, fault if planned *)
Definition cb (t : tev) : M unit :=
  fun s =>
    let s' := St (n s + 1) (t :: tr s) (scr s) (tm s) (size_known s) (connected s) (idle_reg s) (hooked s) (alarms s) (wstate s) (buf_ok s) (buf_canvas s) (l_pop s) (t_pop s) (t_overlay s) in
    match plan_at p (n s) with
    | None => (ROk tt, s')
    | Some f => (RErr (exn_of f), s')
    end.

(* ---------------- raw_display.Screen ---------------- *)
(* Screen.unhook_event_loop / hook_event_loop *)
Definition unhook_event_loop : M unit := emit TUnhook ;;; set_hooked false.
Definition hook_event_loop : M unit := emit THook ;;; set_hooked true.

(* MainLoop._reset_input_descriptors *)
Definition reset_input_descriptors : M unit := unhook_event_loop ;;; hook_event_loop.

(* signals.emit_signal(self, INPUT_DESCRIPTORS_CHANGED): every connected handler is
   MainLoop._reset_input_descriptors (unhook, hook).  Closed form of the loop over the [k] handlers:
   the trace gets k times TUnhook, THook; the watches are registered afterwards when k > 0. *)
Fixpoint reset_trace (k : nat) : list tev :=
  match k with O => [] | S k' => THook :: TUnhook :: reset_trace k' end.
Definition emit_descriptors_changed : M unit :=
  fun s => (ROk tt,
            St (n s) (reset_trace (connected s) ++ tr s) (scr s) (tm s) (size_known s) (connected s) (idle_reg s)
               (match connected s with O => hooked s | S _ => true end)
               (alarms s) (wstate s) (buf_ok s) (buf_canvas s) (l_pop s) (t_pop s) (t_overlay s)).

(* Screen._mouse_tracking (base class; the gpm part needs /usr/bin/mev on a linux console) *)
Definition mouse_tracking (enable : bool) : M unit :=
  if enable then write_mode 1000 true ;;; write_mode 1002 true ;;; write_mode 1006 true
  else write_mode 1006 false ;;; write_mode 1002 false ;;; write_mode 1000 false.

(* Screen.set_mouse_tracking(enable=True) *)
Definition set_mouse_tracking : M unit :=
  emit TSetMouse ;;;
  if c_hook c then
    en <- get (fun s => s_mouse_enabled (scr s)) ;;
    if en then ret tt
    else mouse_tracking true ;;; upd_scr (set_mouse_enabled true)
  else ret tt.

(* Screen.signal_init *)
Definition signal_init : M unit :=
  w <- get (fun s => t_winch (tm s)) ;;
  upd_scr (set_prev_winch (Some w)) ;;; upd_tm (set_winch 3) ;;;
  t <- get (fun s => t_tstp (tm s)) ;;
  upd_scr (set_prev_tstp (Some t)) ;;; upd_tm (set_tstp 3).

(* `handler or signal.SIG_DFL` *)
Definition or_dfl (o : option Z) : Z := match o with None => 0 | Some h => h end.

(* Screen.signal_restore *)
Definition signal_restore : M unit :=
  a <- get (fun s => s_prev_tstp (scr s)) ;; upd_tm (set_tstp (or_dfl a)) ;;;
  b <- get (fun s => s_prev_cont (scr s)) ;;
  (* `if self._prev_sigcont_handler is not None:` only _sigtstp_handler() replaces the SIGCONT handler *)
  (match b with Some h => upd_tm (set_cont h) | None => ret tt end) ;;;
  d <- get (fun s => s_prev_winch (scr s)) ;; upd_tm (set_winch (or_dfl d)).

(* Screen._start(alternate_buffer=True)  (_posix_raw_display.py) *)
Definition raw_start : M unit :=
  write_mode 1049 true ;;;
  (if c_paste c then write_mode 2004 true else ret tt) ;;;
  (if c_focus c then write_mode 1004 true else ret tt) ;;;
  (if c_isatty c then
     cur <- get (fun s => t_tios (tm s)) ;;
     upd_scr (set_old_tios (Some cur)) ;;; upd_tm (set_tios (fst cur, true))
   else ret tt) ;;;
  signal_init ;;;
  upd_scr (set_altbuf true) ;;;
  emit_descriptors_changed ;;;
  en <- get (fun s => s_mouse_enabled (scr s)) ;;
  mouse_tracking en.

(* Screen.clear *)
Definition screen_clear : M unit := emit TClear ;;; set_buf_ok false.      (* self.screen_buf = None *)

(* Screen._stop_mouse_restore_buffer *)
Definition stop_mouse_restore_buffer : M unit :=
  mouse_tracking false ;;;
  ab <- get (fun s => s_altbuf (scr s)) ;;
  (if ab then write_mode 1049 false else ret tt) ;;;
  write_mode 25 true.

(* Screen._stop  (_posix_raw_display.py) *)
Definition raw_stop : M unit :=
  screen_clear ;;;
  (if c_paste c then write_mode 2004 false else ret tt) ;;;
  (if c_focus c then write_mode 1004 false else ret tt) ;;;
  emit_descriptors_changed ;;;
  signal_restore ;;;
  stop_mouse_restore_buffer ;;;
  (if c_isatty c then
     o <- get (fun s => s_old_tios (scr s)) ;;
     match o with
     | Some v => upd_tm (set_tios v)
     | None => raise (PyErr 1)          (* AttributeError: _old_termios_settings *)
     end
   else ret tt).

(* BaseScreen.start *)
Definition screen_start : M unit :=
  emit TStart ;;;
  st0 <- get (fun s => s_started (scr s)) ;;
  if st0 then ret tt
  else upd_scr (set_started true) ;;;
       (if c_hook c then raw_start else emit TPStart ;;; upd_tm (set_plain true)).

(* BaseScreen.stop *)
Definition screen_stop : M unit :=
  emit TStop ;;;
  st0 <- get (fun s => s_started (scr s)) ;;
  (if st0 then (if c_hook c then raw_stop else emit TPStop ;;; upd_tm (set_plain false)) else ret tt) ;;;
  upd_scr (set_started false).

(* Screen.get_cols_rows *)
Definition get_cols_rows : M unit := emit TColsRows.

(* Screen.draw_screen(size, canvas): HIDE_CURSOR ... SHOW_CURSOR iff the canvas has a cursor;
   self.screen_buf = sb; self._screen_buf_canvas = canvas *)
Definition screen_draw_screen : M unit :=
  emit TDraw ;;;
  if c_hook c then
    st0 <- get (fun s => s_started (scr s)) ;;
    if st0 then
      (* `if self.screen_buf and canvas is self._screen_buf_canvas: return`: nothing changed.
         PopUpTarget wraps the widget's canvas into a new CompositeCanvas at every render. *)
      ok <- get buf_ok ;; bc <- get buf_canvas ;; ws <- get wstate ;;
      if ok && negb (c_pop_ups c) && (match bc with Some k => k =? ws | None => false end) then ret tt
      else
        write_mode 25 false ;;; (if w_cursor c then write_mode 25 true else ret tt) ;;;
        set_buf_ok true ;;; set_buf_canvas (if c_pop_ups c then None else Some ws)
    else raise (PyErr 2)                 (* RuntimeError *)
  else ret tt.

(* ---------------- the topmost widget ---------------- *)
(* PopUpTarget._update_overlay (runs before keypress / mouse_event / render are forwarded) *)
Definition update_overlay : M unit :=
  if c_pop_ups c then
    cb TRender ;;;                       (* canv = self._original_widget.render(size, focus=focus) *)
    lp <- get l_pop ;;
    if lp then                           (* if pop_up := canv.get_pop_up(): the launcher's canvas carries it *)
      tp <- get t_pop ;;
      if tp then                         (* not (self._pop_up != w): the cached widget object again *)
        ov <- get t_overlay ;;           (* self._current_widget.set_overlay_parameters(...) *)
        if ov then ret tt else raise (PyErr 1)     (* AttributeError when _current_widget is not the Overlay *)
      else set_t_pop true ;;; set_t_overlay true   (* self._pop_up = w; self._current_widget = Overlay(...) *)
    else set_t_pop false ;;; set_t_overlay false   (* self._pop_up = None; self._current_widget = original *)
  else ret tt.

(* _topmost_widget.keypress(size, key): returns the code of the returned key, 0 for None *)
Definition widget_changed : M unit := ws <- get wstate ;; set_wstate (ws + 1).
Definition topmost_keypress (k : Z) : M Z :=
  update_overlay ;;;
  ov <- get t_overlay ;;
  if ov then
    (* Overlay.keypress -> top_w: the pop-up widget *)
    cb (TPopKey k) ;;;
    if k =? 120 then set_l_pop false ;;; ret 0           (* launcher.close_pop_up(); return None *)
    else ret (if memz k (w_pop_keys c) then 0 else k)
  else if c_launcher c && (k =? 111) then
    (* PopUpLauncher subclass: keypress 'o': self.open_pop_up(); return None *)
    cb (TKeypress k) ;;; set_l_pop true ;;; ret 0
  else
    cb (TKeypress k) ;;;
    (if assoc_default (w_keys c) k k =? 0 then widget_changed else ret tt) ;;;
    ret (assoc_default (w_keys c) k k).

Definition widget_mouse_event (b col row : Z) : M bool :=
  cb (TMouse b col row) ;;;
  (if memz b (w_mouse c) then widget_changed else ret tt) ;;;
  ret (memz b (w_mouse c)).

(* hasattr(_topmost_widget, "mouse_event") and _topmost_widget.mouse_event(...) *)
Definition topmost_mouse_event (b col row : Z) : M bool :=
  if c_pop_ups c then
    update_overlay ;;;
    ov <- get t_overlay ;;
    if ov then ret false                 (* Overlay.mouse_event: only top_w is asked; the pop-up widget has
                                            Widget.mouse_event, which returns False *)
    else if w_has_mouse c then widget_mouse_event b col row
    else raise (PyErr 1)                 (* PopUpTarget forwards to a widget without mouse_event *)
  else if w_has_mouse c then widget_mouse_event b col row
  else ret false.

(* _topmost_widget.render(screen_size, focus=True) *)
Definition topmost_render : M unit :=
  update_overlay ;;;
  ov <- get t_overlay ;;
  if ov then cb TRender ;;; cb TRender   (* Overlay.render: bottom_w (launcher -> body), then top_w (the pop-up) *)
  else cb TRender.

(* ---------------- MainLoop ---------------- *)
(* MainLoop.input_filter *)
Definition apply_filter (drop : list Z) (ks : list key) : list key :=
  filter (fun k => match k with KKey x => negb (memz x drop) | _ => true end) ks.
Definition input_filter (ks : list key) : M (list key) :=
  match c_filter c with
  | Some drop => cb (TFilter ks) ;;; ret (apply_filter drop ks)
  | None => ret ks
  end.

(* MainLoop.unhandled_input *)
Definition unhandled_input (k : key) : M unit :=
  match c_unhandled c with
  | Some _ => cb (TUnhandled k)
  | None => ret tt
  end.

(* process_input, the part after the widget:  if command_map[key] == REDRAW_SCREEN ... else unhandled_input *)
Definition after_widget (k : key) : M unit :=
  if is_redraw k then screen_clear else unhandled_input k.

(* process_input, body of `for key in keys` *)
Definition process_key (k : key) : M unit :=
  match k with
  | KResize => ret tt
  | KKey x =>
      if w_selectable c then
        r <- topmost_keypress x ;;
        if r =? 0 then ret tt else after_widget (KKey r)
      else after_widget k
  | KMouse b col row =>
      h <- topmost_mouse_event b col row ;;
      if h then ret tt else after_widget k
  end.

Fixpoint for_each {A} (f : A -> M unit) (l : list A) : M unit :=
  match l with
  | [] => ret tt
  | x :: r => f x ;;; for_each f r
  end.

(* MainLoop.process_input *)
Definition process_input (ks : list key) : M unit :=
  sk <- get size_known ;;
  (if sk then ret tt else get_cols_rows ;;; set_size_known true) ;;;
  for_each process_key ks.

(* MainLoop._update *)
Definition update (ks : list key) : M unit :=
  ks' <- input_filter ks ;;
  if is_nil ks' then ret tt
  else process_input ks' ;;;
       (if has_resize ks' then set_size_known false else ret tt).

(* MainLoop.draw_screen *)
Definition draw_screen : M unit :=
  sk <- get size_known ;;
  (if sk then ret tt else get_cols_rows ;;; set_size_known true) ;;;
  topmost_render ;;;
  screen_draw_screen.

(* MainLoop.entering_idle *)
Definition entering_idle : M unit :=
  st0 <- get (fun s => s_started (scr s)) ;;
  if st0 then draw_screen else ret tt.

(* MainLoop.start *)
Definition ml_start : M unit :=
  screen_start ;;;
  (if c_handle_mouse c then set_mouse_tracking else ret tt) ;;;
  if c_hook c then
    cn <- get connected ;; set_connected (S cn) ;;;     (* signals.connect_signal(...) *)
    reset_input_descriptors ;;;
    ir <- get idle_reg ;; set_idle_reg (S ir) ;;;       (* self.idle_handle = self.event_loop.enter_idle(self.entering_idle) *)
    al <- get alarms ;; set_alarms (al ++ [AEnteringIdle])
  else raise CantUseExternalLoop.

(* MainLoop.stop *)
Definition ml_stop : M unit :=
  ir <- get idle_reg ;; set_idle_reg (pred ir) ;;;      (* remove_enter_idle(self.idle_handle); del self.idle_handle *)
  cn <- get connected ;; set_connected (pred cn) ;;;    (* signals.disconnect_signal(...) *)
  unhook_event_loop ;;;
  screen_stop.

(* ---------------- the event loop (C13 contract of SelectEventLoop) ---------------- *)
Definition fire_alarm (a : alarm) : M unit :=
  match a with
  | AUser id => cb (TAlarm id)
  | AEnteringIdle => entering_idle
  end.

Definition deliver (e : event) : M unit :=
  match e with
  | EInput ks => update ks              (* the screen's watch callback parses and calls _update *)
  | EResize => set_buf_ok false ;;; update [KResize]      (* _sigwinch_handler: self.screen_buf = None *)
  | EAlarm id => cb (TAlarm id)
  | EPipe id d => cb (TPipe id d)
  | EFile id => cb (TFile id)
  end.

(* alarms are kept in the loop's heap until they fire: what a run() leaves behind fires in the next one *)
Definition pop_alarm : M (option alarm) :=
  al <- get alarms ;;
  match al with
  | [] => ret None
  | a :: r => set_alarms r ;;; ret (Some a)
  end.
Fixpoint fire_n (k : nat) : M unit :=
  match k with
  | O => ret tt
  | S k' => nx <- pop_alarm ;; match nx with None => ret tt | Some a => fire_alarm a ;;; fire_n k' end
  end.
(* every due alarm, in heap order (callbacks do not schedule alarms) *)
Definition fire_pending : M unit := al <- get alarms ;; fire_n (length al).

Fixpoint repeat_m (k : nat) (m : M unit) : M unit :=
  match k with O => ret tt | S k' => m ;;; repeat_m k' m end.
(* SelectEventLoop._entering_idle: every registered idle callback (all are MainLoop.entering_idle) *)
Definition idle_round : M unit := k <- get idle_reg ;; repeat_m k entering_idle.

Definition alarm_ids (r : list event) : list alarm :=
  flat_map (fun e => match e with EAlarm i => [AUser i] | _ => [] end) r.
Definition deliver_fd (e : event) : M unit :=
  match e with EAlarm _ => ret tt | _ => deliver e end.

(* one scripted round: the events that arrived while the loop waited - set_alarm_in pushes onto the heap,
   ready descriptors are served before due alarms - then the idle callbacks *)
Definition do_round (r : list event) : M unit :=
  (al <- get alarms ;; set_alarms (al ++ alarm_ids r)) ;;;
  for_each deliver_fd r ;;;
  fire_pending ;;;
  idle_round ;;; emit TWait.

(* the harness ends every session with an alarm raising ExitMainLoop *)
Definition quit : M unit := emit TQuit ;;; raise ExitMainLoop.

(* SelectEventLoop.run: due alarms, idle, rounds ...; ExitMainLoop is swallowed here *)
Definition event_loop_run (rounds : list (list event)) : M unit :=
  suppress_exit (
    fire_pending ;;;
    idle_round ;;;
    emit TWait ;;;
    for_each do_round rounds ;;;
    quit).

(* ---------------- MainLoop._run_screen_event_loop ---------------- *)
(* `while next_alarm:` (every alarm is due) callback(); next_alarm = heappop(...) or None *)
Fixpoint fire_all (fuel : list alarm) (next : option alarm) : M unit :=
  match next with
  | None => ret tt
  | Some a =>
      fire_alarm a ;;;
      match fuel with
      | [] => ret tt
      | _ :: fuel' => nx <- pop_alarm ;; fire_all fuel' nx
      end
  end.

(* one scripted get_input result per list element; the fake's get_input raises ExitMainLoop when the
   script is exhausted.  The body is the loop rotated: wait - filter - process - alarms - resize - draw - pop. *)
Fixpoint screen_loop (inputs : list (list key)) (next : option alarm) : M unit :=
  match inputs with
  | [] =>
      emit (TTimeouts (match next with Some _ => true | None => false end)) ;;;
      emit TGetInput ;;; quit
  | b :: rest =>
      emit (TTimeouts (match next with Some _ => true | None => false end)) ;;;
      emit TGetInput ;;;
      if is_nil b && (match next with None => true | Some _ => false end) then screen_loop rest next
      else
        ks' <- input_filter b ;;
        (if is_nil ks' then ret tt else process_input ks') ;;;
        al <- get alarms ;;
        fire_all al next ;;;
        (if has_resize ks' then set_size_known false else ret tt) ;;;
        draw_screen ;;;
        nx <- pop_alarm ;;
        screen_loop rest nx
  end.

Definition run_screen_event_loop (inputs : list (list key)) : M unit :=
  draw_screen ;;;
  nx <- pop_alarm ;;
  screen_loop inputs nx.

(* ---------------- MainLoop._run / run ---------------- *)
Definition ml_run_inner (rounds : list (list event)) (inputs : list (list key)) : M unit :=
  fun s =>
    match ml_start s with
    | (RErr CantUseExternalLoop, s1) => finally (run_screen_event_loop inputs) screen_stop s1
    | (RErr e, s1) => (RErr e, s1)
    | (ROk _, s1) =>
        match event_loop_run rounds s1 with
        | (RErr e, s2) => (screen_stop ;;; raise e) s2
        | (ROk _, s2) => ml_stop s2
        end
    end.

Definition ml_run (rounds : list (list event)) (inputs : list (list key)) : M unit :=
  suppress_exit (ml_run_inner rounds inputs).

(* the whole session: what the application does before run(), then run() *)
Definition session (rounds : list (list event)) (inputs : list (list key)) : M unit :=
  set_alarms (map AUser (c_pre_alarms c)) ;;;
  (if c_prestarted c then screen_start else ret tt) ;;;
  ml_run rounds inputs.

End WithConfig.

(* run(), and - when asked for - run() once more from whatever the first one left behind: nothing new is
   scripted and no fault is planned for the second run (the harness ends it at its first wait) *)
Definition run_twice (c : config) (p : list (Z * fault)) (rounds : list (list event)) (inputs : list (list key))
    (s0 : st) : (res unit * st) * option (res unit * st) :=
  let rs1 := session c p rounds inputs s0 in
  if c_second_run c && c_hook c &&
     (match fst rs1 with ROk _ => true | RErr (UserExc _) => true | _ => false end)
  then (rs1, Some (ml_run c [] [] [] (snd rs1)))
  else (rs1, None).

Definition normal_term (tios : Z) (w t cn : Z) : term :=
  Term false true false false false false false (tios, false) w t cn false.
Definition fresh_screen : screen := Screen false false false None None None None.
Definition init_st (t : term) : st := St 0 [] fresh_screen t false O O false [] 0 false None false false false.

(* ---------- wire format ----------
   case  = hook, filter [0 | 1 n codes..], unhandled [0 _ | 1 r], handle_mouse, pop_ups, paste, focus, isatty,
           prestarted, pre_alarms [list], selectable, has_mouse, keys [n then n pairs k v], mouse [list], cursor,
           sig [w t c], launcher, pop_keys [list], second_run, plan [n then n pairs idx f]  with f = 0 for Exit, e > 0 for UserExc e,
           body when hook=1: nrounds then per round: nevents then events;
                 event = 1 nkeys key4.. | 2 | 3 id | 4 id data | 5 id
           body when hook=0: ninputs then per input: nkeys key4..
   reply = summary of run 1, [0 | 1 summary of run 2], ntrace of run 1, ntrace, then items each prefixed by its length
           summary = outcome [0 0 ok | 1 e | 2 k PyErr | 3 0 cant-use | 4 0 exit], started, ncb, sig [w t c],
                     alt cursor m1000 m1002 m1006 paste focus cbreak plain *)
Definition dec_key (l : list Z) : option (key * list Z) :=
  match l with
  | 0 :: _ :: _ :: _ :: r => Some (KResize, r)
  | 1 :: x :: _ :: _ :: r => Some (KKey x, r)
  | 2 :: b :: cl :: rw :: r => Some (KMouse b cl rw, r)
  | _ => None
  end.
Fixpoint dec_n {A} (f : list Z -> option (A * list Z)) (k : nat) (l : list Z) : option (list A * list Z) :=
  match k with
  | O => Some ([], l)
  | S k' => match f l with
            | Some (a, r) => match dec_n f k' r with Some (as_, r') => Some (a :: as_, r') | None => None end
            | None => None
            end
  end.
Definition dec_counted {A} (f : list Z -> option (A * list Z)) (l : list Z) : option (list A * list Z) :=
  match l with
  | k :: r => if k <? 0 then None else dec_n f (Z.to_nat k) r
  | [] => None
  end.
Definition dec_keys := dec_counted dec_key.
Definition dec_event (l : list Z) : option (event * list Z) :=
  match l with
  | 1 :: r => match dec_keys r with Some (ks, r') => Some (EInput ks, r') | None => None end
  | 2 :: r => Some (EResize, r)
  | 3 :: i :: r => Some (EAlarm i, r)
  | 4 :: i :: d :: r => Some (EPipe i d, r)
  | 5 :: i :: r => Some (EFile i, r)
  | _ => None
  end.
Definition dec_pair (l : list Z) : option ((Z * Z) * list Z) :=
  match l with a :: b :: r => Some ((a, b), r) | _ => None end.
Definition dec_fault (l : list Z) : option ((Z * fault) * list Z) :=
  match l with a :: b :: r => Some ((a, if b =? 0 then FExit else FRaise b), r) | _ => None end.
Definition dec_bool (l : list Z) : option (bool * list Z) :=
  match l with x :: r => Some (negb (x =? 0), r) | [] => None end.

Definition enc_key (k : key) : list Z :=
  match k with KResize => [0; 0; 0; 0] | KKey x => [1; x; 0; 0] | KMouse b cl rw => [2; b; cl; rw] end.
Definition enc_tev (t : tev) : list Z :=
  match t with
  | TStart => [1] | TStop => [2] | TSetMouse => [3] | THook => [4] | TUnhook => [5] | TDraw => [6]
  | TClear => [7] | TColsRows => [8] | TWrite m on => [9; m; enc_bool on]
  | TFilter ks => 10 :: zlen ks :: flat_map enc_key ks
  | TKeypress x => [11; x] | TMouse b cl rw => [12; b; cl; rw] | TUnhandled k => 13 :: enc_key k
  | TAlarm i => [14; i] | TPipe i d => [15; i; d] | TFile i => [16; i] | TRender => [17] | TQuit => [18]
  | TGetInput => [19] | TTimeouts b => [20; enc_bool b] | TPStart => [21] | TPStop => [22] | TWait => [23] | TPopKey x => [24; x]
  end.
Definition enc_item (t : tev) : list Z := let e := enc_tev t in zlen e :: e.

Definition enc_summary (r : res unit) (s : st) : list Z :=
  (match r with
   | ROk _ => [0; 0]
   | RErr (UserExc e) => [1; e]
   | RErr (PyErr k) => [2; k]
   | RErr CantUseExternalLoop => [3; 0]
   | RErr ExitMainLoop => [4; 0]
   end)
  ++ [enc_bool (s_started (scr s)); n s; t_winch (tm s); t_tstp (tm s); t_cont (tm s);
      enc_bool (t_alt (tm s)); enc_bool (t_cursor (tm s)); enc_bool (t_m1000 (tm s)); enc_bool (t_m1002 (tm s));
      enc_bool (t_m1006 (tm s)); enc_bool (t_paste (tm s)); enc_bool (t_focus (tm s)); enc_bool (snd (t_tios (tm s)));
      enc_bool (t_plain (tm s))].
(* reply = summary of the first run, [0] or 1 :: summary of the second run, length of the first run's trace,
   then the whole trace *)
Definition enc_result (x : (res unit * st) * option (res unit * st)) : list Z :=
  let '((r1, s1), second) := x in
  let final := match second with Some (_, s2) => s2 | None => s1 end in
  enc_summary r1 s1 ++
  (match second with Some (r2, s2) => 1 :: enc_summary r2 s2 | None => [0] end) ++
  zlen (tr s1) :: zlen (tr final) :: flat_map enc_item (rev (tr final)).

Definition dec_case (l : list Z) : option (config * term * list (Z * fault) * list (list event) * list (list key)) :=
  match dec_bool l with Some (hook, l) =>
  match l with
  | fsel :: l =>
    match (if fsel =? 0 then Some (None, l)
           else match dec_list l with Some (d, l') => Some (Some d, l') | None => None end) with
    | Some (filt, usel :: uret :: l) =>
      let unh := if usel =? 0 then None else Some (negb (uret =? 0)) in
      match l with
      | hm :: pu :: pa :: fo :: ia :: ps :: l =>
        match dec_list l with Some (pre, sel :: hasm :: l) =>
        match dec_counted dec_pair l with Some (wk, l) =>
        match dec_list l with Some (wm, cur :: sw :: st_ :: sc :: lau :: l) =>
        match dec_list l with Some (pk, sr :: l) =>
        match dec_counted dec_fault l with Some (pl, l) =>
          let cfg := Config hook filt unh (negb (hm =? 0)) (negb (pu =? 0)) (negb (pa =? 0)) (negb (fo =? 0))
                            (negb (ia =? 0)) (negb (ps =? 0)) pre (negb (sel =? 0)) (negb (hasm =? 0)) wk wm (negb (cur =? 0))
                            (negb (lau =? 0)) pk (negb (sr =? 0)) in
          let t0 := normal_term 0 sw st_ sc in
          if hook then
            match dec_counted (dec_counted dec_event) l with
            | Some (rounds, _) => Some (cfg, t0, pl, rounds, [])
            | None => None
            end
          else
            match dec_counted dec_keys l with
            | Some (inputs, _) => Some (cfg, t0, pl, [], inputs)
            | None => None
            end
        | None => None end
        | _ => None end
        | _ => None end
        | None => None end
        | _ => None end
      | _ => None
      end
    | _ => None
    end
  | [] => None
  end
  | None => None end.

Definition run_case (l : list Z) : list Z :=
  match dec_case l with
  | Some (cfg, t0, pl, rounds, inputs) =>
      enc_result (run_twice cfg pl rounds inputs (init_st t0))
  | None => [-1]
  end.
