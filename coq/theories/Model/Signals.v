(* Executable model of urwid.signals.Signals (register / connect / disconnect /
   disconnect_by_key / emit / _call_callback and the weakref callback installed by connect),
   written by hand line for line from /repo/urwid/signals.py as it is now and tied to it by the
   correspondence in harness/props/c14.py.

   * Senders, signal names, callbacks, keys and weakly referenced objects are integers
     (identities).  Keys are numbered in the order connect() creates them.
   * What a callback does when it is called is data: a script (a list of the same operations
     a history is made of, then a return-value code).  Scripts run inside the emit that called
     them, so they connect / disconnect / emit / drop objects while the emit is in progress.
   * Garbage collection is explicit.  [OKill o] drops the caller's last strong reference to
     object o.  The object really dies (its weakref callbacks run) as soon as no active
     callback frame holds it as an argument; an object that is part of a reference cycle dies
     at the next [OGc] (gc.collect()) instead.  [st_held] is the argument stack of the active
     callback frames: _call_callback passes the de-referenced weak arguments as strong ones.
   * Everything observable is an [event] tree: an emit contains the calls it made, a call
     contains what its script did.
   * Classes are created before the history starts: [create_class] is MetaSignals.__init__
     (what a class statement registers, given its bases, its MRO and its `signals` body list);
     [boot] creates all classes of a case.
   * The widgets named by the property are users of the machinery: [OClick] (Button),
     [OSetState] (CheckBox.set_state) and [OSetText] (Edit.set_edit_text) are the widget methods,
     written from wimp.py / edit.py; the widget state is [st_wstate].
   * Nested emits consume fuel (the depth bound the harness imposes as its recursion limit);
     running out of it is the error RecursionError (-3).
   No proofs in this file. *)
From Coq Require Import ZArith List Bool.
Import ListNotations.
From Urwid Require Import PyBase.
Open Scope Z_scope.

(* ---------- data ---------- *)
(* a weakly referenced object, an integer standing for a plain value, the sender (widget) itself *)
Inductive val := VObj (o : Z) | VInt (n : Z) | VSelf (s : Z).

(* one entry of obj._urwid_signals[name]: (key, callback, user_arg, (weak_args, user_args)) *)
Record handler := MkHandler {
  h_key : Z; h_cb : Z; h_uarg : option Z; h_wargs : list Z; h_uargs : list Z }.

Inductive op :=
  | ORegister (cls : Z) (names : list Z)
  | OConnect (s n cb : Z) (ua : option Z) (ws us : list Z)
  | ODisconnect (s n cb : Z) (ua : option Z) (ws us : list Z)
  | ODisconnectKey (s n k : Z)
  | OEmit (s n : Z) (args : list Z)
  | OKill (o : Z)
  | OGc
  (* the widgets named by the property's anchors, as users of the machinery *)
  | OClick (s n : Z)                  (* Button: self._emit("click") (keypress / mouse_event activate) *)
  | OSetState (s nc np v : Z)         (* CheckBox.set_state(v); nc, np = the names 'change', 'postchange' *)
  | OSetText (s nc np v : Z).         (* Edit.set_edit_text(v) *)

Record script := MkScript { sc_ops : list op; sc_ret : Z }.

(* static facts of a case: class of each sender, whether each weakly referenced object is part
   of a reference cycle, the script of each callback.  (Whether a sender class is true in a
   boolean context is an input of the harness only: since the weakref callback tests
   [if o is not None:] the behaviour does not depend on it.) *)
Record envt := MkEnv {
  e_senders : list Z; e_cyclic : list bool; e_cbs : list script;
  e_maxcalls : Z }.       (* total number of callback invocations the harness allows in one case *)

Inductive status := Done | Raised (code : Z).     (* -1 NameError, -3 RecursionError, -8 call budget exhausted *)

Inductive event :=
  | EvReg (cls : Z) (names : list Z)
  | EvCon (s n cb : Z) (ua : option Z) (ws us : list Z) (outcome : Z)  (* key >= 0 | -1 NameError | -2 not run *)
  | EvDis (s n cb : Z) (ua : option Z) (ws us : list Z) (outcome : Z)  (* 0 | -2 not run *)
  | EvDk (s n k : Z) (outcome : Z)
  | EvEmit (s n : Z) (args : list Z) (children : list event) (outcome : Z) (* 0 False | 1 True | error code *)
  | EvCall (key cb : Z) (argv : list val) (body : list event) (ret : option Z) (* None: an exception left it *)
  | EvKill (o : Z) (outcome : Z)
  | EvDied (o : Z)
  | EvGc
  (* a widget method: code 0 click, 1 set_state, 2 set_edit_text; the emits it made (EvEmit nodes); 0 | error code *)
  | EvWOp (code s v : Z) (emits : list event) (outcome : Z).

Record state := MkState {
  st_sup : list (Z * list Z);                  (* Signals._supported : class -> names *)
  st_tab : list ((Z * Z) * list handler);      (* sender._urwid_signals[name], keyed by (sender, name) *)
  st_nkey : Z;                                 (* number of Key() objects created so far *)
  st_reg : list Z;                             (* objects the caller still holds a strong reference to *)
  st_pend : list Z;                            (* dropped by the caller, not dead yet (sorted) *)
  st_dead : list Z;                            (* objects that died *)
  st_held : list Z;                            (* arguments of the active callback frames *)
  st_calls : Z;                                (* callback invocations so far *)
  st_wstate : list (Z * Z)                     (* sender -> CheckBox._state / Edit._edit_text (as an integer) *)
}.

Definition set_sup st v := MkState v (st_tab st) (st_nkey st) (st_reg st) (st_pend st) (st_dead st) (st_held st) (st_calls st) (st_wstate st).
Definition set_tab st v := MkState (st_sup st) v (st_nkey st) (st_reg st) (st_pend st) (st_dead st) (st_held st) (st_calls st) (st_wstate st).
Definition set_nkey st v := MkState (st_sup st) (st_tab st) v (st_reg st) (st_pend st) (st_dead st) (st_held st) (st_calls st) (st_wstate st).
Definition set_reg st v := MkState (st_sup st) (st_tab st) (st_nkey st) v (st_pend st) (st_dead st) (st_held st) (st_calls st) (st_wstate st).
Definition set_pend st v := MkState (st_sup st) (st_tab st) (st_nkey st) (st_reg st) v (st_dead st) (st_held st) (st_calls st) (st_wstate st).
Definition set_dead st v := MkState (st_sup st) (st_tab st) (st_nkey st) (st_reg st) (st_pend st) v (st_held st) (st_calls st) (st_wstate st).
Definition set_held st v := MkState (st_sup st) (st_tab st) (st_nkey st) (st_reg st) (st_pend st) (st_dead st) v (st_calls st) (st_wstate st).
Definition set_calls st v := MkState (st_sup st) (st_tab st) (st_nkey st) (st_reg st) (st_pend st) (st_dead st) (st_held st) v (st_wstate st).
Definition set_wstate st v := MkState (st_sup st) (st_tab st) (st_nkey st) (st_reg st) (st_pend st) (st_dead st) (st_held st) (st_calls st) v.

Definition memz (x : Z) (l : list Z) : bool := existsb (Z.eqb x) l.

Fixpoint list_eqb (a b : list Z) : bool :=
  match a, b with
  | [], [] => true
  | x :: a', y :: b' => (x =? y) && list_eqb a' b'
  | _, _ => false
  end.

Definition opt_eqb (a b : option Z) : bool :=
  match a, b with
  | None, None => true
  | Some x, Some y => x =? y
  | _, _ => false
  end.

(* ---------- environment lookups ---------- *)
Definition sender_class (env : envt) (s : Z) : Z :=
  match nthz (e_senders env) s with Some c => c | None => -1 end.
Definition cyclic (env : envt) (o : Z) : bool :=
  match nthz (e_cyclic env) o with Some b => b | None => false end.
Definition script_of (env : envt) (cb : Z) : script :=
  match nthz (e_cbs env) cb with Some sc => sc | None => MkScript [] 2 end.
(* bool(value returned by the callback); the codes are
   0 False, 1 True, 2 None, 3 0, 4 "", 5 "x", 6 7, 7 [], 8 [0] *)
Definition truthy (code : Z) : bool :=
  (code =? 1) || (code =? 5) || (code =? 6) || (code =? 8).

(* ---------- the two dictionaries ---------- *)
Definition keyeqb (a b : Z * Z) : bool := (fst a =? fst b) && (snd a =? snd b).

Fixpoint lookup (t : list ((Z * Z) * list handler)) (k : Z * Z) : option (list handler) :=
  match t with
  | [] => None
  | (k', v) :: r => if keyeqb k' k then Some v else lookup r k
  end.

Fixpoint update (t : list ((Z * Z) * list handler)) (k : Z * Z) (v : list handler) :=
  match t with
  | [] => [(k, v)]
  | (k', v') :: r => if keyeqb k' k then (k', v) :: r else (k', v') :: update r k v
  end.

(* getattr(obj, "_urwid_signals", {}).get(name, []) *)
Definition handlers (st : state) (s n : Z) : list handler :=
  match lookup (st_tab st) (s, n) with Some l => l | None => [] end.
Definition keys (st : state) (s n : Z) : list Z := map h_key (handlers st s n).

Fixpoint sup_lookup (t : list (Z * list Z)) (c : Z) : list Z :=
  match t with
  | [] => []
  | (c', v) :: r => if c' =? c then v else sup_lookup r c
  end.
Fixpoint sup_update (t : list (Z * list Z)) (c : Z) (v : list Z) :=
  match t with
  | [] => [(c, v)]
  | (c', v') :: r => if c' =? c then (c', v) :: r else (c', v') :: sup_update r c v
  end.

(* ---------- Signals.register ---------- *)
Definition register (c : Z) (names : list Z) (st : state) : state :=
  set_sup st (sup_update (st_sup st) c names).

(* ---------- Signals.connect ---------- *)
Definition connect (env : envt) (s n cb : Z) (ua : option Z) (ws us : list Z) (st : state)
  : state * list event * status :=
  (* the caller can only pass objects it still references *)
  if negb (forallb (fun w => memz w (st_reg st)) ws) then (st, [EvCon s n cb ua ws us (-2)], Done)
  (* if name not in self._supported.get(sig_cls, ()): raise NameError *)
  else if negb (memz n (sup_lookup (st_sup st) (sender_class env s)))
  then (st, [EvCon s n cb ua ws us (-1)], Raised (-1))
  else
    (* key = Key(); handlers = ...setdefault(name, []); handlers.append((key, callback, user_arg, user_args)) *)
    let key := st_nkey st in
    let l := handlers st s n ++ [MkHandler key cb ua ws us] in
    (set_nkey (set_tab st (update (st_tab st) (s, n) l)) (key + 1), [EvCon s n cb ua ws us key], Done).

(* ---------- Signals.disconnect_by_key ---------- *)
(* handlers = ...get(name, []); handlers[:] = [h for h in handlers if h[0] is not key] *)
Definition disconnect_by_key (s n k : Z) (st : state) : state :=
  match lookup (st_tab st) (s, n) with
  | None => st
  | Some l => set_tab st (update (st_tab st) (s, n) (filter (fun h => negb (h_key h =? k)) l))
  end.

(* ---------- Signals.disconnect ---------- *)
(* h[1:] == (callback, user_arg, (weakrefs, user_args)); two weakrefs with live referents are
   equal when the referents are, and the caller's objects are alive *)
Definition matches (cb : Z) (ua : option Z) (ws us : list Z) (h : handler) : bool :=
  (h_cb h =? cb) && opt_eqb (h_uarg h) ua && list_eqb (h_wargs h) ws && list_eqb (h_uargs h) us.

Definition disconnect (s n cb : Z) (ua : option Z) (ws us : list Z) (st : state)
  : state * list event * status :=
  if negb (forallb (fun w => memz w (st_reg st)) ws) then (st, [EvDis s n cb ua ws us (-2)], Done)
  else
    (* for h in handlers: if h[1:] == ...: return self.disconnect_by_key(obj, name, h[0]) *)
    match find (matches cb ua ws us) (handlers st s n) with
    | Some h => (disconnect_by_key s n (h_key h) st, [EvDis s n cb ua ws us 0], Done)
    | None => (st, [EvDis s n cb ua ws us 0], Done)
    end.

(* ---------- weakref_callback (closure created by connect), for every weakref to o ---------- *)
(* o = obj_weak(); if o is not None: self.disconnect_by_key(o, name, key)
   (senders stay alive during a history, so o is never None here) *)
Definition die (o : Z) (st : state) : state :=
  set_dead
    (set_tab st
       (map (fun kl : (Z * Z) * list handler =>
               (fst kl, filter (fun h => negb (memz o (h_wargs h))) (snd kl)))
            (st_tab st)))
    (o :: st_dead st).

(* which dropped objects die now: not an argument of an active frame, and either not in a
   reference cycle or the collector is running *)
Definition dying (env : envt) (gc : bool) (st : state) (o : Z) : bool :=
  negb (memz o (st_held st)) && (gc || negb (cyclic env o)).

Definition reap (env : envt) (gc : bool) (st : state) : state * list event :=
  let ds := filter (dying env gc st) (st_pend st) in
  let st1 := set_pend st (filter (fun o => negb (dying env gc st o)) (st_pend st)) in
  (fold_left (fun s o => die o s) ds st1, map EvDied ds).

Fixpoint insert_sorted (o : Z) (l : list Z) : list Z :=
  match l with
  | [] => [o]
  | x :: r => if o <=? x then o :: l else x :: insert_sorted o r
  end.

(* del the caller's reference *)
Definition kill (env : envt) (o : Z) (st : state) : state * list event * status :=
  if memz o (st_reg st) then
    let st1 := set_pend (set_reg st (filter (fun x => negb (x =? o)) (st_reg st)))
                        (insert_sorted o (st_pend st)) in
    let '(st2, evs) := reap env false st1 in
    (st2, EvKill o 0 :: evs, Done)
  else (st, [EvKill o (-2)], Done).

(* ---------- sequencing (a script body; an exception stops it) ---------- *)
Fixpoint run_seq (step : op -> state -> state * list event * status) (ops : list op) (st : state)
  : state * list event * status :=
  match ops with
  | [] => (st, [], Done)
  | o :: r =>
      let '(st1, e1, s1) := step o st in
      match s1 with
      | Done => let '(st2, e2, s2) := run_seq step r st1 in (st2, e1 ++ e2, s2)
      | Raised c => (st1, e1, Raised c)
      end
  end.

(* ---------- Signals._call_callback ---------- *)
Definition argv_of (h : handler) (args : list val) : list val :=
  map VObj (h_wargs h) ++ map VInt (h_uargs h) ++ args
      ++ match h_uarg h with Some u => [VInt u] | None => [] end.

Definition call_callback (run : list op -> state -> state * list event * status) (env : envt)
           (args : list val) (h : handler) (st : state) : state * list event * status * bool :=
  (* for w_arg in weak_args: real_arg = w_arg(); if real_arg is None: return False *)
  if existsb (fun w => memz w (st_dead st)) (h_wargs h) then (st, [], Done, false)
  (* the harness callback refuses to run once the case's call budget is used up (it raises) *)
  else if e_maxcalls env <=? st_calls st then (st, [], Raised (-8), false)
  else
    (* args = chain(args_to_pass, user_args, emit_args, (user_arg,) if user_arg is not None else ());
       return bool(callback( *args)) *)
    let sc := script_of env (h_cb h) in
    let st1 := set_held (set_calls st (st_calls st + 1)) (h_wargs h ++ st_held st) in
    let '(st2, body, s2) := run (sc_ops sc) st1 in
    match s2 with
    | Done =>
        (* the frame is gone: what it alone kept alive dies here *)
        let '(st3, died) := reap env false (set_held st2 (st_held st)) in
        (st3, EvCall (h_key h) (h_cb h) (argv_of h args) body (Some (sc_ret sc)) :: died, Done,
         truthy (sc_ret sc))
    | Raised c =>
        (* the traceback keeps the frames (and their arguments) alive until it is cleared *)
        (st2, [EvCall (h_key h) (h_cb h) (argv_of h args) body None], Raised c, false)
    end.

(* ---------- the loop of Signals.emit ---------- *)
(* for key, callback, user_arg, (weak_args, user_args) in tuple(handlers):
       if all(h[0] is not key for h in handlers): continue
       result |= self._call_callback(callback, user_arg, weak_args, user_args, args) *)
Fixpoint emit_loop (call : handler -> state -> state * list event * status * bool) (s n : Z)
         (snap : list handler) (st : state) (res : bool) : state * list event * status * bool :=
  match snap with
  | [] => (st, [], Done, res)
  | h :: rest =>
      if negb (memz (h_key h) (keys st s n)) then emit_loop call s n rest st res
      else
        let '(st1, e1, s1, r) := call h st in
        match s1 with
        | Done =>
            let '(st2, e2, s2, res2) := emit_loop call s n rest st1 (res || r) in
            (st2, e1 ++ e2, s2, res2)
        | Raised c => (st1, e1, Raised c, res)
        end
  end.

Fixpoint wlookup (t : list (Z * Z)) (s : Z) : Z :=
  match t with
  | [] => 0
  | (s', v) :: r => if s' =? s then v else wlookup r s
  end.
Fixpoint wupdate (t : list (Z * Z)) (s v : Z) : list (Z * Z) :=
  match t with
  | [] => [(s, v)]
  | (s', v') :: r => if s' =? s then (s', v) :: r else (s', v') :: wupdate r s v
  end.
Definition wstate (st : state) (s : Z) : Z := wlookup (st_wstate st) s.
Definition outcome_of (s1 : status) (ok : Z) : Z := match s1 with Done => ok | Raised c => c end.

(* ---------- one operation (top level or inside a script) ---------- *)
Fixpoint run_op (fuel : nat) (env : envt) (o : op) (st : state) {struct fuel}
  : state * list event * status :=
  match o with
  | ORegister c names => (register c names st, [EvReg c names], Done)
  | OConnect s n cb ua ws us => connect env s n cb ua ws us st
  | ODisconnect s n cb ua ws us => disconnect s n cb ua ws us st
  | ODisconnectKey s n k => (disconnect_by_key s n k st, [EvDk s n k 0], Done)
  | OKill x => kill env x st
  | OGc => let '(st1, evs) := reap env true st in (st1, EvGc :: evs, Done)
  | OEmit s n args =>
      match fuel with
      | O => (st, [EvEmit s n args [] (-3)], Raised (-3))
      | S f =>
          (* result = False; handlers = getattr(obj, "_urwid_signals", {}).get(name, []) *)
          let snap := handlers st s n in
          let '(st1, ch, s1, res) :=
            emit_loop (call_callback (run_seq (run_op f env)) env (map VInt args)) s n snap st false in
          (st1, [EvEmit s n args ch (match s1 with Done => enc_bool res | Raised c => c end)], s1)
      end
  (* Widget._emit(name, *args) = signals.emit_signal(self, name, self, *args); the result is dropped *)
  | OClick s n =>
      match fuel with
      | O => (st, [EvWOp 0 s 0 [] (-3)], Raised (-3))
      | S f =>
          let '(st1, ch, s1, res) :=
            emit_loop (call_callback (run_seq (run_op f env)) env [VSelf s]) s n (handlers st s n) st false in
          (st1, [EvWOp 0 s 0 [EvEmit s n [] ch (outcome_of s1 (enc_bool res))] (outcome_of s1 0)], s1)
      end
  (* CheckBox.set_state(state):
       if self._state == state: return
       old_state = self._state
       self._emit("change", state); self._state = state; ...; self._emit("postchange", old_state) *)
  | OSetState s nc np v =>
      match fuel with
      | O => (st, [EvWOp 1 s v [] (-3)], Raised (-3))
      | S f =>
          if wstate st s =? v then (st, [EvWOp 1 s v [] 0], Done)
          else
            let old := wstate st s in
            let '(st1, ch1, s1, r1) :=
              emit_loop (call_callback (run_seq (run_op f env)) env [VSelf s; VInt v]) s nc (handlers st s nc) st false in
            match s1 with
            | Raised c => (st1, [EvWOp 1 s v [EvEmit s nc [v] ch1 c] c], Raised c)
            | Done =>
                let st2 := set_wstate st1 (wupdate (st_wstate st1) s v) in
                let '(st3, ch2, s3, r3) :=
                  emit_loop (call_callback (run_seq (run_op f env)) env [VSelf s; VInt old]) s np (handlers st2 s np) st2 false in
                (st3, [EvWOp 1 s v [EvEmit s nc [v] ch1 (enc_bool r1); EvEmit s np [old] ch2 (outcome_of s3 (enc_bool r3))]
                             (outcome_of s3 0)], s3)
            end
      end
  (* Edit.set_edit_text(text):
       self._emit("change", text); old_text = self._edit_text; self._edit_text = text; ...
       self._emit("postchange", old_text)        (old_text is read after the first emit) *)
  | OSetText s nc np v =>
      match fuel with
      | O => (st, [EvWOp 2 s v [] (-3)], Raised (-3))
      | S f =>
          let '(st1, ch1, s1, r1) :=
            emit_loop (call_callback (run_seq (run_op f env)) env [VSelf s; VInt v]) s nc (handlers st s nc) st false in
          match s1 with
          | Raised c => (st1, [EvWOp 2 s v [EvEmit s nc [v] ch1 c] c], Raised c)
          | Done =>
              let old := wstate st1 s in
              let st2 := set_wstate st1 (wupdate (st_wstate st1) s v) in
              let '(st3, ch2, s3, r3) :=
                emit_loop (call_callback (run_seq (run_op f env)) env [VSelf s; VInt old]) s np (handlers st2 s np) st2 false in
              (st3, [EvWOp 2 s v [EvEmit s nc [v] ch1 (enc_bool r1); EvEmit s np [old] ch2 (outcome_of s3 (enc_bool r3))]
                           (outcome_of s3 0)], s3)
          end
      end
  end.

(* ---------- a history of top-level operations ---------- *)
(* an exception that reaches the top level is caught there; clearing it releases every frame *)
Definition top_step (fuel : nat) (env : envt) (o : op) (st : state) : state * list event :=
  let '(st1, e1, s1) := run_op fuel env o st in
  match s1 with
  | Done => (st1, e1)
  | Raised _ => let '(st2, e2) := reap env false (set_held st1 []) in (st2, e1 ++ e2)
  end.

Fixpoint run_top (fuel : nat) (env : envt) (ops : list op) (st : state) : state * list event :=
  match ops with
  | [] => (st, [])
  | o :: r =>
      let '(st1, e1) := top_step fuel env o st in
      let '(st2, e2) := run_top fuel env r st1 in
      (st2, e1 ++ e2)
  end.

Definition zseq (n : Z) : list Z := map Z.of_nat (seq 0 (Z.to_nat n)).

Definition init (nobj : Z) : state := MkState [] [] 0 (zseq nobj) [] [] [] 0 [].

(* ---------- MetaSignals.__init__: what a class registers when it is created ---------- *)
(* a class statement: direct bases, the method resolution order of the class without the class
   itself and without object (computed by Python, an input here), declared with
   metaclass=MetaSignals or not, the `signals` list of the class body if there is one *)
Record clsdef := MkCls { c_bases : list Z; c_mro : list Z; c_meta : bool; c_sig : option (list Z) }.

Fixpoint dict_lookup (dicts : list (Z * list Z)) (c : Z) : option (list Z) :=
  match dicts with
  | [] => None
  | (c', v) :: r => if c' =? c then Some v else dict_lookup r c
  end.

(* getattr(c, "signals", []): the first class of c's MRO that has the attribute in its own __dict__ *)
Fixpoint attr_along (dicts : list (Z * list Z)) (path : list Z) : list Z :=
  match path with
  | [] => []
  | c :: r => match dict_lookup dicts c with Some v => v | None => attr_along dicts r end
  end.

Definition mro_of (defs : list clsdef) (c : Z) : list Z :=
  match nthz defs c with Some d => c_mro d | None => [] end.

Definition class_attr (defs : list clsdef) (dicts : list (Z * list Z)) (c : Z) : list Z :=
  attr_along dicts (c :: mro_of defs c).

(* list(dict.fromkeys(l).keys()): first occurrences, in order *)
Fixpoint dedupe (l : list Z) : list Z :=
  match l with
  | [] => []
  | x :: r => x :: filter (fun y => negb (y =? x)) (dedupe r)
  end.

(* creation state: the `signals` entries of the class __dict__s, _supported, the classes whose
   metaclass is MetaSignals *)
Record cstate := MkCState { cs_dicts : list (Z * list Z); cs_sup : list (Z * list Z); cs_metas : list Z }.

(* signals = d.get("signals", [])
   for superclass in cls.__bases__: signals.extend(getattr(superclass, "signals", []))
   signals = list(dict.fromkeys(signals).keys()); d["signals"] = signals      (d is not the class any more)
   register_signal(cls, signals) *)
Definition create_class (defs : list clsdef) (cs : cstate) (i : Z) (d : clsdef) : cstate * list event :=
  (* the metaclass of a class statement: the declared one, or the one of a base *)
  if c_meta d || existsb (fun b => memz b (cs_metas cs)) (c_bases d) then
    let own := match c_sig d with Some l => l | None => [] end in
    let all := own ++ flat_map (class_attr defs (cs_dicts cs)) (c_bases d) in
    (MkCState (match c_sig d with Some _ => (i, all) :: cs_dicts cs | None => cs_dicts cs end)
              (sup_update (cs_sup cs) i (dedupe all))
              (i :: cs_metas cs),
     [EvReg i (dedupe all)])
  else
    (MkCState (match c_sig d with Some l => (i, l) :: cs_dicts cs | None => cs_dicts cs end)
              (cs_sup cs) (cs_metas cs),
     []).

Fixpoint create_classes (defs : list clsdef) (cs : cstate) (i : Z) (todo : list clsdef) : cstate * list event :=
  match todo with
  | [] => (cs, [])
  | d :: r =>
      let '(cs1, e1) := create_class defs cs i d in
      let '(cs2, e2) := create_classes defs cs1 (i + 1) r in
      (cs2, e1 ++ e2)
  end.

(* the state a case starts in: its classes have been created, its widgets have their initial state *)
Definition boot (defs : list clsdef) (wst : list Z) (nobj : Z) : state * list event :=
  let '(cs, evs) := create_classes defs (MkCState [] [] []) 0 defs in
  (set_wstate (set_sup (init nobj) (cs_sup cs)) (combine (zseq (zlen wst)) wst), evs).

(* ================= wire format ================= *)
Definition dec_optz (l : list Z) : option (option Z * list Z) := dec_oz l.

Definition dec_op (l : list Z) : option (op * list Z) :=
  match l with
  | 1 :: c :: r =>
      match dec_list r with Some (names, r1) => Some (ORegister c names, r1) | None => None end
  | 2 :: s :: n :: cb :: r =>
      match dec_optz r with
      | Some (ua, r1) =>
          match dec_list r1 with
          | Some (ws, r2) =>
              match dec_list r2 with
              | Some (us, r3) => Some (OConnect s n cb ua ws us, r3)
              | None => None
              end
          | None => None
          end
      | None => None
      end
  | 3 :: s :: n :: cb :: r =>
      match dec_optz r with
      | Some (ua, r1) =>
          match dec_list r1 with
          | Some (ws, r2) =>
              match dec_list r2 with
              | Some (us, r3) => Some (ODisconnect s n cb ua ws us, r3)
              | None => None
              end
          | None => None
          end
      | None => None
      end
  | 4 :: s :: n :: k :: r => Some (ODisconnectKey s n k, r)
  | 5 :: s :: n :: r =>
      match dec_list r with Some (args, r1) => Some (OEmit s n args, r1) | None => None end
  | 6 :: o :: r => Some (OKill o, r)
  | 7 :: r => Some (OGc, r)
  | 8 :: s :: n :: r => Some (OClick s n, r)
  | 9 :: s :: nc :: np :: v :: r => Some (OSetState s nc np v, r)
  | 10 :: s :: nc :: np :: v :: r => Some (OSetText s nc np v, r)
  | _ => None
  end.

Fixpoint dec_ops (count : nat) (l : list Z) : option (list op * list Z) :=
  match count with
  | O => Some ([], l)
  | S c =>
      match dec_op l with
      | Some (o, r) =>
          match dec_ops c r with Some (os, r') => Some (o :: os, r') | None => None end
      | None => None
      end
  end.

Definition dec_counted_ops (l : list Z) : option (list op * list Z) :=
  match l with
  | n :: r => if n <? 0 then None else dec_ops (Z.to_nat n) r
  | [] => None
  end.

Fixpoint dec_scripts (count : nat) (l : list Z) : option (list script * list Z) :=
  match count with
  | O => Some ([], l)
  | S c =>
      match l with
      | ret :: r =>
          match dec_counted_ops r with
          | Some (os, r1) =>
              match dec_scripts c r1 with
              | Some (ss, r2) => Some (MkScript os ret :: ss, r2)
              | None => None
              end
          | None => None
          end
      | [] => None
      end
  end.

Definition enc_optz (o : option Z) : list Z := enc_oz o.
Definition enc_val (v : val) : list Z :=
  match v with VObj o => [1; o] | VInt n => [0; n] | VSelf s => [2; s] end.

(* an event tree as the flat events the harness logs, in the order it logs them *)
Fixpoint ser (e : event) : list (list Z) :=
  match e with
  | EvReg c names => [1 :: c :: enc_list names]
  | EvCon s n cb ua ws us out => [2 :: s :: n :: cb :: enc_optz ua ++ enc_list ws ++ enc_list us ++ [out]]
  | EvDis s n cb ua ws us out => [3 :: s :: n :: cb :: enc_optz ua ++ enc_list ws ++ enc_list us ++ [out]]
  | EvDk s n k out => [[4; s; n; k; out]]
  | EvEmit s n args ch out =>
      (5 :: s :: n :: enc_list args)
        :: (fix go (l : list event) : list (list Z) :=
              match l with [] => [] | x :: r => ser x ++ go r end) ch
        ++ [[6; out]]
  | EvCall k cb argv body ret =>
      (7 :: k :: cb :: zlen argv :: flat_map enc_val argv)
        :: (fix go (l : list event) : list (list Z) :=
              match l with [] => [] | x :: r => ser x ++ go r end) body
        ++ match ret with Some c => [[8; c]] | None => [] end
  | EvKill o out => [[9; o; out]]
  | EvDied o => [[10; o]]
  | EvGc => [[11]]
  | EvWOp code s v emits out =>
      (* the harness sees the widget method start and end and the calls in between, not the emits *)
      [13; code; s; v]
        :: (fix go (l : list event) : list (list Z) :=
              match l with
              | [] => []
              | EvEmit _ _ _ ch _ :: r =>
                  (fix go2 (l2 : list event) : list (list Z) :=
                     match l2 with [] => [] | x :: r2 => ser x ++ go2 r2 end) ch ++ go r
              | x :: r => ser x ++ go r
              end) emits
        ++ [[14; out]]
  end.

Definition enc_final (st : state) (nsenders nnames : Z) : list Z :=
  let entries :=
    flat_map (fun s => flat_map (fun n =>
      match keys st s n with [] => [] | ks => [s :: n :: enc_list ks] end) (zseq nnames)) (zseq nsenders) in
  zlen entries :: concat entries.

Definition dec_cls (l : list Z) : option (clsdef * list Z) :=
  match l with
  | m :: r =>
      match dec_list r with
      | Some (bases, r1) =>
          match dec_list r1 with
          | Some (mro, r2) =>
              match r2 with
              | 0 :: r3 => Some (MkCls bases mro (negb (m =? 0)) None, r3)
              | 1 :: r3 =>
                  match dec_list r3 with
                  | Some (sig, r4) => Some (MkCls bases mro (negb (m =? 0)) (Some sig), r4)
                  | None => None
                  end
              | _ => None
              end
          | None => None
          end
      | None => None
      end
  | [] => None
  end.

Fixpoint dec_classes (count : nat) (l : list Z) : option (list clsdef * list Z) :=
  match count with
  | O => Some ([], l)
  | S c =>
      match dec_cls l with
      | Some (d, r) =>
          match dec_classes c r with Some (ds, r') => Some (d :: ds, r') | None => None end
      | None => None
      end
  end.

Definition enc_wstate (st : state) (nsenders : Z) : list Z :=
  enc_list (map (wstate st) (zseq nsenders)).

(* case = fuel, nnames, maxcalls, class statements, senders (class of each), initial widget state of
   each sender, cyclic flags, scripts, ops *)
Definition run_case (l : list Z) : list Z :=
  match l with
  | fuel :: nnames :: maxcalls :: ncls :: r0 =>
      if ncls <? 0 then [-1] else
      match dec_classes (Z.to_nat ncls) r0 with
      | Some (defs, r1) =>
          match dec_list r1 with
          | Some (senders, r2) =>
              match dec_list r2 with
              | Some (wst, r2') =>
              match dec_list r2' with
              | Some (cyc, r3) =>
                  match r3 with
                  | ncb :: r4 =>
                      if ncb <? 0 then [-1] else
                      match dec_scripts (Z.to_nat ncb) r4 with
                      | Some (cbs, r5) =>
                          match dec_counted_ops r5 with
                          | Some (ops, []) =>
                              let env := MkEnv senders (map (fun b => negb (b =? 0)) cyc) cbs maxcalls in
                              let '(st0, evs0) := boot defs wst (zlen cyc) in
                              let '(st, evs) := run_top (Z.to_nat fuel) env ops st0 in
                              let flat := flat_map ser (evs0 ++ evs) in
                              zlen flat :: flat_map (fun e => enc_list e) flat
                                ++ enc_final st (zlen senders) nnames
                                ++ enc_list (filter (fun o => memz o (st_dead st)) (zseq (zlen cyc)))
                                ++ enc_wstate st (zlen senders)
                          | _ => [-1]
                          end
                      | None => [-1]
                      end
                  | [] => [-1]
                  end
              | None => [-1]
              end
              | None => [-1]
              end
          | None => [-1]
          end
      | None => [-1]
      end
  | _ => [-1]
  end.
