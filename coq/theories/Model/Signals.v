(* Executable model of urwid.signals.Signals (register / connect / disconnect /
   disconnect_by_key / emit / _call_callback and the weakref callback installed by connect),
   written by hand line for line from /repo/urwid/signals.py as it is now and tied to it by the
   correspondence in harness/props/c14.py.

   * Senders, signal names, callbacks, keys and weakly referenced objects are integers
     (identities).  Keys are numbered in the order connect() creates them.
   * What a callback does when it is called is data: a script (a list of the same operations
     a history is made of, then a return-value code).  Scripts run inside the emit that called
     them, so they connect / disconnect / emit / drop objects while the emit is in progress.
   * Garbage collection is explicit.  [OKill o] drops the caller's last strong reference to
     object o.  The object really dies (its weakref callbacks run) as soon as no active
     callback frame holds it as an argument; an object that is part of a reference cycle dies
     at the next [OGc] (gc.collect()) instead.  [st_held] is the argument stack of the active
     callback frames: _call_callback passes the de-referenced weak arguments as strong ones.
   * Everything observable is an [event] tree: an emit contains the calls it made, a call
     contains what its script did.
   * Nested emits consume fuel (the depth bound the harness imposes as its recursion limit);
     running out of it is the error RecursionError (-3).
   No proofs in this file. *)
From Coq Require Import ZArith List Bool.
Import ListNotations.
From Urwid Require Import PyBase.
Open Scope Z_scope.

(* ---------- data ---------- *)
Inductive val := VObj (o : Z) | VInt (n : Z).

(* one entry of obj._urwid_signals[name]: (key, callback, user_arg, (weak_args, user_args)) *)
Record handler := MkHandler {
  h_key : Z; h_cb : Z; h_uarg : option Z; h_wargs : list Z; h_uargs : list Z }.

Inductive op :=
  | ORegister (cls : Z) (names : list Z)
  | OConnect (s n cb : Z) (ua : option Z) (ws us : list Z)
  | ODisconnect (s n cb : Z) (ua : option Z) (ws us : list Z)
  | ODisconnectKey (s n k : Z)
  | OEmit (s n : Z) (args : list Z)
  | OKill (o : Z)
  | OGc.

Record script := MkScript { sc_ops : list op; sc_ret : Z }.

(* static facts of a case: class of each sender, whether each weakly referenced object is part
   of a reference cycle, the script of each callback.  (Whether a sender class is true in a
   boolean context is an input of the harness only: since the weakref callback tests
   [if o is not None:] the behaviour does not depend on it.) *)
Record envt := MkEnv {
  e_senders : list Z; e_cyclic : list bool; e_cbs : list script;
  e_maxcalls : Z }.       (* total number of callback invocations the harness allows in one case *)

Inductive status := Done | Raised (code : Z).     (* -1 NameError, -3 RecursionError, -8 call budget exhausted *)

Inductive event :=
  | EvReg (cls : Z) (names : list Z)
  | EvCon (s n cb : Z) (ua : option Z) (ws us : list Z) (outcome : Z)  (* key >= 0 | -1 NameError | -2 not run *)
  | EvDis (s n cb : Z) (ua : option Z) (ws us : list Z) (outcome : Z)  (* 0 | -2 not run *)
  | EvDk (s n k : Z) (outcome : Z)
  | EvEmit (s n : Z) (args : list Z) (children : list event) (outcome : Z) (* 0 False | 1 True | error code *)
  | EvCall (key cb : Z) (argv : list val) (body : list event) (ret : option Z) (* None: an exception left it *)
  | EvKill (o : Z) (outcome : Z)
  | EvDied (o : Z)
  | EvGc.

Record state := MkState {
  st_sup : list (Z * list Z);                  (* Signals._supported : class -> names *)
  st_tab : list ((Z * Z) * list handler);      (* sender._urwid_signals[name], keyed by (sender, name) *)
  st_nkey : Z;                                 (* number of Key() objects created so far *)
  st_reg : list Z;                             (* objects the caller still holds a strong reference to *)
  st_pend : list Z;                            (* dropped by the caller, not dead yet (sorted) *)
  st_dead : list Z;                            (* objects that died *)
  st_held : list Z;                            (* arguments of the active callback frames *)
  st_calls : Z                                 (* callback invocations so far *)
}.

Definition set_sup st v := MkState v (st_tab st) (st_nkey st) (st_reg st) (st_pend st) (st_dead st) (st_held st) (st_calls st).
Definition set_tab st v := MkState (st_sup st) v (st_nkey st) (st_reg st) (st_pend st) (st_dead st) (st_held st) (st_calls st).
Definition set_nkey st v := MkState (st_sup st) (st_tab st) v (st_reg st) (st_pend st) (st_dead st) (st_held st) (st_calls st).
Definition set_reg st v := MkState (st_sup st) (st_tab st) (st_nkey st) v (st_pend st) (st_dead st) (st_held st) (st_calls st).
Definition set_pend st v := MkState (st_sup st) (st_tab st) (st_nkey st) (st_reg st) v (st_dead st) (st_held st) (st_calls st).
Definition set_dead st v := MkState (st_sup st) (st_tab st) (st_nkey st) (st_reg st) (st_pend st) v (st_held st) (st_calls st).
Definition set_held st v := MkState (st_sup st) (st_tab st) (st_nkey st) (st_reg st) (st_pend st) (st_dead st) v (st_calls st).
Definition set_calls st v := MkState (st_sup st) (st_tab st) (st_nkey st) (st_reg st) (st_pend st) (st_dead st) (st_held st) v.

Definition memz (x : Z) (l : list Z) : bool := existsb (Z.eqb x) l.

Fixpoint list_eqb (a b : list Z) : bool :=
  match a, b with
  | [], [] => true
  | x :: a', y :: b' => (x =? y) && list_eqb a' b'
  | _, _ => false
  end.

Definition opt_eqb (a b : option Z) : bool :=
  match a, b with
  | None, None => true
  | Some x, Some y => x =? y
  | _, _ => false
  end.

(* ---------- environment lookups ---------- *)
Definition sender_class (env : envt) (s : Z) : Z :=
  match nthz (e_senders env) s with Some c => c | None => -1 end.
Definition cyclic (env : envt) (o : Z) : bool :=
  match nthz (e_cyclic env) o with Some b => b | None => false end.
Definition script_of (env : envt) (cb : Z) : script :=
  match nthz (e_cbs env) cb with Some sc => sc | None => MkScript [] 2 end.
(* bool(value returned by the callback); the codes are
   0 False, 1 True, 2 None, 3 0, 4 "", 5 "x", 6 7, 7 [], 8 [0] *)
Definition truthy (code : Z) : bool :=
  (code =? 1) || (code =? 5) || (code =? 6) || (code =? 8).

(* ---------- the two dictionaries ---------- *)
Definition keyeqb (a b : Z * Z) : bool := (fst a =? fst b) && (snd a =? snd b).

Fixpoint lookup (t : list ((Z * Z) * list handler)) (k : Z * Z) : option (list handler) :=
  match t with
  | [] => None
  | (k', v) :: r => if keyeqb k' k then Some v else lookup r k
  end.

Fixpoint update (t : list ((Z * Z) * list handler)) (k : Z * Z) (v : list handler) :=
  match t with
  | [] => [(k, v)]
  | (k', v') :: r => if keyeqb k' k then (k', v) :: r else (k', v') :: update r k v
  end.

(* getattr(obj, "_urwid_signals", {}).get(name, []) *)
Definition handlers (st : state) (s n : Z) : list handler :=
  match lookup (st_tab st) (s, n) with Some l => l | None => [] end.
Definition keys (st : state) (s n : Z) : list Z := map h_key (handlers st s n).

Fixpoint sup_lookup (t : list (Z * list Z)) (c : Z) : list Z :=
  match t with
  | [] => []
  | (c', v) :: r => if c' =? c then v else sup_lookup r c
  end.
Fixpoint sup_update (t : list (Z * list Z)) (c : Z) (v : list Z) :=
  match t with
  | [] => [(c, v)]
  | (c', v') :: r => if c' =? c then (c', v) :: r else (c', v') :: sup_update r c v
  end.

(* ---------- Signals.register ---------- *)
Definition register (c : Z) (names : list Z) (st : state) : state :=
  set_sup st (sup_update (st_sup st) c names).

(* ---------- Signals.connect ---------- *)
Definition connect (env : envt) (s n cb : Z) (ua : option Z) (ws us : list Z) (st : state)
  : state * list event * status :=
  (* the caller can only pass objects it still references *)
  if negb (forallb (fun w => memz w (st_reg st)) ws) then (st, [EvCon s n cb ua ws us (-2)], Done)
  (* if name not in self._supported.get(sig_cls, ()): raise NameError *)
  else if negb (memz n (sup_lookup (st_sup st) (sender_class env s)))
  then (st, [EvCon s n cb ua ws us (-1)], Raised (-1))
  else
    (* key = Key(); handlers = ...setdefault(name, []); handlers.append((key, callback, user_arg, user_args)) *)
    let key := st_nkey st in
    let l := handlers st s n ++ [MkHandler key cb ua ws us] in
    (set_nkey (set_tab st (update (st_tab st) (s, n) l)) (key + 1), [EvCon s n cb ua ws us key], Done).

(* ---------- Signals.disconnect_by_key ---------- *)
(* handlers = ...get(name, []); handlers[:] = [h for h in handlers if h[0] is not key] *)
Definition disconnect_by_key (s n k : Z) (st : state) : state :=
  match lookup (st_tab st) (s, n) with
  | None => st
  | Some l => set_tab st (update (st_tab st) (s, n) (filter (fun h => negb (h_key h =? k)) l))
  end.

(* ---------- Signals.disconnect ---------- *)
(* h[1:] == (callback, user_arg, (weakrefs, user_args)); two weakrefs with live referents are
   equal when the referents are, and the caller's objects are alive *)
Definition matches (cb : Z) (ua : option Z) (ws us : list Z) (h : handler) : bool :=
  (h_cb h =? cb) && opt_eqb (h_uarg h) ua && list_eqb (h_wargs h) ws && list_eqb (h_uargs h) us.

Definition disconnect (s n cb : Z) (ua : option Z) (ws us : list Z) (st : state)
  : state * list event * status :=
  if negb (forallb (fun w => memz w (st_reg st)) ws) then (st, [EvDis s n cb ua ws us (-2)], Done)
  else
    (* for h in handlers: if h[1:] == ...: return self.disconnect_by_key(obj, name, h[0]) *)
    match find (matches cb ua ws us) (handlers st s n) with
    | Some h => (disconnect_by_key s n (h_key h) st, [EvDis s n cb ua ws us 0], Done)
    | None => (st, [EvDis s n cb ua ws us 0], Done)
    end.

(* ---------- weakref_callback (closure created by connect), for every weakref to o ---------- *)
(* o = obj_weak(); if o is not None: self.disconnect_by_key(o, name, key)
   (senders stay alive during a history, so o is never None here) *)
Definition die (o : Z) (st : state) : state :=
  set_dead
    (set_tab st
       (map (fun kl : (Z * Z) * list handler =>
               (fst kl, filter (fun h => negb (memz o (h_wargs h))) (snd kl)))
            (st_tab st)))
    (o :: st_dead st).

(* which dropped objects die now: not an argument of an active frame, and either not in a
   reference cycle or the collector is running *)
Definition dying (env : envt) (gc : bool) (st : state) (o : Z) : bool :=
  negb (memz o (st_held st)) && (gc || negb (cyclic env o)).

Definition reap (env : envt) (gc : bool) (st : state) : state * list event :=
  let ds := filter (dying env gc st) (st_pend st) in
  let st1 := set_pend st (filter (fun o => negb (dying env gc st o)) (st_pend st)) in
  (fold_left (fun s o => die o s) ds st1, map EvDied ds).

Fixpoint insert_sorted (o : Z) (l : list Z) : list Z :=
  match l with
  | [] => [o]
  | x :: r => if o <=? x then o :: l else x :: insert_sorted o r
  end.

(* del the caller's reference *)
Definition kill (env : envt) (o : Z) (st : state) : state * list event * status :=
  if memz o (st_reg st) then
    let st1 := set_pend (set_reg st (filter (fun x => negb (x =? o)) (st_reg st)))
                        (insert_sorted o (st_pend st)) in
    let '(st2, evs) := reap env false st1 in
    (st2, EvKill o 0 :: evs, Done)
  else (st, [EvKill o (-2)], Done).

(* ---------- sequencing (a script body; an exception stops it) ---------- *)
Fixpoint run_seq (step : op -> state -> state * list event * status) (ops : list op) (st : state)
  : state * list event * status :=
  match ops with
  | [] => (st, [], Done)
  | o :: r =>
      let '(st1, e1, s1) := step o st in
      match s1 with
      | Done => let '(st2, e2, s2) := run_seq step r st1 in (st2, e1 ++ e2, s2)
      | Raised c => (st1, e1, Raised c)
      end
  end.

(* ---------- Signals._call_callback ---------- *)
Definition argv_of (h : handler) (args : list Z) : list val :=
  map VObj (h_wargs h) ++ map VInt (h_uargs h) ++ map VInt args
      ++ match h_uarg h with Some u => [VInt u] | None => [] end.

Definition call_callback (run : list op -> state -> state * list event * status) (env : envt)
           (args : list Z) (h : handler) (st : state) : state * list event * status * bool :=
  (* for w_arg in weak_args: real_arg = w_arg(); if real_arg is None: return False *)
  if existsb (fun w => memz w (st_dead st)) (h_wargs h) then (st, [], Done, false)
  (* the harness callback refuses to run once the case's call budget is used up (it raises) *)
  else if e_maxcalls env <=? st_calls st then (st, [], Raised (-8), false)
  else
    (* args = chain(args_to_pass, user_args, emit_args, (user_arg,) if user_arg is not None else ());
       return bool(callback( *args)) *)
    let sc := script_of env (h_cb h) in
    let st1 := set_held (set_calls st (st_calls st + 1)) (h_wargs h ++ st_held st) in
    let '(st2, body, s2) := run (sc_ops sc) st1 in
    match s2 with
    | Done =>
        (* the frame is gone: what it alone kept alive dies here *)
        let '(st3, died) := reap env false (set_held st2 (st_held st)) in
        (st3, EvCall (h_key h) (h_cb h) (argv_of h args) body (Some (sc_ret sc)) :: died, Done,
         truthy (sc_ret sc))
    | Raised c =>
        (* the traceback keeps the frames (and their arguments) alive until it is cleared *)
        (st2, [EvCall (h_key h) (h_cb h) (argv_of h args) body None], Raised c, false)
    end.

(* ---------- the loop of Signals.emit ---------- *)
(* for key, callback, user_arg, (weak_args, user_args) in tuple(handlers):
       if all(h[0] is not key for h in handlers): continue
       result |= self._call_callback(callback, user_arg, weak_args, user_args, args) *)
Fixpoint emit_loop (call : handler -> state -> state * list event * status * bool) (s n : Z)
         (snap : list handler) (st : state) (res : bool) : state * list event * status * bool :=
  match snap with
  | [] => (st, [], Done, res)
  | h :: rest =>
      if negb (memz (h_key h) (keys st s n)) then emit_loop call s n rest st res
      else
        let '(st1, e1, s1, r) := call h st in
        match s1 with
        | Done =>
            let '(st2, e2, s2, res2) := emit_loop call s n rest st1 (res || r) in
            (st2, e1 ++ e2, s2, res2)
        | Raised c => (st1, e1, Raised c, res)
        end
  end.

(* ---------- one operation (top level or inside a script) ---------- *)
Fixpoint run_op (fuel : nat) (env : envt) (o : op) (st : state) {struct fuel}
  : state * list event * status :=
  match o with
  | ORegister c names => (register c names st, [EvReg c names], Done)
  | OConnect s n cb ua ws us => connect env s n cb ua ws us st
  | ODisconnect s n cb ua ws us => disconnect s n cb ua ws us st
  | ODisconnectKey s n k => (disconnect_by_key s n k st, [EvDk s n k 0], Done)
  | OKill x => kill env x st
  | OGc => let '(st1, evs) := reap env true st in (st1, EvGc :: evs, Done)
  | OEmit s n args =>
      match fuel with
      | O => (st, [EvEmit s n args [] (-3)], Raised (-3))
      | S f =>
          (* result = False; handlers = getattr(obj, "_urwid_signals", {}).get(name, []) *)
          let snap := handlers st s n in
          let '(st1, ch, s1, res) :=
            emit_loop (call_callback (run_seq (run_op f env)) env args) s n snap st false in
          (st1, [EvEmit s n args ch (match s1 with Done => enc_bool res | Raised c => c end)], s1)
      end
  end.

(* ---------- a history of top-level operations ---------- *)
(* an exception that reaches the top level is caught there; clearing it releases every frame *)
Definition top_step (fuel : nat) (env : envt) (o : op) (st : state) : state * list event :=
  let '(st1, e1, s1) := run_op fuel env o st in
  match s1 with
  | Done => (st1, e1)
  | Raised _ => let '(st2, e2) := reap env false (set_held st1 []) in (st2, e1 ++ e2)
  end.

Fixpoint run_top (fuel : nat) (env : envt) (ops : list op) (st : state) : state * list event :=
  match ops with
  | [] => (st, [])
  | o :: r =>
      let '(st1, e1) := top_step fuel env o st in
      let '(st2, e2) := run_top fuel env r st1 in
      (st2, e1 ++ e2)
  end.

Definition zseq (n : Z) : list Z := map Z.of_nat (seq 0 (Z.to_nat n)).

Definition init (nobj : Z) : state := MkState [] [] 0 (zseq nobj) [] [] [] 0.

(* ================= wire format ================= *)
Definition dec_optz (l : list Z) : option (option Z * list Z) := dec_oz l.

Definition dec_op (l : list Z) : option (op * list Z) :=
  match l with
  | 1 :: c :: r =>
      match dec_list r with Some (names, r1) => Some (ORegister c names, r1) | None => None end
  | 2 :: s :: n :: cb :: r =>
      match dec_optz r with
      | Some (ua, r1) =>
          match dec_list r1 with
          | Some (ws, r2) =>
              match dec_list r2 with
              | Some (us, r3) => Some (OConnect s n cb ua ws us, r3)
              | None => None
              end
          | None => None
          end
      | None => None
      end
  | 3 :: s :: n :: cb :: r =>
      match dec_optz r with
      | Some (ua, r1) =>
          match dec_list r1 with
          | Some (ws, r2) =>
              match dec_list r2 with
              | Some (us, r3) => Some (ODisconnect s n cb ua ws us, r3)
              | None => None
              end
          | None => None
          end
      | None => None
      end
  | 4 :: s :: n :: k :: r => Some (ODisconnectKey s n k, r)
  | 5 :: s :: n :: r =>
      match dec_list r with Some (args, r1) => Some (OEmit s n args, r1) | None => None end
  | 6 :: o :: r => Some (OKill o, r)
  | 7 :: r => Some (OGc, r)
  | _ => None
  end.

Fixpoint dec_ops (count : nat) (l : list Z) : option (list op * list Z) :=
  match count with
  | O => Some ([], l)
  | S c =>
      match dec_op l with
      | Some (o, r) =>
          match dec_ops c r with Some (os, r') => Some (o :: os, r') | None => None end
      | None => None
      end
  end.

Definition dec_counted_ops (l : list Z) : option (list op * list Z) :=
  match l with
  | n :: r => if n <? 0 then None else dec_ops (Z.to_nat n) r
  | [] => None
  end.

Fixpoint dec_scripts (count : nat) (l : list Z) : option (list script * list Z) :=
  match count with
  | O => Some ([], l)
  | S c =>
      match l with
      | ret :: r =>
          match dec_counted_ops r with
          | Some (os, r1) =>
              match dec_scripts c r1 with
              | Some (ss, r2) => Some (MkScript os ret :: ss, r2)
              | None => None
              end
          | None => None
          end
      | [] => None
      end
  end.

Definition enc_optz (o : option Z) : list Z := enc_oz o.
Definition enc_val (v : val) : list Z := match v with VObj o => [1; o] | VInt n => [0; n] end.

(* an event tree as the flat events the harness logs, in the order it logs them *)
Fixpoint ser (e : event) : list (list Z) :=
  match e with
  | EvReg c names => [1 :: c :: enc_list names]
  | EvCon s n cb ua ws us out => [2 :: s :: n :: cb :: enc_optz ua ++ enc_list ws ++ enc_list us ++ [out]]
  | EvDis s n cb ua ws us out => [3 :: s :: n :: cb :: enc_optz ua ++ enc_list ws ++ enc_list us ++ [out]]
  | EvDk s n k out => [[4; s; n; k; out]]
  | EvEmit s n args ch out =>
      (5 :: s :: n :: enc_list args)
        :: (fix go (l : list event) : list (list Z) :=
              match l with [] => [] | x :: r => ser x ++ go r end) ch
        ++ [[6; out]]
  | EvCall k cb argv body ret =>
      (7 :: k :: cb :: zlen argv :: flat_map enc_val argv)
        :: (fix go (l : list event) : list (list Z) :=
              match l with [] => [] | x :: r => ser x ++ go r end) body
        ++ match ret with Some c => [[8; c]] | None => [] end
  | EvKill o out => [[9; o; out]]
  | EvDied o => [[10; o]]
  | EvGc => [[11]]
  end.

Definition enc_final (st : state) (nsenders nnames : Z) : list Z :=
  let entries :=
    flat_map (fun s => flat_map (fun n =>
      match keys st s n with [] => [] | ks => [s :: n :: enc_list ks] end) (zseq nnames)) (zseq nsenders) in
  zlen entries :: concat entries.

(* case = fuel, nnames, maxcalls, classes, senders, cyclic flags, scripts, ops *)
Definition run_case (l : list Z) : list Z :=
  match l with
  | fuel :: nnames :: maxcalls :: r0 =>
      match dec_list r0 with
      | Some (classes, r1) =>
          match dec_list r1 with
          | Some (senders, r2) =>
              match dec_list r2 with
              | Some (cyc, r3) =>
                  match r3 with
                  | ncb :: r4 =>
                      if ncb <? 0 then [-1] else
                      match dec_scripts (Z.to_nat ncb) r4 with
                      | Some (cbs, r5) =>
                          match dec_counted_ops r5 with
                          | Some (ops, []) =>
                              (* [classes] (truthiness of the sender classes) is not consulted *)
                              let env := MkEnv senders (map (fun b => negb (b =? 0)) cyc) cbs maxcalls in
                              let '(st, evs) := run_top (Z.to_nat fuel) env ops (init (zlen cyc)) in
                              let flat := flat_map ser evs in
                              zlen flat :: flat_map (fun e => enc_list e) flat
                                ++ enc_final st (zlen senders) nnames
                                ++ enc_list (filter (fun o => memz o (st_dead st)) (zseq (zlen cyc)))
                          | _ => [-1]
                          end
                      | None => [-1]
                      end
                  | [] => [-1]
                  end
              | None => [-1]
              end
          | None => [-1]
          end
      | None => [-1]
      end
  | _ => [-1]
  end.
