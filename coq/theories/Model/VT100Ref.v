(* C15 - an independent reference VT100 for the subset named by the property: printable text with
   autowrap, CR LF BS, cursor addressing (CUP CUU CUD CUF CUB), erase in line / display, insert and
   delete of characters and lines, the scrolling region (DECSTBM), origin mode (DECOM), reverse index and SGR colours.
   Written from the VT100/VT102 behaviour (DEC user guides, ECMA-48), NOT from urwid/vterm.py; it
   interprets abstract commands, not bytes.  No proofs here.

   Points on which real terminals differ are outside the compared domain (the oracle stops judging
   there): LF / RI / HT while the last-column flag is set, CUU / CUD across a margin of a partial
   scrolling region, the rendition of erased cells (their rendition is [None] = unspecified).
   Colours: [Some n] with n < 256 is palette index n (30-37 / 40-47 give 0-7, 38;5;n / 48;5;n give n),
   [Some (256 + rgb)] is the direct colour of 38;2;r;g;b / 48;2;r;g;b. *)
From Coq Require Import ZArith List Bool.
Import ListNotations.
From Urwid Require Import PyBase.
Open Scope Z_scope.

Inductive cmd :=
  | CCh (c : Z)                      (* a printable character 0x20 .. 0x7E *)
  | CCr | CLf | CBs | CRi            (* CR, LF, BS, ESC M *)
  | CCup (r c : Z)                   (* CSI r ; c H    (a parameter <= 0 is written as omitted / 0: default) *)
  | CCuu (n : Z) | CCud (n : Z) | CCuf (n : Z) | CCub (n : Z)
  | CEl (m : Z) | CEd (m : Z)        (* CSI m K, CSI m J with m in 0..2 *)
  | CIch (n : Z) | CDch (n : Z)      (* CSI n @, CSI n P *)
  | CIl (n : Z) | CDl (n : Z)        (* CSI n L CR, CSI n M CR  (followed by CR: VT102 homes the column, others do not) *)
  | CStbm (t b : Z)                  (* CSI t ; b r *)
  | CSgr (l : list Z)                (* CSI l m *)
  | CDsr (n : Z)                     (* CSI n n : status (5) / cursor position (6) query; the screen is unchanged *)
  | CHt                              (* HT: to the next tab stop (every 8 columns), nothing is written *)
  | CSo | CSi                        (* SO / SI: G1 / G0 becomes the active character set *)
  | CDesig (g c : Z)                 (* ESC ( c / ESC ) c : designate G0 (g = 0) / G1 (g = 1); c = "0" (48) DEC special
                                        graphics, "B" (66) ASCII *)
  | CVpa (r : Z)                     (* CSI r d : line position absolute, the column stays *)
  | CDecom (on : bool).              (* CSI ? 6 h / CSI ? 6 l : origin mode.  Set: line numbers of CUP / VPA / CPR count from
                                        the top margin and the cursor cannot leave the margins; the cursor goes to the new
                                        home position on set and on reset *)

Record rattr := mkRA { r_fg : oz; r_bg : oz; r_bold : bool; r_ul : bool; r_blink : bool; r_rev : bool }.
(* a cell: character, and (rendition, character set: 0 ASCII / 1 DEC special graphics) or None = erased cell,
   unspecified *)
Definition rcell := (Z * option (rattr * Z))%type.
Definition rrow := list rcell.
(* what the terminal answers on its line to the host *)
Inductive reply := RStatusOk | RCursor (row col : Z).     (* DSR 5 -> "ready"; DSR 6 -> cursor position report, 1-based *)
Record vt := mkVT { v_w : Z; v_h : Z; v_g : list rrow; v_x : Z; v_y : Z; v_pend : bool;
                    v_top : Z; v_bot : Z; v_attr : rattr;
                    v_sb : list rrow;            (* lines scrolled off the top of the screen, oldest first *)
                    v_sbknown : bool;            (* false once a region not starting at row 0 scrolled *)
                    v_replies : list reply;      (* answers sent so far, oldest first *)
                    v_cs : Z * Z * Z;            (* (G0, G1, shift): sets 0 ASCII / 1 graphics / -1 not yet designated (power-up
                                                    G1 differs between terminals); shift 0 = G0 active, 1 = G1 *)
                    v_origin : bool }.           (* DECOM *)

Definition ra0 : rattr := mkRA None None false false false false.
Definition blank : rcell := (32, None).
Definition blanks (n : Z) : rrow := repeat blank (Z.to_nat n).
Definition blank_rows (w n : Z) : list rrow := repeat (blanks w) (Z.to_nat n).
Definition vt_init (w h : Z) : vt :=
  mkVT w h (repeat (repeat (32, Some (ra0, 0)) (Z.to_nat w)) (Z.to_nat h)) 0 0 false 0 (h - 1) ra0 [] true [] (0, -1, 0) false.

Definition sub {A} (l : list A) (a b : Z) : list A := takez (b - a) (dropz a l).      (* l[a:b], 0 <= a *)
Definition nth_row (g : list rrow) (y : Z) : rrow := match nthz g y with Some r => r | None => [] end.
Definition set_row (g : list rrow) (y : Z) (r : rrow) : list rrow := takez y g ++ r :: dropz (y + 1) g.
Definition with_g (v : vt) (g : list rrow) : vt :=
  mkVT (v_w v) (v_h v) g (v_x v) (v_y v) (v_pend v) (v_top v) (v_bot v) (v_attr v) (v_sb v) (v_sbknown v) (v_replies v) (v_cs v) (v_origin v).
Definition with_xy (v : vt) (x y : Z) (p : bool) : vt :=
  mkVT (v_w v) (v_h v) (v_g v) x y p (v_top v) (v_bot v) (v_attr v) (v_sb v) (v_sbknown v) (v_replies v) (v_cs v) (v_origin v).
Definition with_cs (v : vt) (c : Z * Z * Z) : vt :=
  mkVT (v_w v) (v_h v) (v_g v) (v_x v) (v_y v) (v_pend v) (v_top v) (v_bot v) (v_attr v) (v_sb v) (v_sbknown v) (v_replies v) c (v_origin v).
(* the character set in which a printable character is shown now *)
Definition cur_cs (v : vt) : Z := let '(g0, g1, sh) := v_cs v in if sh =? 0 then g0 else g1.
Definition set_of (c : Z) : Z := if c =? 48 then 1 else 0.
Definition one (n : Z) : Z := if n <=? 0 then 1 else n.           (* a count / coordinate parameter *)

(* the scrolling region moves up one line; a line leaving row 0 goes to the scrollback *)
Definition scroll_up (v : vt) : vt :=
  let g := v_g v in
  let g' := takez (v_top v) g ++ sub g (v_top v + 1) (v_bot v + 1) ++ blanks (v_w v) :: dropz (v_bot v + 1) g in
  mkVT (v_w v) (v_h v) g' (v_x v) (v_y v) (v_pend v) (v_top v) (v_bot v) (v_attr v)
       (if v_top v =? 0 then v_sb v ++ [nth_row g 0] else v_sb v)
       (v_sbknown v && (v_top v =? 0)) (v_replies v) (v_cs v) (v_origin v).
Definition scroll_down (v : vt) : vt :=
  let g := v_g v in
  with_g v (takez (v_top v) g ++ blanks (v_w v) :: sub g (v_top v) (v_bot v) ++ dropz (v_bot v + 1) g).
(* IND: down one line, scrolling at the bottom margin; stuck on the last row below the region *)
Definition index (v : vt) : vt :=
  if v_y v =? v_bot v then scroll_up v
  else if v_y v <? v_h v - 1 then with_xy v (v_x v) (v_y v + 1) (v_pend v)
  else v.

Definition erase_cells (v : vt) (y a b : Z) : vt :=          (* columns a .. b-1 of row y *)
  let r := nth_row (v_g v) y in
  with_g v (set_row (v_g v) y (takez a r ++ blanks (b - a) ++ dropz b r)).
Definition erase_rows (v : vt) (a b : Z) : vt :=             (* rows a .. b-1 *)
  with_g v (takez a (v_g v) ++ blank_rows (v_w v) (b - a) ++ dropz b (v_g v)).

(* one SGR parameter other than the 38 / 48 introducers *)
Definition sgr1 (n : Z) (a : rattr) : rattr :=
  let '(mkRA fg bg bo ul bl rv) := a in
  if n <=? 0 then ra0
  else if n =? 1 then mkRA fg bg true ul bl rv
  else if n =? 4 then mkRA fg bg bo true bl rv
  else if n =? 5 then mkRA fg bg bo ul true rv
  else if n =? 7 then mkRA fg bg bo ul bl true
  else if n =? 24 then mkRA fg bg bo false bl rv
  else if n =? 25 then mkRA fg bg bo ul false rv
  else if n =? 27 then mkRA fg bg bo ul bl false
  else if (30 <=? n) && (n <=? 37) then mkRA (Some (n - 30)) bg bo ul bl rv
  else if n =? 39 then mkRA None bg bo ul bl rv
  else if (40 <=? n) && (n <=? 47) then mkRA fg (Some (n - 40)) bo ul bl rv
  else if n =? 49 then mkRA fg None bo ul bl rv
  else a.
Definition set_colour (n c : Z) (a : rattr) : rattr :=
  let '(mkRA fg bg bo ul bl rv) := a in
  if n =? 38 then mkRA (Some c) bg bo ul bl rv else mkRA fg (Some c) bo ul bl rv.
Fixpoint sgr (l : list Z) (a : rattr) : rattr :=
  match l with
  | [] => a
  | n :: r =>
      if (n =? 38) || (n =? 48) then
        match r with
        | b :: c :: r' =>
            if b =? 5 then sgr r' (set_colour n c a)                                  (* 38 ; 5 ; index *)
            else
              match r' with
              | cg :: cb :: r'' =>
                  if b =? 2 then sgr r'' (set_colour n (256 + (c * 65536 + cg * 256 + cb)) a)     (* 38 ; 2 ; r ; g ; b *)
                  else sgr r a
              | _ => sgr r a
              end
        | _ => sgr r a
        end
      else sgr r (sgr1 n a)
  end.

(* line number r >= 1 of an addressing command: counted from the top margin and kept inside the margins in origin mode *)
Definition line (v : vt) (r : Z) : Z :=
  if v_origin v then Z.min (v_top v + r - 1) (v_bot v) else Z.min r (v_h v) - 1.

Definition exec (v : vt) (c : cmd) : vt :=
  let w := v_w v in let h := v_h v in let x := v_x v in let y := v_y v in
  match c with
  | CCh ch =>
      (* a pending wrap is performed first: column 0 of the next line, scrolling at the bottom margin *)
      let v := if v_pend v then index (with_xy v 0 y false) else v in
      let x := v_x v in let y := v_y v in
      let r := nth_row (v_g v) y in
      let v := with_g v (set_row (v_g v) y (takez x r ++ (ch, Some (v_attr v, cur_cs v)) :: dropz (x + 1) r)) in
      if x =? w - 1 then with_xy v x y true else with_xy v (x + 1) y false
  | CCr => with_xy v 0 y false
  | CLf => index v
  | CBs => with_xy v (if 0 <? x then x - 1 else x) y false
  | CRi => if y =? v_top v then scroll_down v else if 0 <? y then with_xy v x (y - 1) (v_pend v) else v
  | CCup r c => with_xy v (Z.min (one c) w - 1) (line v (one r)) false
  | CVpa r => with_xy v x (line v (one r)) false
  | CCuu n => with_xy v x (Z.max (if v_top v <=? y then v_top v else 0) (y - one n)) false
  | CCud n => with_xy v x (Z.min (if y <=? v_bot v then v_bot v else h - 1) (y + one n)) false
  | CCuf n => with_xy v (Z.min (w - 1) (x + one n)) y false
  | CCub n => with_xy v (Z.max 0 (x - one n)) y false
  | CEl m =>
      if m <=? 0 then erase_cells v y x w
      else if m =? 1 then erase_cells v y 0 (x + 1)
      else if m =? 2 then erase_cells v y 0 w
      else v
  | CEd m =>
      if m <=? 0 then erase_rows (erase_cells v y x w) (y + 1) h
      else if m =? 1 then erase_cells (erase_rows v 0 y) y 0 (x + 1)
      else if m =? 2 then erase_rows v 0 h
      else v
  | CIch n =>
      let k := Z.min (one n) (w - x) in
      let r := nth_row (v_g v) y in
      with_g v (set_row (v_g v) y (takez x r ++ blanks k ++ sub r x (w - k)))
  | CDch n =>
      let k := Z.min (one n) (w - x) in
      let r := nth_row (v_g v) y in
      with_g v (set_row (v_g v) y (takez x r ++ dropz (x + k) r ++ blanks k))
  | CIl n =>
      let v' := if (v_top v <=? y) && (y <=? v_bot v) then
                  let k := Z.min (one n) (v_bot v - y + 1) in
                  let g := v_g v in
                  with_g v (takez y g ++ blank_rows w k ++ sub g y (v_bot v + 1 - k) ++ dropz (v_bot v + 1) g)
                else v in
      with_xy v' 0 y false
  | CDl n =>
      let v' := if (v_top v <=? y) && (y <=? v_bot v) then
                  let k := Z.min (one n) (v_bot v - y + 1) in
                  let g := v_g v in
                  with_g v (takez y g ++ sub g (y + k) (v_bot v + 1) ++ blank_rows w k ++ dropz (v_bot v + 1) g)
                else v in
      with_xy v' 0 y false
  | CStbm t b =>
      let t := one t in
      let b := if b <=? 0 then h else b in
      if (t <? b) && (b <=? h)
      then mkVT w h (v_g v) 0 (if v_origin v then t - 1 else 0) false (t - 1) (b - 1) (v_attr v) (v_sb v) (v_sbknown v)
                (v_replies v) (v_cs v) (v_origin v)
      else v
  | CSgr l =>
      mkVT w h (v_g v) x y (v_pend v) (v_top v) (v_bot v) (sgr (match l with [] => [0] | _ => l end) (v_attr v))
           (v_sb v) (v_sbknown v) (v_replies v) (v_cs v) (v_origin v)
  | CDsr n =>
      mkVT w h (v_g v) x y (v_pend v) (v_top v) (v_bot v) (v_attr v) (v_sb v) (v_sbknown v)
           (v_replies v ++ (if n =? 5 then [RStatusOk]
                            else if n =? 6 then [RCursor ((if v_origin v then y - v_top v else y) + 1) (x + 1)] else []))
           (v_cs v) (v_origin v)
  | CHt => with_xy v (Z.min (w - 1) ((x / 8 + 1) * 8)) y false
  | CSo => let '(g0, g1, _) := v_cs v in with_cs v (g0, g1, 1)
  | CSi => let '(g0, g1, _) := v_cs v in with_cs v (g0, g1, 0)
  | CDesig g c => let '(g0, g1, sh) := v_cs v in if g =? 0 then with_cs v (set_of c, g1, sh) else with_cs v (g0, set_of c, sh)
  | CDecom on =>
      mkVT w h (v_g v) 0 (if on then v_top v else 0) false (v_top v) (v_bot v) (v_attr v) (v_sb v) (v_sbknown v)
           (v_replies v) (v_cs v) on
  end.

Definition run_ref (v : vt) (cs : list cmd) : vt := fold_left exec cs v.

(* situations in which terminals of the family differ: the comparison stops before such a command *)
Definition ambiguous (v : vt) (c : cmd) : bool :=
  let partial := negb ((v_top v =? 0) && (v_bot v =? v_h v - 1)) in
  match c with
  | CLf | CRi | CHt => v_pend v
  | CSo => let '(_, g1, _) := v_cs v in g1 <? 0        (* shifting to a G1 that was never designated *)
  (* in origin mode the cursor is inside the margins and stops at them, on every terminal *)
  | CCuu n => negb (v_origin v) && partial && (v_top v <=? v_y v) && (v_y v - one n <? v_top v)
  | CCud n => negb (v_origin v) && partial && (v_y v <=? v_bot v) && (v_bot v <? v_y v + one n)
  | _ => false
  end.
