(* Executable model of urwid's canvas cache:
     urwid/canvas.py   CanvasCache.store / fetch / invalidate / cleanup / clear, walk_depends
     urwid/widget/widget.py   cache_widget_render, cache_widget_rows, Widget._invalidate
   Widgets are integer ids.  Each widget has a version (all of its own mutable state); what a
   widget renders is an UNINTERPRETED program ([body]) over its own version and key that may ask
   for renders of other widgets and continue with what they returned (so the set of displayed
   children may depend on what the children look like: ListBox, Pile, ...).  The section variables
   stay abstract in every theorem; [run_case] instantiates them with a table-driven instance
   for the extracted-model correspondence.  No proofs here. *)
From Coq Require Import ZArith List Bool Lia.
Import ListNotations.
From Urwid Require Import PyBase.
Open Scope Z_scope.

Definition widget := Z.
Definition key := Z.      (* (wcls, size, focus) of one render call, opaque *)
Definition cid := Z.      (* identity of a canvas object = identity of its weakref *)

(* ---------- Python dicts keyed by identities: association lists with unique keys ---------- *)
Section ALIST.
  Variable V : Type.
  Fixpoint alookup (l : list (Z * V)) (x : Z) : option V :=
    match l with
    | [] => None
    | (y, v) :: r => if y =? x then Some v else alookup r x
    end.
  Fixpoint aremove (l : list (Z * V)) (x : Z) : list (Z * V) :=
    match l with
    | [] => []
    | (y, v) :: r => if y =? x then aremove r x else (y, v) :: aremove r x
    end.
  Definition aset (l : list (Z * V)) (x : Z) (v : V) : list (Z * V) := (x, v) :: aremove l x.
  Definition amem (l : list (Z * V)) (x : Z) : bool :=
    match alookup l x with Some _ => true | None => false end.
End ALIST.
Arguments alookup {V} l x.
Arguments aremove {V} l x.
Arguments aset {V} l x v.
Arguments amem {V} l x.

Section Model.
  Variable C : Type.                         (* canvas content, cursor included *)

  (* what a render() body does: ask for child renders, finally return a content *)
  Inductive prog := Ret (c : C) | Ask (x : widget) (k : key) (cont : C -> prog).
  (* what a rows() body does: ask children for their rows *)
  Inductive rprog := RRet (r : Z) | RAsk (x : widget) (k : key) (cont : Z -> rprog).

  Variable body : widget -> Z -> key -> prog.      (* cls.render of widget w in version v *)
  Variable rbody : widget -> Z -> key -> rprog.    (* cls.rows *)
  Variable rows_of : C -> Z.                       (* canv.rows() *)
  Variable cacheable : widget -> bool.             (* canvas.cacheable of the canvases w renders *)
  Variable rcache : widget -> bool.                (* False: the class lists "rows" in no_cache *)

  Record canvas := Canvas {
    c_id : cid; c_w : widget; c_k : key;           (* widget_info, set by finalize *)
    c_content : C;
    c_children : list cid }.                       (* canvases it holds strong references to *)

  Record cache := Cache {
    widgets : list (Z * list (Z * cid));           (* _widgets[widget][key] = ref *)
    refs : list (Z * (widget * key));              (* _refs[ref] = (widget, key) *)
    deps : list (Z * list widget) }.               (* _deps[widget] = [dependant, ...] *)

  Record state := State {
    cc : cache;
    heap : list canvas;                            (* canvases that are alive *)
    next : cid;
    ver : list (Z * Z) }.                          (* current version of every widget (default 0) *)

  Definition version (vr : list (Z * Z)) (w : widget) : Z :=
    match alookup vr w with Some v => v | None => 0 end.
  Definition sizes_of (c : cache) (w : widget) : list (Z * cid) :=
    match alookup (widgets c) w with Some s => s | None => [] end.
  Definition deps_of (c : cache) (w : widget) : list widget :=
    match alookup (deps c) w with Some l => l | None => [] end.

  (* ref() : the canvas if it is still alive *)
  Fixpoint find_canvas (h : list canvas) (r : cid) : option canvas :=
    match h with
    | [] => None
    | cv :: t => if c_id cv =? r then Some cv else find_canvas t r
    end.
  Fixpoint remove_canvas (h : list canvas) (r : cid) : list canvas :=
    match h with
    | [] => []
    | cv :: t => if c_id cv =? r then remove_canvas t r else cv :: remove_canvas t r
    end.

  (* ---------- rendering with the cache emptied / without a cache: the reference ---------- *)
  Fixpoint run_fresh (rec : widget -> key -> option C) (p : prog) : option C :=
    match p with
    | Ret c => Some c
    | Ask x k cont =>
      match rec x k with
      | None => None
      | Some cx => run_fresh rec (cont cx)
      end
    end.
  Fixpoint fresh (vr : list (Z * Z)) (n : nat) (w : widget) (k : key) : option C :=
    match n with
    | O => None                                    (* out of fuel *)
    | S m => run_fresh (fresh vr m) (body w (version vr w) k)
    end.

  Fixpoint run_rows (rec : widget -> key -> option Z) (p : rprog) : option Z :=
    match p with
    | RRet r => Some r
    | RAsk x k cont =>
      match rec x k with
      | None => None
      | Some r => run_rows rec (cont r)
      end
    end.
  Fixpoint frows (vr : list (Z * Z)) (n : nat) (w : widget) (k : key) : option Z :=
    match n with
    | O => None
    | S m => run_rows (frows vr m) (rbody w (version vr w) k)
    end.

  (* ---------- CanvasCache.fetch ---------- *)
  Definition fetch (st : state) (w : widget) (k : key) : option canvas :=
    match alookup (widgets (cc st)) w with          (* sizes = cls._widgets.get(widget, None) *)
    | None => None
    | Some sizes =>                                 (* if not sizes: return None  (an empty dict finds nothing below) *)
      match alookup sizes k with                    (* ref = sizes.get((wcls, size, focus), None) *)
      | None => None
      | Some r => find_canvas (heap st) r           (* canv = ref() *)
      end
    end.

  (* ---------- CanvasCache.store ; depends_on = canvas.depends_on or walk_depends(canvas) ---------- *)
  Definition add_dep (widget : widget) (d : list (Z * list Z)) (w : Z) : list (Z * list Z) :=
    aset d w (match alookup d w with Some l => l | None => [] end ++ [widget]).   (* _deps.setdefault(w, []).append(widget) *)
  Definition store (c : cache) (cv : canvas) (depends_on : list widget) : cache :=
    if negb (cacheable (c_w cv)) then c             (* if not canvas.cacheable: return *)
    else if existsb (fun w => negb (amem (widgets c) w)) depends_on
    then c                                          (* for w in depends_on: if w not in cls._widgets: return *)
    else
      let d' := fold_left (add_dep (c_w cv)) depends_on (deps c) in
      Cache (aset (widgets c) (c_w cv) (aset (sizes_of c (c_w cv)) (c_k cv) (c_id cv)))
            (aset (refs c) (c_id cv) (c_w cv, c_k cv))
            d'.

  (* ---------- cache_widget_render ---------- *)
  Fixpoint run_prog (rec : state -> widget -> key -> option (canvas * state))
           (p : prog) (st : state) : option (C * list canvas * state) :=
    match p with
    | Ret c => Some (c, [], st)
    | Ask x k cont =>
      match rec st x k with
      | None => None
      | Some (cx, st1) =>
        match run_prog rec (cont (c_content cx)) st1 with
        | None => None
        | Some (c, kids, st2) => Some (c, cx :: kids, st2)
        end
      end
    end.

  Fixpoint crender (n : nat) (st : state) (w : widget) (k : key) : option (canvas * state) :=
    match n with
    | O => None
    | S m =>
      match fetch st w k with                       (* if canv := CanvasCache.fetch(self, cls, size, focus): return canv *)
      | Some cv => Some (cv, st)
      | None =>
        match run_prog (crender m) (body w (version (ver st) w) k) st with   (* canv = fn(self, size, focus=focus) *)
        | None => None
        | Some (c, kids, st1) =>
          let cv := Canvas (next st1) w k c (map c_id kids) in           (* canv.finalize(self, size, focus) *)
          Some (cv, State (store (cc st1) cv (map c_w kids))             (* CanvasCache.store(cls, canv) *)
                          (cv :: heap st1) (next st1 + 1) (ver st1))
        end
      end
    end.

  (* ---------- cache_widget_rows ---------- *)
  Fixpoint crows (n : nat) (st : state) (w : widget) (k : key) : option Z :=
    match n with
    | O => None
    | S m =>
      match (if rcache w then fetch st w k else None) with
      | Some cv => Some (rows_of (c_content cv))    (* return canv.rows() *)
      | None => run_rows (crows m st) (rbody w (version (ver st) w) k)   (* return fn(self, size, focus) *)
      end
    end.

  (* ---------- CanvasCache.invalidate ---------- *)
  Definition drop_entries (c : cache) (w : widget) : cache :=
    Cache (aremove (widgets c) w)                                         (* del cls._widgets[widget] *)
          (fold_left (fun r e => aremove r (snd e)) (sizes_of c w) (refs c))   (* for ref in ...values(): del cls._refs[ref] *)
          (deps c).
  Fixpoint invalidate (n : nat) (c : cache) (w : widget) : option cache :=
    let c1 := drop_entries c w in
    match alookup (deps c1) w with
    | None => Some c1                                                     (* if widget not in cls._deps: return *)
    | Some dependants =>
      let c2 := Cache (widgets c1) (refs c1) (aremove (deps c1) w) in     (* del cls._deps[widget] *)
      match n with
      | O => None                                                         (* out of fuel *)
      | S m =>
        fold_left (fun acc d => match acc with None => None | Some c' => invalidate m c' d end)
                  dependants (Some c2)                                    (* for w in dependants: cls.invalidate(w) *)
      end
    end.

  (* ---------- CanvasCache.cleanup (weakref callback) ---------- *)
  (* everything up to and including `cls._deps.pop(widget, [])` *)
  Definition cleanup_entry (c : cache) (r : cid) : cache :=
    match alookup (refs c) r with
    | None => c                    (* w = cls._refs.pop(ref, None); if not w: return  (an invalidation removed it already) *)
    | Some (w, k) =>
      let refs' := aremove (refs c) r in
      match alookup (widgets c) w with
      | None => Cache (widgets c) refs' (deps c)                          (* if not sizes: return *)
      | Some [] => Cache (widgets c) refs' (deps c)
      | Some sizes =>
        match aremove sizes k with                                        (* del sizes[wcls, size, focus] *)
        | [] => Cache (aremove (widgets c) w) refs' (aremove (deps c) w)  (* del _widgets[widget]; _deps.pop(widget, []) *)
        | sizes' => Cache (aset (widgets c) w sizes') refs' (deps c)
        end
      end
    end.
  (* the dependants list popped by the line above: non-empty only when the widget's last canvas went away *)
  Definition cleanup_popped (c : cache) (r : cid) : list widget :=
    match alookup (refs c) r with
    | None => []
    | Some (w, k) =>
      match alookup (widgets c) w with
      | None => []
      | Some [] => []
      | Some sizes => match aremove sizes k with [] => deps_of c w | _ => [] end
      end
    end.
  Definition invalidate_all (n : nat) (ds : list widget) (c : cache) : option cache :=
    fold_left (fun acc d => match acc with None => None | Some c' => invalidate n c' d end) ds (Some c).
  Definition cleanup (c : cache) (r : cid) : cache :=
    let c1 := cleanup_entry c r in
    match invalidate_all (S (length (deps c1))) (cleanup_popped c r) c1 with   (* for w in popped: cls.invalidate(w) *)
    | Some c2 => c2
    | None => c1                                                          (* never: Proofs, invalidate_all_total *)
    end.

  (* ---------- histories ---------- *)
  Inductive op :=
    | Render (w : widget) (k : key)
    | Rows (w : widget) (k : key)
    | Mutate (w : widget) (v : Z)     (* any public mutator: new own state, then self._invalidate() *)
    | Collect (c : cid)               (* the garbage collector frees canvas c *)
    | Clear.                          (* CanvasCache.clear() *)

  Inductive outcome :=
    | ORender (r : option canvas) | ORows (r : option Z) | ODone | OSkipped.

  (* the collector may free ANY live canvas: that a canvas keeps the canvases it displays alive is not assumed
     (CanvasCache.cleanup invalidates the dependants of a widget whose last canvas went away) *)
  Definition alive (st : state) (c : cid) : bool := existsb (fun cv => c_id cv =? c) (heap st).
  (* what CPython's reference counting frees: a canvas no live canvas references (used by [sweep] below) *)
  Definition collectable (st : state) (c : cid) : bool :=
    existsb (fun cv => c_id cv =? c) (heap st)
    && forallb (fun cv => negb (existsb (Z.eqb c) (c_children cv))) (heap st).

  Definition empty_cache : cache := Cache [] [] [].

  Definition step (n : nat) (st : state) (o : op) : state * outcome :=
    match o with
    | Render w k =>
      match crender n st w k with
      | Some (cv, st') => (st', ORender (Some cv))
      | None => (st, ORender None)
      end
    | Rows w k => (st, ORows (crows n st w k))
    | Mutate w v =>
      let vr := aset (ver st) w v in
      match invalidate (S (length (deps (cc st)))) (cc st) w with
      | Some c' => (State c' (heap st) (next st) vr, ODone)
      | None => (State (cc st) (heap st) (next st) vr, OSkipped)   (* never: Proofs, invalidate_enough_fuel *)
      end
    | Collect c =>
      if alive st c
      then (State (cleanup (cc st) c) (remove_canvas (heap st) c) (next st) (ver st), ODone)
      else (st, OSkipped)
    | Clear => (State empty_cache (heap st) (next st) (ver st), ODone)
    end.

  Definition run (n : nat) (st : state) (ops : list op) : state :=
    fold_left (fun s o => fst (step n s o)) ops st.

  Definition init : state := State empty_cache [] 0 [].
End Model.

Arguments Ret {C} c.
Arguments Ask {C} x k cont.
Arguments Canvas {C} c_id c_w c_k c_content c_children.
Arguments c_id {C} c.
Arguments c_w {C} c.
Arguments c_k {C} c.
Arguments c_content {C} c.
Arguments c_children {C} c.
Arguments State {C} cc heap next ver.
Arguments cc {C} s.
Arguments heap {C} s.
Arguments next {C} s.
Arguments ver {C} s.
Arguments init {C}.

(* =====================================================================================
   The table-driven instance used by the extracted-model correspondence (harness/props/c06.py).
   Real urwid containers around spy leaves; all sizes are flow sizes (maxcol,):
     key = 2 * maxcol + (1 if focus else 0), focus already cleared for ignore_focus classes.
   A leaf's version is a counter; a container's version selects one of its configurations
   (children list, focus position).
   ===================================================================================== *)
Inductive kind := KLeaf | KAttr | KPad (l r : Z) | KPile | KCols (widths : list Z)
  | KSwitch (th : Z).   (* a spy container that shows only its first child when narrower than th *)
Record node := Node {
  n_kind : kind;
  n_ignf : bool;                        (* class attribute ignore_focus *)
  n_cache : bool;                       (* False: no_cache = ["render"] *)
  n_configs : list (list Z * Z) }.      (* (children, focus position) *)

Definition content := (Z * list Z)%type.   (* rows, stamps (leaf id, version, focus) of the displayed leaves *)

Section Instance.
  Variable tbl : list (Z * node).

  Definition node_of (w : Z) : node :=
    match alookup tbl w with Some n => n | None => Node KLeaf false true [] end.
  Definition config_of (w v : Z) : list Z * Z :=
    let cs := n_configs (node_of w) in
    nth (Z.to_nat (v mod (Z.max 1 (zlen cs)))) cs ([], 0).
  (* focus = focus and not ignore_focus *)
  Definition norm (w : Z) (k : key) : key := if n_ignf (node_of w) then k - k mod 2 else k.
  Definition mk_key (w maxcol : Z) (f : bool) : key := norm w (2 * maxcol + (if f then 1 else 0)).

  (* children with the size and focus flag each is rendered with *)
  Fixpoint pile_kids (kids : list Z) (i fp maxcol : Z) (f : bool) : list (Z * key) :=
    match kids with
    | [] => []
    | x :: r => (x, mk_key x maxcol (f && (i =? fp))) :: pile_kids r (i + 1) fp maxcol f
    end.
  Fixpoint cols_kids (kids widths : list Z) (i fp : Z) (f : bool) : list (Z * key) :=
    match kids, widths with
    | x :: r, wd :: wr => (x, mk_key x wd (f && (i =? fp))) :: cols_kids r wr (i + 1) fp f
    | _, _ => []
    end.
  Definition kids_of (w v : Z) (k : key) : list (Z * key) :=
    let maxcol := k / 2 in
    let f := negb (k mod 2 =? 0) in
    let '(ch, fp) := config_of w v in
    match n_kind (node_of w) with
    | KLeaf => []
    | KAttr => match ch with x :: _ => [(x, mk_key x maxcol f)] | [] => [] end
    | KPad l r => match ch with x :: _ => [(x, mk_key x (maxcol - l - r) f)] | [] => [] end
    | KPile => pile_kids ch 0 fp maxcol f
    | KCols widths => cols_kids ch widths 0 fp f
    | KSwitch th => pile_kids (if maxcol <? th then firstn 1 ch else ch) 0 fp maxcol f
    end.
  Definition is_cols (w : Z) : bool := match n_kind (node_of w) with KCols _ => true | _ => false end.
  Definition is_leaf (w : Z) : bool := match n_kind (node_of w) with KLeaf => true | _ => false end.

  Definition join (cols : bool) (a b : content) : content :=
    (if cols then Z.max (fst a) (fst b) else fst a + fst b, snd a ++ snd b).
  Fixpoint ask_all (cols : bool) (kids : list (Z * key)) (acc : content) : prog content :=
    match kids with
    | [] => Ret acc
    | (x, k) :: r => Ask x k (fun c => ask_all cols r (join cols acc c))
    end.
  (* a spy leaf is one row taller when (version + focus flag) is odd: its height depends on focus *)
  Definition leaf_rows (v fb : Z) : Z := 1 + (v + fb) mod 2.
  Definition body_i (w v : Z) (k : key) : prog content :=
    if is_leaf w then Ret (leaf_rows v (k mod 2), [w; v; k mod 2])
    else ask_all (is_cols w) (kids_of w v k) (0, []).

  Fixpoint rask_all (cols : bool) (kids : list (Z * key)) (acc : Z) : rprog :=
    match kids with
    | [] => RRet acc
    | (x, k) :: r => RAsk x k (fun n => rask_all cols r (if cols then Z.max acc n else acc + n))
    end.
  Definition rbody_i (w v : Z) (k : key) : rprog :=
    if is_leaf w then RRet (leaf_rows v (k mod 2)) else rask_all (is_cols w) (kids_of w v k) 0.
  Definition cacheable_i (w : Z) : bool := n_cache (node_of w).
  Definition rows_i (c : content) : Z := fst c.
  Definition rcache_i (w : Z) : bool := match n_kind (node_of w) with KAttr => false | _ => true end.
End Instance.

(* ---------- the harness holds some rendered canvases in slots; everything else is garbage ---------- *)
Definition st_i := state content.
Definition is_root (roots : list (Z * cid)) (c : cid) : bool := existsb (fun e => snd e =? c) roots.
Fixpoint sweep (fuel : nat) (roots : list (Z * cid)) (st : st_i) : st_i :=
  match fuel with
  | O => st
  | S m =>
    match find (fun cv => negb (is_root roots (c_id cv)) && collectable content st (c_id cv)) (heap st) with
    | None => st
    | Some cv => sweep m roots (fst (step content (fun _ _ _ => Ret (0, [])) (fun _ _ _ => RRet 0) fst (fun _ => true) (fun _ => true)
                                          O st (Collect (c_id cv))))
    end
  end.

(* ---------- wire format ----------
   case  = nnodes node* nops op*
   node  = id kind a b ignf cache widths(list) nconfigs (children(list) fp)*
   op    = 1 w maxcol f slot | 2 w maxcol f | 3 w v | 4 slot | 5
   reply = per op: result dump ;  result = [] | 1 rows stamps(list) | 0 ;  rows result = 1 r | 0
           dump = nwidgets (w k)* ndeps (w dependants(list))* nrefs                               *)
Fixpoint dec_configs (n : nat) (l : list Z) : option (list (list Z * Z) * list Z) :=
  match n with
  | O => Some ([], l)
  | S m =>
    match dec_list l with
    | Some (ch, fp :: r) =>
      match dec_configs m r with
      | Some (cs, r') => Some ((ch, fp) :: cs, r')
      | None => None
      end
    | _ => None
    end
  end.
Definition dec_node (l : list Z) : option ((Z * node) * list Z) :=
  match l with
  | id :: kd :: a :: b :: ignf :: ca :: r =>
    match dec_list r with
    | Some (widths, nc :: r1) =>
      match dec_configs (Z.to_nat nc) r1 with
      | Some (cs, r2) =>
        let kd' := if kd =? 0 then KLeaf else if kd =? 1 then KAttr else if kd =? 2 then KPad a b
                   else if kd =? 3 then KPile else if kd =? 4 then KCols widths else KSwitch a in
        Some ((id, Node kd' (negb (ignf =? 0)) (negb (ca =? 0)) cs), r2)
      | None => None
      end
    | _ => None
    end
  | _ => None
  end.
Fixpoint dec_nodes (n : nat) (l : list Z) : option (list (Z * node) * list Z) :=
  match n with
  | O => Some ([], l)
  | S m =>
    match dec_node l with
    | Some (nd, r) => match dec_nodes m r with Some (ns, r') => Some (nd :: ns, r') | None => None end
    | None => None
    end
  end.

Inductive wop := WRender (w maxcol f slot : Z) | WRows (w maxcol f : Z) | WMutate (w v : Z) | WDrop (slot : Z) | WClear.
Definition dec_wop (l : list Z) : option (wop * list Z) :=
  match l with
  | 1 :: w :: m :: f :: s :: r => Some (WRender w m f s, r)
  | 2 :: w :: m :: f :: r => Some (WRows w m f, r)
  | 3 :: w :: v :: r => Some (WMutate w v, r)
  | 4 :: s :: r => Some (WDrop s, r)
  | 5 :: r => Some (WClear, r)
  | _ => None
  end.
Fixpoint dec_wops (fuel : nat) (l : list Z) : list wop :=
  match fuel with
  | O => []
  | S k => match dec_wop l with Some (o, r) => o :: dec_wops k r | None => [] end
  end.

Definition enc_cache (c : cache) : list Z :=
  let ws := flat_map (fun e => map (fun s => (fst e, fst s)) (snd e)) (widgets c) in
  zlen ws :: flat_map (fun p => [fst p; snd p]) ws
    ++ zlen (deps c) :: flat_map (fun e => fst e :: enc_list (snd e)) (deps c)
    ++ [zlen (refs c)].
Definition enc_dump (st : st_i) : list Z := enc_cache (cc st).

Section RunCase.
  Variable tbl : list (Z * node).
  Definition fuel_i : nat := S (S (length tbl)).
  Definition step_i := step content (body_i tbl) (rbody_i tbl) rows_i (cacheable_i tbl) (rcache_i tbl) fuel_i.

  Definition wstep (acc : st_i * list (Z * cid) * list Z) (o : wop) : st_i * list (Z * cid) * list Z :=
    let '(st, roots, out) := acc in
    match o with
    | WRender w m f slot =>
      match step_i st (Render w (mk_key tbl w m (negb (f =? 0)))) with
      | (st1, ORender _ (Some cv)) =>
        let roots1 := if slot <? 0 then roots else aset roots slot (c_id cv) in
        let st2 := sweep (S (length (heap st1))) roots1 st1 in
        (st2, roots1, out ++ [1; fst (c_content cv)] ++ enc_list (snd (c_content cv)) ++ enc_dump st2)
      | (st1, _) => (st1, roots, out ++ [0] ++ enc_dump st1)
      end
    | WRows w m f =>
      match step_i st (Rows w (mk_key tbl w m (negb (f =? 0)))) with
      | (st1, ORows _ (Some r)) => (st1, roots, out ++ [1; r] ++ enc_dump st1)
      | (st1, _) => (st1, roots, out ++ [0] ++ enc_dump st1)
      end
    | WMutate w v =>
      let st1 := fst (step_i st (Mutate w v)) in (st1, roots, out ++ enc_dump st1)
    | WDrop slot =>
      let roots1 := aremove roots slot in
      let st1 := sweep (S (length (heap st))) roots1 st in (st1, roots1, out ++ enc_dump st1)
    | WClear =>
      let st1 := fst (step_i st Clear) in (st1, roots, out ++ enc_dump st1)
    end.
End RunCase.

(* =====================================================================================
   Second sub-model (first integer -2): the CanvasCache primitives replayed on a call trace recorded from the
   implementation while REAL widgets render (harness/props/c06.py instruments store/fetch/invalidate/cleanup/clear).
   Widgets, keys (wcls, size, focus) and canvases are interned integers; the canvas content plays no role.
     op = 1 w k c cacheable deps(list) | 2 w k | 3 w | 4 c | 5 | 6 (the harness sets the cache dicts aside) | 7 (and
          puts them back) | 8 (dump)
     reply: per fetch the id of the canvas handed out or -1; per dump the cache as in [enc_cache]
   ===================================================================================== *)
Inductive top :=
  | TStore (w k c : Z) (ca : bool) (ds : list Z) | TFetch (w k : Z) | TInval (w : Z) | TCleanup (c : Z)
  | TClear | TSwapOut | TSwapIn | TDump.
Definition dec_top (l : list Z) : option (top * list Z) :=
  match l with
  | 1 :: w :: k :: c :: ca :: r =>
    match dec_list r with Some (ds, r') => Some (TStore w k c (negb (ca =? 0)) ds, r') | None => None end
  | 2 :: w :: k :: r => Some (TFetch w k, r)
  | 3 :: w :: r => Some (TInval w, r)
  | 4 :: c :: r => Some (TCleanup c, r)
  | 5 :: r => Some (TClear, r)
  | 6 :: r => Some (TSwapOut, r)
  | 7 :: r => Some (TSwapIn, r)
  | 8 :: r => Some (TDump, r)
  | _ => None
  end.
Fixpoint dec_tops (fuel : nat) (l : list Z) : list top :=
  match fuel with
  | O => []
  | S k => match dec_top l with Some (o, r) => o :: dec_tops k r | None => [] end
  end.
Definition tstate := (cache * list (canvas unit) * list cache)%type.
Definition tstep (acc : tstate * list Z) (o : top) : tstate * list Z :=
  let '((c, h, saved), out) := acc in
  match o with
  | TStore w k i ca ds =>
    let cv := Canvas i w k tt [] in
    ((store unit (fun _ => ca) c cv ds, cv :: h, saved), out)
  | TFetch w k =>
    ((c, h, saved), out ++ [match fetch unit (State c h 0 []) w k with Some cv => c_id cv | None => -1 end])
  | TInval w =>
    ((match invalidate (S (length (deps c))) c w with Some c' => c' | None => c end, h, saved), out)
  | TCleanup i => ((cleanup c i, remove_canvas unit h i, saved), out)
  | TClear => ((empty_cache, h, saved), out)
  | TSwapOut => ((empty_cache, h, c :: saved), out)
  | TSwapIn => (match saved with c0 :: r => (c0, h, r) | [] => (c, h, saved) end, out)
  | TDump => ((c, h, saved), out ++ enc_cache c)
  end.

Definition run_case (l : list Z) : list Z :=
  match l with
  | (-2) :: r => snd (fold_left tstep (dec_tops (length r) r) ((empty_cache, [], []), []))
  | nn :: r =>
    match dec_nodes (Z.to_nat nn) r with
    | Some (tbl, _ :: r1) =>
      let ops := dec_wops (length r1) r1 in
      let '(_, _, out) := fold_left (wstep tbl) ops (init, [], []) in
      out
    | _ => [-1]
    end
  | [] => [-1]
  end.
