(* Executable model of the urwid ADAPTER loops: the wrapper logic that AsyncioEventLoop puts around a
   host runtime (urwid/event_loop/asyncio_loop.py: alarm -> call_later + _also_call_idle wrapper,
   _idle_asyncio_handle, _entering_idle, remove_alarm / watch_file / remove_watch_file return values,
   enter_idle / remove_enter_idle, _exception_handler, the _exc re-raise of run()), written line for
   line over an abstract HOST ([host], a record of operations on a host state), and one concrete host:
   the part of asyncio.BaseEventLoop / BaseSelectorEventLoop the wrapper uses (call_later, TimerHandle
   cancel, add_reader / remove_reader, stop, _run_once with the heapq of timers and the ready queue),
   driven by the environment of Model/SelectLoop.v (virtual clock, scripted selector).
   Callback scripts, events, environment steps and the wire format are those of SelectLoop.v.
   No proofs in this file. *)
From Coq Require Import ZArith List Bool.
Import ListNotations.
From Urwid Require Import PyBase SelectLoop ZmqLoop.
Open Scope Z_scope.

(* what the wrapper registers with the host *)
Inductive tcb :=
  | TAlarm (k id : Z)      (* _also_call_idle(callback) of alarm #k *)
  | TIdle.                 (* self._entering_idle *)

(* one scheduling decision of the host *)
Inductive hevent :=
  | HTimer (h : Z) (c : tcb)                                   (* the timer handle h runs now *)
  | HReader (fd id : Z)                                        (* the reader of fd runs now *)
  | HSelect (timeout : option Z) (regs : list Z) (t : Z) (ready : list Z)   (* the host polled *)
  | HStopped                                                   (* run_forever() returned *)
  | HEnvEnd (timeout : option Z) (regs : list Z) (t : Z)       (* poll attempted, environment exhausted *)
  | HBlocked (regs : list Z) (t : Z).                          (* poll without timeout, nothing readable *)

Record host (H : Type) := mkHost {
  h_time : H -> Z;                                   (* loop.time() *)
  h_call_later : Z -> tcb -> H -> H * Z * Z;         (* loop.call_later(delay, cb) -> (handle, handle.when()) *)
  h_cancelled : Z -> H -> bool;                      (* handle.cancelled() *)
  h_cancel : Z -> H -> H;                            (* handle.cancel() *)
  h_add_reader : Z -> Z -> H -> H;                   (* loop.add_reader(fd, cb) *)
  h_remove_reader : Z -> H -> H * bool;              (* loop.remove_reader(fd) *)
  h_stop : H -> H;                                   (* loop.stop() *)
  h_sleep : Z -> H -> H;                             (* a callback takes time *)
  h_next : option step -> H -> H * hevent * bool     (* next decision; true = the environment step was used *)
}.
Arguments h_time {H}. Arguments h_call_later {H}. Arguments h_cancelled {H}. Arguments h_cancel {H}.
Arguments h_add_reader {H}. Arguments h_remove_reader {H}. Arguments h_stop {H}. Arguments h_sleep {H}.
Arguments h_next {H}.

(* the calls the wrapper makes on the host and what the host answered: a ghost log (newest first) kept
   beside the state; the host specification of Proofs/AdapterLoopSpec.v is a predicate on it *)
Inductive hcall :=
  | CLater (t d : Z) (c : tcb) (h w : Z)      (* at host time t: call_later(d, c) returned handle h with when() = w *)
  | CCancelledQ (h : Z) (b : bool)            (* h.cancelled() answered b *)
  | CCancel (h : Z)
  | CAddReader (fd id : Z)
  | CRemoveReader (fd : Z) (ok : bool)
  | CStop
  | CSleep (d : Z)
  | CNext (t : Z) (ev : hevent).              (* the host decided ev; its clock then read t *)

(* ====================== the wrapper (AsyncioEventLoop) ====================== *)
Section Wrapper.
Variable H : Type.
Variable hst : host H.

Record astate := mkA {
  ah : H;                       (* self._loop *)
  a_idleh : option Z;           (* self._idle_asyncio_handle *)
  a_idle_handle : Z;            (* self._idle_handle *)
  a_idles : list (Z * Z);       (* self._idle_callbacks *)
  a_exc : bool;                 (* self._exc is set (the other exception) *)
  a_handles : list (Z * Z);     (* harness bookkeeping: alarm number -> host timer handle *)
  a_nalarm : Z;
  a_trace : list event;
  a_hlog : list hcall          (* ghost *)
}.

(* a host call: new host state, logged *)
Definition a_host h c s := mkA h (a_idleh s) (a_idle_handle s) (a_idles s) (a_exc s) (a_handles s) (a_nalarm s) (a_trace s) (c :: a_hlog s).
Definition a_with_idleh v s := mkA (ah s) v (a_idle_handle s) (a_idles s) (a_exc s) (a_handles s) (a_nalarm s) (a_trace s) (a_hlog s).
Definition a_with_idles ih il s := mkA (ah s) (a_idleh s) ih il (a_exc s) (a_handles s) (a_nalarm s) (a_trace s) (a_hlog s).
Definition a_with_exc v s := mkA (ah s) (a_idleh s) (a_idle_handle s) (a_idles s) v (a_handles s) (a_nalarm s) (a_trace s) (a_hlog s).
Definition a_log e s := mkA (ah s) (a_idleh s) (a_idle_handle s) (a_idles s) (a_exc s) (a_handles s) (a_nalarm s) (e :: a_trace s) (a_hlog s).

(* AsyncioEventLoop.alarm : return self._loop.call_later(seconds, self._also_call_idle(callback)) *)
Definition aop_alarm (dt id : Z) (s : astate) : astate :=
  let k := a_nalarm s in
  let '(h', hd, w) := h_call_later hst dt (TAlarm k id) (ah s) in
  mkA h' (a_idleh s) (a_idle_handle s) (a_idles s) (a_exc s) ((k, hd) :: a_handles s) (k + 1)
      (EAlarmSet k w id :: a_trace s) (CLater (h_time hst (ah s)) dt (TAlarm k id) hd w :: a_hlog s).

(* AsyncioEventLoop.remove_alarm : existed = not handle.cancelled(); handle.cancel(); return existed
   (an alarm number that was never created: nothing is called, False is logged) *)
Definition aop_remove_alarm (k : Z) (s : astate) : astate :=
  match lookup k (a_handles s) with
  | None => a_log (ERmAlarm k false) s
  | Some hd =>
      let c := h_cancelled hst hd (ah s) in
      a_log (ERmAlarm k (negb c)) (a_host (h_cancel hst hd (ah s)) (CCancel hd) (a_host (ah s) (CCancelledQ hd c) s))
  end.

(* AsyncioEventLoop.watch_file : self._loop.add_reader(fd, self._also_call_idle(callback)); return fd *)
Definition aop_watch (fd id : Z) (s : astate) : astate :=
  a_log (EWatchSet fd id) (a_host (h_add_reader hst fd id (ah s)) (CAddReader fd id) s).

(* AsyncioEventLoop.remove_watch_file : return self._loop.remove_reader(handle) *)
Definition aop_remove_watch (fd : Z) (s : astate) : astate :=
  let '(h', ok) := h_remove_reader hst fd (ah s) in
  a_log (ERmWatch fd ok) (a_host h' (CRemoveReader fd ok) s).

(* AsyncioEventLoop.enter_idle / remove_enter_idle *)
Definition aop_idle (id : Z) (s : astate) : astate :=
  let h := a_idle_handle s + 1 in
  a_log (EIdleSet h id) (a_with_idles h (a_idles s ++ [(h, id)]) s).
Definition aop_remove_idle (h : Z) (s : astate) : astate :=
  if mem h (a_idles s)
  then a_log (ERmIdle h true) (a_with_idles (a_idle_handle s) (dict_del h (a_idles s)) s)
  else a_log (ERmIdle h false) s.

Definition aexec_action (a : action) (s : astate) : astate * signal :=
  match a with
  | Nop => (s, SCont)
  | AddAlarm dt id => (aop_alarm dt id s, SCont)
  | RemoveAlarm k => (aop_remove_alarm k s, SCont)
  | AddWatch fd id => (aop_watch fd id s, SCont)
  | RemoveWatch fd => (aop_remove_watch fd s, SCont)
  | AddIdle id => (aop_idle id s, SCont)
  | RemoveIdle h => (aop_remove_idle h s, SCont)
  | Sleep d => (a_host (h_sleep hst (Z.max 0 d) (ah s)) (CSleep (Z.max 0 d)) s, SCont)
  | RaiseExit => (a_log (ERaise true) s, SExit)
  | RaiseOther => (a_log (ERaise false) s, SOther)
  end.

Fixpoint arun_actions (acts : list action) (s : astate) : astate * signal :=
  match acts with
  | [] => (s, SCont)
  | a :: r =>
    match aexec_action a s with
    | (s', SCont) => arun_actions r s'
    | x => x
    end
  end.

Definition arun_cb (beh : behaviour) (e : event) (id : Z) (s : astate) : astate * signal :=
  let n := ncalls id (a_trace s) in
  arun_actions (beh id n) (a_log e s).

(* AsyncioEventLoop._exception_handler, reached from Handle._run when the callback raised:
     loop.stop(); if self._idle_asyncio_handle: cancel it, set None;
     if not isinstance(exc, ExitMainLoop): self._exc = exc *)
Definition exception_handler (sig : signal) (s : astate) : astate :=
  match sig with
  | SCont => s
  | _ =>
    let s1 := a_host (h_stop hst (ah s)) CStop s in
    let s2 := match a_idleh s1 with
              | Some hd => a_with_idleh None (a_host (h_cancel hst hd (ah s1)) (CCancel hd) s1)
              | None => s1
              end in
    match sig with SOther => a_with_exc true s2 | _ => s2 end
  end.

(* the wrapper made by _also_call_idle :
     if not self._idle_asyncio_handle: self._idle_asyncio_handle = self._loop.call_later(0, self._entering_idle)
     return callback() *)
Definition also_call_idle (s : astate) : astate :=
  match a_idleh s with
  | Some _ => s
  | None =>
      let '(h', hd, w) := h_call_later hst 0 TIdle (ah s) in
      a_with_idleh (Some hd) (a_host h' (CLater (h_time hst (ah s)) 0 TIdle hd w) s)
  end.

(* _entering_idle : try: for handle, callback in list(items): if handle in dict: callback()
                    finally: self._idle_asyncio_handle = None *)
Fixpoint aidle_round (beh : behaviour) (snap : list (Z * Z)) (s : astate) : astate * signal :=
  match snap with
  | [] => (s, SCont)
  | (h, id) :: r =>
    if mem h (a_idles s) then
      match arun_cb beh (EIdleCall h id (h_time hst (ah s))) id s with
      | (s', SCont) => aidle_round beh r s'
      | x => x
      end
    else aidle_round beh r s
  end.

(* one handle run by the host: Handle._run = try: callback() except BaseException: call_exception_handler *)
Definition dispatch (beh : behaviour) (ev : hevent) (s : astate) : astate :=
  match ev with
  | HTimer _ (TAlarm k id) =>
      let s1 := also_call_idle s in
      let '(s2, sig) := arun_cb beh (EAlarmCall k id (h_time hst (ah s))) id s1 in
      exception_handler sig s2
  | HTimer _ TIdle =>
      let '(s1, sig) := aidle_round beh (a_idles s) s in
      exception_handler sig (a_with_idleh None s1)
  | HReader fd id =>
      let s1 := also_call_idle s in
      let '(s2, sig) := arun_cb beh (EWatchCall fd id (h_time hst (ah s))) id s1 in
      exception_handler sig s2
  | _ => s
  end.

(* AsyncioEventLoop.run : self._loop.run_forever(); if self._exc: exc, self._exc = self._exc, None; raise exc.
   [fuel] bounds the number of host decisions (OSpin = out of fuel; never reached by the harness cases) *)
Fixpoint arun_loop (fuel : nat) (beh : behaviour) (env : list step) (s : astate) : astate * outcome :=
  match fuel with
  | O => (s, OSpin)
  | S fuel' =>
    let '(h', ev, used) := h_next hst (hd_error env) (ah s) in
    let env' := if used then tl env else env in
    let s1 := a_host h' (CNext (h_time hst h') ev) s in
    match ev with
    | HSelect to regs t ready => arun_loop fuel' beh env' (a_log (ESelect to regs t ready) s1)
    | HEnvEnd to regs t => (a_log (ESelect to regs t []) s1, OEnvEnd)
    | HBlocked regs t => (a_log (ESelect None regs t []) s1, OBlocked)
    | HStopped => if a_exc s1 then (a_with_exc false s1, ORaised) else (s1, OReturned)
    | _ => arun_loop fuel' beh env' (dispatch beh ev s1)
    end
  end.

End Wrapper.

(* ====================== the asyncio host ====================== *)
Record timer := mkT { t_when : Z; t_id : Z; t_cb : tcb }.

Inductive rdy := RTimer (h : Z) (c : tcb) | RReader (h fd id : Z).

Record ahost := mkAH {
  sched : list timer;          (* self._scheduled : heapq of TimerHandle, compared by _when only *)
  ready : list rdy;            (* self._ready *)
  todo : nat;                  (* handles of the current _run_once iteration still to run *)
  cancelled : list Z;          (* handles with _cancelled set *)
  readers : list (Z * (Z * Z));(* selector map: fd -> (reader handle, callback id), registration order *)
  nextid : Z;
  stopping : bool;             (* self._stopping *)
  clock : Z
}.

Definition ah_init : ahost := mkAH [] [] 0 [] [] 0 false 0.

Definition is_cancelled (h : Z) (a : ahost) : bool := existsb (fun x => x =? h) (cancelled a).

(* ---- heapq on a Python list, elements compared with TimerHandle.__lt__ ---- *)
Definition tlt (a b : timer) : bool := t_when a <? t_when b.
Definition tnth (l : list timer) (i : nat) (d : timer) : timer := nth i l d.
Fixpoint tset (l : list timer) (i : nat) (x : timer) : list timer :=
  match l, i with
  | [], _ => []
  | _ :: r, O => x :: r
  | a :: r, S i' => a :: tset r i' x
  end.

(* heapq._siftdown(heap, startpos, pos) *)
Fixpoint siftdown (fuel : nat) (heap : list timer) (startpos pos : nat) (newitem : timer) : list timer :=
  match fuel with
  | O => tset heap pos newitem
  | S f =>
    if Nat.ltb startpos pos then
      let parentpos := Nat.div (pos - 1) 2 in
      let parent := tnth heap parentpos newitem in
      if tlt newitem parent then siftdown f (tset heap pos parent) startpos parentpos newitem
      else tset heap pos newitem
    else tset heap pos newitem
  end.

(* heapq._siftup(heap, pos) : bubble the smaller child up until a leaf, then _siftdown *)
Fixpoint siftup_loop (fuel : nat) (heap : list timer) (pos : nat) (newitem : timer) : list timer * nat :=
  match fuel with
  | O => (heap, pos)
  | S f =>
    let endpos := length heap in
    let childpos := (2 * pos + 1)%nat in
    if Nat.ltb childpos endpos then
      let rightpos := (childpos + 1)%nat in
      let c := if Nat.ltb rightpos endpos && negb (tlt (tnth heap childpos newitem) (tnth heap rightpos newitem))
               then rightpos else childpos in
      siftup_loop f (tset heap pos (tnth heap c newitem)) c newitem
    else (heap, pos)
  end.
Definition siftup (heap : list timer) (pos : nat) : list timer :=
  match nth_error heap pos with
  | None => heap
  | Some newitem =>
    let '(heap', p) := siftup_loop (length heap) heap pos newitem in
    siftdown (length heap) heap' pos p newitem
  end.

(* heapq.heappush *)
Definition heappush (heap : list timer) (x : timer) : list timer :=
  siftdown (S (length heap)) (heap ++ [x]) 0 (length heap) x.

(* heapq.heappop *)
Definition heappop (heap : list timer) : option (timer * list timer) :=
  match rev heap with
  | [] => None
  | lastelt :: rrest =>
    match rev rrest with
    | [] => Some (lastelt, [])
    | first :: rest => Some (first, siftup (lastelt :: rest) 0)
    end
  end.

(* ---- the operations the wrapper uses ---- *)
Definition ah_call_later (delay : Z) (c : tcb) (a : ahost) : ahost * Z * Z :=
  let w := clock a + delay in
  let h := nextid a in
  (mkAH (heappush (sched a) (mkT w h c)) (ready a) (todo a) (cancelled a) (readers a) (h + 1) (stopping a) (clock a), h, w).

Definition ah_cancel (h : Z) (a : ahost) : ahost :=
  if is_cancelled h a then a
  else mkAH (sched a) (ready a) (todo a) (h :: cancelled a) (readers a) (nextid a) (stopping a) (clock a).

Fixpoint rlookup (fd : Z) (l : list (Z * (Z * Z))) : option (Z * Z) :=
  match l with
  | [] => None
  | (f, v) :: r => if f =? fd then Some v else rlookup fd r
  end.
Fixpoint rset (fd : Z) (v : Z * Z) (l : list (Z * (Z * Z))) : list (Z * (Z * Z)) :=
  match l with
  | [] => [(fd, v)]
  | (f, v') :: r => if f =? fd then (fd, v) :: r else (f, v') :: rset fd v r
  end.
Fixpoint rdel (fd : Z) (l : list (Z * (Z * Z))) : list (Z * (Z * Z)) :=
  match l with
  | [] => []
  | (f, v') :: r => if f =? fd then r else (f, v') :: rdel fd r
  end.

(* BaseSelectorEventLoop._add_reader : a new Handle; register, or modify and cancel the old reader *)
Definition ah_add_reader (fd id : Z) (a : ahost) : ahost :=
  let h := nextid a in
  let a1 := mkAH (sched a) (ready a) (todo a) (cancelled a) (rset fd (h, id) (readers a)) (h + 1) (stopping a) (clock a) in
  match rlookup fd (readers a) with
  | Some (old, _) => ah_cancel old a1
  | None => a1
  end.

(* BaseSelectorEventLoop._remove_reader *)
Definition ah_remove_reader (fd : Z) (a : ahost) : ahost * bool :=
  match rlookup fd (readers a) with
  | None => (a, false)
  | Some (old, _) =>
      (ah_cancel old (mkAH (sched a) (ready a) (todo a) (cancelled a) (rdel fd (readers a)) (nextid a) (stopping a) (clock a)), true)
  end.

Definition ah_stop (a : ahost) : ahost :=
  mkAH (sched a) (ready a) (todo a) (cancelled a) (readers a) (nextid a) true (clock a).
Definition ah_sleep (d : Z) (a : ahost) : ahost :=
  mkAH (sched a) (ready a) (todo a) (cancelled a) (readers a) (nextid a) (stopping a) (clock a + d).
Definition ah_set (sc : list timer) (rd : list rdy) (td : nat) (ck : Z) (a : ahost) : ahost :=
  mkAH sc rd td (cancelled a) (readers a) (nextid a) (stopping a) ck.

(* while self._scheduled and self._scheduled[0]._cancelled: heappop *)
Fixpoint drop_cancelled_head (fuel : nat) (a : ahost) (sc : list timer) : list timer :=
  match fuel with
  | O => sc
  | S f =>
    match sc with
    | t :: _ => if is_cancelled (t_id t) a
                then match heappop sc with Some (_, sc') => drop_cancelled_head f a sc' | None => sc end
                else sc
    | [] => sc
    end
  end.

(* while self._scheduled: handle = self._scheduled[0]; if handle._when >= end_time: break; pop; ready.append *)
Fixpoint move_due (fuel : nat) (end_time : Z) (sc : list timer) (rd : list rdy) : list timer * list rdy :=
  match fuel with
  | O => (sc, rd)
  | S f =>
    match sc with
    | t :: _ => if end_time <=? t_when t then (sc, rd)
                else match heappop sc with
                     | Some (t', sc') => move_due f end_time sc' (rd ++ [RTimer (t_id t') (t_cb t')])
                     | None => (sc, rd)
                     end
    | [] => (sc, rd)
    end
  end.

(* the poll of one _run_once iteration, with the environment semantics of SelectLoop.do_select ;
   _process_events: a reported reader is queued (it cannot be cancelled: cancelling unregisters it) *)
Definition ah_poll (st : option step) (a : ahost) : ahost * hevent * bool :=
  let sc := drop_cancelled_head (length (sched a)) a (sched a) in
  let timeout :=
    match ready a, stopping a with
    | _ :: _, _ => Some 0
    | [], true => Some 0
    | [], false => match sc with t :: _ => Some (Z.max 0 (t_when t - clock a)) | [] => None end
    end in
  let regs := map fst (readers a) in
  match st with
  | None => (ah_set sc (ready a) 0 (clock a) a, HEnvEnd timeout regs (clock a), false)
  | Some s =>
    let d := Z.max 0 (s_dt s) in
    let evs := flat_map (fun fd => match rlookup fd (readers a) with Some (h, id) => [RReader h fd id] | None => [] end) (s_fds s) in
    let rfds := flat_map (fun fd => match rlookup fd (readers a) with Some _ => [fd] | None => [] end) (s_fds s) in
    match evs, timeout with
    | [], None => (ah_set sc (ready a) 0 (clock a) a, HBlocked regs (clock a), true)
    | _, _ =>
      let ck := match evs, timeout with
                | [], Some t => clock a + t + d
                | _, None => clock a + d
                | _, Some t => clock a + Z.min d t
                end in
      let '(sc', rd') := move_due (length sc) (ck + 1) sc (ready a ++ evs) in   (* when < end_time, resolution < 1 tick *)
      (ah_set sc' rd' (length rd') ck a, HSelect timeout regs (clock a) rfds, true)
    end
  end.

(* the next decision: run the next handle of this iteration, or end the iteration / start a new one *)
Fixpoint ah_next_ready (rd : list rdy) (td : nat) (a : ahost) : option (ahost * hevent) :=
  match td, rd with
  | S td', r :: rest =>
      let h := match r with RTimer h _ => h | RReader h _ _ => h end in
      if is_cancelled h a then ah_next_ready rest td' a
      else Some (ah_set (sched a) rest td' (clock a) a,
                 match r with RTimer h c => HTimer h c | RReader _ fd id => HReader fd id end)
  | _, _ => None
  end.

Definition ah_skip_cancelled (a : ahost) : ahost :=
  (* the cancelled handles at the front of this iteration are popped without being run *)
  let fix go (rd : list rdy) (td : nat) : list rdy * nat :=
    match td, rd with
    | S td', r :: rest =>
        let h := match r with RTimer h _ => h | RReader h _ _ => h end in
        if is_cancelled h a then go rest td' else (rd, td)
    | _, _ => (rd, td)
    end in
  let '(rd', td') := go (ready a) (todo a) in
  ah_set (sched a) rd' td' (clock a) a.

Definition ah_next (st : option step) (a : ahost) : ahost * hevent * bool :=
  match ah_next_ready (ready a) (todo a) a with
  | Some (a', ev) => (a', ev, false)
  | None =>
      let a1 := ah_skip_cancelled a in
      let a2 := ah_set (sched a1) (ready a1) 0 (clock a1) a1 in
      if stopping a2 then
        (mkAH (sched a2) (ready a2) 0 (cancelled a2) (readers a2) (nextid a2) false (clock a2), HStopped, false)
      else ah_poll st a2
  end.

Definition asyncio_host : host ahost :=
  mkHost ahost clock ah_call_later is_cancelled ah_cancel ah_add_reader ah_remove_reader ah_stop ah_sleep ah_next.

Definition a_init : astate ahost := mkA ahost ah_init None 0 [] false [] 0 [] [].

Definition ascenario (setup : list action) (beh : behaviour) (env : list step) : astate ahost * outcome :=
  let s0 := fst (arun_actions ahost asyncio_host setup a_init) in
  arun_loop ahost asyncio_host (64 * (S (length env)) + 64 * length setup + 256) beh env s0.

Definition enc_aresult (r : astate ahost * outcome) : list Z :=
  let '(s, o) := r in
  [enc_outcome o; enc_bool (a_exc ahost s); clock (ah ahost s)]
    ++ enc_list [] ++ enc_list (flat_map (fun p => [fst p; snd (snd p)]) (readers (ah ahost s)))
    ++ enc_list (flat_map (fun p => [fst p; snd p]) (a_idles ahost s))
    ++ [zlen (a_trace ahost s)] ++ flat_map enc_event (rev (a_trace ahost s)).

Definition run_asyncio_case (l : list Z) : list Z :=
  match l with
  | ns :: r0 =>
    let '(setup, r1) := dec_actions (Z.to_nat ns) r0 in
    match r1 with
    | nb :: r2 =>
      let '(tbl, r3) := dec_beh (Z.to_nat nb) r2 in
      match r3 with
      | ne :: r4 => enc_aresult (ascenario setup (beh_of tbl) (dec_env (Z.to_nat ne) r4))
      | _ => [-1]
      end
    | _ => [-1]
    end
  | _ => [-1]
  end.
