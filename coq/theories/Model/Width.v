(* C11 - executable model of urwid's screen-width arithmetic.
   urwid/str_util.py, urwid/util.py (calc_trim_text, trim_text_attr_cs, apply_target_encoding, rle functions).
   No proofs here.  Translated parts (regenerated from the source on every run) are in
   Gen/str_util_gen.v: get_char_width_gen, decode_one_arith_gen, calc_trim_text_gen and the
   DEC tables; the width table is Gen/wcwidth_table_gen.v.  Everything else mirrors the Python
   line by line and is tied to it by the extracted-model correspondence.

   Text: str = list of code points, bytes = list of bytes (both [list Z]).  [tmode] says which:
   a str, or bytes under the process-global _byte_encoding 'utf8' | 'wide' | 'narrow'. *)
From Coq Require Import ZArith List Bool Lia.
Import ListNotations.
From Urwid Require Import PyBase PyList Utf8 wcwidth_table_gen str_util_gen str_loops_gen.
Open Scope Z_scope.

(* ---------- the width table as a search tree (built once from the generated list) ---------- *)
Inductive wtree := WLeaf | WNode (l : wtree) (lo hi w : Z) (r : wtree).

Fixpoint wtree_build (fuel : nat) (t : list (Z * Z * Z)) : wtree :=
  match fuel with
  | O => WLeaf
  | S f =>
      let k := Nat.div2 (length t) in
      match skipn k t with
      | [] => WLeaf
      | (lo, hi, w) :: r => WNode (wtree_build f (firstn k t)) lo hi w (wtree_build f r)
      end
  end.

Fixpoint wtree_lookup (t : wtree) (c : Z) : Z :=
  match t with
  | WLeaf => 1
  | WNode l lo hi w r => if c <? lo then wtree_lookup l c else if hi <? c then wtree_lookup r c else w
  end.

Fixpoint wtree_size (t : wtree) : Z :=
  match t with WLeaf => 0 | WNode l _ _ _ r => wtree_size l + 1 + wtree_size r end.

Definition wc_tree : wtree := wtree_build 40 wcwidth_table.
(* wcwidth.wcwidth(chr(c)) as dumped from the installed package *)
Definition wcwidth_tab (c : Z) : Z := wtree_lookup wc_tree c.

Inductive tmode := MStr | MUtf8 | MWide | MNarrow.
(* isinstance(text, str) and _byte_encoding, as the generated functions of Gen/str_loops_gen.v take them *)
Definition is_str_of (m : tmode) : bool := match m with MStr => true | _ => false end.
Definition benc_of (m : tmode) : benc := match m with MUtf8 => EUtf8 | MWide => EWide | _ => ENarrow end.

Definition oz_eqb (a b : oz) : bool :=
  match a, b with
  | None, None => true
  | Some x, Some y => x =? y
  | _, _ => false
  end.

(* text[a:b] for integers a b (negative indices as in Python) *)
Definition py_slice {A} (l : list A) (a b : Z) : list A :=
  let '(s, e, _) := slice_indices (zlen l) (Some a) (Some b) None in
  if s <? e then takez (e - s) (dropz s l) else [].

Section Width.
Variable wcw : Z -> Z.          (* wcwidth.wcwidth(chr(c)) *)

(* str_util.get_char_width (translated) *)
Definition cw (c : Z) : Z := get_char_width_gen wcw c.

(* str_util.get_width(o) = get_char_width(chr(o)); chr raises ValueError outside range(0x110000) *)
Definition get_width (o : Z) : result Z :=
  if (0 <=? o) && (o <? 1114112) then Ok (cw o) else Err ValueError.

Fixpoint wsum (l : list Z) : Z :=
  match l with [] => 0 | c :: r => cw c + wsum r end.

(* str_util.decode_one for bytes: the try block fetches b1..b4 (any exception -> ValueError),
   then the translated arithmetic *)
Definition decode_one (text : list Z) (pos : Z) : result (Z * Z) :=
  let lt := zlen text - pos in
  match get_index text pos with
  | Err _ => Err ValueError
  | Ok b1 =>
    match (if 1 <? lt then get_index text (pos + 1) else Ok 0) with
    | Err _ => Err ValueError
    | Ok b2 =>
      match (if 2 <? lt then get_index text (pos + 2) else Ok 0) with
      | Err _ => Err ValueError
      | Ok b3 =>
        match (if 3 <? lt then get_index text (pos + 3) else Ok 0) with
        | Err _ => Err ValueError
        | Ok b4 => Ok (decode_one_arith_gen b1 b2 b3 b4 lt pos)
        end
      end
    end
  end.

(* str_util.within_double_byte.  [wdb_scan]: i = pos - 1; while i >= line_start: if text[i] < 0x80: break; i -= 1 *)
Fixpoint wdb_scan (text : list Z) (n : nat) (i line_start : Z) : result Z :=
  if line_start <=? i then
    match n with
    | O => Err RuntimeErrorK                      (* out of fuel: never (n = pos - line_start) *)
    | S k =>
        match get_index text i with
        | Err e => Err e
        | Ok b => if b <? 128 then Ok i else wdb_scan text k (i - 1) line_start
        end
    end
  else Ok i.

Fixpoint wdb (fuel : nat) (text : list Z) (line_start pos : Z) : result Z :=
  match fuel with
  | O => Err RuntimeErrorK                        (* never: the recursion depth is at most 2 *)
  | S f =>
    match get_index text pos with
    | Err e => Err e
    | Ok v =>
      if (64 <=? v) && (v <? 127) then
        if pos =? line_start then Ok 0
        else
          match get_index text (pos - 1) with
          | Err e => Err e
          | Ok p1 =>
              if 129 <=? p1 then
                match wdb f text line_start (pos - 1) with
                | Err e => Err e
                | Ok r => if r =? 1 then Ok 2 else Ok 0
                end
              else Ok 0
          end
      else if v <? 128 then Ok 0
      else
        match wdb_scan text (Z.to_nat (pos - line_start)) (pos - 1) line_start with
        | Err e => Err e
        | Ok i => if negb (Z.land (pos - i) 1 =? 0) then Ok 1 else Ok 2
        end
    end
  end.

Definition within_double_byte (text : list Z) (line_start pos : Z) : result Z :=
  wdb 3 text line_start pos.

(* str_util.calc_string_text_pos: for idx in range(start_offs, end_offs) *)
Fixpoint cstp_loop (text : list Z) (n : nat) (idx cols pref_col end_offs : Z) : result (Z * Z) :=
  match n with
  | O => Ok (end_offs, cols)
  | S k =>
      match get_index text idx with
      | Err e => Err e
      | Ok ch =>
          let width := cw ch in
          if pref_col <? width + cols then Ok (idx, cols)
          else cstp_loop text k (idx + 1) (cols + width) pref_col end_offs
      end
  end.

Definition calc_string_text_pos (text : list Z) (start_offs end_offs pref_col : Z) : result (Z * Z) :=
  if end_offs <? start_offs then Err ValueError
  else cstp_loop text (Z.to_nat (end_offs - start_offs)) start_offs 0 pref_col end_offs.

(* calc_text_pos, _byte_encoding == "utf8": while i < end_offs *)
Fixpoint ctp_utf8_loop (text : list Z) (fuel : nat) (i sc end_offs pref_col : Z) : result (Z * Z) :=
  if i <? end_offs then
    match fuel with
    | O => Err RuntimeErrorK                      (* never: i grows by at least 1 per round *)
    | S k =>
        match decode_one text i with
        | Err e => Err e
        | Ok (o, n) =>
            match get_width o with
            | Err e => Err e
            | Ok w =>
                if pref_col <? w + sc then Ok (i, sc)
                else ctp_utf8_loop text k n (sc + w) end_offs pref_col
            end
        end
    end
  else Ok (i, sc).

(* str_util.calc_text_pos *)
Definition calc_text_pos (m : tmode) (text : list Z) (start_offs end_offs pref_col : Z) : result (Z * Z) :=
  if end_offs <? start_offs then Err ValueError
  else
    match m with
    | MStr => calc_string_text_pos text start_offs end_offs pref_col
    | MUtf8 => ctp_utf8_loop text (Z.to_nat (end_offs - start_offs)) start_offs 0 end_offs pref_col
    | _ =>
        let i := start_offs + pref_col in
        if end_offs <=? i then Ok (end_offs, end_offs - start_offs)
        else
          match m with
          | MWide =>
              match within_double_byte text start_offs i with
              | Err e => Err e
              | Ok r => let i' := if r =? 2 then i - 1 else i in Ok (i', i' - start_offs)
              end
          | _ => Ok (i, i - start_offs)
          end
    end.

(* calc_width, utf8 fallback: while i < end_offs: o, i = decode_one(text, i); sc += get_width(o) *)
Fixpoint cw_utf8_loop (text : list Z) (fuel : nat) (i sc end_offs : Z) : result Z :=
  if i <? end_offs then
    match fuel with
    | O => Err RuntimeErrorK
    | S k =>
        match decode_one text i with
        | Err e => Err e
        | Ok (o, n) =>
            match get_width o with
            | Err e => Err e
            | Ok w => cw_utf8_loop text k n (sc + w) end_offs
            end
        end
    end
  else Ok sc.

(* str_util.calc_width *)
Definition calc_width (m : tmode) (text : list Z) (start_offs end_offs : Z) : result Z :=
  if end_offs <? start_offs then Err ValueError
  else
    match m with
    | MStr => Ok (wsum (py_slice text start_offs end_offs))
    | MUtf8 =>
        match strict_decode (py_slice text start_offs end_offs) with
        | Some cs => Ok (wsum cs)
        | None => cw_utf8_loop text (Z.to_nat (end_offs - start_offs)) start_offs 0 end_offs
        end
    | _ => Ok (end_offs - start_offs)
    end.

(* str_util.is_wide_char *)
Definition is_wide_char (m : tmode) (text : list Z) (offs : Z) : result bool :=
  match m with
  | MStr => match get_index text offs with Err e => Err e | Ok ch => Ok (cw ch =? 2) end
  | MUtf8 =>
      match decode_one text offs with
      | Err e => Err e
      | Ok (o, _) => match get_width o with Err e => Err e | Ok w => Ok (w =? 2) end
      end
  | MWide => match within_double_byte text offs offs with Err e => Err e | Ok r => Ok (r =? 1) end
  | MNarrow => Ok false
  end.

(* move_prev_char, utf8: o = end_offs - 1; while text[o] & 0xC0 == 0x80: o -= 1 *)
Fixpoint mpc_loop (text : list Z) (fuel : nat) (o : Z) : result Z :=
  match fuel with
  | O => Err RuntimeErrorK                        (* never: IndexError after at most 2 len + 1 rounds *)
  | S k =>
      match get_index text o with
      | Err e => Err e
      | Ok b => if Z.land b 192 =? 128 then mpc_loop text k (o - 1) else Ok o
      end
  end.

Definition move_prev_char (m : tmode) (text : list Z) (start_offs end_offs : Z) : result Z :=
  if end_offs <=? start_offs then Err ValueError
  else
    match m with
    | MStr => Ok (end_offs - 1)
    | MUtf8 => mpc_loop text (Z.to_nat (2 * zlen text + Z.abs end_offs + 3)) (end_offs - 1)
    | MWide =>
        match within_double_byte text start_offs (end_offs - 1) with
        | Err e => Err e
        | Ok r => if r =? 2 then Ok (end_offs - 2) else Ok (end_offs - 1)
        end
    | MNarrow => Ok (end_offs - 1)
    end.

(* move_next_char, utf8: o = start_offs + 1; while o < end_offs and text[o] & 0xC0 == 0x80: o += 1 *)
Fixpoint mnc_loop (text : list Z) (fuel : nat) (o end_offs : Z) : result Z :=
  if o <? end_offs then
    match fuel with
    | O => Err RuntimeErrorK
    | S k =>
        match get_index text o with
        | Err e => Err e
        | Ok b => if Z.land b 192 =? 128 then mnc_loop text k (o + 1) end_offs else Ok o
        end
    end
  else Ok o.

Definition move_next_char (m : tmode) (text : list Z) (start_offs end_offs : Z) : result Z :=
  if end_offs <=? start_offs then Err ValueError
  else
    match m with
    | MStr => Ok (start_offs + 1)
    | MUtf8 => mnc_loop text (Z.to_nat (end_offs - start_offs)) (start_offs + 1) end_offs
    | MWide =>
        match within_double_byte text start_offs start_offs with
        | Err e => Err e
        | Ok r => if r =? 1 then Ok (start_offs + 2) else Ok (start_offs + 1)
        end
    | MNarrow => Ok (start_offs + 1)
    end.

(* util.calc_trim_text (translated; str_util.calc_text_pos is its parameter) *)
Definition calc_trim_text (m : tmode) (text : list Z) (start_offs end_offs start_col end_col : Z)
  : result (Z * Z * Z * Z) :=
  calc_trim_text_gen (list Z) (calc_text_pos m) text start_offs end_offs start_col end_col.

End Width.

(* ---------- run-length lists (util.rle functions): attribute = option Z (None is Python's None) ---------- *)
Definition rle := list (oz * Z).

(* util.rle_len *)
Fixpoint rle_len {A} (r : list (A * Z)) : Z :=
  match r with [] => 0 | (_, n) :: t => n + rle_len t end.

(* util.rle_get_at *)
Fixpoint rle_get_at_loop (r : rle) (x pos : Z) : oz :=
  match r with
  | [] => None
  | (a, run) :: t => if pos <? x + run then a else rle_get_at_loop t (x + run) pos
  end.
Definition rle_get_at (r : rle) (pos : Z) : oz :=
  if pos <? 0 then None else rle_get_at_loop r 0 pos.

(* util.rle_subseg: the loop state is (start, x); [break] ends the recursion *)
Fixpoint rle_subseg_loop {A} (r : list (A * Z)) (start x end_ : Z) : list (A * Z) :=
  match r with
  | [] => []
  | (a, run) :: t =>
      if negb (start =? 0) && (run <=? start) then rle_subseg_loop t (start - run) (x + run) end_
      else
        let '(x1, run1) := if negb (start =? 0) then (x + start, run - start) else (x, run) in
        if end_ <=? x1 then []
        else
          let run2 := if end_ <? x1 + run1 then end_ - x1 else run1 in
          (a, run2) :: rle_subseg_loop t 0 (x1 + run2) end_
  end.
Definition rle_subseg {A} (r : list (A * Z)) (start end_ : Z) : list (A * Z) :=
  rle_subseg_loop r start 0 end_.

(* util.rle_prepend_modify / rle_append_modify / rle_join_modify, as functions returning the new list *)
Definition rle_prepend_modify (r : rle) (a : oz) (n : Z) : rle :=
  match r with
  | [] => [(a, n)]
  | (al, run) :: t => if oz_eqb a al then (a, run + n) :: t else (a, n) :: r
  end.

Fixpoint rle_append_core {A} (eqb : A -> A -> bool) (r : list (A * Z)) (a : A) (n : Z) : list (A * Z) :=
  match r with
  | [] => [(a, n)]
  | [(la, lr)] => if eqb la a then [(a, lr + n)] else [(la, lr); (a, n)]
  | x :: t => x :: rle_append_core eqb t a n
  end.
(* "if not r: return": a zero-length run is ignored *)
Definition rle_append_modify_gen {A} (eqb : A -> A -> bool) (r : list (A * Z)) (a : A) (n : Z) : list (A * Z) :=
  if n =? 0 then r else rle_append_core eqb r a n.
Definition rle_append_modify (r : rle) (a : oz) (n : Z) : rle := rle_append_modify_gen oz_eqb r a n.

Definition rle_join_modify (r r2 : rle) : rle :=
  match r2 with
  | [] => r
  | (a, n) :: t => rle_append_modify r a n ++ t
  end.

(* util.rle_product: while r1 and r2 *)
Definition pair_eqb (p q : oz * oz) : bool := oz_eqb (fst p) (fst q) && oz_eqb (snd p) (snd q).
Fixpoint rle_product_loop (fuel : nat) (a1 : oz) (r1 : Z) (t1 : rle) (a2 : oz) (r2 : Z) (t2 : rle)
         (res : list ((oz * oz) * Z)) : result (list ((oz * oz) * Z)) :=
  if negb (r1 =? 0) && negb (r2 =? 0) then
    match fuel with
    | O => Err RuntimeErrorK
    | S k =>
        let r := Z.min r1 r2 in
        let res' := rle_append_modify_gen pair_eqb res (a1, a2) r in
        let r1' := r1 - r in
        let '(a1', r1'', t1') :=
          match (r1' =? 0), t1 with
          | true, (a, n) :: t => (a, n, t)
          | _, _ => (a1, r1', t1)
          end in
        let r2' := r2 - r in
        let '(a2', r2'', t2') :=
          match (r2' =? 0), t2 with
          | true, (a, n) :: t => (a, n, t)
          | _, _ => (a2, r2', t2)
          end in
        rle_product_loop k a1' r1'' t1' a2' r2'' t2' res'
    end
  else Ok res.
Definition rle_product (x y : rle) : result (list ((oz * oz) * Z)) :=
  match x, y with
  | (a1, r1) :: t1, (a2, r2) :: t2 =>
      rle_product_loop (S (length x + length y)) a1 r1 t1 a2 r2 t2 []
  | _, _ => Ok []
  end.

(* util.trim_text_attr_cs (text is bytes under mode m) *)
Definition trim_text_attr_cs (wcw : Z -> Z) (m : tmode) (text : list Z) (attr cs : rle) (start_col end_col : Z)
  : result (list Z * rle * rle) :=
  match calc_trim_text wcw m text 0 (zlen text) start_col end_col with
  | Err e => Err e
  | Ok (spos, epos, pad_left, pad_right) =>
      let attrtr := rle_subseg attr spos epos in
      let cstr := rle_subseg cs spos epos in
      let '(attrtr, cstr) :=
        if negb (pad_left =? 0) then
          (rle_prepend_modify attrtr (rle_get_at attr (spos - 1)) 1, rle_prepend_modify cstr None 1)
        else (attrtr, cstr) in
      let '(attrtr, cstr) :=
        if negb (pad_right =? 0) then
          (rle_append_modify attrtr (rle_get_at attr epos) 1, rle_append_modify cstr None 1)
        else (attrtr, cstr) in
      Ok (repeat 32 (Z.to_nat pad_left) ++ py_slice text spos epos ++ repeat 32 (Z.to_nat pad_right), attrtr, cstr)
  end.

(* ---------- util.apply_target_encoding ---------- *)
Section Encode.
Variable enc : Z -> list Z.     (* codecs.encode(chr(c), _target_encoding, "replace") *)

(* escape.DEC_SPECIAL_CHARMAP: for c, alt in zip(...): map[ord(c)] = SO + alt + SI  (later wins) *)
Definition dec_charmap : list (Z * Z) := combine dec_special_chars alt_dec_special_chars.
Fixpoint assoc_last (c : Z) (m : list (Z * Z)) (found : option Z) : option Z :=
  match m with
  | [] => found
  | (k, v) :: t => assoc_last c t (if k =? c then Some v else found)
  end.
Definition dec_alt (c : Z) : option Z := assoc_last c dec_charmap None.

(* s.translate(DEC_SPECIAL_CHARMAP) *)
Definition translate_dec (s : list Z) : list Z :=
  flat_map (fun c => match dec_alt c with Some a => [esc_SO; a; esc_SI] | None => [c] end) s.

(* s.replace(SI + SO, "") *)
Fixpoint remove_si_so (s : list Z) : list Z :=
  match s with
  | a :: t =>
      match t with
      | b :: r => if (a =? esc_SI) && (b =? esc_SO) then remove_si_so r else a :: remove_si_so t
      | [] => [a]
      end
  | [] => []
  end.

(* bytes.split(sep): never empty *)
Fixpoint split_all (sep : Z) (l : list Z) : list (list Z) :=
  match l with
  | [] => [[]]
  | x :: r =>
      let segs := split_all sep r in
      if x =? sep then [] :: segs
      else match segs with h :: t => (x :: h) :: t | [] => [[x]] end
  end.

(* bytes.split(sep, 1): None when sep does not occur *)
Fixpoint split_first (sep : Z) (l : list Z) : option (list Z * list Z) :=
  match l with
  | [] => None
  | x :: r =>
      if x =? sep then Some ([], r)
      else match split_first sep r with Some (a, b) => Some (x :: a, b) | None => None end
  end.

Definition drop_si (l : list Z) : list Z := filter (fun b => negb (b =? esc_SI)) l.
Definition nonempty {A} (l : list A) : bool := match l with [] => false | _ => true end.

Definition ate_step (acc : list (list Z) * rle) (sn : list Z) : list (list Z) * rle :=
  let '(sout, cout) := acc in
  match split_first esc_SI sn with
  | None => (sout ++ [sn], rle_append_modify cout (Some esc_DEC_TAG) (zlen sn))
  | Some (sin, son) =>
      let son := drop_si son in
      let '(sout, cout) :=
        if nonempty sin then (sout ++ [sin], rle_append_modify cout (Some esc_DEC_TAG) (zlen sin))
        else (sout, cout) in
      if nonempty son then (sout ++ [son], rle_append_modify cout None (zlen son))
      else (sout, cout)
  end.

(* the bytes part: split on SO, then on the first SI *)
Definition ate_bytes (s : list Z) : list Z * rle :=
  match split_all esc_SO s with
  | [] => ([], [])
  | s0 :: rest =>
      let sis0 := drop_si s0 in
      let sout := if nonempty sis0 then [sis0] else [] in
      let cout : rle := if nonempty sis0 then [(None, zlen sis0)] else [] in
      match rest with
      | [] => (sis0, cout)
      | _ => let '(sout, cout) := fold_left ate_step rest (sout, cout) in (concat sout, cout)
      end
  end.

Definition apply_target_encoding (use_dec_special : bool) (s : list Z) : list Z * rle :=
  let s1 := if use_dec_special then translate_dec s else s in
  let s2 := remove_si_so s1 in
  ate_bytes (flat_map enc s2).

End Encode.

(* ==================== the same functions, assembled from the GENERATED loops ====================
   (Gen/str_loops_gen.v, re-translated from the source on every run).  Proofs/GenEq.v proves each of them
   equal to the hand-written specification above for all inputs; the extracted model runs these. *)
Definition within_double_byte_g (text : list Z) (line_start pos : Z) : result Z :=
  within_double_byte_gen 3 text line_start pos.
Definition calc_text_pos_g (wcw : Z -> Z) (m : tmode) (text : list Z) (a b col : Z) : result (Z * Z) :=
  calc_text_pos_gen (calc_string_text_pos_gen (cw wcw)) decode_one (get_width wcw) within_double_byte_g
                    (is_str_of m) (benc_of m) text a b col.
Definition move_next_char_g (m : tmode) (text : list Z) (a b : Z) : result Z :=
  move_next_char_gen within_double_byte_g (is_str_of m) (benc_of m) text a b.
Definition move_prev_char_g (m : tmode) (text : list Z) (a b : Z) : result Z :=
  move_prev_char_gen within_double_byte_g (is_str_of m) (benc_of m) text a b.
Definition calc_trim_text_g (wcw : Z -> Z) (m : tmode) (text : list Z) (a b sc ec : Z) : result (Z * Z * Z * Z) :=
  calc_trim_text_gen (list Z) (calc_text_pos_g wcw m) text a b sc ec.
(* calc_width: the str path, the strict decode and the dispatch are hand-written; the fallback loop is generated *)
Definition calc_width_g (wcw : Z -> Z) (m : tmode) (text : list Z) (a b : Z) : result Z :=
  if b <? a then Err ValueError
  else
    match m with
    | MStr => Ok (wsum wcw (py_slice text a b))
    | MUtf8 =>
        match strict_decode (py_slice text a b) with
        | Some cs => Ok (wsum wcw cs)
        | None => calc_width_fallback_gen decode_one (get_width wcw) text a b
        end
    | _ => Ok (b - a)
    end.
Definition is_wide_char_g (wcw : Z -> Z) (m : tmode) (text : list Z) (offs : Z) : result bool :=
  is_wide_char_gen (cw wcw) decode_one (get_width wcw) within_double_byte_g (is_str_of m) (benc_of m) text offs.

(* ==================== wire format (harness <-> extracted model) ==================== *)
Definition dec_mode (m : Z) : tmode :=
  if m =? 0 then MStr else if m =? 1 then MUtf8 else if m =? 2 then MWide else MNarrow.

Definition reply {A} (r : result A) (f : A -> list Z) : list Z :=
  match r with
  | Ok a => 0 :: f a
  | Err e => [errcode e; 0; 0; 0; 0]
  end.

(* one query = 5 integers [f; a; b; c; d]; one reply = 5 integers [status; v1; v2; v3; v4] *)
Definition answer (m : tmode) (text : list Z) (f a b c d : Z) : list Z :=
  let W := wcwidth_tab in
  if f =? 1 then reply (calc_width_g W m text a b) (fun w => [w; 0; 0; 0])
  else if f =? 2 then reply (calc_text_pos_g W m text a b c) (fun '(p, sc) => [p; sc; 0; 0])
  else if f =? 3 then reply (move_next_char_g m text a b) (fun p => [p; 0; 0; 0])
  else if f =? 4 then reply (move_prev_char_g m text a b) (fun p => [p; 0; 0; 0])
  else if f =? 5 then reply (is_wide_char_g W m text a) (fun x => [enc_bool x; 0; 0; 0])
  else if f =? 6 then reply (within_double_byte_g text a b) (fun r => [r; 0; 0; 0])
  else if f =? 7 then reply (calc_trim_text_g W m text a b c d)
                            (fun '(sp, ep, pl, pr) => [sp; ep; pl; pr])
  else if f =? 8 then reply (decode_one text a) (fun '(o, n) => [o; n; 0; 0])
  else [-1; 0; 0; 0; 0].

Fixpoint answers (m : tmode) (text : list Z) (q : list Z) : list Z :=
  match q with
  | f :: a :: b :: c :: d :: r => answer m text f a b c d ++ answers m text r
  | _ => []
  end.

Fixpoint widths_from (n : nat) (c : Z) : list Z :=
  match n with O => [] | S k => cw wcwidth_tab c :: widths_from k (c + 1) end.

Definition dec_attr (v : Z) : oz := if v <? 0 then None else Some v.
Definition enc_attr (a : oz) : Z := match a with None => -1 | Some v => v end.
Fixpoint dec_rle_pairs (l : list Z) : rle :=
  match l with a :: n :: r => (dec_attr a, n) :: dec_rle_pairs r | _ => [] end.
Definition dec_rle (l : list Z) : option (rle * list Z) :=
  match l with
  | n :: r => if (n <? 0) || (zlen r <? 2 * n) then None
              else Some (dec_rle_pairs (takez (2 * n) r), dropz (2 * n) r)
  | [] => None
  end.
Definition enc_rle (r : rle) : list Z := zlen r :: flat_map (fun '(a, n) => [enc_attr a; n]) r.
Definition enc_rle2 (r : list ((oz * oz) * Z)) : list Z :=
  zlen r :: flat_map (fun '((a, b), n) => [enc_attr a; enc_attr b; n]) r.

(* codec table on the wire: entries  c len b1..blen ; unknown characters encode to "?" *)
Fixpoint dec_codec (fuel : nat) (l : list Z) : list (Z * list Z) :=
  match fuel with
  | O => []
  | S k =>
      match l with
      | c :: r => match dec_list r with Some (bs, r') => (c, bs) :: dec_codec k r' | None => [] end
      | [] => []
      end
  end.
Fixpoint codec_lookup (t : list (Z * list Z)) (c : Z) : list Z :=
  match t with [] => [63] | (k, bs) :: r => if k =? c then bs else codec_lookup r c end.

Definition run_rle_op (l : list Z) : list Z :=
  match l with
  | 1 :: r =>       (* rle_subseg rle start end *)
      match dec_rle r with
      | Some (x, s :: e :: _) => match rle_subseg_gen x s e with Ok y => enc_rle y | Err er => [-1 - errcode er] end
      | _ => [-1]
      end
  | 2 :: r =>       (* rle_get_at rle pos *)
      match dec_rle r with
      | Some (x, p :: _) => match rle_get_at_gen x p with Ok a => [enc_attr a] | Err er => [-1 - errcode er] end
      | _ => [-1]
      end
  | 3 :: r =>       (* rle_len *)
      match dec_rle r with
      | Some (x, _) => match rle_len_gen x with Ok n => [n] | Err er => [-1 - errcode er] end
      | _ => [-1]
      end
  | 4 :: r =>       (* rle_product *)
      match dec_rle r with
      | Some (x, r') =>
          match dec_rle r' with
          | Some (y, _) => match rle_product x y with Ok p => 0 :: enc_rle2 p | Err e => [errcode e] end
          | None => [-1]
          end
      | None => [-1]
      end
  | 5 :: r =>       (* rle_append_modify rle (a, n) *)
      match dec_rle r with Some (x, a :: n :: _) => enc_rle (rle_append_modify x (dec_attr a) n) | _ => [-1] end
  | 6 :: r =>       (* rle_prepend_modify *)
      match dec_rle r with Some (x, a :: n :: _) => enc_rle (rle_prepend_modify x (dec_attr a) n) | _ => [-1] end
  | 7 :: r =>       (* rle_join_modify *)
      match dec_rle r with
      | Some (x, r') => match dec_rle r' with Some (y, _) => enc_rle (rle_join_modify x y) | None => [-1] end
      | None => [-1]
      end
  | _ => [-1]
  end.

Definition run_case (l : list Z) : list Z :=
  match l with
  | 1 :: m :: r =>                         (* text queries *)
      match dec_list r with
      | Some (text, q) => answers (dec_mode m) text q
      | None => [-1]
      end
  | 2 :: lo :: hi :: _ =>                  (* widths of the code points lo .. hi-1 *)
      widths_from (Z.to_nat (hi - lo)) lo
  | 3 :: ud :: isb :: r =>                 (* apply_target_encoding (isb: the argument is bytes) *)
      match dec_list r with
      | Some (s, tab) =>
          let codec := dec_codec (length tab) tab in
          let '(out, cs) := if isb =? 0 then apply_target_encoding (codec_lookup codec) (negb (ud =? 0)) s
                            else ate_bytes s in
          enc_list out ++ enc_rle cs
      | None => [-1]
      end
  | 4 :: r => run_rle_op r
  | 5 :: s =>                              (* str.encode("utf-8") and the boundary offsets *)
      match utf8_encode_str s with
      | Ok b => 0 :: enc_list b ++ enc_list (map (fun k => boff s (Z.of_nat k)) (seq 0 (S (length s))))
      | Err e => [errcode e]
      end
  | 6 :: m :: sc :: ec :: r =>             (* trim_text_attr_cs *)
      match dec_list r with
      | Some (text, r1) =>
          match dec_rle r1 with
          | Some (attr, r2) =>
              match dec_rle r2 with
              | Some (cs, _) =>
                  match trim_text_attr_cs wcwidth_tab (dec_mode m) text attr cs sc ec with
                  | Ok (t, a, c) => 0 :: enc_list t ++ enc_rle a ++ enc_rle c
                  | Err e => [errcode e]
                  end
              | None => [-1]
              end
          | None => [-1]
          end
      | None => [-1]
      end
  | _ => [-1]
  end.
