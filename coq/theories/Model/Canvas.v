(* Executable model of urwid/canvas.py (shard machinery and composite canvas operations).
   Hand-written, line for line after the Python (the Python function is named above every
   definition) and tied to the code by the exact correspondence in harness/props/c02.py
   (content cell for cell, cols/rows, cursor, pop-up, AND the internal shards tuples).
   No proofs here.

   Abstractions made (and only these):
   * a leaf text canvas row is a list of screen CELLS, not bytes: a cell is a narrow
     character, the left half of a double-width character, or its right half; zero-width
     code points ride in the [cch] list of the cell they follow.  Run-length attribute and
     charset lists are expanded to one value per cell.  [trim_cells] is the cell-level
     reading of util.trim_text_attr_cs/calc_trim_text (a cut double-width character becomes
     one space carrying the character's attribute and charset None).
   * Python iterators over a canvas' content are (cview, rows-done) pairs; [cview_next cv j]
     is the j-th [next()] on [canv.content(tl, tt, cols, rows, attr_map)].
   * dicts (attribute maps) are key-sorted association lists (so dict == is list equality).
   * object identity of leaf canvases is an integer id ([cid]); blank_canvas has id 0.
   Attributes / charsets are integers: 0 is Python None. *)
From Coq Require Import ZArith List Bool Lia.
From Urwid Require Import PyBase.
Import ListNotations.
Open Scope Z_scope.

(* ------------------------------------------------------------------ cells *)
Inductive kind := KN | KL | KR.
Record cell := Cell { ck : kind; ca : Z; ccs : Z; cch : list Z }.
Definition row := list cell.
Definition space (a : Z) : cell := Cell KN a 0 [32].

Definition repeatz {A} (x : A) (n : Z) : list A := repeat x (Z.to_nat n).

(* ------------------------------------------------------------------ dicts *)
Definition dict := list (Z * Z).
Fixpoint dget (d : dict) (k : Z) : option Z :=
  match d with
  | [] => None
  | (k', v) :: r => if k =? k' then Some v else dget r k
  end.
Fixpoint dset (k v : Z) (d : dict) : dict :=
  match d with
  | [] => [(k, v)]
  | (k', v') :: r =>
      if k <? k' then (k, v) :: d
      else if k =? k' then (k, v) :: r
      else (k', v') :: dset k v r
  end.
Definition dict_of_list (l : list (Z * Z)) : dict :=
  fold_left (fun acc kv => dset (fst kv) (snd kv) acc) l [].
Definition amap := option dict.

(* "if attr and a in attr: a = attr[a]" *)
Definition map_attr (m : amap) (a : Z) : Z :=
  match m with
  | None => a
  | Some d => match dget d a with Some v => v | None => a end
  end.
Definition cell_map_attr (m : amap) (c : cell) : cell :=
  Cell (ck c) (map_attr m (ca c)) (ccs c) (cch c).

(* ------------------------------------------------------------------ leaf canvases *)
Inductive leafk :=
  | LText (rows : list row) (maxcol : Z)
  | LSolid (cs : Z) (ch : list Z) (cols rows : Z)
  | LBlank.
Record canvas := Canvas { cid : Z; cknd : leafk }.
Definition blank_canvas : canvas := Canvas 0 LBlank.

(* util.trim_text_attr_cs / calc_trim_text on cells: columns [s, e) of a row; a
   double-width character cut at either end is replaced by a space with the attribute of
   the character and charset None *)
Definition fix_left (r : row) : row :=
  match r with
  | c :: r' => match ck c with KR => space (ca c) :: r' | _ => r end
  | [] => []
  end.
Fixpoint fix_right (r : row) : row :=
  match r with
  | [] => []
  | c :: r' =>
      match r' with
      | [] => match ck c with KL => [space (ca c)] | _ => [c] end
      | _ :: _ => c :: fix_right r'
      end
  end.
Definition trim_cells (r : row) (s e : Z) : row :=
  fix_right (fix_left (takez (e - s) (dropz s r))).

(* TextCanvas.content(trim_left, trim_top, cols, rows, attr) *)
Definition text_content (rws : list row) (maxcol tl tt cols rows : Z) (m : amap) : result (list row) :=
  let maxrow := zlen rws in
  let cols := if cols =? 0 then maxcol - tl else cols in
  let rows := if rows =? 0 then maxrow - tt else rows in
  if negb ((0 <=? tl) && (tl <? maxcol) && (0 <? cols) && (tl + cols <=? maxcol)) then Err ValueError
  else if negb ((0 <=? tt) && (tt <? maxrow) && (0 <? rows) && (tt + rows <=? maxrow)) then Err ValueError
  else
    let sel := if negb (tt =? 0) || (rows <? maxrow) then takez rows (dropz tt rws) else rws in
    Ok (map (fun r =>
               let r1 := if negb (tl =? 0) || (cols <? maxcol) then trim_cells r tl (tl + cols) else r in
               map (cell_map_attr m) r1) sel).

(* BlankCanvas.content / SolidCanvas.content: "if attr and None in attr: def_attr = attr[None]" *)
Definition solid_content (cs : Z) (ch : list Z) (cols rows : Z) (m : amap) : list row :=
  repeatz (repeatz (Cell KN (map_attr m 0) cs ch) cols) rows.

(* canv.content(trim_left, trim_top, cols, rows, attr) with all five arguments given *)
Definition canvas_content (c : canvas) (tl tt cols rows : Z) (m : amap) : result (list row) :=
  match cknd c with
  | LText rws maxcol => text_content rws maxcol tl tt cols rows m
  | LSolid cs ch _ _ => Ok (solid_content cs ch cols rows m)
  | LBlank => Ok (solid_content 0 [32] cols rows m)
  end.

(* TextCanvas.cols/rows, SolidCanvas.cols/rows (BlankCanvas: NotImplementedError) *)
Definition canvas_cols (c : canvas) : result Z :=
  match cknd c with LText _ mc => Ok mc | LSolid _ _ c _ => Ok c | LBlank => Err OtherError end.
Definition canvas_rows (c : canvas) : result Z :=
  match cknd c with LText rws _ => Ok (zlen rws) | LSolid _ _ _ r => Ok r | LBlank => Err OtherError end.

(* canv.content() with default arguments (a leaf observed directly) *)
Definition canvas_content_default (c : canvas) : result (list row) :=
  match cknd c with
  | LText rws maxcol => text_content rws maxcol 0 0 0 0 None
  | LSolid cs ch cols rows => Ok (solid_content cs ch cols rows None)
  | LBlank => Ok []
  end.

(* ------------------------------------------------------------------ cviews, shards *)
(* (trim_left, trim_top, cols, rows, attr_map, canv) *)
Record cview := CV { tl : Z; tt : Z; ccols : Z; crows : Z; cam : amap; ccanv : canvas }.
Definition shard := (Z * list cview)%type.
Definition shards := list shard.

(* cview_trim_rows / cview_trim_top / cview_trim_left / cview_trim_cols *)
Definition cview_trim_rows (cv : cview) (rows : Z) : cview :=
  CV (tl cv) (tt cv) (ccols cv) rows (cam cv) (ccanv cv).
Definition cview_trim_top (cv : cview) (trim : Z) : cview :=
  CV (tl cv) (trim + tt cv) (ccols cv) (crows cv - trim) (cam cv) (ccanv cv).
Definition cview_trim_left (cv : cview) (trim : Z) : cview :=
  CV (tl cv + trim) (tt cv) (ccols cv - trim) (crows cv) (cam cv) (ccanv cv).
Definition cview_trim_cols (cv : cview) (cols : Z) : cview :=
  CV (tl cv) (tt cv) cols (crows cv) (cam cv) (ccanv cv).

(* shard body entries (done_rows, content_iter, cview) and shard tail entries
   (col_gap, done_rows, content_iter, cview): the iterator is determined by (cview, done_rows).
   Polymorphic in the cview type because content_delta runs the same machinery over
   cviews whose canvas may have been replaced by None. *)
Definition body_entry (A : Type) := (Z * A)%type.
Definition tail_entry (A : Type) := (Z * Z * A)%type.

(* the "while col_gap:" loop of shard_body *)
Fixpoint take_gap {A} (cols : A -> Z) (cvs : list A) (gap : Z) : result (list (body_entry A) * list A) :=
  if gap =? 0 then Ok ([], cvs)
  else
    match cvs with
    | [] => Ok ([], [])
    | cv :: rest =>
        let gap' := gap - cols cv in
        if gap' <? 0 then Err CanvasError
        else match take_gap cols rest gap' with
             | Ok (b, r) => Ok ((0, cv) :: b, r)
             | Err e => Err e
             end
    end.

(* shard_body(cviews, shard_tail) *)
Fixpoint shard_body {A} (cols : A -> Z) (cvs : list A) (tail : list (tail_entry A)) : result (list (body_entry A)) :=
  match tail with
  | [] => Ok (map (fun cv => (0, cv)) cvs)
  | (gap, d, tcv) :: tail' =>
      match take_gap cols cvs gap with
      | Err e => Err e
      | Ok (b, rest) =>
          match shard_body cols rest tail' with
          | Err e => Err e
          | Ok b' => Ok (b ++ (d, tcv) :: b')
          end
      end
  end.

(* shard_body_tail(num_rows, sbody) *)
Fixpoint shard_body_tail_go {A} (cols rows : A -> Z) (n : Z) (sb : list (body_entry A)) (gap : Z) : list (tail_entry A) :=
  match sb with
  | [] => []
  | (d, cv) :: sb' =>
      let d' := d + n in
      if d' =? rows cv then shard_body_tail_go cols rows n sb' (gap + cols cv)
      else (gap, d', cv) :: shard_body_tail_go cols rows n sb' 0
  end.
Definition shard_body_tail {A} (cols rows : A -> Z) (n : Z) (sb : list (body_entry A)) : list (tail_entry A) :=
  shard_body_tail_go cols rows n sb 0.

Definition sbody (cvs : list cview) (tail : list (tail_entry cview)) := shard_body ccols cvs tail.
Definition stail (n : Z) (sb : list (body_entry cview)) := shard_body_tail ccols crows n sb.

(* the generator canv.content(tl, tt, cols, rows, attr_map) as the list of rows it yields *)
Definition cview_content (cv : cview) : result (list row) :=
  canvas_content (ccanv cv) (tl cv) (tt cv) (ccols cv) (crows cv) (cam cv).
(* the (j+1)-th next() on it; an exhausted generator raises StopIteration, which inside the
   CompositeCanvas.content generator becomes RuntimeError *)
Definition cview_next (cv : cview) (j : Z) : result row :=
  match cview_content cv with
  | Err e => Err e
  | Ok rs => match nthz rs j with Some r => Ok r | None => Err RuntimeErrorK end
  end.

(* shard_body_row(sbody), called for the (k+1)-th time on this shard body *)
Fixpoint shard_body_row (sb : list (body_entry cview)) (k : Z) : result row :=
  match sb with
  | [] => Ok []
  | (d, cv) :: sb' =>
      match cview_next cv (d + k) with
      | Err e => Err e
      | Ok r => match shard_body_row sb' k with Err e => Err e | Ok r' => Ok (r ++ r') end
      end
  end.

(* "for _ in range(num_rows): yield shard_body_row(sbody)" *)
Fixpoint shard_rows (sb : list (body_entry cview)) (k : Z) (n : nat) : result (list row) :=
  match n with
  | O => Ok []
  | S n' =>
      match shard_body_row sb k with
      | Err e => Err e
      | Ok r => match shard_rows sb (k + 1) n' with Err e => Err e | Ok rs => Ok (r :: rs) end
      end
  end.

(* CompositeCanvas.content *)
Fixpoint content_from (ss : shards) (tail : list (tail_entry cview)) : result (list row) :=
  match ss with
  | [] => Ok []
  | (n, cvs) :: ss' =>
      match sbody cvs tail with
      | Err e => Err e
      | Ok sb =>
          match shard_rows sb 0 (Z.to_nat n) with
          | Err e => Err e
          | Ok rs =>
              match content_from ss' (stail n sb) with
              | Err e => Err e
              | Ok rs' => Ok (rs ++ rs')
              end
          end
      end
  end.
Definition content (ss : shards) : result (list row) := content_from ss [].

(* CompositeCanvas.rows / cols *)
Definition shards_rows (ss : shards) : Z := fold_right (fun s acc => fst s + acc) 0 ss.
Definition cviews_cols (cvs : list cview) : Z := fold_right (fun cv acc => ccols cv + acc) 0 cvs.
Definition shards_cols (ss : shards) : Z :=
  match ss with [] => 0 | (_, cvs) :: _ => cviews_cols cvs end.

(* ---- the well-formedness invariant of a rectangular composite canvas (not in the Python:
   it is what every CompositeCanvas built by the operations below satisfies; checked at run
   time on every observed canvas and assumed by the theorems) ----
   every cview has positive size and lies inside its leaf canvas; every shard has a positive
   number of rows; every cview present in a shard (started there or continued from above) is
   at least as tall as the rows that remain for it; in every shard the widths of all cviews
   present add up to the canvas width; at the end nothing is left pending. *)
(* a row of a text canvas never starts with the right half nor ends with the left half of a
   double-width character (it is made of whole characters) *)
Definition first_okb (r : row) : bool :=
  match r with [] => true | c :: _ => match ck c with KR => false | _ => true end end.
Fixpoint last_okb (r : row) : bool :=
  match r with
  | [] => true
  | c :: r' => match r' with [] => match ck c with KL => false | _ => true end | _ :: _ => last_okb r' end
  end.
Definition row_cleanb (r : row) : bool := first_okb r && last_okb r.
Definition cview_okb (cv : cview) : bool :=
  (0 <? ccols cv) && (0 <? crows cv) &&
  match cknd (ccanv cv) with
  | LText rws mc =>
      forallb (fun r : row => (zlen r =? mc) && row_cleanb r) rws &&
      (0 <=? tl cv) && (tl cv + ccols cv <=? mc) && (0 <=? tt cv) && (tt cv + crows cv <=? zlen rws)
  | _ => true
  end.
Definition body_cols (sb : list (body_entry cview)) : Z := fold_right (fun e acc => ccols (snd e) + acc) 0 sb.
Fixpoint wf_fromb (w : Z) (ss : shards) (tail : list (tail_entry cview)) : bool :=
  match ss with
  | [] => match tail with [] => true | _ :: _ => false end
  | (n, cvs) :: ss' =>
      (0 <? n) && forallb cview_okb cvs &&
      match sbody cvs tail with
      | Err _ => false
      | Ok sb =>
          forallb (fun e : body_entry cview => fst e + n <=? crows (snd e)) sb &&
          (body_cols sb =? w) && wf_fromb w ss' (stail n sb)
      end
  end.
Definition wfb (ss : shards) : bool := (0 <? shards_cols ss) && wf_fromb (shards_cols ss) ss [].

(* shards_trim_top(shards, top) *)
Fixpoint trim_top_go (ss : shards) (tail : list (tail_entry cview)) (top : Z) : result shards :=
  match ss with
  | [] => Err CanvasError
  | (n, cvs) :: ss' =>
      match sbody cvs tail with
      | Err e => Err e
      | Ok sb =>
          if top <? n then
            Ok ((n - top, map (fun e => cview_trim_top (snd e) (fst e + top)) sb) :: ss')
          else trim_top_go ss' (stail n sb) (top - n)
      end
  end.
Definition shards_trim_top (ss : shards) (top : Z) : result shards :=
  if top <=? 0 then Err ValueError else trim_top_go ss [] top.

(* shards_trim_rows(shards, keep_rows) *)
Fixpoint trim_rows_go (ss : shards) (done keep : Z) : shards :=
  match ss with
  | [] => []
  | (n, cvs) :: ss' =>
      if keep <=? done then []
      else
        let cvs' := map (fun cv => if keep <? crows cv + done then cview_trim_rows cv (keep - done) else cv) cvs in
        (if keep <? n + done then (keep - done, cvs') else (n, cvs')) :: trim_rows_go ss' (done + n) keep
  end.
Definition shards_trim_rows (ss : shards) (keep : Z) : result shards :=
  if keep <? 0 then Err ValueError else Ok (trim_rows_go ss 0 keep).

(* the inner loop of shards_trim_sides over one shard body *)
Fixpoint trim_sides_cvs (sb : list (body_entry cview)) (col left right : Z) : list cview :=
  match sb with
  | [] => []
  | (d, cv) :: sb' =>
      let next_col := col + ccols cv in
      if negb (d =? 0) || (next_col <=? left) || (right <=? col) then trim_sides_cvs sb' next_col left right
      else
        let cv1 := if col <? left then cview_trim_left cv (left - col) else cv in
        let col1 := if col <? left then left else col in
        let cv2 := if right <? next_col then cview_trim_cols cv1 (right - col1) else cv1 in
        cv2 :: trim_sides_cvs sb' next_col left right
  end.
(* new_shards is kept reversed: its head is new_shards[-1] *)
Fixpoint trim_sides_go (ss : shards) (tail : list (tail_entry cview)) (left right : Z) (acc : shards) : result shards :=
  match ss with
  | [] => Ok (rev acc)
  | (n, cvs) :: ss' =>
      match sbody cvs tail with
      | Err e => Err e
      | Ok sb =>
          let new_cviews := trim_sides_cvs sb 0 left right in
          match new_cviews with
          | [] =>
              match acc with
              | [] => Err IndexError
              | (pn, pcvs) :: acc' => trim_sides_go ss' (stail n sb) left right ((pn + n, pcvs) :: acc')
              end
          | _ :: _ => trim_sides_go ss' (stail n sb) left right ((n, new_cviews) :: acc)
          end
      end
  end.
Definition shards_trim_sides (ss : shards) (left cols : Z) : result shards :=
  if left <? 0 then Err ValueError
  else if cols <=? 0 then Err ValueError
  else trim_sides_go ss [] left (left + cols) [].

(* shards_join(shard_lists).  One entry per shard list:
   (rows left of the current shard, its cviews (None after the first use), the iterator) *)
Definition join_st := (Z * list cview * shards)%type.
Fixpoint join_init (sls : list shards) : result (list join_st) :=
  match sls with
  | [] => Ok []
  | [] :: _ => Err OtherError                      (* next(i) raises StopIteration *)
  | ((r, cvs) :: rest) :: sls' =>
      match join_init sls' with Err e => Err e | Ok l => Ok ((r, cvs, rest) :: l) end
  end.
Definition list_min (l : list Z) : result Z :=
  match l with [] => Err ValueError | x :: r => Ok (fold_left Z.min r x) end.
(* "for i in range(len(shards_current)): ..." ; None = StopIteration *)
Fixpoint join_advance (st : list join_st) : option (list join_st) :=
  match st with
  | [] => Some []
  | (r, cvs, rest) :: st' =>
      if 0 <? r then
        match join_advance st' with Some l => Some ((r, cvs, rest) :: l) | None => None end
      else
        match rest with
        | [] => None
        | (r', cvs') :: rest' =>
            match join_advance st' with Some l => Some ((r', cvs', rest') :: l) | None => None end
        end
  end.
Fixpoint join_loop (fuel : nat) (st : list join_st) : result shards :=
  match fuel with
  | O => Err OtherError
  | S fuel' =>
      match list_min (map (fun s => fst (fst s)) st) with
      | Err e => Err e
      | Ok num_rows =>
          let new_cviews := flat_map (fun s => snd (fst s)) st in
          let st1 := map (fun s : join_st => (fst (fst s) - num_rows, @nil cview, snd s)) st in
          match join_advance st1 with
          | None => Ok [(num_rows, new_cviews)]
          | Some st2 =>
              match join_loop fuel' st2 with
              | Err e => Err e
              | Ok rest => Ok ((num_rows, new_cviews) :: rest)
              end
          end
      end
  end.
Definition shards_join (sls : list shards) : result shards :=
  match join_init sls with
  | Err e => Err e
  | Ok st => join_loop (S (fold_right (fun sl acc => (length sl + acc)%nat) O sls)) st
  end.

(* ------------------------------------------------------------------ composite canvases *)
(* Canvas.coords: "cursor" -> (x, y, None), "pop up" -> (x, y, data) *)
Record coords := Coords { cur : option (Z * Z); pop : option (Z * Z * Z) }.
Definition no_coords := Coords None None.
(* Canvas.translate_coords *)
Definition translate_coords (c : coords) (dx dy : Z) : coords :=
  Coords (match cur c with Some (x, y) => Some (x + dx, y + dy) | None => None end)
         (match pop c with Some (x, y, w) => Some (x + dx, y + dy, w) | None => None end).
(* dict.update *)
Definition coords_update (c o : coords) : coords :=
  Coords (match cur o with Some p => Some p | None => cur c end)
         (match pop o with Some p => Some p | None => pop c end).

Record comp := Comp { cshards : shards; ccoords : coords; cfin : bool }.
Inductive value :=
  | VLeaf (c : canvas) (cursor : option (Z * Z))
  | VComp (c : comp).

Definition vcols (v : value) : result Z :=
  match v with VLeaf c _ => canvas_cols c | VComp c => Ok (shards_cols (cshards c)) end.
Definition vrows (v : value) : result Z :=
  match v with VLeaf c _ => canvas_rows c | VComp c => Ok (shards_rows (cshards c)) end.
Definition vcoords (v : value) : coords :=
  match v with VLeaf _ cu => Coords cu None | VComp c => ccoords c end.

(* CompositeCanvas(canv) *)
Definition wrap (v : value) : result comp :=
  match v with
  | VComp c => Ok (Comp (cshards c) (ccoords c) false)
  | VLeaf c cu =>
      match canvas_cols c, canvas_rows c with
      | Ok w, Ok h => Ok (Comp [(h, [CV 0 0 w h None c])] (Coords cu None) false)
      | _, _ => Err OtherError
      end
  end.


(* CompositeCanvas._drop_cursor_outside: forget a cursor whose row or column has been trimmed
   away (cols()/rows() are those of the shards the canvas has at that moment) *)
Definition drop_cursor_outside (s : shards) (c : coords) : coords :=
  match cur c with
  | Some (x, y) =>
      if (0 <=? x) && (x <? shards_cols s) && (0 <=? y) && (y <? shards_rows s) then c else Coords None (pop c)
  | None => c
  end.

(* CompositeCanvas.trim(top, count) *)
Definition comp_trim (c : comp) (top : Z) (count : option Z) : result comp :=
  if top <? 0 then Err ValueError
  else if shards_rows (cshards c) <=? top then Err ValueError
  else if cfin c then Err CanvasError
  else
    match (if top =? 0 then Ok (cshards c) else shards_trim_top (cshards c) top) with
    | Err e => Err e
    | Ok s1 =>
        match (match count with
               | None => Ok s1
               | Some n => if n =? 0 then Ok [] else shards_trim_rows s1 n
               end) with
        | Err e => Err e
        | Ok s2 => Ok (Comp s2 (drop_cursor_outside s2 (translate_coords (ccoords c) 0 (- top))) false)
        end
    end.

(* CompositeCanvas.trim_end(end) *)
Definition comp_trim_end (c : comp) (e : Z) : result comp :=
  if e <=? 0 then Err ValueError
  else if shards_rows (cshards c) <? e then Err ValueError
  else if cfin c then Err CanvasError
  else
    match shards_trim_rows (cshards c) (shards_rows (cshards c) - e) with
    | Err er => Err er
    | Ok s => Ok (Comp s (drop_cursor_outside s (ccoords c)) false)
    end.

(* CompositeCanvas.pad_trim_left_right(left, right) *)
Definition comp_pad_trim_left_right (c : comp) (left right : Z) : result comp :=
  if cfin c then Err CanvasError
  else
    match (if (left <? 0) || (right <? 0) then
             let trim_left := Z.max 0 (- left) in
             let cols := shards_cols (cshards c) - trim_left - Z.max 0 (- right) in
             shards_trim_sides (cshards c) trim_left cols
           else Ok (cshards c)) with
    | Err e => Err e
    | Ok s =>
        let rows := shards_rows (cshards c) in
        match (if (0 <? left) || (0 <? right) then
                 match s with
                 | [] => Err IndexError
                 | (top_rows, top_cviews) :: s' =>
                     let cvs1 := if 0 <? left then CV 0 0 left rows None blank_canvas :: top_cviews else top_cviews in
                     let cvs2 := if 0 <? right then cvs1 ++ [CV 0 0 right rows None blank_canvas] else cvs1 in
                     Ok ((top_rows, cvs2) :: s')
                 end
               else Ok s) with
        | Err e => Err e
        | Ok s2 =>
            let co := translate_coords (ccoords c) left 0 in
            Ok (Comp s2 (if (left <? 0) || (right <? 0) then drop_cursor_outside s2 co else co) false)
        end
    end.

(* "if (top > 0 or bottom > 0) and self.rows() == 0: self.shards = []"  (pad_trim_top_bottom, 69bd6e4):
   a canvas without rows contributes no shard of its own once it is padded *)
Definition drop_empty (c : comp) (top bottom : Z) : comp :=
  if ((0 <? top) || (0 <? bottom)) && (shards_rows (cshards c) =? 0) then Comp [] (ccoords c) (cfin c) else c.

(* CompositeCanvas.pad_trim_top_bottom(top, bottom) *)
Definition comp_pad_trim_top_bottom (c : comp) (top bottom : Z) : result comp :=
  if cfin c then Err CanvasError
  else
    match (if (top <? 0) || (bottom <? 0) then
             let trim_top := Z.max 0 (- top) in
             let rows := shards_rows (cshards c) - trim_top - Z.max 0 (- bottom) in
             comp_trim c trim_top (Some rows)
           else Ok c) with
    | Err e => Err e
    | Ok c1 =>
        let cols := shards_cols (cshards c1) in
        let c1 := drop_empty c1 top bottom in
        let c2 := if 0 <? top
                  then Comp ((top, [CV 0 0 cols top None blank_canvas]) :: cshards c1)
                            (translate_coords (ccoords c1) 0 top) false
                  else c1 in
        let s3 := if 0 <? bottom
                  then cshards c2 ++ [(bottom, [CV 0 0 cols bottom None blank_canvas])]
                  else cshards c2 in
        Ok (Comp s3 (ccoords c2) false)
    end.

(* CompositeCanvas.overlay(other, left, top); other must be a CompositeCanvas *)
Definition comp_overlay (c : comp) (other : comp) (left top : Z) : result comp :=
  if cfin c then Err CanvasError
  else
    let width := shards_cols (cshards other) in
    let height := shards_rows (cshards other) in
    let right := shards_cols (cshards c) - left - width in
    let bottom := shards_rows (cshards c) - top - height in
    if right <? 0 then Err ValueError
    else if bottom <? 0 then Err ValueError
    else
      let shs := cshards c in
      match (if top =? 0 then Ok (shs, [])
             else match shards_trim_top shs top with
                  | Err e => Err e
                  | Ok side => match shards_trim_rows shs top with Err e => Err e | Ok tp => Ok (side, tp) end
                  end) with
      | Err e => Err e
      | Ok (side1, top_shards) =>
          match (if bottom =? 0 then Ok (side1, [])
                 else match shards_trim_top side1 height with
                      | Err e => Err e
                      | Ok bt => match shards_trim_rows side1 height with Err e => Err e | Ok sd => Ok (sd, bt) end
                      end) with
          | Err e => Err e
          | Ok (side2, bottom_shards) =>
              match (if 0 <? left then
                       match shards_trim_sides side2 0 left with Err e => Err e | Ok l => Ok [l] end
                     else Ok []) with
              | Err e => Err e
              | Ok left_shards =>
                  match (if 0 <? right then
                           match shards_trim_sides side2 (Z.max 0 (left + width)) right with
                           | Err e => Err e | Ok l => Ok [l] end
                         else Ok []) with
                  | Err e => Err e
                  | Ok right_shards =>
                      match (if shards_rows shs =? 0 then Ok []
                             else if negb (left =? 0) || negb (right =? 0)
                                  then shards_join (left_shards ++ [cshards other] ++ right_shards)
                                  else Ok (cshards other)) with
                      | Err e => Err e
                      | Ok middle =>
                          Ok (Comp (top_shards ++ middle ++ bottom_shards)
                                   (coords_update (ccoords c) (translate_coords (ccoords other) left top))
                                   false)
                      end
                  end
              end
          end
      end.

(* CompositeCanvas.fill_attr_apply(mapping) *)
(* "combined = mapping.copy(); combined.update([(k, mapping.get(v, v)) for k, v in cv[4].items()])"
   (dict keys are unique, so the order of the updates is immaterial; the fold runs from the
   right so that the entry [dget] would read wins even on a list that is not a dict) *)
Definition combine_map (mapping : dict) (old : dict) : dict :=
  fold_right (fun kv acc => dset (fst kv) (match dget mapping (snd kv) with Some v => v | None => snd kv end) acc)
             mapping old.
Definition cview_fill_attr (mapping : dict) (cv : cview) : cview :=
  match cam cv with
  | None => CV (tl cv) (tt cv) (ccols cv) (crows cv) (Some mapping) (ccanv cv)
  | Some old => CV (tl cv) (tt cv) (ccols cv) (crows cv) (Some (combine_map mapping old)) (ccanv cv)
  end.
Definition comp_fill_attr_apply (c : comp) (mapping : dict) : result comp :=
  if cfin c then Err CanvasError
  else Ok (Comp (map (fun s : shard => (fst s, map (cview_fill_attr mapping) (snd s))) (cshards c)) (ccoords c) false).

(* Canvas.set_cursor / set_pop_up / finalize on a composite canvas *)
Definition comp_set_cursor (c : comp) (cu : option (Z * Z)) : result comp :=
  if cfin c then Err CanvasError else Ok (Comp (cshards c) (Coords cu (pop (ccoords c))) false).
Definition comp_set_pop_up (c : comp) (w x y : Z) : result comp :=
  if cfin c then Err CanvasError else Ok (Comp (cshards c) (Coords (cur (ccoords c)) (Some (x, y, w))) false).
Definition comp_finalize (c : comp) : result comp :=
  if cfin c then Err CanvasError else Ok (Comp (cshards c) (ccoords c) true).

(* CanvasCombine(l) *)
Fixpoint combine_go (vs : list value) (row : Z) (sh : shards) (co : coords) : result comp :=
  match vs with
  | [] => Ok (Comp sh co false)
  | v :: vs' =>
      match wrap v with
      | Err e => Err e
      | Ok c =>
          combine_go vs' (row + shards_rows (cshards c)) (sh ++ cshards c)
                     (coords_update co (translate_coords (ccoords c) 0 row))
      end
  end.
(* "clist = [(CompositeCanvas(c), p, f) ...]" runs before the loop, but wrap has no
   effects and its only failure is independent of position *)
Definition canvas_combine (vs : list value) : result comp := combine_go vs 0 [] no_coords.

(* CanvasOverlay(top_c, bottom_c, left, top) *)
Definition canvas_overlay (top_c bottom_c : value) (left top : Z) : result comp :=
  match wrap bottom_c with
  | Err e => Err e
  | Ok b =>
      match top_c with
      | VLeaf _ _ => Err OtherError            (* AttributeError: no .shards *)
      | VComp t => comp_overlay b t left top
      end
  end.

(* CanvasJoin(l): first loop (rows, pad_right, maxrow) *)
Fixpoint join_measure (l : list (value * Z)) (maxrow : Z) : result (list (value * Z * Z) * Z) :=
  match l with
  | [] => Ok ([], maxrow)
  | (v, cols) :: l' =>
      match vrows v, vcols v with
      | Ok rows, Ok vc =>
          match join_measure l' (Z.max maxrow rows) with
          | Err e => Err e
          | Ok (r, m) => Ok ((v, cols - vc, rows) :: r, m)
          end
      | _, _ => Err OtherError
      end
  end.
(* second loop *)
Fixpoint join_go (l : list (value * Z * Z)) (maxrow col : Z) (co : coords) (sls : list shards)
  : result (coords * list shards) :=
  match l with
  | [] => Ok (co, sls)
  | (v, pad_right, rows) :: l' =>
      match wrap v with
      | Err e => Err e
      | Ok c0 =>
          match (if pad_right =? 0 then Ok c0 else comp_pad_trim_left_right c0 0 pad_right) with
          | Err e => Err e
          | Ok c1 =>
              match (if rows <? maxrow then comp_pad_trim_top_bottom c1 0 (maxrow - rows) else Ok c1) with
              | Err e => Err e
              | Ok c2 =>
                  join_go l' maxrow (col + shards_cols (cshards c2))
                          (coords_update co (translate_coords (ccoords c2) col 0))
                          (sls ++ [cshards c2])
              end
          end
      end
  end.
Definition canvas_join (l : list (value * Z)) : result comp :=
  match join_measure l 0 with
  | Err e => Err e
  | Ok (l2, maxrow) =>
      match join_go l2 maxrow 0 no_coords [] with
      | Err e => Err e
      | Ok (co, sls) =>
          match shards_join sls with
          | Err e => Err e
          | Ok s => Ok (Comp s co false)
          end
      end
  end.

(* ------------------------------------------------------------------ content_delta *)
(* a cview of shards_delta: the bool says "canv replaced by None" (unchanged) *)
Definition dcview := (cview * bool)%type.
Definition dcols (d : dcview) : Z := ccols (fst d).
Definition drows (d : dcview) : Z := crows (fst d).
Inductive ditem := DSkip (n : Z) | DCell (c : cell).

Definition amap_eqb (a b : amap) : bool :=
  match a, b with
  | None, None => true
  | Some x, Some y =>
      (fix eq (x y : dict) : bool :=
         match x, y with
         | [], [] => true
         | (k, v) :: x', (k', v') :: y' => (k =? k') && (v =? v') && eq x' y'
         | _, _ => false
         end) x y
  | _, _ => false
  end.
(* "cv[5] is other_cv[5] and cv[:5] == other_cv[:5]" *)
Definition cview_same (a b : cview) : bool :=
  (cid (ccanv a) =? cid (ccanv b)) && (tl a =? tl b) && (tt a =? tt b) && (ccols a =? ccols b)
  && (crows a =? crows b) && amap_eqb (cam a) (cam b).



(* The two generators shards_delta and shard_cviews_delta walk [xs] while keeping an
   iterator over the other list aligned by position (rows done / columns done).  Both have
   exactly the same control flow; [align] is that control flow, [hit]/[miss] the yields. *)
Section Align.
  Context {A B C : Type}.
  Context (sizeA : A -> Z) (sizeB : B -> Z) (hit : A -> B -> C) (miss : A -> C).

  (* "while other is not None and other_pos < pos: other_pos += size(other); other = next(it, None)" *)
  Fixpoint al_while (o : B) (rest : list B) (opos pos : Z) : option B * list B * Z :=
    if opos <? pos then
      match rest with
      | [] => (None, [], opos + sizeB o)
      | o' :: rest' => al_while o' rest' (opos + sizeB o) pos
      end
    else (Some o, rest, opos).

  Fixpoint align (xs : list A) (ocur : option B) (rest : list B) (pos opos : Z) : list C :=
    match xs with
    | [] => []
    | x :: xs' =>
        (* "if other is None: other = next(it, None)" *)
        let '(ocur1, rest1) :=
          match ocur with
          | Some _ => (ocur, rest)
          | None => match rest with [] => (None, []) | o :: r => (Some o, r) end
          end in
        let '(ocur2, rest2, opos2) :=
          match ocur1 with
          | None => (None, rest1, opos)
          | Some o => al_while o rest1 opos pos
          end in
        match ocur2 with
        | None => miss x :: align xs' None rest2 (pos + sizeA x) opos2
        | Some o =>
            if pos <? opos2 then miss x :: align xs' (Some o) rest2 (pos + sizeA x) opos2
            else hit x o :: align xs' None rest2 (pos + sizeA x) (opos2 + sizeB o)
        end
    end.
End Align.

(* shard_cviews_delta(cviews, other_cviews) *)
Definition shard_cviews_delta (cvs ocvs : list cview) : list dcview :=
  align ccols ccols (fun cv o => (cv, cview_same cv o)) (fun cv => (cv, false)) cvs None ocvs 0 0.

(* shards_delta(shards, other_shards) *)
Definition shards_delta (ss oss : shards) : list (Z * list dcview) :=
  let all_cols := shards_cols ss in
  align (fun s : shard => fst s) (fun s : shard => fst s)
        (fun s o => if (cviews_cols (snd s) =? cviews_cols (snd o)) && (cviews_cols (snd o) =? all_cols)
                    then (fst s, shard_cviews_delta (snd s) (snd o))
                    else (fst s, map (fun cv => (cv, false)) (snd s)))
        (fun s => (fst s, map (fun cv => (cv, false)) (snd s)))
        ss None oss 0 0.

(* shard_body_row over delta cviews; [acc] is the row so far, reversed *)
Fixpoint delta_body_row (sb : list (body_entry dcview)) (k : Z) (acc : list ditem) : result (list ditem) :=
  match sb with
  | [] => Ok (rev acc)
  | (d, (cv, unchanged)) :: sb' =>
      if unchanged then
        match acc with
        | DSkip n :: acc' => delta_body_row sb' k (DSkip (n + ccols cv) :: acc')
        | _ => delta_body_row sb' k (DSkip (ccols cv) :: acc)
        end
      else
        match cview_next cv (d + k) with
        | Err e => Err e
        | Ok r => delta_body_row sb' k (rev (map DCell r) ++ acc)
        end
  end.
(* the row loop of content_delta: an all-unchanged row ([int]) is yielded again without
   calling shard_body_row *)
Fixpoint delta_rows (sb : list (body_entry dcview)) (k : Z) (n : nat) (prev : list ditem) : result (list (list ditem)) :=
  match n with
  | O => Ok []
  | S n' =>
      match (match prev with
             | [DSkip _] => Ok prev
             | _ => delta_body_row sb k []
             end) with
      | Err e => Err e
      | Ok r => match delta_rows sb (k + 1) n' r with Err e => Err e | Ok rs => Ok (r :: rs) end
      end
  end.
Fixpoint delta_from (ds : list (Z * list dcview)) (tail : list (tail_entry dcview)) : result (list (list ditem)) :=
  match ds with
  | [] => Ok []
  | (n, cvs) :: ds' =>
      match shard_body dcols cvs tail with
      | Err e => Err e
      | Ok sb =>
          match delta_rows sb 0 (Z.to_nat n) [] with
          | Err e => Err e
          | Ok rs =>
              match delta_from ds' (shard_body_tail dcols drows n sb) with
              | Err e => Err e
              | Ok rs' => Ok (rs ++ rs')
              end
          end
      end
  end.

(* x.content_delta(other) for TextCanvas / SolidCanvas / CompositeCanvas *)
Definition value_content (v : value) : result (list row) :=
  match v with VLeaf c _ => canvas_content_default c | VComp c => content (cshards c) end.
Definition content_delta (v other : value) : result (list (list ditem)) :=
  match v with
  | VLeaf c _ =>
      match other with
      | VLeaf c' _ =>
          if cid c =? cid c' then
            match canvas_cols c, canvas_rows c with
            | Ok w, Ok h => Ok (repeatz [DSkip w] h)
            | _, _ => Err OtherError
            end
          else match canvas_content_default c with Err e => Err e | Ok rs => Ok (map (map DCell) rs) end
      | VComp _ => match canvas_content_default c with Err e => Err e | Ok rs => Ok (map (map DCell) rs) end
      end
  | VComp c =>
      match other with
      | VLeaf _ _ => match content (cshards c) with Err e => Err e | Ok rs => Ok (map (map DCell) rs) end
      | VComp o => delta_from (shards_delta (cshards c) (cshards o)) []
      end
  end.

(* ------------------------------------------------------------------ the operation language *)
(* A composition of canvas operations is a postfix program over a stack of canvases; [IBind]
   moves the finished canvas to the environment (it may be referred to again: shared
   operands) and observes it. *)
Inductive instr :=
  | ILeaf (i : Z)                       (* push leaf canvas number i *)
  | IRef (k : Z)                        (* push an earlier result *)
  | IWrap                               (* CompositeCanvas(c) *)
  | ICombine (n : Z)                    (* CanvasCombine of the n topmost canvases *)
  | IJoin (cols : list Z)               (* CanvasJoin of len(cols) topmost canvases *)
  | IOverlay (left top : Z)             (* CanvasOverlay(top_c = stack top, bottom_c = below it) *)
  | IPadLR (l r : Z)
  | IPadTB (t b : Z)
  | ITrim (top : Z) (count : option Z)
  | ITrimEnd (e : Z)
  | IFillAttr (m : list (Z * Z))
  | ISetCursor (c : option (Z * Z))
  | ISetPopUp (w x y : Z)
  | IFinalize
  | IBind
  | IDelta (i j : Z).

Record mstate := MS { stack : list value; env : list value; outs : list (list Z) }.

Definition pop_n {A} (n : Z) (st : list A) : result (list A * list A) :=
  if (n <? 0) || (zlen st <? n) then Err OtherError
  else Ok (rev (takez n st), dropz n st).

Definition on_comp (st : mstate) (f : comp -> result comp) : result mstate :=
  match stack st with
  | VComp c :: rest => match f c with Err e => Err e | Ok c' => Ok (MS (VComp c' :: rest) (env st) (outs st)) end
  | _ => Err OtherError
  end.

(* ---- encoding of observations ---- *)
Definition enc_kind (k : kind) : Z := match k with KN => 0 | KL => 1 | KR => 2 end.
Definition enc_cell (c : cell) : list Z := [enc_kind (ck c); ca c; ccs c] ++ enc_list (cch c).
Definition enc_row (r : row) : list Z := zlen r :: flat_map enc_cell r.
Definition enc_rz (r : result Z) : list Z := match r with Ok z => [0; z] | Err e => [1; errcode e] end.
Definition enc_content (r : result (list row)) : list Z :=
  match r with Ok rs => 0 :: zlen rs :: flat_map enc_row rs | Err e => [1; errcode e] end.
Definition enc_amap (m : amap) : list Z :=
  match m with None => [0] | Some d => 1 :: zlen d :: flat_map (fun kv => [fst kv; snd kv]) d end.
Definition enc_cview (cv : cview) : list Z :=
  [tl cv; tt cv; ccols cv; crows cv] ++ enc_amap (cam cv) ++ [cid (ccanv cv)].
Definition enc_shard (s : shard) : list Z := fst s :: zlen (snd s) :: flat_map enc_cview (snd s).
Definition enc_shards (ss : shards) : list Z := zlen ss :: flat_map enc_shard ss.
Definition enc_coords (c : coords) : list Z :=
  (match cur c with None => [0] | Some (x, y) => [1; x; y] end) ++
  (match pop c with None => [0] | Some (x, y, w) => [1; x; y; w] end).
Definition enc_value (v : value) : list Z :=
  [1; match v with VLeaf _ _ => 0 | VComp _ => 1 end] ++ enc_rz (vcols v) ++ enc_rz (vrows v)
  ++ enc_coords (vcoords v)
  ++ [match v with VLeaf _ _ => 0 | VComp c => enc_bool (cfin c) end]
  ++ enc_content (value_content v)
  ++ match v with VLeaf _ _ => [0; 0] | VComp c => enc_shards (cshards c) ++ [enc_bool (wfb (cshards c))] end.
Definition enc_ditem (d : ditem) : list Z := match d with DSkip n => [0; n] | DCell c => 1 :: enc_cell c end.
Definition enc_delta (r : result (list (list ditem))) : list Z :=
  3 :: match r with
       | Ok rs => 0 :: zlen rs :: flat_map (fun r => zlen r :: flat_map enc_ditem r) rs
       | Err e => [1; errcode e]
       end.

(* ---- one instruction ---- *)
Definition step (leaves : list (canvas * option (Z * Z))) (st : mstate) (i : instr) : result mstate :=
  match i with
  | ILeaf k =>
      match nthz leaves (k - 1) with
      | Some (c, cu) => Ok (MS (VLeaf c cu :: stack st) (env st) (outs st))
      | None => Err OtherError
      end
  | IRef k =>
      match nthz (env st) k with
      | Some v => Ok (MS (v :: stack st) (env st) (outs st))
      | None => Err OtherError
      end
  | IWrap =>
      match stack st with
      | v :: rest => match wrap v with Err e => Err e | Ok c => Ok (MS (VComp c :: rest) (env st) (outs st)) end
      | [] => Err OtherError
      end
  | ICombine n =>
      match pop_n n (stack st) with
      | Err e => Err e
      | Ok (vs, rest) =>
          match canvas_combine vs with Err e => Err e | Ok c => Ok (MS (VComp c :: rest) (env st) (outs st)) end
      end
  | IJoin cols =>
      match pop_n (zlen cols) (stack st) with
      | Err e => Err e
      | Ok (vs, rest) =>
          match canvas_join (combine vs cols) with Err e => Err e | Ok c => Ok (MS (VComp c :: rest) (env st) (outs st)) end
      end
  | IOverlay lft tp =>
      match stack st with
      | top_c :: bottom_c :: rest =>
          match canvas_overlay top_c bottom_c lft tp with
          | Err e => Err e
          | Ok c => Ok (MS (VComp c :: rest) (env st) (outs st))
          end
      | _ => Err OtherError
      end
  | IPadLR l r => on_comp st (fun c => comp_pad_trim_left_right c l r)
  | IPadTB t b => on_comp st (fun c => comp_pad_trim_top_bottom c t b)
  | ITrim top count => on_comp st (fun c => comp_trim c top count)
  | ITrimEnd e => on_comp st (fun c => comp_trim_end c e)
  | IFillAttr m => on_comp st (fun c => comp_fill_attr_apply c (dict_of_list m))
  | ISetCursor cu => on_comp st (fun c => comp_set_cursor c cu)
  | ISetPopUp w x y => on_comp st (fun c => comp_set_pop_up c w x y)
  | IFinalize => on_comp st comp_finalize
  | IBind =>
      match stack st with
      | v :: rest => Ok (MS rest (env st ++ [v]) (enc_value v :: outs st))
      | [] => Err OtherError
      end
  | IDelta a b =>
      match nthz (env st) a, nthz (env st) b with
      | Some va, Some vb => Ok (MS (stack st) (env st) (enc_delta (content_delta va vb) :: outs st))
      | _, _ => Err OtherError
      end
  end.

Fixpoint run (leaves : list (canvas * option (Z * Z))) (st : mstate) (prog : list instr) : mstate * option errkind :=
  match prog with
  | [] => (st, None)
  | i :: prog' =>
      match step leaves st i with
      | Err e => (st, Some e)
      | Ok st' => run leaves st' prog'
      end
  end.

(* ------------------------------------------------------------------ wire format *)
Definition P (A : Type) := list Z -> option (A * list Z).
Definition pz : P Z := fun l => match l with x :: r => Some (x, r) | [] => None end.
Fixpoint pmany {A} (p : P A) (n : nat) : P (list A) :=
  fun l =>
    match n with
    | O => Some ([], l)
    | S n' =>
        match p l with
        | None => None
        | Some (x, r) => match pmany p n' r with None => None | Some (xs, r') => Some (x :: xs, r') end
        end
    end.
Definition plist {A} (p : P A) : P (list A) :=
  fun l =>
    match l with
    | n :: r => if (n <? 0) || (zlen r <? n) then None else pmany p (Z.to_nat n) r
    | [] => None
    end.
Definition ppair : P (Z * Z) :=
  fun l => match l with x :: y :: r => Some ((x, y), r) | _ => None end.
Definition popt_pair : P (option (Z * Z)) :=
  fun l => match l with 0 :: r => Some (None, r) | 1 :: x :: y :: r => Some (Some (x, y), r) | _ => None end.

(* one character of a leaf row: wide? attr cs nch ch*  ->  one or two cells *)
Definition pchar : P (list cell) :=
  fun l =>
    match l with
    | w :: a :: cs :: r =>
        match plist pz r with
        | None => None
        | Some (ch, r') =>
            Some (if w =? 0 then [Cell KN a cs ch] else [Cell KL a cs ch; Cell KR a cs []], r')
        end
    | _ => None
    end.
Definition prow : P row :=
  fun l => match plist pchar l with None => None | Some (cs, r) => Some (concat cs, r) end.

(* TextCanvas.__init__ (check_width=True): maxcol, padding with spaces / attr None / cs None *)
Definition make_text (mc : oz) (rws : list row) : result leafk :=
  let widths := map (fun r : row => zlen r) rws in
  let maxcol := match mc with Some m => m | None => fold_right Z.max 0 widths end in
  if existsb (fun w => maxcol <? w) widths then Err CanvasError
  else Ok (LText (map (fun r : row => r ++ repeatz (space 0) (maxcol - zlen r)) rws) maxcol).

Definition pleaf (id : Z) : P (result (canvas * option (Z * Z))) :=
  fun l =>
    match l with
    | 1 :: r =>
        match dec_oz r with
        | None => None
        | Some (mc, r1) =>
            match plist prow r1 with
            | None => None
            | Some (rws, r2) =>
                match popt_pair r2 with
                | None => None
                | Some (cu, r3) =>
                    Some (match make_text mc rws with
                          | Err e => Err e
                          | Ok k => Ok (Canvas id k, cu)
                          end, r3)
                end
            end
        end
    | 2 :: cs :: r =>
        match plist pz r with
        | Some (ch, cols :: rows :: r') => Some (Ok (Canvas id (LSolid cs ch cols rows), None), r')
        | _ => None
        end
    | _ => None
    end.
Fixpoint pleaves (n : nat) (id : Z) : P (list (result (canvas * option (Z * Z)))) :=
  fun l =>
    match n with
    | O => Some ([], l)
    | S n' =>
        match pleaf id l with
        | None => None
        | Some (x, r) => match pleaves n' (id + 1) r with None => None | Some (xs, r') => Some (x :: xs, r') end
        end
    end.

Definition pinstr : P instr :=
  fun l =>
    match l with
    | 1 :: i :: r => Some (ILeaf i, r)
    | 2 :: k :: r => Some (IRef k, r)
    | 3 :: r => Some (IWrap, r)
    | 4 :: n :: r => Some (ICombine n, r)
    | 5 :: r => match plist pz r with Some (cs, r') => Some (IJoin cs, r') | None => None end
    | 6 :: x :: y :: r => Some (IOverlay x y, r)
    | 7 :: x :: y :: r => Some (IPadLR x y, r)
    | 8 :: x :: y :: r => Some (IPadTB x y, r)
    | 9 :: t :: r => match dec_oz r with Some (c, r') => Some (ITrim t c, r') | None => None end
    | 10 :: e :: r => Some (ITrimEnd e, r)
    | 11 :: r => match plist ppair r with Some (m, r') => Some (IFillAttr m, r') | None => None end
    | 12 :: r => match popt_pair r with Some (c, r') => Some (ISetCursor c, r') | None => None end
    | 13 :: w :: x :: y :: r => Some (ISetPopUp w x y, r)
    | 14 :: r => Some (IFinalize, r)
    | 15 :: r => Some (IBind, r)
    | 16 :: i :: j :: r => Some (IDelta i j, r)
    | _ => None
    end.

Fixpoint all_ok {A} (l : list (result A)) : result (list A) :=
  match l with
  | [] => Ok []
  | Err e :: _ => Err e
  | Ok x :: r => match all_ok r with Err e => Err e | Ok xs => Ok (x :: xs) end
  end.

(* case = nleaves leaf* ninstr instr*  ->  observations, then [2; errcode] if an
   instruction (or a leaf constructor) raised; [99] = malformed input *)
Definition run_case (l : list Z) : list Z :=
  match l with
  | nl :: r =>
      if nl <? 0 then [99] else
      match pleaves (Z.to_nat nl) 1 r with
      | None => [99]
      | Some (lvs, r1) =>
          match plist pinstr r1 with
          | None => [99]
          | Some (prog, _) =>
              match all_ok lvs with
              | Err e => [2; errcode e]
              | Ok leaves =>
                  let '(st, err) := run leaves (MS [] [] []) prog in
                  concat (rev (outs st)) ++ match err with Some e => [2; errcode e] | None => [] end
              end
          end
      end
  | [] => [99]
  end.
