(* C08 - executable model of focus handling and input routing in urwid's containers
   (Pile, Columns, GridFlow, Frame, Overlay, ListBox with a SimpleFocusListWalker).

   Widgets are nodes of a heap (list, index = identity), as Python objects are; the [contents] of
   Pile / Columns / GridFlow and the ListBox walker are C16 focus lists ([MonitoredList.state]) of
   child identities and every contents edit is a C16 [MonitoredList.step].  Exceptions are results
   ([RErr]); what was written to the heap before the exception stays written, as in Python.

   GEOMETRY IS ABSTRACTED to what routing depends on, in the "everything fits" regime the harness
   generates (harness/props/c08.py, rule text):
   - every leaf is a non-cursor widget of one row (flow) with no get_pref_col / move_cursor_to_coords;
   - every Pile child is ('pack') or ('given', n_ht) [n_box]; every Columns child is ('given', n_wd);
     all columns fit; every GridFlow cell has the GridFlow's cell width; all ListBox items are visible
     (so ListBox up/down never scroll), no ListBox item has zero rows;
   - a mouse press is given as the ROUTE (child positions) from the root to the leaf drawn at the cell.
   The key -> command table and the range tests of the focus_position setters are translated from the
   source on every run (c08_container_gen).  No proofs in this file. *)
From Coq Require Import ZArith List Bool Lia.
Import ListNotations.
From Urwid Require Import PyBase PyList c08_container_gen.
From Urwid Require MonitoredList.
Open Scope Z_scope.



(* ---------- errors, results, the heap monad ---------- *)
Inductive cerr := EIndex | EType | EKey | EValue | EAttr | EFuel | EUnmod | EBad.
Definition cerr_code (e : cerr) : Z :=
  match e with EIndex => 1 | EValue => 2 | EType => 3 | EKey => 8 | EAttr => 11 | EFuel => 12 | EUnmod => 13 | EBad => 14 end.
Definition of_errkind (e : errkind) : cerr :=
  match e with IndexError => EIndex | ValueError => EValue | TypeError => EType | KeyErrorK => EKey | _ => EBad end.

Inductive res (A : Type) := ROk (a : A) | RErr (e : cerr).
Arguments ROk {A} a.
Arguments RErr {A} e.

(* pref_col values: None, 'left', an integer column *)
Inductive pcol := PNone | PLeft | PInt (z : Z).
(* ListBox.set_focus_pending: None, "first selectable", (coming_from=None, old widget, old position) *)
Inductive pend := PendNone | PendFirst | PendSet (old : Z).
Inductive kind := KLeaf | KPile | KCols | KGrid | KFrame | KOvl | KLBox.

Record node := Node {
  nk : kind;
  n_wd : Z;                 (* static: width given to this widget (= 'given' width as a Columns child) *)
  n_box : bool;             (* static: a Pile parent uses ('given', n_ht), else ('pack', None) *)
  n_ht : Z;
  n_wt : Z;                 (* static: > 0: a box-mode Pile parent uses ('weight', n_wt) *)
  n_deco : Z;               (* static: how its parent holds it: 0 bare (or AttrMap), 1 inside a Padding, 2 inside a WidgetDisable *)
  n_sel : bool;             (* leaf: selectable() *)
  n_keys : list (list Z);   (* leaf: keys it handles (returns None for) *)
  n_c : MonitoredList.state;           (* Pile/Columns/GridFlow contents, ListBox walker: child ids + focus *)
  n_selc : bool;            (* Pile/Columns: the cached _selectable *)
  n_pref : pcol;            (* Pile.pref_col / Columns.pref_col / ListBox.pref_col *)
  n_dv : Z;                 (* Columns.dividechars / GridFlow.h_sep *)
  n_cw : Z;                 (* GridFlow.cell_width; ListBox: <> 0 when the body is a SimpleListWalker *)
  n_vs : Z;                 (* GridFlow.v_sep *)
  n_a : Z;                  (* Frame.body / Overlay.top_w *)
  n_b : oz;                 (* Frame.header / Overlay.bottom_w *)
  n_d : oz;                 (* Frame.footer *)
  n_part : Z;               (* Frame.focus_part: 100 body, 101 header, 102 footer *)
  n_pend : pend;            (* ListBox.set_focus_pending *)
  n_vpend : bool            (* ListBox.set_focus_valign_pending is not None *)
}.

Definition set_c (n : node) (c : MonitoredList.state) : node :=
  Node (nk n) (n_wd n) (n_box n) (n_ht n) (n_wt n) (n_deco n) (n_sel n) (n_keys n) c (n_selc n) (n_pref n) (n_dv n) (n_cw n) (n_vs n)
       (n_a n) (n_b n) (n_d n) (n_part n) (n_pend n) (n_vpend n).
Definition set_selc (n : node) (b : bool) : node :=
  Node (nk n) (n_wd n) (n_box n) (n_ht n) (n_wt n) (n_deco n) (n_sel n) (n_keys n) (n_c n) b (n_pref n) (n_dv n) (n_cw n) (n_vs n)
       (n_a n) (n_b n) (n_d n) (n_part n) (n_pend n) (n_vpend n).
Definition set_pref (n : node) (p : pcol) : node :=
  Node (nk n) (n_wd n) (n_box n) (n_ht n) (n_wt n) (n_deco n) (n_sel n) (n_keys n) (n_c n) (n_selc n) p (n_dv n) (n_cw n) (n_vs n)
       (n_a n) (n_b n) (n_d n) (n_part n) (n_pend n) (n_vpend n).
Definition set_parts (n : node) (a : Z) (b d : oz) (part : Z) : node :=
  Node (nk n) (n_wd n) (n_box n) (n_ht n) (n_wt n) (n_deco n) (n_sel n) (n_keys n) (n_c n) (n_selc n) (n_pref n) (n_dv n) (n_cw n) (n_vs n)
       a b d part (n_pend n) (n_vpend n).
Definition set_pend (n : node) (p : pend) (v : bool) : node :=
  Node (nk n) (n_wd n) (n_box n) (n_ht n) (n_wt n) (n_deco n) (n_sel n) (n_keys n) (n_c n) (n_selc n) (n_pref n) (n_dv n) (n_cw n) (n_vs n)
       (n_a n) (n_b n) (n_d n) (n_part n) p v.

Definition heap := list node.
Definition getn (h : heap) (id : Z) : option node := nthz h id.
Definition setn (h : heap) (id : Z) (n : node) : heap :=
  if (0 <=? id) && (id <? zlen h) then takez id h ++ n :: dropz (id + 1) h else h.

Definition M (A : Type) := heap -> heap * res A.
Definition ret {A} (a : A) : M A := fun h => (h, ROk a).
Definition raise {A} (e : cerr) : M A := fun h => (h, RErr e).
Definition mbind {A B} (m : M A) (f : A -> M B) : M B :=
  fun h => match m h with (h1, ROk a) => f a h1 | (h1, RErr e) => (h1, RErr e) end.
Notation "x <- m ;; k" := (mbind m (fun x => k)) (at level 61, m at next level, right associativity).
Notation "m ;;; k" := (mbind m (fun _ => k)) (at level 61, right associativity).
Definition get_heap : M heap := fun h => (h, ROk h).
Definition rd (id : Z) : M node := fun h => match getn h id with Some n => (h, ROk n) | None => (h, RErr EBad) end.

(* the only writers *)
Definition w_node (id : Z) (f : node -> node) : M unit :=
  fun h => match getn h id with Some n => (setn h id (f n), ROk tt) | None => (h, RErr EBad) end.
Definition w_pref (id : Z) (p : pcol) : M unit := w_node id (fun n => set_pref n p).
Definition w_selc (id : Z) (b : bool) : M unit := w_node id (fun n => set_selc n b).
Definition w_pend (id : Z) (p : pend) (v : bool) : M unit := w_node id (fun n => set_pend n p v).
Definition w_contents (id : Z) (c : MonitoredList.state) : M unit := w_node id (fun n => set_c n c).
Definition w_parts (id : Z) (a : Z) (b d : oz) (part : Z) : M unit := w_node id (fun n => set_parts n a b d part).

(* MonitoredFocusList.focus = j (the list's own setter: IndexError when out of range, ignored when empty) *)
Definition w_listfocus (id : Z) (j : Z) : M unit :=
  n <- rd id ;;
  let '(s', o) := MonitoredList.step (n_c n) (MonitoredList.SetFocus j) in
  match MonitoredList.o_err o with
  | Some e => raise (of_errkind e)
  | None => w_contents id s'
  end.

(* ---------- small readers ---------- *)
Definition items (n : node) : list Z := MonitoredList.items (n_c n).
Definition nlen (n : node) : Z := zlen (items n).
Definition nfocus (n : node) : Z := MonitoredList.focus_raw (n_c n).
Definition is_empty (n : node) : bool := match items n with [] => true | _ => false end.
Definition kind_at (h : heap) (id : Z) : option kind := match getn h id with Some n => Some (nk n) | None => None end.
(* hasattr(w, "move_cursor_to_coords") = hasattr(w, "get_pref_col") *)
(* decorations between a widget and its parent (AttrMap is transparent and not represented):
   WidgetDisable: selectable() is False, keys and mouse events stop there, the inside is rendered without focus, and it has
   none of the cursor methods; Padding(w) (left = right = 0): passes everything on, clamps the column of
   move_cursor_to_coords into its width.  A WidgetDisable anywhere in the nesting wins. *)
Definition is_dis (n : node) : bool := n_deco n =? 2.
Definition is_pad (n : node) : bool := n_deco n =? 1.
Definition has_mc (h : heap) (id : Z) : bool :=
  match getn h id with
  | Some n => negb (is_dis n) && match nk n with KPile | KCols | KGrid => true | _ => false end
  | None => false
  end.
(* hasattr(w, "get_cursor_coords") *)
Definition has_gcc (h : heap) (id : Z) : bool :=
  match getn h id with
  | Some n => negb (is_dis n) && match nk n with KLeaf => false | _ => true end
  | None => false
  end.
(* the widget [.focus] reports *)
Definition focus_child (h : heap) (id : Z) : option Z :=
  match getn h id with
  | None => None
  | Some n =>
    match nk n with
    | KLeaf => None
    | KPile | KCols | KGrid | KLBox => match items n with [] => None | _ => nthz (items n) (nfocus n) end
    | KFrame => if n_part n =? 100 then Some (n_a n) else if n_part n =? 101 then n_b n else n_d n
    | KOvl => Some (n_a n)
    end
  end.

Fixpoint key_eqb (a b : list Z) : bool :=
  match a, b with
  | [], [] => true
  | x :: a', y :: b' => (x =? y) && key_eqb a' b'
  | _, _ => false
  end.
Fixpoint assoc_key (t : list (list Z * Z)) (k : list Z) : Z :=
  match t with [] => 0 | (k', c) :: r => if key_eqb k' k then c else assoc_key r k end.
(* self._command_map[key]; a handled key (None) has no command *)
Definition cmd_of (k : option (list Z)) : Z :=
  match k with None => 0 | Some k => assoc_key command_table_gen k end.
Definition C_UP := 1. Definition C_DOWN := 2. Definition C_LEFT := 3. Definition C_RIGHT := 4.
Definition C_PGUP := 5. Definition C_PGDN := 6. Definition C_MAXL := 7. Definition C_MAXR := 8.
Definition is_vert (c : Z) : bool := (c =? C_UP) || (c =? C_DOWN).
Definition is_vert_or_page (c : Z) : bool := (c =? C_UP) || (c =? C_DOWN) || (c =? C_PGUP) || (c =? C_PGDN).
Definition is_horiz (c : Z) : bool := (c =? C_LEFT) || (c =? C_RIGHT).
Definition handles (n : node) (k : list Z) : bool := existsb (key_eqb k) (n_keys n).

(* ---------- selectable() ---------- *)
(* the widget's own selectable(), given the selectable() of the widgets it holds *)
Definition sel_node (selr : Z -> bool) (n : node) : bool :=
  match nk n with
  | KLeaf => n_sel n
  | KPile | KCols => n_selc n                       (* the cache, recomputed by _contents_modified only *)
  | KGrid => existsb selr (items n)                 (* GridFlow.selectable(): computed from contents *)
  | KOvl => selr (n_a n)
  | KFrame | KLBox => true
  end.
(* selectable() of the widget as its parent holds it *)
Fixpoint sel (fuel : nat) (h : heap) (id : Z) : bool :=
  match fuel with
  | O => false
  | S f =>
    match getn h id with
    | None => false
    | Some n => if is_dis n then false else sel_node (sel f h) n
    end
  end.
(* selectable() of the widget itself (what widget.selectable() answers, whatever it is wrapped in) *)
Definition sel_own (fuel : nat) (h : heap) (id : Z) : bool :=
  match fuel, getn h id with
  | S f, Some n => sel_node (sel f h) n
  | _, _ => false
  end.

(* ---------- rows (flow) / heights ---------- *)
(* GridFlow.generate_display_widget: the cells of each display row *)
Fixpoint grid_rows_go (n : nat) (i maxcol cw hs : Z) (cur : list Z) : list (list Z) :=
  match n with
  | O => match cur with [] => [] | _ => [rev cur] end
  | S k =>
    let cnt := zlen cur in
    let used := Z.min cw maxcol * cnt + hs * cnt in
    if (cnt =? 0) || negb (maxcol - used <? cw) then grid_rows_go k (i + 1) maxcol cw hs (i :: cur)
    else rev cur :: grid_rows_go k (i + 1) maxcol cw hs [i]
  end.
Definition grid_rows (n : node) : list (list Z) :=
  grid_rows_go (length (items n)) 0 (n_wd n) (n_cw n) (n_dv n) [].

(* how a Pile sizes child c: 0 ('pack'), 1 ('given', n_ht), 2 ('weight', n_wt) *)
Definition child_opt (h : heap) (c : Z) : Z * Z :=
  match getn h c with
  | Some m => if n_box m then (1, n_ht m) else if 0 <? n_wt m then (2, n_wt m) else (0, 0)
  | None => (0, 0)
  end.
(* Pile.get_item_rows, box mode: the rows left over go to the weighted items, int(remaining * w / wtotal + 0.5) each *)
Fixpoint distribute (rowsf : Z -> Z) (h : heap) (its : list Z) (remaining wtotal : Z) : list Z :=
  match its with
  | [] => []
  | c :: r =>
      match child_opt h c with
      | (2, w) => let rws := (2 * remaining * w + wtotal) / (2 * wtotal) in
                  rws :: distribute rowsf h r (remaining - rws) (wtotal - w)
      | (1, g) => g :: distribute rowsf h r remaining wtotal
      | _ => rowsf c :: distribute rowsf h r remaining wtotal
      end
  end.
(* the heights Pile.get_rows_sizes gives its children.  A Pile that is itself given n_ht rows (n_box) is a box
   widget: weighted children share what pack / given children leave; in a flow Pile a weighted child is packed *)
Definition pile_heights (rowsf : Z -> Z) (h : heap) (n : node) : list Z :=
  let its := items n in
  if n_box n && existsb (fun c => fst (child_opt h c) =? 2) its then
    let fixed := fold_right (fun c acc => match child_opt h c with
                                          | (2, _) => acc | (1, g) => g + acc | _ => rowsf c + acc end) 0 its in
    let wtotal := fold_right (fun c acc => match child_opt h c with (2, w) => w + acc | _ => acc end) 0 its in
    distribute rowsf h its (Z.max (n_ht n - fixed) 0) wtotal
  else map (fun c => match child_opt h c with (1, g) => g | _ => rowsf c end) its.

Fixpoint rows (fuel : nat) (h : heap) (id : Z) : Z :=
  match fuel with
  | O => 0
  | S f =>
    match getn h id with
    | None => 0
    | Some n =>
      match nk n with
      | KLeaf => if n_box n then 1 else Z.max 1 (n_ht n)     (* a flow leaf of n_ht rows *)
      | KPile => fold_right Z.add 0 (pile_heights (rows f h) h n)
      | KCols => fold_right (fun c acc => match getn h c with
                                          | Some m => if n_box m then acc else Z.max (rows f h c) acc
                                          | None => acc end) 1 (items n)
      | KGrid => if is_empty n then 1 else let r := zlen (grid_rows n) in r + (r - 1) * n_vs n
      | _ => n_ht n
      end
    end
  end.
Definition heights (fuel : nat) (h : heap) (n : node) : list Z := pile_heights (rows fuel h) h n.
Definition height_at (fuel : nat) (h : heap) (n : node) (j : Z) : Z :=
  match nthz (heights fuel h n) j with Some r => r | None => 0 end.

(* ---------- Columns.move_cursor_to_coords: which column ---------- *)
Definition col_gt (x : Z) (col : pcol) : bool := match col with PInt c => c <? x | _ => false end.
Definition col_lt (col : pcol) (e : Z) : bool := match col with PInt c => c <? e | _ => false end.
Definition is_left (col : pcol) : bool := match col with PLeft => true | _ => false end.
(* l = (width, selectable) per column; best = (index, x, end) *)
Fixpoint cols_pick_go (l : list (Z * bool)) (i x dv : Z) (col : pcol) (best : option (Z * Z * Z)) : option (Z * Z * Z) :=
  match l with
  | [] => best
  | (width, s) :: r =>
    let e := x + width in
    if s then
      match best with
      | None => if is_left col || col_gt x col then Some (i, x, e)
                else if col_lt col e then Some (i, x, e)
                else cols_pick_go r (i + 1) (e + dv) dv col (Some (i, x, e))
      | Some (_, _, be) =>
          if col_gt x col && (match col with PInt c => c - be <? x - c | _ => false end) then best
          else if col_lt col e then Some (i, x, e)
          else cols_pick_go r (i + 1) (e + dv) dv col (Some (i, x, e))
      end
    else cols_pick_go r (i + 1) (e + dv) dv col best
  end.
Definition cols_pick (l : list (Z * bool)) (dv : Z) (col : pcol) : option (Z * Z * Z) := cols_pick_go l 0 0 dv col None.

Definition child_wd (h : heap) (c : Z) : Z := match getn h c with Some m => n_wd m | None => 0 end.
(* Columns.column_widths when every column fits: ('given', n_wd) columns keep their width; ('weight', n_wt) columns
   start at min_width = 1 and share what is left, in order of (weight, index), int(grow * w / wtotal + 0.5) each *)
Definition child_cwt (h : heap) (c : Z) : Z := match getn h c with Some m => if 0 <? n_wt m then n_wt m else 0 | None => 0 end.
Fixpoint ins_wi (x : Z * Z) (l : list (Z * Z)) : list (Z * Z) :=
  match l with
  | [] => [x]
  | y :: r => if (fst x <? fst y) || ((fst x =? fst y) && (snd x <=? snd y)) then x :: y :: r else y :: ins_wi x r
  end.
Fixpoint share_grow (l : list (Z * Z)) (grow wtotal : Z) : list (Z * Z) :=      (* (index, width) *)
  match l with
  | [] => []
  | (w, i) :: r => let width := Z.max ((2 * grow * w + wtotal) / (2 * wtotal)) 1 in
                   (i, width) :: share_grow r (grow - width) (wtotal - w)
  end.
Fixpoint assoc_z (l : list (Z * Z)) (i : Z) : oz :=
  match l with [] => None | (k, v) :: r => if k =? i then Some v else assoc_z r i end.
Fixpoint number_from (i : Z) (l : list Z) : list (Z * Z) :=
  match l with [] => [] | c :: r => (i, c) :: number_from (i + 1) r end.
Definition cols_widths (h : heap) (n : node) : list Z :=
  let its := number_from 0 (items n) in
  let static ic := if 0 <? child_cwt h (snd ic) then 1 else child_wd h (snd ic) in
  let weighted := fold_right (fun ic acc => if 0 <? child_cwt h (snd ic) then ins_wi (child_cwt h (snd ic), fst ic) acc else acc) [] its in
  let shared := n_wd n + n_dv n - fold_right (fun ic acc => static ic + n_dv n + acc) 0 its in
  if (shared =? 0) || (match weighted with [] => true | _ => false end) then map static its
  else
    let wtotal := fold_right (fun wi acc => fst wi + acc) 0 weighted in
    let got := share_grow weighted (shared + zlen weighted) wtotal in
    map (fun ic => match assoc_z got (fst ic) with Some w => w | None => static ic end) its.
Definition col_width (h : heap) (n : node) (idx : Z) : Z :=
  match nthz (cols_widths h n) idx with Some w => w | None => 0 end.
(* left edge of column idx *)
Definition col_x (h : heap) (n : node) (idx : Z) : Z :=
  fold_right Z.add 0 (takez idx (cols_widths h n)) + idx * n_dv n.

(* ---------- GridFlow display widget helpers (regenerated by every GridFlow method) ---------- *)
Fixpoint find_row (rows : list (list Z)) (r : Z) (f : Z) : option (Z * list Z) :=
  match rows with
  | [] => None
  | cells :: rest => if existsb (Z.eqb f) cells then Some (r, cells) else find_row rest (r + 1) f
  end.
Definition cell_id (n : node) (i : Z) : Z := match nthz (items n) i with Some c => c | None => -1 end.
Definition row_sel (fuel : nat) (h : heap) (n : node) (cells : list Z) : bool :=
  existsb (fun i => sel fuel h (cell_id n i)) cells.
Definition grid_cwid (n : node) : Z := Z.min (n_cw n) (n_wd n).
(* Columns.get_pref_col of the focus row (through Padding, left = 0): pref_col None -> centre of the focus cell *)
Definition grid_c_gpc (fuel : nat) (h : heap) (n : node) : pcol :=
  match find_row (grid_rows n) 0 (nfocus n) with
  | None => PNone
  | Some (_, cells) =>
    let cf := nfocus n - (match cells with c0 :: _ => c0 | [] => 0 end) in
    if sel fuel h (cell_id n (nfocus n)) then PInt (grid_cwid n / 2 + cf * n_dv n + cf * grid_cwid n) else PNone
  end.
(* Padding.move_cursor_to_coords clamp, then Columns.move_cursor_to_coords choice in a display row *)
Definition grid_pick (fuel : nat) (h : heap) (n : node) (cells : list Z) (col : pcol) : option Z :=
  let cwid := grid_cwid n in
  let width := zlen cells * cwid + (zlen cells - 1) * n_dv n in
  let col' := match col with PInt x => PInt (if x <? 0 then 0 else if width <=? x then width - 1 else x) | o => o end in
  match cols_pick (map (fun i => (cwid, sel fuel h (cell_id n i))) cells) (n_dv n) col' with
  | Some (k, _, _) => nthz cells k
  | None => None
  end.
(* the display row that contains pile row [row]: rows of 1 line separated by v_sep divider lines *)
Fixpoint grid_row_at (rows : list (list Z)) (first : bool) (wrow vs row : Z) : option (list Z) :=
  match rows with
  | [] => None
  | cells :: rest =>
    let wrow1 := if first then wrow else wrow + vs in
    if negb first && (0 <? vs) && (row <? wrow + vs) then None          (* a divider line *)
    else if row <? wrow1 + 1 then Some cells
    else grid_row_at rest false (wrow1 + 1) vs row
  end.

(* ---------- get_cursor_coords: no leaf has a cursor, so the value is None; what matters is who raises ---------- *)
Fixpoint gcc (fuel : nat) (h : heap) (id : Z) : res unit :=
  match fuel with
  | O => RErr EFuel
  | S f =>
    match getn h id with
    | None => RErr EBad
    | Some n =>
      match nk n with
      | KPile =>
          if negb (n_selc n) then ROk tt else
          match focus_child h id with
          | Some c => if has_gcc h c then gcc f h c else ROk tt
          | None => ROk tt
          end
      | KCols =>
          if is_empty n then ROk tt else                 (* if not self.contents: return None *)
          match focus_child h id with
          | Some w => if negb (sel f h w) then ROk tt else if has_gcc h w then gcc f h w else ROk tt
          | None => RErr EBad
          end
      | KGrid => ROk tt                                  (* empty: None; else the display widget finds no cursor *)
      | _ => RErr EUnmod
      end
    end
  end.
Definition gcc_m (fuel : nat) (id : Z) : M unit := fun h => match gcc fuel h id with ROk _ => (h, ROk tt) | RErr e => (h, RErr e) end.

(* validated focus_position setter of Pile / Columns / GridFlow *)
Definition pos_invalid (k : kind) (pos len : Z) : bool :=
  match k with
  | KPile => pile_pos_invalid_gen pos len
  | KCols => columns_pos_invalid_gen pos len
  | _ => gridflow_pos_invalid_gen pos len
  end.
Definition w_focus (id : Z) (j : Z) : M unit :=
  n <- rd id ;;
  if pos_invalid (nk n) j (nlen n) then raise EIndex else w_listfocus id j.

(* ---------- get_pref_col ---------- *)
Definition any_sel (fuel : nat) (h : heap) (n : node) : bool := existsb (sel fuel h) (items n).

Fixpoint gpc (fuel : nat) (id : Z) : M pcol :=
  match fuel with
  | O => raise EFuel
  | S f =>
    n <- rd id ;;
    match nk n with
    | KPile =>                                            (* Pile.get_pref_col *)
        if negb (n_selc n) then ret PNone else
        if is_empty n then ret PNone else
        h <- get_heap ;;
        (match focus_child h id with                      (* _update_pref_col_from_focus *)
         | Some c => if has_mc h c then (pc <- gpc f c ;; match pc with PNone => ret tt | p => w_pref id p end) else ret tt
         | None => ret tt
         end) ;;;
        n' <- rd id ;; ret (n_pref n')
    | KCols =>                                            (* Columns.get_pref_col *)
        if is_empty n then ret PNone else
        h <- get_heap ;;
        match focus_child h id with
        | None => raise EBad
        | Some w =>
          let off := col_x h n (nfocus n) in
          col <- (if has_mc h w then (c <- gpc f w ;; ret (match c with PInt z => PInt (z + off) | o => o end)) else ret PNone) ;;
          n' <- rd id ;;
          h' <- get_heap ;;
          ret (match (match col with PNone => n_pref n' | c => c end) with
               | PNone => if sel f h' w then PInt (col_width h' n (nfocus n) / 2 + off) else PNone
               | c => c end)
        end
    | KGrid =>                                            (* GridFlow.get_pref_col -> display Pile.get_pref_col *)
        if is_empty n then ret PNone else
        h <- get_heap ;;
        if negb (any_sel f h n) then ret PNone else
        ret (match grid_c_gpc f h n with PNone => PInt 0 | p => p end)
    | _ => raise EBad
    end
  end.

(* Pile._update_pref_col_from_focus *)
Definition upd_pref_from_focus (f : nat) (id : Z) : M unit :=
  h <- get_heap ;;
  match focus_child h id with
  | Some c => if has_mc h c then (pc <- gpc f c ;; match pc with PNone => ret tt | p => w_pref id p end) else ret tt
  | None => ret tt
  end.

(* ---------- move_cursor_to_coords ---------- *)
Fixpoint pile_row_hit (l : list Z) (hs : list Z) (j wrow row : Z) : option (Z * Z * Z) :=
  match l, hs with
  | c :: r, rr :: hr => if row <? wrow + rr then Some (j, c, wrow) else pile_row_hit r hr (j + 1) (wrow + rr) row
  | _, _ => None
  end.

Definition pad_clamp (n : node) (col : pcol) : pcol :=
  if is_pad n then
    match col with PInt x => PInt (if x <? 0 then 0 else if n_wd n <=? x then n_wd n - 1 else x) | o => o end
  else col.

Fixpoint mc (fuel : nat) (id : Z) (col0 : pcol) (row : Z) : M bool :=
  match fuel with
  | O => raise EFuel
  | S f =>
    n <- rd id ;;
    let col := pad_clamp n col0 in                        (* Padding.move_cursor_to_coords *)
    match nk n with
    | KPile =>                                            (* Pile.move_cursor_to_coords *)
        w_pref id col ;;;
        h <- get_heap ;;
        match pile_row_hit (items n) (heights f h n) 0 0 row with
        | None => ret false
        | Some (j, c, wrow) =>
            if negb (sel f h c) then ret false else
            ok <- (if has_mc h c then mc f c col (row - wrow) else ret true) ;;
            if negb ok then ret false else
            w_focus id j ;;; ret true
        end
    | KCols =>                                            (* Columns.move_cursor_to_coords *)
        h <- get_heap ;;
        match cols_pick (combine (cols_widths h n) (map (sel f h) (items n))) (n_dv n) col with
        | None => ret false
        | Some (j, xx, e) =>
            match nthz (items n) j with
            | None => raise EBad
            | Some w =>
                ok <- (if has_mc h w then
                         mc f w (match col with PInt c => PInt (Z.min (Z.max 0 (c - xx)) (e - xx - 1)) | o => o end) row
                       else ret true) ;;
                if negb ok then ret false else
                w_focus id j ;;; w_pref id col ;;; ret true
            end
        end
    | KGrid =>                                            (* GridFlow.move_cursor_to_coords through a fresh display widget *)
        if is_empty n then ret false else
        h <- get_heap ;;
        match grid_row_at (grid_rows n) true 0 (n_vs n) row with
        | None => ret false
        | Some cells =>
            if negb (row_sel f h n cells) then ret false else
            match grid_pick f h n cells col with
            | None => ret false
            | Some newf => w_focus id newf ;;; ret true
            end
        end
    | _ => raise EBad
    end
  end.

(* for row in rowlist: if w.move_cursor_to_coords(size, pref, row): break *)
Fixpoint scan_rows (f : nat) (owner c : Z) (rowlist : list Z) : M unit :=
  match rowlist with
  | [] => ret tt
  | r :: rs => n <- rd owner ;; ok <- mc f c (n_pref n) r ;; if ok then ret tt else scan_rows f owner c rs
  end.
Definition seq_z (n : Z) : list Z := map Z.of_nat (seq 0 (Z.to_nat n)).
Definition range_up (a b : Z) : list Z := map (fun j => a + j) (seq_z (b - a)).       (* a .. b-1 *)
Definition range_down (a : Z) : list Z := rev (seq_z a).                               (* a-1 .. 0 *)

(* ---------- ListBox internals, everything-fits regime ---------- *)
Inductive coming := CNone | CAbove | CBelow.
Definition pending (n : node) : bool := match n_pend n with PendNone => n_vpend n | _ => true end.

(* ListBox.set_focus *)
Definition lb_set_focus (id : Z) (pos : Z) : M unit :=
  n <- rd id ;;
  if is_empty n then raise EIndex else
  w_pend id (PendSet (nfocus n)) (n_vpend n) ;;;
  if 100 <=? pos then raise EIndex else w_listfocus id pos.

(* calculate_visible after the pending part: the cursor query; false = the list box is empty *)
Definition lb_visible0 (f : nat) (id : Z) (focus : bool) : M bool :=
  h <- get_heap ;;
  match focus_child h id with
  | None => ret false
  | Some fw => (if sel f h fw && focus && has_gcc h fw then gcc_m f fw else ret tt) ;;; ret true
  end.

(* ListBox.change_focus *)
Definition lb_change_focus (f : nat) (id : Z) (position : Z) (cf : coming) : M unit :=
  h <- get_heap ;;
  (match focus_child h id with                            (* update_pref_col_from_focus *)
   | None => ret tt
   | Some w =>
       pc <- (if has_mc h w then gpc f w else ret PNone) ;;
       h1 <- get_heap ;;
       match pc with
       | PNone => if has_gcc h1 w then gcc_m f w else ret tt
       | p => w_pref id p
       end
   end) ;;;
  w_listfocus id position ;;;
  n <- rd id ;; h2 <- get_heap ;;
  let t := cell_id n position in
  let rws := rows f h2 t in
  match cf with
  | CNone => ret tt
  | CAbove => if has_mc h2 t then scan_rows f id t (range_up 0 rws) else ret tt
  | CBelow => if has_mc h2 t then scan_rows f id t (rev (range_up 0 (rws + 1))) else ret tt
  end.

(* ListBox._set_focus_complete *)
Definition lb_complete (f : nat) (id : Z) (focus : bool) : M unit :=
  n <- rd id ;;
  match n_pend n with
  | PendFirst =>                                          (* _set_focus_first_selectable *)
      w_pend id PendNone false ;;;
      vis <- lb_visible0 f id focus ;;
      if negb vis then ret tt else
      n1 <- rd id ;; h <- get_heap ;;
      let fi := nfocus n1 in
      if sel f h (cell_id n1 fi) then ret tt else
      match find (fun j => sel f h (cell_id n1 j)) (range_up (fi + 1) (nlen n1)) with
      | Some j => w_listfocus id j
      | None => ret tt
      end
  | PendSet old =>
      w_pend id PendNone false ;;;
      if n_vpend n then ret tt else                       (* _set_focus_valign_complete *)
      if is_empty n then ret tt else                      (* new_focus_widget is None: do nothing *)
      let position := nfocus n in
      if old =? position then ret tt else
      if (old <? 0) || (nlen n <=? old) then ret tt else  (* the old position was removed meanwhile: IndexError caught *)
      w_listfocus id old ;;;                              (* restore the old focus temporarily *)
      vis <- lb_visible0 f id focus ;;
      if negb vis then raise EType else
      lb_change_focus f id position (if position <? old then CBelow else CAbove)
  | PendNone => w_pend id PendNone false
  end.

Definition lb_visible (f : nat) (id : Z) (focus : bool) : M bool :=
  n <- rd id ;;
  (if pending n then lb_complete f id focus else ret tt) ;;;
  lb_visible0 f id focus.

(* ---------- keypress ---------- *)
Definition kres := (option (list Z) * list Z)%type.      (* key returned, leaves that were offered the key *)
Definition unhandled (key : list Z) : M kres := ret (Some key, []).

Fixpoint pile_move (f : nat) (id : Z) (up : bool) (cands : list Z) : M bool :=
  match cands with
  | [] => ret false
  | j :: r =>
      n <- rd id ;; h <- get_heap ;;
      match nthz (items n) j with
      | None => raise EBad
      | Some c =>
          if negb (sel f h c) then pile_move f id up r else
          let rws := height_at f h n j in
          upd_pref_from_focus f id ;;;
          w_focus id j ;;;
          h2 <- get_heap ;;
          if negb (has_mc h2 c) then ret true else
          scan_rows f id c (if up then rev (range_up 0 rws) else range_up 0 rws) ;;; ret true
      end
  end.

Fixpoint cols_move (f : nat) (id : Z) (cands : list Z) : M bool :=
  match cands with
  | [] => ret false
  | j :: r =>
      n <- rd id ;; h <- get_heap ;;
      match nthz (items n) j with
      | None => raise EBad
      | Some c => if sel f h c then w_focus id j ;;; ret true else cols_move f id r
      end
  end.

Fixpoint kp (fuel : nat) (id : Z) (key : list Z) : M kres :=
  match fuel with
  | O => raise EFuel
  | S f =>
    n <- rd id ;;
    if is_dis n then unhandled key else                   (* WidgetDisable: Widget.keypress returns the key *)
    match nk n with
    | KLeaf => ret (if handles n key then None else Some key, [id])
    | KPile =>                                            (* Pile.keypress *)
        if is_empty n then unhandled key else
        let fi := nfocus n in
        r <- (if n_selc n then
                match nthz (items n) fi with Some c => kp f c key | None => raise EBad end
              else unhandled key) ;;
        let k1 := fst r in
        if negb (is_vert (cmd_of k1)) then ret r else
        moved <- pile_move f id (cmd_of k1 =? C_UP)
                   (if cmd_of k1 =? C_UP then range_down fi else range_up (fi + 1) (nlen n)) ;;
        ret (if moved then None else k1, snd r)
    | KCols =>                                            (* Columns.keypress *)
        if is_empty n then unhandled key else             (* if not self.contents: return key *)
        let fi := nfocus n in
        match nthz (items n) fi with
        | None => raise EBad
        | Some w =>
            (if negb (is_vert_or_page (cmd_of (Some key))) then w_pref id PNone else ret tt) ;;;
            h <- get_heap ;;
            r <- (if sel f h w then kp f w key else unhandled key) ;;
            let k1 := fst r in
            if negb (is_horiz (cmd_of k1)) then ret r else
            moved <- cols_move f id (if cmd_of k1 =? C_LEFT then range_down fi else range_up (fi + 1) (nlen n)) ;;
            ret (if moved then None else k1, snd r)
        end
    | KGrid =>                                            (* GridFlow.keypress through its display Pile / Columns *)
        if is_empty n then unhandled key else             (* Divider.keypress *)
        h <- get_heap ;;
        match find_row (grid_rows n) 0 (nfocus n) with
        | None => raise EBad
        | Some (rr, cells) =>
            let anysel := any_sel f h n in
            r <- (if anysel && sel f h (cell_id n (nfocus n)) then kp f (cell_id n (nfocus n)) key else unhandled key) ;;
            let k1 := fst r in
            if anysel && is_horiz (cmd_of k1) then
              match find (fun i => sel f h (cell_id n i))
                         (if cmd_of k1 =? C_LEFT then rev (filter (fun i => i <? nfocus n) cells)
                          else filter (fun i => nfocus n <? i) cells) with
              | Some j => w_focus id j ;;; ret (None, snd r)
              | None => ret r
              end
            else if anysel && negb (is_vert (cmd_of k1)) then ret r
            else
              match find (fun cs => row_sel f h n cs)
                         (if cmd_of k1 =? C_UP then rev (firstn (Z.to_nat rr) (grid_rows n))
                          else skipn (Z.to_nat rr + 1) (grid_rows n)) with
              | None => ret r
              | Some cells' =>
                  match grid_pick f h n cells' (match grid_c_gpc f h n with PNone => PInt 0 | p => p end) with
                  | Some newf => w_focus id newf ;;; ret (None, snd r)
                  | None => raise EBad
                  end
              end
        end
    | KFrame =>                                           (* Frame.keypress *)
        h <- get_heap ;;
        match (if n_part n =? 101 then n_b n else None), (if n_part n =? 102 then n_d n else None) with
        | Some hd, _ => if sel f h hd then kp f hd key else unhandled key
        | None, Some ft => if sel f h ft then kp f ft key else unhandled key
        | None, None =>
            if negb (n_part n =? 100) then unhandled key else
            if sel f h (n_a n) then kp f (n_a n) key else unhandled key
        end
    | KOvl => kp f (n_a n) key                            (* Overlay.keypress *)
    | KLBox =>                                            (* ListBox.keypress *)
        (if pending n then lb_complete f id true else ret tt) ;;;
        h <- get_heap ;;
        match focus_child h id with
        | None => unhandled key
        | Some fw =>
            r <- (if sel f h fw then kp f fw key else unhandled key) ;;
            let k1 := fst r in
            match k1 with
            | None => h1 <- get_heap ;; (if sel f h fw && has_gcc h1 fw then gcc_m f fw else ret tt) ;;; ret r
            | Some _ =>
                let c := cmd_of k1 in
                if is_vert c then
                  lb_visible f id true ;;;
                  n2 <- rd id ;; h2 <- get_heap ;;
                  match find (fun j => (0 <? rows f h2 (cell_id n2 j)) && sel f h2 (cell_id n2 j))
                             (if c =? C_UP then range_down (nfocus n2) else range_up (nfocus n2 + 1) (nlen n2)) with
                  | Some j => lb_change_focus f id j (if c =? C_UP then CBelow else CAbove) ;;; ret (None, snd r)
                  | None => ret r
                  end
                else if (c =? C_PGUP) || (c =? C_PGDN) then raise EUnmod
                else if (c =? C_MAXL) || (c =? C_MAXR) then
                  n2 <- rd id ;;
                  lb_set_focus id (if c =? C_MAXL then 0 else nlen n2 - 1) ;;;
                  n3 <- rd id ;; w_pend id (n_pend n3) true ;;; ret (None, snd r)
                else ret r
            end
        end
    end
  end.

(* ---------- mouse press (button 1) along a route ---------- *)
Fixpoint me (fuel : nat) (id : Z) (route : list Z) (focus : bool) : M (list (Z * bool)) :=
  match fuel with
  | O => raise EFuel
  | S f =>
    n <- rd id ;;
    if is_dis n then ret [] else                          (* WidgetDisable: Widget.mouse_event returns False *)
    match nk n, route with
    | KLeaf, _ => ret [(id, focus)]
    | _, [] => raise EBad
    | KPile, p :: rest =>
        h <- get_heap ;;
        match nthz (items n) p with
        | None => raise EBad
        | Some c =>
            (if sel f h c then w_focus id p else ret tt) ;;;
            n' <- rd id ;; me f c rest (focus && (nfocus n' =? p))
        end
    | KCols, p :: rest =>
        h <- get_heap ;;
        match nthz (items n) p with
        | None => raise EBad
        | Some c => (if sel f h c then w_focus id p else ret tt) ;;; me f c rest (focus && (nfocus n =? p))
        end
    | KGrid, p :: rest =>
        h <- get_heap ;;
        match find_row (grid_rows n) 0 p, find_row (grid_rows n) 0 (nfocus n) with
        | Some (r, cells), Some (fr, _) =>
            let prow := if row_sel f h n cells then r else fr in
            let cfoc0 := if r =? fr then nfocus n
                         else match find (fun i => sel f h (cell_id n i)) cells with
                              | Some i => i | None => match cells with c0 :: _ => c0 | [] => 0 end end in
            let cfoc := if sel f h (cell_id n p) then p else cfoc0 in
            log <- me f (cell_id n p) rest (focus && (prow =? r) && (cfoc0 =? p)) ;;
            (if prow =? r then w_focus id cfoc else ret tt) ;;; ret log
        | _, _ => raise EBad
        end
    | KFrame, p :: rest =>
        h <- get_heap ;;
        match (if p =? 100 then Some (n_a n) else if p =? 101 then n_b n else if p =? 102 then n_d n else None) with
        | None => raise EBad
        | Some c =>
            (if sel f h c then w_parts id (n_a n) (n_b n) (n_d n) p else ret tt) ;;;
            me f c rest (focus && (n_part n =? p))
        end
    | KOvl, p :: rest => if p =? 1 then me f (n_a n) rest focus else ret []
    | KLBox, p :: rest =>
        vis <- lb_visible f id true ;;
        if negb vis then ret [] else
        n1 <- rd id ;; h <- get_heap ;;
        match nthz (items n1) p with
        | None => raise EBad
        | Some c =>
            (if sel f h c then lb_change_focus f id p CNone else ret tt) ;;;
            me f c rest (focus && (nfocus n1 =? p))
        end
    end
  end.

(* ---------- render(size, focus): the leaves rendered with focus=True, in call order ---------- *)
Fixpoint rn_list (rnf : Z -> bool -> M (list Z)) (keep : Z -> bool) (l : list Z) (j fi : Z) (focus : bool) : M (list Z) :=
  match l with
  | [] => ret []
  | c :: r =>
      a <- (if keep j then rnf c (focus && (j =? fi)) else ret []) ;;
      b <- rn_list rnf keep r (j + 1) fi focus ;;
      ret (a ++ b)
  end.
(* bool(widget): containers with __len__ are falsy when empty *)
Definition truthy (h : heap) (c : Z) : bool :=
  match getn h c with
  | Some m => match nk m with KPile | KCols | KGrid => negb (is_empty m) | _ => true end
  | None => false
  end.

Fixpoint rn (fuel : nat) (id : Z) (focus0 : bool) : M (list Z) :=
  match fuel with
  | O => raise EFuel
  | S f =>
    n <- rd id ;;
    let focus := focus0 && negb (is_dis n) in             (* WidgetDisable.render: the inside is rendered with focus=False *)
    match nk n with
    | KLeaf => ret (if focus then [id] else [])
    | KPile => h <- get_heap ;; rn_list (rn f) (fun j => 0 <? height_at f h n j) (items n) 0 (nfocus n) focus
    | KCols | KGrid => rn_list (rn f) (fun _ => true) (items n) 0 (nfocus n) focus
    | KFrame =>
        h <- get_heap ;;
        a <- (match n_b n with
              | Some hd => if truthy h hd && (0 <? rows f h hd) then rn f hd (focus && (n_part n =? 101)) else ret []
              | None => ret [] end) ;;
        b <- rn f (n_a n) (focus && (n_part n =? 100)) ;;
        h' <- get_heap ;;
        c <- (match n_d n with
              | Some ft => if truthy h' ft && (0 <? rows f h' ft) then rn f ft (focus && (n_part n =? 102)) else ret []
              | None => ret [] end) ;;
        ret (a ++ b ++ c)
    | KOvl =>
        b <- (match n_b n with Some bt => rn f bt false | None => ret [] end) ;;
        t <- rn f (n_a n) focus ;;
        ret (b ++ t)
    | KLBox =>
        vis <- lb_visible f id focus ;;
        if negb vis then ret [] else
        n1 <- rd id ;; rn_list (rn f) (fun _ => true) (items n1) 0 (nfocus n1) focus
    end
  end.

(* ---------- the focus_position protocol ---------- *)
Definition get_pos (h : heap) (id : Z) : res Z :=
  match getn h id with
  | None => RErr EBad
  | Some n =>
    match nk n with
    | KLeaf => RErr EIndex
    | KPile | KCols | KGrid | KLBox => if is_empty n then RErr EIndex else ROk (nfocus n)
    | KFrame => ROk (n_part n)
    | KOvl => ROk 1
    end
  end.

Definition set_pos (id : Z) (pos : Z) : M unit :=
  n <- rd id ;;
  match nk n with
  | KLeaf => raise EIndex
  | KPile | KCols | KGrid => w_focus id pos
  | KLBox => lb_set_focus id pos
  | KFrame =>
      if negb ((pos =? 100) || (pos =? 101) || (pos =? 102)) then raise EIndex else
      if ((pos =? 101) && (match n_b n with None => true | _ => false end))
         || ((pos =? 102) && (match n_d n with None => true | _ => false end)) then raise EIndex
      else w_parts id (n_a n) (n_b n) (n_d n) pos
  | KOvl => if overlay_pos_invalid_gen pos then raise EIndex else ret tt
  end.

(* WidgetContainerMixin.get_focus_path *)
Fixpoint gfp (fuel : nat) (h : heap) (id : Z) : res (list Z) :=
  match fuel with
  | O => RErr EFuel
  | S f =>
    match get_pos h id with
    | RErr _ => ROk []
    | ROk p =>
      match focus_child h id with
      | None => RErr EAttr                                (* w.focus.base_widget with focus None *)
      | Some c => match gfp f h c with ROk l => ROk (p :: l) | RErr e => RErr e end
      end
    end
  end.

(* WidgetContainerMixin.set_focus_path *)
Fixpoint sfp (positions : list Z) (id : Z) : M unit :=
  match positions with
  | [] => ret tt
  | p :: r =>
      h <- get_heap ;;
      match get_pos h id with
      | RErr e => raise e
      | ROk cur =>
          (if negb (p =? cur) then set_pos id p else ret tt) ;;;
          h1 <- get_heap ;;
          match focus_child h1 id with
          | None => raise EAttr
          | Some c => sfp r c
          end
      end
  end.

(* ---------- contents edits (C16 operations on the focus list) ---------- *)
(* a ListBox over a plain list has a SimpleListWalker (n_cw <> 0): a MonitoredList whose focus index is NOT moved with
   the items; SimpleListWalker._modified only pulls it back inside: if focus >= len: focus = max(0, len - 1) *)
Definition is_simple_walker (n : node) : bool := match nk n with KLBox => negb (n_cw n =? 0) | _ => false end.
Definition simple_walker_state (old new : MonitoredList.state) : MonitoredList.state :=
  let its := MonitoredList.items new in
  let f0 := MonitoredList.focus_raw old in
  MonitoredList.St its (if zlen its <=? f0 then Z.max 0 (zlen its - 1) else f0).

Definition edit (f : nat) (id : Z) (e : MonitoredList.op) : M unit :=
  n <- rd id ;;
  let so := MonitoredList.step (n_c n) e in
  match MonitoredList.o_err (snd so) with
  | Some er => raise (of_errkind er)
  | None =>
      w_contents id (if is_simple_walker n then simple_walker_state (n_c n) (fst so) else fst so) ;;;
      match nk n with
      | KPile | KCols => h <- get_heap ;; w_selc id (existsb (sel f h) (MonitoredList.items (fst so)))   (* _contents_modified *)
      | _ => ret tt
      end
  end.

(* frame.contents[part] = (w, None)  /  del frame.contents[part] *)
Definition set_part (id : Z) (part : Z) (w : oz) : M unit :=
  n <- rd id ;;
  if part =? 100 then match w with Some b => w_parts id b (n_b n) (n_d n) (n_part n) | None => raise EBad end
  else if part =? 101 then
    w_parts id (n_a n) w (n_d n) (match w with None => if n_part n =? 101 then 100 else n_part n | _ => n_part n end)
  else
    w_parts id (n_a n) (n_b n) w (match w with None => if n_part n =? 102 then 100 else n_part n | _ => n_part n end).
Definition del_part (id : Z) (part : Z) : M unit :=
  n <- rd id ;;
  if part =? 101 then match n_b n with None => raise EKey | Some _ => set_part id 101 None end
  else if part =? 102 then match n_d n with None => raise EKey | Some _ => set_part id 102 None end
  else raise EKey.

(* ---------- construction ---------- *)
Definition blank (k : kind) (wd : Z) (box : bool) (ht : Z) : node :=
  Node k wd box ht 0 0 false [] (MonitoredList.St [] 0) false PNone 0 0 0 0 None None 100 PendNone false.

Fixpoint first_sel (fuel : nat) (h : heap) (l : list Z) (j : Z) : oz :=
  match l with [] => None | c :: r => if sel fuel h c then Some j else first_sel fuel h r (j + 1) end.
Definition st_apply (s : MonitoredList.state) (o : MonitoredList.op) : MonitoredList.state := fst (MonitoredList.step s o).
(* Pile.__init__ / Columns.__init__: appends, then the focus *)
Definition init_list (fuel : nat) (h : heap) (ch : list Z) (f : oz) : MonitoredList.state :=
  let s := fold_left (fun s c => st_apply s (MonitoredList.Append c)) ch (MonitoredList.St [] 0) in
  match ch, (match f with Some j => Some j | None => first_sel fuel h ch 0 end) with
  | _ :: _, Some j => st_apply s (MonitoredList.SetFocus j)
  | _, _ => s
  end.
(* GridFlow.__init__ *)
Definition init_grid (fuel : nat) (h : heap) (ch : list Z) (f : oz) : MonitoredList.state :=
  MonitoredList.St ch (match (match f with Some j => Some j | None => first_sel fuel h ch 0 end) with
            | Some j => if (0 <=? j) && (j <? zlen ch) then j else 0
            | None => 0 end).

Inductive spec :=
  | SLeaf (wd : Z) (box : bool) (ht wt dc : Z) (sl : bool) (keys : list (list Z))
  | SList (k : kind) (wd : Z) (box : bool) (ht wt dc : Z) (f : oz) (ch : list Z) (dv cw vs : Z)
  | SFrame (wd : Z) (box : bool) (ht wt dc : Z) (body : Z) (hd ft : oz) (part : Z)
  | SOvl (wd : Z) (box : bool) (ht wt dc : Z) (top bot : Z).

Definition construct (fuel : nat) (h : heap) (s : spec) : node :=
  match s with
  | SLeaf wd box ht wt dc sl keys =>
      Node KLeaf wd box ht wt dc sl keys (MonitoredList.St [] 0) false PNone 0 0 0 0 None None 100 PendNone false
  | SList k wd box ht wt dc f ch dv cw vs =>
      match k with
      | KPile => Node KPile wd box ht wt dc false [] (init_list fuel h ch f) (existsb (sel fuel h) ch) (PInt 0) 0 0 0 0 None None 100 PendNone false
      | KCols => Node KCols wd box ht wt dc false [] (init_list fuel h ch f) (existsb (sel fuel h) ch) PNone dv 0 0 0 None None 100 PendNone false
      | KGrid => Node KGrid wd box ht wt dc false [] (init_grid fuel h ch f) false PNone dv cw vs 0 None None 100 PendNone false
      | _ => Node KLBox wd box ht wt dc false []
                  (match f, ch with Some j, _ :: _ => st_apply (MonitoredList.St ch 0) (MonitoredList.SetFocus j) | _, _ => MonitoredList.St ch 0 end)
                  false PLeft 0 cw 0 0 None None 100 PendFirst false
      end
  | SFrame wd box ht wt dc body hd ft part =>
      Node KFrame wd box ht wt dc false [] (MonitoredList.St [] 0) false PNone 0 0 0 body hd ft part PendNone false
  | SOvl wd box ht wt dc top bot =>
      Node KOvl wd box ht wt dc false [] (MonitoredList.St [] 0) false PNone 0 0 0 top (Some bot) None 100 PendNone false
  end.
Definition build (fuel : nat) (specs : list spec) : heap :=
  fold_left (fun h s => h ++ [construct fuel h s]) specs [].

(* ---------- addressing by path ---------- *)
Definition child_at (h : heap) (id : Z) (pos : Z) : oz :=
  match getn h id with
  | None => None
  | Some n =>
    match nk n with
    | KLeaf => None
    | KPile | KCols | KGrid | KLBox => nthz (items n) pos
    | KFrame => if pos =? 100 then Some (n_a n) else if pos =? 101 then n_b n else if pos =? 102 then n_d n else None
    | KOvl => if pos =? 1 then Some (n_a n) else if pos =? 0 then n_b n else None
    end
  end.
Fixpoint resolve (h : heap) (id : Z) (path : list Z) : oz :=
  match path with
  | [] => Some id
  | p :: r => match child_at h id p with Some c => resolve h c r | None => None end
  end.
(* a press route ends at a leaf and does not pass through the (covered) bottom widget of an Overlay *)
Fixpoint route_ok (h : heap) (id : Z) (route : list Z) : bool :=
  match route with
  | [] => match kind_at h id with Some KLeaf => true | _ => false end
  | p :: r =>
      match kind_at h id with
      | Some KOvl => if p =? 0 then false else match child_at h id p with Some c => route_ok h c r | None => false end
      | _ => match child_at h id p with Some c => route_ok h c r | None => false end
      end
  end.

(* ---------- operations and the run loop ---------- *)
Inductive cop :=
  | OKey (k : list Z)
  | OPress (route : list Z)
  | OSetPos (path : list Z) (pos : Z)
  | OSetPath (path pos : list Z)
  | OSave
  | ORestore
  | OEdit (path : list Z) (e : MonitoredList.op)
  | OSetPart (path : list Z) (part : Z) (w : oz)
  | ODelPart (path : list Z) (part : Z).

Definition FUEL : nat := 40.

Record rstate := RS { rs_h : heap; rs_saved : option (list Z); rs_rfail : bool }.

Definition enc_zlist (l : list Z) : list Z := zlen l :: l.
Definition enc_unit_res (h_r : heap * res unit) : list Z :=
  match snd h_r with ROk _ => [6] | RErr e => [2; cerr_code e] end.

(* what one operation does and reports *)
Definition do_op (root : Z) (s : rstate) (o : cop) : rstate * list Z :=
  let h := rs_h s in
  match o with
  | OKey k =>
      match kp FUEL root k h with
      | (h', ROk (k1, off)) =>
          (RS h' (rs_saved s) (rs_rfail s),
           1 :: (match k1 with None => 0 | Some k' => if key_eqb k' k then 1 else 2 end) :: enc_zlist off)
      | (h', RErr e) => (RS h' (rs_saved s) (rs_rfail s), [2; cerr_code e])
      end
  | OPress route =>
      if rs_rfail s then (s, [5]) else
      if negb (route_ok h root route) then (s, [4]) else
      match me FUEL root route true h with
      | (h', ROk log) =>
          (RS h' (rs_saved s) (rs_rfail s), 3 :: zlen log :: flat_map (fun x => [fst x; enc_bool (snd x)]) log)
      | (h', RErr e) => (RS h' (rs_saved s) (rs_rfail s), [2; cerr_code e])
      end
  | OSetPos path pos =>
      match resolve h root path with
      | None => (s, [8])
      | Some w => let r := set_pos w pos h in (RS (fst r) (rs_saved s) (rs_rfail s), enc_unit_res r)
      end
  | OSetPath path ps =>
      match resolve h root path with
      | None => (s, [8])
      | Some w => let r := sfp ps w h in (RS (fst r) (rs_saved s) (rs_rfail s), enc_unit_res r)
      end
  | OSave =>
      (RS h (match gfp FUEL h root with ROk p => Some p | RErr _ => None end) (rs_rfail s), [6])
  | ORestore =>
      match rs_saved s with
      | None => (s, [9])
      | Some p => let r := sfp p root h in (RS (fst r) (rs_saved s) (rs_rfail s), enc_unit_res r)
      end
  | OEdit path e =>
      match resolve h root path with
      | None => (s, [8])
      | Some w =>
          match kind_at h w with
          | Some KPile | Some KCols | Some KGrid | Some KLBox =>
              let r := edit FUEL w e h in (RS (fst r) (rs_saved s) (rs_rfail s), enc_unit_res r)
          | _ => (s, [8])
          end
      end
  | OSetPart path part w =>
      match resolve h root path with
      | None => (s, [8])
      | Some fr =>
          match kind_at h fr with
          | Some KFrame => let r := set_part fr part w h in (RS (fst r) (rs_saved s) (rs_rfail s), enc_unit_res r)
          | _ => (s, [8])
          end
      end
  | ODelPart path part =>
      match resolve h root path with
      | None => (s, [8])
      | Some fr =>
          match kind_at h fr with
          | Some KFrame => let r := del_part fr part h in (RS (fst r) (rs_saved s) (rs_rfail s), enc_unit_res r)
          | _ => (s, [8])
          end
      end
  end.

(* after every operation the harness renders the root with focus=True and dumps the focus state *)
Fixpoint dump_state (h : heap) (all : heap) (id : Z) : list (list Z) :=
  match all with
  | [] => []
  | n :: r =>
      (match nk n with
       | KLeaf => []
       | _ => [[id; (match get_pos h id with ROk p => p | RErr _ => -1 end); enc_bool (sel_own FUEL h id)]]
       end) ++ dump_state h r (id + 1)
  end.

Definition observe (root : Z) (s : rstate) : rstate * list Z :=
  let r := rn FUEL root true (rs_h s) in
  let h' := fst r in
  let st := dump_state h' h' 0 in
  (RS h' (rs_saved s) (match snd r with ROk _ => false | RErr _ => true end),
   (match snd r with ROk l => 0 :: enc_zlist l | RErr e => [1; cerr_code e] end)
   ++ zlen st :: concat st
   ++ (match gfp FUEL h' root with ROk p => 0 :: enc_zlist p | RErr e => [1; cerr_code e] end)).

Definition step (root : Z) (s : rstate) (o : cop) : rstate * list Z :=
  let '(s1, a) := do_op root s o in
  let '(s2, b) := observe root s1 in
  (s2, a ++ b).

Definition run (root : Z) (h : heap) (ops : list cop) : rstate * list Z :=
  let '(s0, b0) := observe root (RS h None false) in
  fold_left (fun acc o => let '(s, out) := acc in let '(s', b) := step root s o in (s', out ++ b)) ops (s0, 0 :: b0).

(* ---------- wire format ----------
   case = W H root nnodes node* nops op*    (W H are not used by the model)
   node = kind wd box ht ...                 op = code ...        (see harness/props/c08.py: encode) *)
Definition dec_bool (z : Z) : bool := negb (z =? 0).

Fixpoint dec_keys (n : nat) (l : list Z) : option (list (list Z) * list Z) :=
  match n with
  | O => Some ([], l)
  | S k => match dec_list l with
           | Some (key, r) => match dec_keys k r with Some (ks, r') => Some (key :: ks, r') | None => None end
           | None => None end
  end.

Definition dec_kind (z : Z) : kind :=
  if z =? 1 then KPile else if z =? 2 then KCols else if z =? 3 then KGrid else if z =? 4 then KFrame
  else if z =? 5 then KOvl else if z =? 6 then KLBox else KLeaf.

Definition dec_spec (l : list Z) : option (spec * list Z) :=
  match l with
  | k :: wd :: box :: ht :: wt :: dc :: r =>
      if k =? 0 then
        match r with
        | sl :: nk :: r1 =>
            match dec_keys (Z.to_nat nk) r1 with
            | Some (ks, r2) => Some (SLeaf wd (dec_bool box) ht wt dc (dec_bool sl) ks, r2)
            | None => None end
        | _ => None end
      else if (k =? 1) || (k =? 2) || (k =? 3) || (k =? 6) then
        match dec_oz r with
        | Some (f, dv :: cw :: vs :: r1) =>
            match dec_list r1 with
            | Some (ch, r2) => Some (SList (dec_kind k) wd (dec_bool box) ht wt dc f ch dv cw vs, r2)
            | None => None end
        | _ => None end
      else if k =? 4 then
        match r with
        | body :: r1 =>
            match dec_oz r1 with
            | Some (hd, r2) => match dec_oz r2 with
                               | Some (ft, part :: r3) => Some (SFrame wd (dec_bool box) ht wt dc body hd ft part, r3)
                               | _ => None end
            | None => None end
        | _ => None end
      else if k =? 5 then
        match r with
        | top :: bot :: r1 => Some (SOvl wd (dec_bool box) ht wt dc top bot, r1)
        | _ => None end
      else None
  | _ => None
  end.

Fixpoint dec_specs (n : nat) (l : list Z) : option (list spec * list Z) :=
  match n with
  | O => Some ([], l)
  | S k => match dec_spec l with
           | Some (s, r) => match dec_specs k r with Some (ss, r') => Some (s :: ss, r') | None => None end
           | None => None end
  end.

Definition dec_cop (l : list Z) : option (cop * list Z) :=
  match l with
  | 1 :: r => match dec_list r with Some (k, r') => Some (OKey k, r') | None => None end
  | 2 :: r => match dec_list r with Some (rt, r') => Some (OPress rt, r') | None => None end
  | 3 :: r => match dec_list r with Some (p, pos :: r') => Some (OSetPos p pos, r') | _ => None end
  | 4 :: r => match dec_list r with
              | Some (p, r1) => match dec_list r1 with Some (ps, r2) => Some (OSetPath p ps, r2) | None => None end
              | None => None end
  | 5 :: r => Some (OSave, r)
  | 6 :: r => Some (ORestore, r)
  | 7 :: r => match dec_list r with
              | Some (p, r1) => match MonitoredList.dec_op r1 with Some (e, r2) => Some (OEdit p e, r2) | None => None end
              | None => None end
  | 8 :: r => match dec_list r with
              | Some (p, part :: r1) => match dec_oz r1 with Some (w, r2) => Some (OSetPart p part w, r2) | None => None end
              | _ => None end
  | 9 :: r => match dec_list r with Some (p, part :: r1) => Some (ODelPart p part, r1) | _ => None end
  | _ => None
  end.

Fixpoint dec_cops (fuel : nat) (l : list Z) : list cop :=
  match fuel with
  | O => []
  | S k => match dec_cop l with Some (o, r) => o :: dec_cops k r | None => [] end
  end.

Definition run_case (l : list Z) : list Z :=
  match l with
  | _W :: _H :: root :: nn :: r =>
      match dec_specs (Z.to_nat nn) r with
      | Some (specs, _nops :: r') =>
          let h := build FUEL specs in
          snd (run root h (dec_cops (length r') r'))
      | _ => [-1]
      end
  | _ => [-1]
  end.
